import Bng.Model.Teardown
/-
  The C16 monitor of component `teardown` (pppoe.SessionTeardown) as a pure function over a STRUCTURED observation,
  so that it can be reasoned about: `Bng.Proof.TeardownMonitor` proves that on every history of the model it raises
  nothing but the recorded findings KF-pppoe-no-acct-start and — only for a session whose eBPF-map callback returned
  an error — KF-pppoe-teardown-ebpf-noretry (`per_session_clauses_silent_on_model`).  The string layer
  (`Bng.Drv.TeardownDrv.parseObs`) is outside that theorem; the driver cross-checks it on the model's own line.
  Core Lean only.
-/
namespace Bng.TeardownMon
open Bng Bng.Teardown

/-- what the implementation shows after an operation -/
structure Obs where
  stops : List (Nat × Nat)     -- (session, Accounting-Stops the RADIUS server accepted for it), only counts > 0
  ebpf : List (Nat × Nat)      -- (session, calls of the eBPF-map callback that removed its entry)
  efail : List (Nat × Nat)     -- (session, calls of the eBPF-map callback that returned an error)
  fp : List Nat                -- sessions whose fast-path (eBPF map) entry is present
  padt : List (Nat × Nat)      -- (session, PADTs sent for it)
  held : List Nat              -- sessions the pool records an address for
  live : List Nat              -- sessions in the session table
  parked : Bool                -- the answer to a `tpark` said "parked"
  deriving DecidableEq, Repr

/-- a session the monitor knows of: what the harness created it with -/
structure Known where
  name : Nat
  mac : Nat
  authed : Bool
  hasIp : Bool
  torn : Bool := false      -- the eBPF-map callback was seen called for it: the session has been torn down
  deriving DecidableEq, Repr

structure Mon where
  radius : Bool := false
  objs : List Known := []
  /-- sessions a held TerminateSession call is at work on (tag, name): from the `parked` answers -/
  busy : List (Nat × Nat) := []
  deriving Repr

abbrev Verdict := String × String × String

def getCount (l : List (Nat × Nat)) (n : Nat) : Nat := ((l.find? (·.1 == n)).map (·.2)).getD 0

/-- the monitor's table after the operation's own bookkeeping (before the observation is judged) -/
def note (mn : Mon) : Op → Mon
  | .mk n m a i => { mn with objs := { name := n, mac := m, authed := a, hasIp := i } :: mn.objs }
  | .authFail n =>
    -- a failed re-authentication of a live session; on a torn-down session the flag is never read again
    { mn with objs := mn.objs.map fun (o : Known) => if o.name == n && !o.torn then { o with authed := false } else o }
  | _ => mn

/-- per session: exactly-once accounting and map removal, nothing held once torn down.  A session counts as torn down
    from the moment the eBPF-map callback was called for it (successfully or not): that is the first thing cleanup does. -/
def perSession (radius : Bool) (o : Known) (ob : Obs) : List Verdict :=
  let st := getCount ob.stops o.name
  let eb := getCount ob.ebpf o.name
  let ef := getCount ob.efail o.name
  (if st > 1 then [("double-stop", "none", s!"{st} Accounting-Stops were issued for s{o.name}")] else []) ++
  (if eb + ef > 1 then [("double-cleanup", "none", s!"the eBPF-map callback was called {eb + ef} times for s{o.name}")] else []) ++
  (if getCount ob.padt o.name > 1 then [("double-padt", "none", s!"{getCount ob.padt o.name} PADTs were sent for s{o.name}")] else []) ++
  -- recorded finding: nothing in pkg/pppoe ever issues the Accounting-Start this Stop belongs to
  (if st ≥ 1 && !o.torn then [("stop-without-start", "KF-pppoe-no-acct-start", s!"an Accounting-Stop was issued for s{o.name} although no Accounting-Start is ever sent for PPPoE sessions")] else []) ++
  -- a session that has been torn down (the eBPF-map callback was called for it) holds nothing any more
  (if eb + ef ≥ 1 then
    (if ob.held.contains o.name then [("residue", "none", s!"s{o.name} was terminated but its address is still allocated")] else []) ++
    (if ob.live.contains o.name then [("residue", "none", s!"s{o.name} was terminated but is still in the session table")] else []) ++
    (if radius && o.authed && st == 0 then [("missing-stop", "none", s!"s{o.name} was terminated without an Accounting-Stop")] else []) ++
    (if !(radius && o.authed) && st > 0 then [("stop-unstarted", "none", s!"an Accounting-Stop was issued for s{o.name} which was never authenticated")] else []) ++
    -- no fast-path entry still answers for it.  Recorded finding: the one removal attempt of this very session
    -- returned an error and the code never tries again; an entry that survives a SUCCESSFUL removal is not that finding
    (if ob.fp.contains o.name then
      [("ebpf-residue", if ef ≥ 1 && eb == 0 then "KF-pppoe-teardown-ebpf-noretry" else "none",
        s!"s{o.name} was terminated but its fast-path entry is still present ({eb} removals, {ef} failed removal attempts)")] else [])
   else
    (if st > 0 then [("stop-before-end", "none", s!"an Accounting-Stop was issued for s{o.name} which is not torn down")] else []))

def gone (ob : Obs) (n : Nat) : Bool := !(ob.held.contains n) && !(ob.live.contains n)

/-- a termination request for a session leaves it terminated, whatever state it was in -/
def afterTermination (mn : Mon) (op : Op) (ob : Obs) : List Verdict :=
  match op with
  | .term n =>
    -- a call that finds another TerminateSession at work on the session returns at once; that one finishes the job
    if mn.objs.any (·.name == n) && !gone ob n && !(mn.busy.any (·.2 == n)) then
      [("not-terminated", "none", s!"TerminateSession(s{n}) returned but s{n} still holds its address or table entry")] else []
  | .padt n m =>
    if mn.objs.any (fun o => o.name == n && o.mac == m) && !gone ob n then
      [("not-terminated", "none", s!"client PADT from the owner did not terminate s{n}")] else []
  | .termAll =>
    -- sessions a held TerminateSession call is at work on are that call's to finish
    if !(ob.live.all fun n => mn.busy.any (·.2 == n)) || !(ob.held.all fun n => mn.busy.any (·.2 == n)) then
      [("not-terminated", "none", "TerminateAll left sessions or addresses behind")] else []
  | .tresume t =>
    -- a held call that goes on leaves its session terminated
    match mn.busy.find? (·.1 == t) with
    | some (_, n) =>
      if !gone ob n then [("not-terminated", "none", s!"the held TerminateSession(s{n}) finished but s{n} still holds its address or table entry")] else []
    | none => []
  | _ => []

def busyAfter (mn : Mon) (op : Op) (ob : Obs) : List (Nat × Nat) :=
  match op with
  | .tpark t n => if ob.parked then (t, n) :: mn.busy else mn.busy
  | .tresume t => mn.busy.filter (·.1 != t)
  | _ => mn.busy

def monitorCore (mn0 : Mon) (op : Op) (ob : Obs) : Mon × List Verdict :=
  let mn := note mn0 op
  let vs := mn.objs.flatMap fun o => perSession mn.radius o ob
  let vt := afterTermination mn op ob
  ({ mn with busy := busyAfter mn op ob,
             objs := mn.objs.map fun (o : Known) =>
               if getCount ob.ebpf o.name + getCount ob.efail o.name ≥ 1 then { o with torn := true } else o },
   vs ++ vt)

/-! ### the model's own observation, structured -/

/-- the positive counters of a counter table, as (key, count) -/
def countsOf (m : AMap Nat Nat) : List (Nat × Nat) :=
  (AMap.keys m).filterMap fun k => if count m k > 0 then some (k, count m k) else none

def obsOf (s : TD) (parked : Bool) : Obs :=
  { stops := countsOf s.stops, ebpf := countsOf s.ebpf, efail := countsOf s.efail, fp := s.fp, padt := countsOf s.padt,
    held := s.held, live := (AMap.keys s.live).filterMap (fun id => AMap.lookup s.live id), parked := parked }

/-- did this `tpark` park? (the call is held iff it claimed the session) -/
def parkedBy (s s' : TD) : Op → Bool
  | .tpark t _ => (AMap.lookup s'.parked t).isSome && !(AMap.lookup s.parked t).isSome
  | _ => false

/-- the side conditions under which the harness accepts an operation (otherwise it answers `badop` and nothing runs) -/
def accepted (s : TD) : Op → Bool
  | .mk n _ _ _ => !(AMap.lookup s.objs n).isSome
  | .tpark t n => !(AMap.lookup s.parked t).isSome && (AMap.lookup s.objs n).isSome
  | .tresume t => (AMap.lookup s.parked t).isSome
  | _ => true

/-- model and monitor side by side, the per-session clauses only -/
def runPer : TD → Mon → List Op → List Verdict
  | _, _, [] => []
  | s, mn, op :: rest =>
    if accepted s op then
      let s' := step s op
      let ob := obsOf s' (parkedBy s s' op)
      ((note mn op).objs.flatMap fun o => perSession (note mn op).radius o ob) ++
        runPer s' (monitorCore mn op ob).1 rest
    else runPer s mn rest

/-- model and monitor side by side -/
def runBoth : TD → Mon → List Op → List Verdict
  | _, _, [] => []
  | s, mn, op :: rest =>
    if accepted s op then
      let s' := step s op
      let (mn', vs) := monitorCore mn op (obsOf s' (parkedBy s s' op))
      vs ++ runBoth s' mn' rest
    else runBoth s mn rest

end Bng.TeardownMon
