import Bng.Model.XdpDhcp
/-
  What the Go side writes into the maps `dhcp_fastpath_prog` answers from, as functions to map BYTES.

    pkg/ebpf/loader.go   AddSubscriber / RemoveSubscriber / AddVLANSubscriber / RemoveVLANSubscriber / AddPool /
                         SetServerConfig / AddCircuitIDSubscriber / RemoveCircuitIDSubscriber,
                         MACToUint64, IPToUint32, MakeCircuitIDKey
    pkg/dhcp/pool.go     PoolManager.AddPool (the ebpf.IPPool it builds)
    pkg/dhcp/server.go   the cache-relevant part of handleRequest (after the ACK decision), handleRelease,
                         handleDecline, cleanupExpiredLeases, updateFastPathCache, removeFromFastPathCache

  Encoding: cilium/ebpf marshals the mirrored Go structs with encoding/binary in NATIVE (little-endian) byte order
  and without padding, which coincides with the packed C declarations of bpf/maps.h (field offsets in
  Bng/Model/XdpDhcp.lean).  The correspondence run compares these bytes with what is read back from REAL kernel maps
  written by the real Loader.

  An IPv4 address is a `UInt32` holding the BIG-endian reading of its four wire bytes — exactly Go's `IPToUint32`
  (`binary.BigEndian.Uint32(ip.To4())`); it is written to the map as a native (little-endian) integer, so the map
  holds the address bytes REVERSED (finding D10: the C program copies these bytes to the wire as they are).

  The slow path's DECISIONS (which address, ACK or NAK) are inputs here (they belong to C02); what is modelled is the
  bookkeeping and the cache writes that follow a decision.  The legacy `circuit_id_map` (FNV hash → MAC) is written
  by the Go code but never read by the C program and is not modelled.
  Core Lean only.
-/
namespace Bng.CacheEnc
open Bng Bng.C Bng.XdpDhcp

def le16 (v : UInt16) : Bytes := leBytes 2 v.toNat
def le32 (v : UInt32) : Bytes := leBytes 4 v.toNat
def le64 (v : UInt64) : Bytes := leBytes 8 v.toNat

/-- the four wire bytes of an address (network order) -/
def ipWire (ip : UInt32) : Bytes := (leBytes 4 ip.toNat).reverse

/-- `ebpf.PoolAssignment` -/
structure Assignment where
  poolId : UInt32
  ip : UInt32
  vlanId : UInt32 := 0
  clientClass : UInt8 := 0
  leaseExpiry : UInt64
  flags : UInt8 := 0

def encAssignment (a : Assignment) : Bytes :=
  le32 a.poolId ++ le32 a.ip ++ le32 a.vlanId ++ [a.clientClass] ++ le64 a.leaseExpiry ++ [a.flags] ++ [0, 0, 0]

/-- `dhcp.Pool` as far as the cache is concerned -/
structure PoolCfg where
  id : UInt32
  network : UInt32
  prefixLen : UInt8
  gateway : UInt32
  dns : List UInt32
  leaseSecs : UInt32     -- `uint32(pool.LeaseTime.Seconds())`: what the cache and option 51 carry
  leaseSubMs : Nat := 0  -- the rest of `pool.LeaseTime` below a whole second, in ms (only ExpiresAt sees it)
  vlanId : UInt32 := 0
  clientClass : UInt8 := 0

/-- `dnsToUint32(servers, i)` -/
def dnsAt (dns : List UInt32) (i : Nat) : UInt32 := dns.getD i 0

/-- the `ebpf.IPPool` that `PoolManager.AddPool` builds -/
def encPool (p : PoolCfg) : Bytes :=
  le32 p.network ++ [p.prefixLen, 0, 0, 0] ++ le32 p.gateway ++ le32 (dnsAt p.dns 0) ++ le32 (dnsAt p.dns 1)
    ++ le32 p.leaseSecs ++ le32 0

/-- `SetServerConfig`: the first six MAC bytes if there are at least six, else zeros -/
def encCfg (mac : Bytes) (ip : UInt32) (ifIndex : UInt32) : Bytes :=
  (if mac.length ≥ 6 then mac.take 6 else List.replicate 6 0) ++ [0, 0] ++ le32 ip ++ le32 ifIndex

/-- `MACToUint64`: `result = (result << 8) | uint64(mac[i])` for the first six bytes, written arithmetically
    (`(r << 8) | b = r * 256 + b` for a byte `b`; the value stays below 2^48) -/
def macToU64 (mac : Bytes) : UInt64 :=
  if mac.length < 6 then 0 else UInt64.ofNat ((mac.take 6).foldl (fun acc b => acc * 256 + b.toNat) 0)

/-- key bytes of subscriber_pools -/
def macKeyOf (mac : Bytes) : Bytes := le64 (macToU64 mac)
/-- `VLANKey{STag, CTag}` -/
def vlanKeyOf (s c : UInt16) : Bytes := le16 s ++ le16 c
/-- `MakeCircuitIDKey`: truncated to 32 bytes, zero padded -/
def cidKeyOf (cid : Bytes) : Bytes := cid.take 32 ++ List.replicate (32 - min 32 cid.length) 0

/-! ### Loader operations on the maps -/

def addSubscriber (m : Maps) (mac : Bytes) (a : Assignment) : Maps :=
  { m with sub := AMap.insert m.sub (macKeyOf mac) (encAssignment a) }
def removeSubscriber (m : Maps) (mac : Bytes) : Maps := { m with sub := AMap.erase m.sub (macKeyOf mac) }
def addVlanSubscriber (m : Maps) (s c : UInt16) (a : Assignment) : Maps :=
  { m with vlan := AMap.insert m.vlan (vlanKeyOf s c) (encAssignment a) }
def removeVlanSubscriber (m : Maps) (s c : UInt16) : Maps := { m with vlan := AMap.erase m.vlan (vlanKeyOf s c) }
def addCidSubscriber (m : Maps) (cid : Bytes) (a : Assignment) : Maps :=
  { m with cid := AMap.insert m.cid (cidKeyOf cid) (encAssignment a) }
def removeCidSubscriber (m : Maps) (cid : Bytes) : Maps := { m with cid := AMap.erase m.cid (cidKeyOf cid) }
def addPool (m : Maps) (p : PoolCfg) : Maps := { m with pools := AMap.insert m.pools (le32 p.id) (encPool p) }
def setServerConfig (m : Maps) (mac : Bytes) (ip ifIndex : UInt32) : Maps := { m with cfg := some (encCfg mac ip ifIndex) }

/-! ### the slow path's lease bookkeeping and cache maintenance -/

/-- `dhcp.Lease` as far as the cache is concerned.  `cid = none` is a nil `CircuitID` slice, `some []` an empty
    non-nil one (option 82 with an empty sub-option 1). -/
structure Lease where
  mac : Bytes
  ip : UInt32
  poolId : UInt32
  exp : Nat              -- ExpiresAt.Unix()
  expMs : Nat := 0       -- the milliseconds of ExpiresAt within that second (`now.After(ExpiresAt)` sees them)
  cid : Option Bytes := none
  stag : UInt16 := 0     -- never set by pkg/dhcp (no code path assigns Lease.STag/CTag)
  ctag : UInt16 := 0
  deriving DecidableEq

def Lease.cidBytes (l : Lease) : Bytes := l.cid.getD []

structure Srv where
  leases : AMap Bytes Lease := []       -- s.leases, keyed by the MAC bytes (mac.String() is injective on them)
  byCid : AMap Bytes Lease := []        -- s.leasesByCircuitID, keyed by the circuit-id bytes (hex is injective)
  pools : AMap UInt32 PoolCfg := []
  defaultPool : Option UInt32 := none   -- PoolManager.defaultPoolID (the first pool added)
  maps : Maps := {}
  now : Nat := 0                        -- time.Now().Unix()
  subMs : Nat := 0                      -- the milliseconds of time.Now() within that second (< 1000)
  serverIp : UInt32 := 0                -- ServerConfig.ServerIP

def assignmentOf (l : Lease) (p : PoolCfg) : Assignment :=
  { poolId := l.poolId, ip := l.ip, vlanId := p.vlanId, clientClass := p.clientClass,
    leaseExpiry := UInt64.ofNat l.exp, flags := 0 }

/-- `PoolManager.AddPool` -/
def Srv.addPool (s : Srv) (p : PoolCfg) : Srv :=
  match AMap.lookup s.pools p.id with
  | some _ => s           -- "pool already exists": error, nothing written
  | none =>
    { s with pools := AMap.insert s.pools p.id p,
             defaultPool := if s.pools.isEmpty then some p.id else s.defaultPool,
             maps := CacheEnc.addPool s.maps p }

/-- `PoolManager.RemovePool`: the pool and its ip_pools entry go; `defaultPoolID` is left as it is -/
def Srv.removePool (s : Srv) (id : UInt32) : Srv :=
  match AMap.lookup s.pools id with
  | none => s
  | some _ => { s with pools := AMap.erase s.pools id,
                       maps := { s.maps with pools := AMap.erase s.maps.pools (le32 id) } }

/-- `PoolManager.SetDefaultPool` -/
def Srv.setDefault (s : Srv) (id : UInt32) : Srv :=
  match AMap.lookup s.pools id with
  | none => s
  | some _ => { s with defaultPool := some id }

/-- `PoolManager.ClassifyClient`: the default pool if it (still) exists, else "the first pool" of a Go map
    iteration — modelled as the most recently added one, which is exact when at most one pool is left (the
    generator keeps it so; with more pools left the Go choice is not deterministic) -/
def Srv.classify (s : Srv) : Option PoolCfg :=
  match s.defaultPool.bind (AMap.lookup s.pools) with
  | some p => some p
  | none => s.pools.head?.map (·.2)

/-- the lease `handleRequest` finds: by MAC, else (relayed, non-empty circuit-id) by circuit-id -/
def Srv.existing (s : Srv) (mac : Bytes) (relayed : Bool) (reqCid : Option Bytes) : Option Lease :=
  match AMap.lookup s.leases mac with
  | some l => some l
  | none =>
    if relayed then
      match reqCid with
      | some c => if c.isEmpty then none else AMap.lookup s.byCid c
      | none => none
    else none

/-- `updateFastPathCache` + the circuit-id part of `handleRequest` -/
def writeCache (m : Maps) (l : Lease) (p : PoolCfg) : Maps :=
  let a := assignmentOf l p
  let m := addSubscriber m l.mac a
  let m := if l.stag > 0 || l.ctag > 0 then addVlanSubscriber m l.stag l.ctag a else m
  if l.cidBytes.isEmpty then m else addCidSubscriber m l.cidBytes a

/-- `removeFromFastPathCache` / the cache part of `handleRelease` -/
def eraseCache (m : Maps) (l : Lease) : Maps :=
  let m := removeSubscriber m l.mac
  let m := if l.stag > 0 || l.ctag > 0 then removeVlanSubscriber m l.stag l.ctag else m
  if l.cidBytes.isEmpty then m else removeCidSubscriber m l.cidBytes

/-- the circuit-id of the new lease: this request's, else (renewal) the one preserved from the existing lease
    ("Preserve Option 82 if not present in current request") -/
def newCid (ex : Option Lease) (reqCid : Option Bytes) : Option Bytes :=
  match ex with
  | none => reqCid
  | some l => match reqCid with
    | some c => some c
    | none => l.cid

/-- the circuit-id whose index and cache entries go because the lease changed circuit-id: the existing lease's,
    if it is non-empty, differs from the new one and the circuit index still holds that lease for it -/
def staleCid (byCid : AMap Bytes Lease) (ex : Option Lease) (l : Lease) : Option Bytes :=
  match ex with
  | some l0 =>
    if !l0.cidBytes.isEmpty && l0.cidBytes != l.cidBytes && AMap.lookup byCid l0.cidBytes == some l0
    then some l0.cidBytes else none
  | none => none

/-- the circuit index / the maps after the stale circuit-id (if any) was removed -/
def staleIdx (byCid : AMap Bytes Lease) : Option Bytes → AMap Bytes Lease
  | some c => AMap.erase byCid c
  | none => byCid
def staleMaps (m : Maps) : Option Bytes → Maps
  | some c => removeCidSubscriber m c
  | none => m

/-- store the lease, maintain the circuit index, write the cache -/
def Srv.commit (s : Srv) (p : PoolCfg) (l : Lease) (stale : Option Bytes) : Srv :=
  { s with leases := AMap.insert s.leases l.mac l,
           byCid := if l.cidBytes.isEmpty then staleIdx s.byCid stale
                    else AMap.insert (staleIdx s.byCid stale) l.cidBytes l,
           maps := writeCache (staleMaps s.maps stale) l p }

/-- `handleRequest` after the decision to ACK `ip` (the part that creates the lease and writes the cache).
    `reqCid` = the circuit-id of THIS request's option 82 (`none`: no option 82 / no sub-option 1). -/
def Srv.ack (s : Srv) (mac : Bytes) (ip : UInt32) (relayed : Bool) (reqCid : Option Bytes) : Srv :=
  let ex := s.existing mac relayed reqCid
  match (match ex with
    | some l => AMap.lookup s.pools l.poolId      -- `GetPool(existingLease.PoolID)`
    | none => s.classify) with
  | none => s        -- "pool not found": NAK, unreachable after an ACK decision
  | some p =>
    let l : Lease :=
      { mac := mac, ip := ip, poolId := p.id, exp := s.now + p.leaseSecs.toNat + (s.subMs + p.leaseSubMs) / 1000,
        expMs := (s.subMs + p.leaseSubMs) % 1000,
        cid := newCid ex reqCid }
    s.commit p l (staleCid s.byCid ex l)

/-- removal of a lease from the lease table, the circuit index and the cache -/
def Srv.drop (s : Srv) (l : Lease) : Srv :=
  { s with leases := AMap.erase s.leases l.mac,
           byCid := if l.cidBytes.isEmpty then s.byCid else AMap.erase s.byCid l.cidBytes,
           maps := eraseCache s.maps l }

/-- `handleRelease` -/
def Srv.release (s : Srv) (mac : Bytes) : Srv :=
  match AMap.lookup s.leases mac with
  | some l => s.drop { l with mac := mac }
  | none => s

/-- `handleDecline`: only the address the client holds can be declined (`opt50` = option 50 of the DECLINE) -/
def Srv.decline (s : Srv) (mac : Bytes) (opt50 : Option UInt32) : Srv :=
  match AMap.lookup s.leases mac with
  | some l => if opt50 = some l.ip then s.drop { l with mac := mac } else s
  | none => s

/-- `now.After(lease.ExpiresAt)` (millisecond resolution; the cache only ever sees `ExpiresAt.Unix()`) -/
def Srv.after (s : Srv) (l : Lease) : Bool :=
  decide (s.now > l.exp) || (decide (s.now = l.exp) && decide (s.subMs > l.expMs))

/-- `cleanupExpiredLeases`: every lease with `now.After(ExpiresAt)` -/
def Srv.cleanup (s : Srv) : Srv :=
  -- first pass: the keys of the expired leases; second pass: `lease := s.leases[mac]; delete …` for each
  let expired := (s.leases.filter (fun e => s.after e.2)).map (·.1)
  expired.foldl (fun s m => match AMap.lookup s.leases m with
    | some l => s.drop { l with mac := m }
    | none => s) s

inductive Op where
  /-- what `Server.Start` does: `SetServerConfig(iface MAC, s.serverIP, ifindex)` -/
  | setCfg (mac : Bytes) (ifIndex : UInt32)
  | removePool (id : UInt32)
  | setDefault (id : UInt32)
  | addPool (p : PoolCfg)
  | ack (mac : Bytes) (ip : UInt32) (relayed : Bool) (reqCid : Option Bytes)
  | release (mac : Bytes)
  | decline (mac : Bytes) (opt50 : Option UInt32)
  | cleanup
  | tick (secs : Nat)
  | tickMs (ms : Nat)

def Srv.step (s : Srv) : Op → Srv
  | .setCfg mac idx => { s with maps := setServerConfig s.maps mac s.serverIp idx }
  | .removePool id => s.removePool id
  | .setDefault id => s.setDefault id
  | .addPool p => s.addPool p
  | .ack mac ip relayed cid => s.ack mac ip relayed cid
  | .release mac => s.release mac
  | .decline mac o => s.decline mac o
  | .cleanup => s.cleanup
  | .tick n => { s with now := s.now + n }
  | .tickMs n => { s with now := s.now + (s.subMs + n) / 1000, subMs := (s.subMs + n) % 1000 }

def Srv.run (s : Srv) (ops : List Op) : Srv := ops.foldl Srv.step s

end Bng.CacheEnc
