import Bng.Map
/-
  Model of the QoS rate limiter (C19):

  * `check`          — `token_bucket_check` of bpf/qos_ratelimit.c in exact 64-bit machine arithmetic
                       (`UInt64`: wrapping subtraction/multiplication/addition, truncating division).
  * `runProg`        — `qos_egress_prog` / `qos_ingress_prog`: frame bytes → lookup key → bucket bytes in the
                       map → verdict; the bucket is mutated in place (bytes re-encoded).
  * `setSubscriberQoS`, `removeSubscriberQoS` — pkg/qos/manager.go as writers of map BYTES
                       (key = little-endian image of `ipToKey`, value = the 32-byte image of `TokenBucket`).
  * `Mon`            — the monitor: exact-rational reference of the property (scaled by 8·10⁹ to stay in ℕ/ℤ).

  Core Lean only (linked into bngdrv).  Little-endian host, as on the target.
-/
namespace Bng.TokenBucket
open Bng

abbrev Bytes := List UInt8

/-- little-endian image of `n` in `w` bytes (higher bits dropped) -/
def leBytes : Nat → Nat → Bytes
  | 0, _ => []
  | w + 1, n => UInt8.ofNat (n % 256) :: leBytes w (n / 256)

/-- the number a little-endian byte string denotes -/
def leNat : Bytes → Nat
  | [] => 0
  | b :: bs => b.toNat + 256 * leNat bs

/-! ## the bucket and `token_bucket_check` -/

/-- `struct token_bucket` (32 bytes) -/
structure Bucket where
  tokens : UInt64
  last : UInt64
  rate : UInt64
  burst : UInt32
  prio : UInt8
  /-- `_pad[3]`, never touched by the program -/
  pad : Bytes := [0, 0, 0]
deriving DecidableEq, Repr

def NS : UInt64 := 1000000000

/-- `token_bucket_check(tb, pkt_len)` with `bpf_ktime_get_ns() = now`: new bucket, allowed? -/
def check (b : Bucket) (now : UInt64) (len : UInt32) : Bucket × Bool :=
  if b.rate = 0 then (b, true) else
  let elapsed := now - b.last                       -- wraps when last > now
  let newTok := (elapsed * (b.rate / 8)) / NS        -- the product wraps modulo 2^64
  let t1 := b.tokens + newTok                        -- wraps (only from an arbitrary map state)
  let t2 := if t1 > b.burst.toUInt64 then b.burst.toUInt64 else t1
  let need := len.toUInt64
  if t2 ≥ need then ({ b with tokens := t2 - need, last := now }, true)
  else ({ b with tokens := t2, last := now }, false)

def pad3 (p : Bytes) : Bytes := (p ++ [0, 0, 0]).take 3

def Bucket.encode (b : Bucket) : Bytes :=
  leBytes 8 b.tokens.toNat ++ leBytes 8 b.last.toNat ++ leBytes 8 b.rate.toNat ++
  leBytes 4 b.burst.toNat ++ [b.prio] ++ pad3 b.pad

def Bucket.decode (bs : Bytes) : Option Bucket :=
  if bs.length = 32 then
    some { tokens := UInt64.ofNat (leNat (bs.take 8)),
           last := UInt64.ofNat (leNat ((bs.drop 8).take 8)),
           rate := UInt64.ofNat (leNat ((bs.drop 16).take 8)),
           burst := UInt32.ofNat (leNat ((bs.drop 24).take 4)),
           prio := (bs.drop 28).headD 0,
           pad := (bs.drop 29).take 3 }
  else none

/-! ## the TC programs -/

inductive Dir | egress | ingress
deriving DecidableEq, Repr

/-- the two subscriber maps: 4 key bytes ↦ 32 value bytes -/
structure Maps where
  egress : AMap Bytes Bytes := []
  ingress : AMap Bytes Bytes := []

def Maps.get (m : Maps) : Dir → AMap Bytes Bytes
  | .egress => m.egress
  | .ingress => m.ingress

def Maps.set (m : Maps) (d : Dir) (t : AMap Bytes Bytes) : Maps :=
  match d with
  | .egress => { m with egress := t }
  | .ingress => { m with ingress := t }

def TC_ACT_OK : Nat := 0
def TC_ACT_SHOT : Nat := 2

/-- The key the program looks up, as the 4 bytes in memory: `bpf_ntohl(ip->daddr)` (egress) or
    `bpf_ntohl(ip->saddr)` (ingress) stored little-endian, i.e. the wire bytes reversed.
    `none`: the program returns TC_ACT_OK before any lookup (short frame or not IPv4). -/
def lookupKey (d : Dir) (frame : Bytes) : Option Bytes :=
  if frame.length < 14 then none                                  -- (eth + 1) > data_end
  else if (frame.drop 12).take 2 ≠ [0x08, 0x00] then none         -- h_proto != htons(ETH_P_IP)
  else if frame.length < 34 then none                             -- (ip + 1) > data_end
  else
    let wire := match d with
      | .egress => (frame.drop 30).take 4                         -- ip->daddr
      | .ingress => (frame.drop 26).take 4                        -- ip->saddr
    some wire.reverse

structure Res where
  ret : Nat
  /-- value written to skb->priority (egress, allowed) -/
  prio : Option UInt8 := none
  /-- looked-up key and whether it was found -/
  key : Option (Bytes × Bool) := none
deriving DecidableEq, Repr

/-- one run of `qos_egress_prog` / `qos_ingress_prog` (`skb->len = skbLen`) -/
def runProg (d : Dir) (m : Maps) (now : UInt64) (frame : Bytes) (skbLen : UInt32) : Maps × Res :=
  match lookupKey d frame with
  | none => (m, { ret := TC_ACT_OK })
  | some k =>
    match AMap.lookup (m.get d) k with
    | none => (m, { ret := TC_ACT_OK, key := some (k, false) })    -- no policy = no rate limiting
    | some vb =>
      match Bucket.decode vb with
      | none => (m, { ret := TC_ACT_OK, key := some (k, true) })    -- unreachable: values have 32 bytes
      | some b =>
        let (b', ok) := check b now skbLen
        let m' := m.set d (AMap.insert (m.get d) k b'.encode)
        if ok then
          (m', { ret := TC_ACT_OK, key := some (k, true),
                 prio := match d with | .egress => some b'.prio | .ingress => none })
        else (m', { ret := TC_ACT_SHOT, key := some (k, true) })

/-! ## pkg/qos/manager.go -/

structure QoS where
  /-- the four address bytes (`qos.IP.To4()`) -/
  ip : Bytes
  down : UInt64
  up : UInt64
  burst : UInt32
  prio : UInt8
deriving DecidableEq, Repr

/-- `ipToKey`: `ip4[0]<<24 | ip4[1]<<16 | ip4[2]<<8 | ip4[3]` -/
def ipToKey (ip : Bytes) : UInt32 :=
  ((ip.getD 0 0).toUInt32 <<< 24) ||| ((ip.getD 1 0).toUInt32 <<< 16) |||
  ((ip.getD 2 0).toUInt32 <<< 8) ||| (ip.getD 3 0).toUInt32

/-- the key bytes cilium writes for a Go `uint32` on the little-endian host -/
def keyBytes (ip : Bytes) : Bytes := leBytes 4 (ipToKey ip).toNat

/-- `defaultBurst`: 1 second of traffic, minimum 64KB, capped at 10 MB (clamped in 64 bits, then narrowed) -/
def defaultBurst (bps : UInt64) : UInt32 :=
  let b := bps / 8
  if b < 65536 then 65536 else if b > 10 * 1024 * 1024 then 10 * 1024 * 1024 else b.toUInt32

def egressBucket (q : QoS) : Bucket :=
  let burst := if q.burst = 0 then defaultBurst q.down else q.burst
  { tokens := burst.toUInt64, last := 0, rate := q.down, burst := burst, prio := q.prio }

def ingressBucket (q : QoS) : Bucket :=
  let burst := if q.burst = 0 then defaultBurst q.up else q.burst
  { tokens := burst.toUInt64, last := 0, rate := q.up, burst := burst, prio := q.prio }

/-- `SetSubscriberQoS` for an IPv4 address -/
def setSubscriberQoS (m : Maps) (q : QoS) : Maps :=
  { egress := AMap.insert m.egress (keyBytes q.ip) (egressBucket q).encode,
    ingress := AMap.insert m.ingress (keyBytes q.ip) (ingressBucket q).encode }

/-- `RemoveSubscriberQoS` -/
def removeSubscriberQoS (m : Maps) (ip : Bytes) : Maps :=
  { egress := AMap.erase m.egress (keyBytes ip), ingress := AMap.erase m.ingress (keyBytes ip) }

/-! ## the whole control plane: pkg/radius/policy.go + the manager's bookkeeping -/

/-- `radius.QoSPolicy` -/
structure Policy where
  name : String
  down : UInt64
  up : UInt64
  burst : UInt32
  prio : UInt8
deriving DecidableEq, Repr

/-- `PolicyManager.policies` -/
abbrev PolicyTable := AMap String Policy

/-- `AddPolicy`: defines or REdefines the policy of that name -/
def addPolicy (t : PolicyTable) (p : Policy) : PolicyTable := AMap.insert t p.name p

/-- `RemovePolicy` -/
def removePolicy (t : PolicyTable) (name : String) : PolicyTable := AMap.erase t name

/-- the QoS a policy means for an address (what `SetSubscriberPolicy` passes on) -/
def Policy.qos (p : Policy) (ip : Bytes) : QoS :=
  { ip := ip, down := p.down, up := p.up, burst := p.burst, prio := p.prio }

/-- control-plane state: the kernel maps, `Manager.subscribers`, the policy table -/
structure Ctl where
  maps : Maps := {}
  subs : AMap Bytes QoS := []
  pols : PolicyTable := []

/-- `Manager.SetSubscriberQoS` with its bookkeeping -/
def Ctl.setQoS (c : Ctl) (q : QoS) : Ctl :=
  { c with maps := setSubscriberQoS c.maps q, subs := AMap.insert c.subs (keyBytes q.ip) q }

/-- `Manager.SetSubscriberPolicy`: `false` = "policy not found", nothing changes -/
def Ctl.setPolicy (c : Ctl) (ip : Bytes) (name : String) : Ctl × Bool :=
  match AMap.lookup c.pols name with
  | none => (c, false)
  | some p => (c.setQoS (p.qos ip), true)

/-- `Manager.RemoveSubscriberQoS` -/
def Ctl.remove (c : Ctl) (ip : Bytes) : Ctl :=
  { c with maps := removeSubscriberQoS c.maps ip, subs := AMap.erase c.subs (keyBytes ip) }

/-- `Manager.GetSubscriberCount` -/
def Ctl.count (c : Ctl) : Nat := c.subs.length

/-! ## arrival sequences (used by the theorems and by `poll`) -/

/-- an arrival: kernel clock at the call, `skb->len` -/
structure Arrival where
  t : UInt64
  len : UInt32
deriving DecidableEq, Repr

/-- run the bucket over a list of arrivals; returns the final bucket and the verdicts -/
def runBucket (b : Bucket) : List Arrival → Bucket × List Bool
  | [] => (b, [])
  | a :: rest =>
    let (b', ok) := check b a.t a.len
    let (b'', oks) := runBucket b' rest
    (b'', ok :: oks)

/-- bytes admitted: sizes of the arrivals whose verdict is `true` -/
def admitted : List Arrival → List Bool → Nat
  | a :: as, ok :: oks => (if ok then a.len.toNat else 0) + admitted as oks
  | _, _ => 0

/-- the clock never runs backwards: `p ≤ t₁ ≤ t₂ ≤ …` -/
def SortedFrom (p : UInt64) : List Arrival → Prop
  | [] => True
  | a :: rest => p ≤ a.t ∧ SortedFrom a.t rest

instance decSortedFrom : (p : UInt64) → (l : List Arrival) → Decidable (SortedFrom p l)
  | _, [] => isTrue trivial
  | p, a :: rest => by
    unfold SortedFrom
    exact @instDecidableAnd _ _ _ (decSortedFrom a.t rest)

/-- time of the last arrival (`p` if there is none) -/
def lastT (p : UInt64) : List Arrival → UInt64
  | [] => p
  | a :: rest => lastT a.t rest

/-! ## the monitor: exact reference of the property, per bucket (map entry)

  Everything is scaled by `8·10⁹` so that `rate [bit/s] × gap [ns]` is an integer number of
  "byte·8·10⁹" units: bytes `x` ↦ `x · 8·10⁹`, earned in a gap `g` ↦ `g · rate` exactly. -/

def SCALE : Nat := 8000000000

/-- what the refill arithmetic of the code failed to credit for a gap `g` (scaled): the exact earning
    `g·rate` minus `8·10⁹ · ⌊(g·(rate/8) mod 2^64) / 10⁹⌋`.  Zero iff the refill is exact. -/
def lossOf (rate g : Nat) : Nat :=
  g * rate - SCALE * ((g * (rate / 8)) % 2 ^ 64 / 1000000000)

/-- the subscriber stays backlogged over the gap `g` that follows an offered packet of `prevLen` bytes:
    the gap earns no more than that packet (offered load ≥ earned tokens) and cannot overflow the bucket -/
def backloggedGap (rate burst prevLen g : Nat) : Bool :=
  decide (g * rate ≤ prevLen * SCALE) && decide (prevLen * SCALE + g * rate ≤ burst * SCALE)

structure Mon where
  rate : Nat
  burst : Nat
  /-- time and size of the previous arrival (none before the first) -/
  prev : Option (Nat × Nat) := none
  /-- upper bound: `max over windows [i..j] ending at the previous arrival of (admitted·S − rate·(t_j − t_i))` -/
  w : Nat := 0
  /-- lower bound: `min over backlogged windows (i..j] ending at the previous arrival of
      (admitted·S − rate·(t_j − t_i))`; `none` = no backlogged window ends there -/
  v : Option Int := none
  /-- refill loss accumulated over the window that attains `v` -/
  l : Nat := 0
  maxPkt : Nat := 0
  /-- time of the first offer of the current stretch of offers that are ALL larger than the burst -/
  over : Option Nat := none
  firedOver : Bool := false
  firedStarve : Bool := false
  firedOversize : Bool := false
  /-- shadow of the bucket under the CODED refill arithmetic, driven by the observed verdicts: tokens, last_update -/
  sTok : Nat := 0
  sLast : Nat := 0
  /-- some observed verdict of this stream is not the one the coded arithmetic gives for the shadow bucket: from then
      on a shortfall is no longer attributed to D52 (whose mechanism is the coded refill and nothing else) -/
  unexplained : Bool := false
deriving Repr

def Mon.new (rate burst : Nat) : Mon := { rate := rate, burst := burst }

/-- feed one observed arrival (time, size, admitted?) ; returns verdicts `(monitor, clause, detail)` -/
def Mon.step (m : Mon) (t len : Nat) (admitted : Bool) : Mon × List (String × String × String) :=
  if m.rate = 0 then
    (m, if admitted then [] else [("zero-rate", "none", s!"rate 0 but a packet of {len} bytes was dropped")])
  else
  let a := if admitted then len * SCALE else 0
  let maxPkt := max m.maxPkt len
  -- shadow bucket: token_bucket_check's refill in ℕ with explicit wrap, then the OBSERVED verdict
  let nt := ((2 ^ 64 - m.sLast + t) % 2 ^ 64 * (m.rate / 8)) % 2 ^ 64 / 1000000000
  let t2 := min ((m.sTok + nt) % 2 ^ 64) m.burst
  let m := { m with sTok := if admitted then t2 - len else t2, sLast := t % 2 ^ 64,
                    unexplained := m.unexplained || (admitted != decide (len ≤ t2)) }
  match m.prev with
  | none =>
    -- first arrival: the only window is [1..1]
    let w := a
    let vs := if w > m.burst * SCALE then [("over-admit", "none", s!"first packet of {len} bytes admitted with burst {m.burst}")] else []
    ({ m with prev := some (t, len), w := w, v := none, l := 0, maxPkt := maxPkt, firedOver := !vs.isEmpty,
              over := if len > m.burst then some t else none }, vs)
  | some (pt, plen) =>
    if t < pt then
      -- the clock ran backwards: outside the property's hypotheses, restart the windows here
      ({ m with prev := some (t, len), w := a, v := none, l := 0, maxPkt := maxPkt,
                over := if len > m.burst then some t else none }, [])
    else
    let g := t - pt
    let w := a + (m.w - m.rate * g)
    let over := decide (w > m.burst * SCALE)
    let vsO := if over && !m.firedOver then
        [("over-admit", "none", s!"admitted exceeds burst + rate*window by {(w - m.burst * SCALE) / SCALE} bytes (rate {m.rate} burst {m.burst})")]
      else []
    -- lower bound, only across gaps over which the subscriber is backlogged
    let (v, l) : Option Int × Nat :=
      if backloggedGap m.rate m.burst plen g then
        let d : Int := (a : Int) - ((g * m.rate : Nat) : Int)
        match m.v with
        | some pv => if pv < 0 then (some (pv + d), m.l + lossOf m.rate g) else (some d, lossOf m.rate g)
        | none => (some d, lossOf m.rate g)
      else (none, 0)
    let starved := match v with
      | some x => decide (x + (((m.burst + maxPkt) * SCALE : Nat) : Int) < 0)
      | none => false
    let vsS := if starved && !m.firedStarve then
        let x := v.getD 0
        -- attributed to D52 only if crediting the tokens the refill arithmetic lost restores the bound
        -- … and every verdict of the stream so far is the one the coded refill gives (shadow bucket)
        let clause := if decide (x + ((m.burst * SCALE + l : Nat) : Int) ≥ 0) && !m.unexplained then "D52" else "none"
        [("starved", clause, s!"backlogged window served {(-x) / (SCALE : Int)} bytes less than rate*window (allowed slack {m.burst + maxPkt}); refill loss {l / SCALE} bytes (rate {m.rate} burst {m.burst})")]
      else []
    -- a subscriber whose every offer exceeds the burst: the window (start, t] has served nothing; the property's
    -- bound fails as soon as rate*window exceeds burst + maxPkt (finding KF-qos-burst-lt-pkt: another cause than D52)
    let ovStart : Option Nat := if len > m.burst then some (m.over.getD t) else none
    let oversized := match ovStart with
      | some s => !admitted && decide ((t - s) * m.rate > (m.burst + maxPkt) * SCALE)
      | none => false
    let vsZ := if oversized && !m.firedOversize then
        [("starved", "KF-qos-burst-lt-pkt", s!"every packet offered since t={ovStart.getD t} is larger than the burst ({len} > {m.burst}): nothing served in {t - ovStart.getD t} ns at rate {m.rate}")]
      else []
    ({ m with prev := some (t, len), w := w, v := v, l := l, maxPkt := maxPkt, over := ovStart,
              firedOver := m.firedOver || over, firedStarve := m.firedStarve || starved,
              firedOversize := m.firedOversize || oversized }, vsO ++ vsS ++ vsZ)

/-! ## windows of an always-backlogged subscriber (lower bound of the property) -/

/-- the subscriber is backlogged over every gap of the window `(p, a₁ … aₙ]` -/
def Backlogged (rate burst : Nat) : Arrival → List Arrival → Prop
  | _, [] => True
  | p, a :: rest =>
    p.t ≤ a.t ∧ backloggedGap rate burst p.len.toNat (a.t.toNat - p.t.toNat) = true ∧ Backlogged rate burst a rest

instance decBacklogged (rate burst : Nat) : (p : Arrival) → (l : List Arrival) → Decidable (Backlogged rate burst p l)
  | _, [] => isTrue trivial
  | p, a :: rest => by
    unfold Backlogged
    exact @instDecidableAnd _ _ _ (@instDecidableAnd _ _ _ (decBacklogged rate burst a rest))

/-- tokens the refill arithmetic failed to credit over the gaps of the window (scaled by `SCALE`) -/
def lossSum (rate : Nat) : Arrival → List Arrival → Nat
  | _, [] => 0
  | p, a :: rest => lossOf rate (a.t.toNat - p.t.toNat) + lossSum rate a rest

end Bng.TokenBucket
