import Bng.Map
import Bng.Model.IPArith
import Bng.Model.PoolSpec
/-
  One generic model of the five free-list pools of bng:

    dhcp.Pool            pkg/dhcp/pool.go       Allocate(mac) / Release(ip) BY VALUE (scan of the map) /
                                                MarkUnavailable(ip) / Reserve(mac, ip) / Stats
    dhcpv6.AddressPool   pkg/dhcpv6/server.go   Allocate(duid) / Release(duid)      (first 1000 addresses)
    dhcpv6.PrefixPool    pkg/dhcpv6/server.go   Allocate(duid) / Release(duid)      (first 1000 prefixes)
    pppoe.IPPool         pkg/pppoe/server.go    Allocate(session) / Release(session)
    pool.LocalPool       pkg/pool/peer.go       allocateLocal / releaseLocal / Get / Stats (+ ipToSub reverse index)

  All five keep  `allocated : map[key]value`  (here `held`) and  `available : []value`  (here `avail`):
  Allocate pops the HEAD of `available`, Release appends at the TAIL.  What differs is captured by
  `Cfg` (the generated univ, whether Allocate looks up an existing holding first, whether a reverse
  index is maintained) and by which operations a pool exposes.

  `parked` is ghost state (no operation reads it): the addresses `MarkUnavailable` took out of
  `available`.  It lets conservation be stated as one permutation.
  Core Lean only.
-/
namespace Bng.FreeList
open Bng Bng.IPArith

structure Cfg where
  /-- the list the constructor generated, in generation order -/
  univ : List Nat
  /-- `if ip, ok := p.allocated[key]; ok { return ip }` at the top of Allocate
      (true for all five pools since the repair of pppoe.IPPool.Allocate, finding D2) -/
  lookupFirst : Bool := true
  /-- pool.LocalPool's `ipToSub` -/
  hasRev : Bool := false
  deriving Repr

structure State where
  cfg    : Cfg
  avail  : List Nat
  held   : AMap Nat Nat       -- key (MAC / DUID / session / subscriber) → value
  rev    : AMap Nat Nat       -- value → key   (only written when cfg.hasRev)
  marked : List Nat           -- dhcp.Pool.unavailable: the distinct addresses ever marked
  parked : List Nat           -- ghost: addresses removed from `avail` by MarkUnavailable
  deriving Repr

def init (c : Cfg) : State :=
  { cfg := c, avail := c.univ, held := [], rev := [], marked := [], parked := [] }

inductive Obs where
  | okAddr (a : Nat)
  | ok
  | exhausted
  | none
  | sub (k : Nat)
  | stats (alloc avail total unavail : Nat)
  | bool (b : Bool)
  | list (l : List (Nat × Nat))      -- all (key, value), sorted by key
  deriving Repr, DecidableEq

/-- Allocate -/
def alloc (s : State) (k : Nat) : State × Obs :=
  match (if s.cfg.lookupFirst then s.held.lookup k else Option.none) with
  | some a => (s, .okAddr a)
  | Option.none =>
    match s.avail with
    | [] => (s, .exhausted)
    | a :: rest =>
      ({ s with avail := rest, held := AMap.insert s.held k a,
                rev := if s.cfg.hasRev then AMap.insert s.rev a k else s.rev }, .okAddr a)

/-- n requests of the same key one after the other: the linearisation of a BURST of n concurrent
    Allocate calls for one key (each call runs under the pool's mutex, so a concurrent burst is some
    sequence of n calls).  Returns the final state and the n answers. -/
def allocN (s : State) (k : Nat) : Nat → State × List Obs
  | 0 => (s, [])
  | n + 1 =>
    let r := alloc s k
    let rest := allocN r.1 k n
    (rest.1, r.2 :: rest.2)

/-- Release by key (dhcpv6, pppoe, LocalPool): no result -/
def release (s : State) (k : Nat) : State × Obs :=
  match s.held.lookup k with
  | Option.none => (s, .ok)
  | some a =>
    ({ s with held := AMap.erase s.held k, avail := s.avail ++ [a],
              rev := if s.cfg.hasRev then AMap.erase s.rev a else s.rev }, .ok)

/-- the first entry of the map whose value is `a` (the Go code ranges over the map; under the
    invariant at most one entry matches, so the iteration order cannot matter) -/
def holderOf (m : AMap Nat Nat) (a : Nat) : Option Nat :=
  match m.find? (fun p => p.2 == a) with
  | some p => some p.1
  | Option.none => Option.none

/-- dhcp.Pool.Release(ip): by VALUE -/
def releaseVal (s : State) (a : Nat) : State × Obs :=
  match holderOf s.held a with
  | Option.none => (s, .ok)
  | some k =>
    ({ s with held := AMap.erase s.held k, avail := s.avail ++ [a],
              rev := if s.cfg.hasRev then AMap.erase s.rev a else s.rev }, .ok)

/-- dhcp.Pool.MarkUnavailable(ip): remembered in the set, first occurrence removed from `available`;
    a holding of that address is NOT touched -/
def mark (s : State) (a : Nat) : State × Obs :=
  ({ s with marked := if a ∈ s.marked then s.marked else a :: s.marked,
            avail := s.avail.erase a,
            parked := if a ∈ s.avail then a :: s.parked else s.parked }, .ok)

/-- dhcp.Pool.Reserve(mac, ip): bind a SPECIFIC address.  Already held by this key → true, nothing
    changes.  On the free list → it is taken from wherever it stands, the key's previous address (if any)
    is appended to the free list, the map entry is overwritten → true.  Otherwise (held by another key,
    gateway, network/broadcast, reserved, declined, outside) → false and NOTHING changes. -/
def reserve (s : State) (k a : Nat) : State × Obs :=
  match s.held.lookup k with
  | some cur =>
    if cur = a then (s, .bool true)
    else if a ∈ s.avail then
      ({ s with avail := s.avail.erase a ++ [cur], held := AMap.insert s.held k a,
                rev := if s.cfg.hasRev then AMap.insert (AMap.erase s.rev cur) a k else s.rev }, .bool true)
    else (s, .bool false)
  | Option.none =>
    if a ∈ s.avail then
      ({ s with avail := s.avail.erase a, held := AMap.insert s.held k a,
                rev := if s.cfg.hasRev then AMap.insert s.rev a k else s.rev }, .bool true)
    else (s, .bool false)

/-- Stats(): Allocated, Available, Total = Available + Allocated, Unavailable -/
def stats (s : State) : Obs :=
  .stats s.held.length s.avail.length (s.avail.length + s.held.length) s.marked.length

/-- PeerPool.Get -/
def get (s : State) (k : Nat) : Obs :=
  match s.held.lookup k with
  | some a => .okAddr a
  | Option.none => .none

/-- the reverse index (LocalPool.ipToSub) -/
def owner (s : State) (a : Nat) : Obs :=
  match s.rev.lookup a with
  | some k => .sub k
  | Option.none => .none

/-- every holding, sorted by key (dhcp.Pool: the `allocated` map as the snapshot hook returns it) -/
def listing (s : State) : Obs := .list (PoolSpec.sorted s.held)

inductive Op where
  | alloc (k : Nat)
  | release (k : Nat)
  | releaseVal (a : Nat)
  | mark (a : Nat)
  | stats
  | get (k : Nat)
  | owner (a : Nat)
  | reserve (k a : Nat)
  | list
  deriving Repr, DecidableEq

def step (s : State) : Op → State × Obs
  | .alloc k => alloc s k
  | .release k => release s k
  | .releaseVal a => releaseVal s a
  | .mark a => mark s a
  | .stats => (s, stats s)
  | .get k => (s, get s k)
  | .owner a => (s, owner s a)
  | .reserve k a => reserve s k a
  | .list => (s, listing s)

def run (s : State) (ops : List Op) : State := ops.foldl (fun st op => (step st op).1) s

/-! ## the five constructors -/

/-- IPv4 pool parameters as `net.ParseCIDR` delivers them (`net` = masked network address) -/
structure V4Cfg where
  net  : Nat
  ones : Nat
  gw   : Nat
  rs   : Nat := 0     -- dhcp.PoolConfig.ReservedStart
  re   : Nat := 0     -- dhcp.PoolConfig.ReservedEnd
  deriving Repr, DecidableEq

def V4Cfg.hostBits (c : V4Cfg) : Nat := 32 - c.ones
/-- `(1 << hostBits) - 2`, and "no hosts" when that is ≤ 0 -/
def V4Cfg.numHosts (c : V4Cfg) : Nat := 2 ^ c.hostBits - 2

/-- dhcp.Pool.generateAvailableIPs: hosts 1 … numHosts, minus the reserved head and tail, byte-wise
    addition to the network address, minus the gateway -/
def genDhcp (c : V4Cfg) : List Nat :=
  (List.range c.numHosts).filterMap fun j =>
    let i := j + 1
    if i ≤ c.rs then Option.none
    else if i > c.numHosts - c.re then Option.none
    else
      let ip := addBytes4 c.net i
      if ip = c.gw then Option.none else some ip

/-- pool.generateAvailableIPs (peer.go): `baseInt + uint32(i)`, minus the gateway -/
def genLocal (c : V4Cfg) : List Nat :=
  (List.range c.numHosts).filterMap fun j =>
    let ip := (c.net + (j + 1)) % 2 ^ 32
    if ip = c.gw then Option.none else some ip

/-- what NewIPPool keeps of the addresses it walks over: not the gateway and not a broadcast address
    (`isBroadcast`: 255.255.255.255, or the last address of a network with more than two addresses —
    since the repair of finding KF-pppoe-broadcast) -/
def pppoeKeep (c : V4Cfg) (a : Nat) : Bool :=
  a != c.gw && a != 4294967295 && !(decide (2 ≤ c.hostBits) && a == c.net + 2 ^ c.hostBits - 1)

/-- pppoe.NewIPPool: walk from the network address; skip the gateway and the broadcast addresses -/
def genPppoe (c : V4Cfg) : List Nat :=
  walk 32 (containsNet c.net c.hostBits) (pppoeKeep c) (2 ^ c.hostBits) c.net

structure V6Cfg where
  base : Nat           -- masked network address (net.ParseCIDR)
  ones : Nat
  dl   : Nat := 128    -- PrefixPool: delegation length
  deriving Repr, DecidableEq

/-- dhcpv6.NewAddressPool: the first 1000 addresses after the network address -/
def genV6Addr (c : V6Cfg) : List Nat :=
  walk 128 (containsNet c.base (128 - c.ones)) (fun _ => true) 1000 c.base

/-- `numPrefixes := 1000; if indexBits < 10 { numPrefixes = 1 << indexBits }`
    (since the repair of the `1 << indexBits` overflow, finding KF-v6prefix-wide) -/
def numPrefixes (indexBits : Nat) : Nat :=
  if indexBits < 10 then 2 ^ indexBits else 1000

def V6Cfg.indexBits (c : V6Cfg) : Nat := c.dl - c.ones
/-- NewPrefixPool's validation -/
def V6Cfg.validPD (c : V6Cfg) : Bool := c.ones < c.dl && c.dl ≤ 128

/-- dhcpv6.NewPrefixPool: prefix i = base with the bits of i placed at [ones, dl) -/
def genV6Prefix (c : V6Cfg) : List Nat :=
  (List.range (numPrefixes c.indexBits)).map fun i => placeBits c.base (128 - c.dl) i c.indexBits

def dhcpCfg (c : V4Cfg) : Cfg := { univ := genDhcp c }
def localCfg (c : V4Cfg) : Cfg := { univ := genLocal c, hasRev := true }
def pppoeCfg (c : V4Cfg) : Cfg := { univ := genPppoe c }
def v6AddrCfg (c : V6Cfg) : Cfg := { univ := genV6Addr c }
def v6PrefixCfg (c : V6Cfg) : Cfg := { univ := genV6Prefix c }

/-! ## the monitor: `Bng.PoolSpec` plus what only free lists have (holes in the range, addresses
    taken out of circulation by MarkUnavailable, an `available` figure in Stats) -/
namespace Spec
open Bng.PoolSpec

structure MGeo where
  /-- the arithmetic progression that contains every usable value -/
  g : Geo
  /-- values inside it that the pool must never hand out (gateway, all-ones address) -/
  holes : List Nat := []
  deriving Repr

/-- number of values a pool with this geometry can hand out -/
def MGeo.usable (mg : MGeo) : Nat :=
  mg.g.units - (mg.holes.eraseDups.filter (inRange mg.g)).length

structure MSt where
  mon    : Mon := []
  parked : List Nat := []
  /-- the distinct addresses MarkUnavailable was called with -/
  marked : List Nat := []

inductive MEv where
  | pool (e : Ev)
  /-- MarkUnavailable(a) was called -/
  | marked (a : Nat)
  /-- Stats() of a free list: allocated, available, total, and (dhcp.Pool) unavailable -/
  | statsFL (alloc avail total : Nat) (unavail : Option Nat)
  /-- Contains(a) answered b; the network is [lo, lo+span) -/
  | contains (a lo span : Nat) (b : Bool)

def mcheck (mg : MGeo) (st : MSt) : MEv → MSt × List Verdict
  | .pool .exhausted =>
    let cap := mg.usable - st.parked.length
    (st, if st.mon.length < cap then
           [("exhaustion", s!"exhausted reported with {st.mon.length} of {cap} usable units held")] else [])
  | .pool (.got k a) =>
    let (m', vs) := check mg.g st.mon (.got k a)
    ({ st with mon := m' },
     vs ++ (if a ∈ mg.holes then [("range", s!"excluded value {a} handed out")] else []))
  | .pool (.forced k a) =>
    let (m', vs) := check mg.g st.mon (.forced k a)
    ({ st with mon := m' },
     vs ++ (if a ∈ mg.holes then [("range", s!"excluded value {a} handed out")] else []) ++
           (if a ∈ st.parked then [("range", s!"value {a} was taken out of circulation and is handed out")] else []))
  | .pool e =>
    let (m', vs) := check mg.g st.mon e
    ({ st with mon := m' }, vs)
  | .marked a =>
    let st := { st with marked := if st.marked.contains a then st.marked else a :: st.marked }
    -- an address leaves circulation when it is usable, not held and not already parked
    if inRange mg.g a && !(mg.holes.contains a) && (holderOf st.mon a).isNone && !(st.parked.contains a)
    then ({ st with parked := a :: st.parked }, []) else (st, [])
  | .contains a lo span b =>
    (st, if b = (decide (lo ≤ a) && decide (a < lo + span)) then [] else
           [("agree", s!"Contains({a}) answered {b} for the network [{lo}, {lo + span})")])
  | .statsFL al av tot un =>
    let cap := mg.usable - st.parked.length
    (st, (if al = st.mon.length then [] else [("count", s!"reported allocated={al}, true={st.mon.length}")]) ++
         (if tot = cap then [] else [("total", s!"reported total={tot}, true={cap}")]) ++
         (if av + st.mon.length = cap then [] else
            [("total", s!"reported available={av}, true={cap - st.mon.length}")]) ++
         (match un with
           | some u => if u = st.marked.length then [] else
               [("count", s!"reported unavailable={u}, distinct addresses marked={st.marked.length}")]
           | none => []))

end Spec
end Bng.FreeList
