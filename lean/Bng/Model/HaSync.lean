import Bng.Map
/-
  Model of the HA session synchronisation (pkg/ha/sync.go, store.go, protocol.go) — property C13.

  Active side:  session table (`InMemorySessionStore`), `sequenceNum`, the change queue `pendingChanges`
  (bounded, `PushChange` refuses when full), one per-client channel registered by `handleSessionStream`
  (bounded, `broadcastToClients` drops when full).
  Standby side: session `store`, `receivedSessions`, the stream attachment.

  One step per critical section / loop iteration of the Go code:
    add/update/delete  the caller's store write followed by `PushChange`
    broadcast          one iteration of `broadcastLoop` (pop a change, `broadcastToClients`)
    fullSync           `performFullSync` (GET /ha/sessions → reset receivedSessions, Put each, prune stale)
    attach             `handleSessionStream` registers the client channel
    deliver            `sendSSE` of the channel head followed by `handleSSEData` on the standby
    disconnect         the stream ends: the channel is unregistered (its content is lost)

  Sessions are `id ↦ value` (`Nat ↦ Nat`; the harness derives every field of a SessionState from the pair).
  History variables (`snapSeq` … `bcast`) are not state of the Go code: they record what happened so that the
  theorems and the exclusion clauses of the recorded findings can be stated over runs.
  Core Lean only.
-/
namespace Bng.HaSync
open Bng

abbrev Table := AMap Nat Nat

inductive Kind where
  | add | update | delete
  | heartbeat          -- keep-alive: occupies a slot of the client channel, changes nothing on the standby
  deriving DecidableEq, Repr

structure Msg where
  seq  : Nat
  kind : Kind
  key  : Nat
  val  : Nat
  deriving DecidableEq, Repr

/-- what a message makes of its session: `none` = absent -/
def Msg.eff (m : Msg) : Option Nat :=
  match m.kind with
  | .delete => none
  | _ => some m.val

/-- does the message say anything about session `k`? -/
def Msg.touches (m : Msg) (k : Nat) : Bool := m.kind != .heartbeat && m.key == k

/-- `handleSSEData` for one add/update/delete/heartbeat message, on one of the standby's two maps -/
def applyMsg (t : Table) (m : Msg) : Table :=
  match m.kind with
  | .delete => AMap.erase t m.key
  | .heartbeat => t
  | _ => AMap.insert t m.key m.val

/-- the loop `for i := range msg.Sessions { … PutSession }` -/
def putAll (t : Table) : List (Nat × Nat) → Table
  | [] => t
  | (k, v) :: rest => putAll (AMap.insert t k v) rest

/-- `pruneStaleSessionsLocked`: walk the store's sessions, delete those absent from receivedSessions -/
def prune (received : Table) (t : Table) : List Nat → Table
  | [] => t
  | k :: ks => prune received (if AMap.contains received k then t else AMap.erase t k) ks

/-- `performFullSync` on the standby, given the snapshot the active returned: (store, receivedSessions) -/
def fullSyncApply (store : Table) (snap : List (Nat × Nat)) : Table × Table :=
  let received := putAll [] snap
  let store1 := putAll store snap
  (prune received store1 (AMap.keys store1), received)

structure Cfg where
  capC : Nat      -- capacity of the per-client channel (100 in handleSessionStream)
  capP : Nat      -- capacity of pendingChanges (1000 in NewHASyncer)
  deriving Repr, DecidableEq

structure State where
  cfg      : Cfg
  -- active
  table    : Table
  seq      : Nat
  pending  : List Msg
  client   : Option (List Msg)
  -- standby
  store    : Table
  received : Table
  -- history variables
  snapSeq    : Nat := 0          -- the active's sequence number at the last full sync
  fullSynced : Bool := false     -- a full sync completed and the stream has not been lost since
  gapKeys    : List Nat := []    -- sessions of the changes made after the last full sync that were broadcast to nobody
  fullKeys   : List Nat := []    -- sessions of the changes dropped by a full channel/queue and not yet flushed out
  dropped    : List Msg := []    -- changes dropped by the full client channel in this attachment
  bcast      : List Msg := []    -- changes broadcast while this attachment existed (dropped ones included)
  sent       : List Msg := []    -- … those that entered the client channel
  applied    : List Msg := []    -- … those the standby has applied
  deriving Repr

def init (c : Cfg) : State :=
  { cfg := c, table := [], seq := 0, pending := [], client := none, store := [], received := [] }

/-- the standby's `connected` flag (set while `connectToStream` reads the stream) -/
def State.connected (s : State) : Bool := s.client.isSome

/-- everything on its way to the standby, oldest first -/
def State.inflight (s : State) : List Msg := (s.client.getD []) ++ s.pending

inductive Obs where
  | ok | full | already | notconnected | empty | noclient
  | lost (seq : Nat)           -- broadcast to nobody
  | sent (seq : Nat)
  | dropped (seq : Nat)        -- client channel full
  | synced (store : Table)     -- the standby's table right after a full sync
  | applied (m : Msg)
  deriving Repr, DecidableEq

/-- the caller's store write followed by `PushChange` -/
def push (s : State) (kind : Kind) (k v : Nat) : State × Obs :=
  let m : Msg := { seq := s.seq + 1, kind := kind, key := k, val := v }
  let s1 := { s with table := applyMsg s.table m, seq := s.seq + 1 }
  if s.pending.length < s.cfg.capP then
    ({ s1 with pending := s.pending ++ [m] }, .ok)
  else
    ({ s1 with fullKeys := s.fullKeys ++ [k] }, .full)

/-- one iteration of `broadcastLoop` -/
def broadcast (s : State) : State × Obs :=
  match s.pending with
  | [] => (s, .empty)
  | m :: rest =>
    match s.client with
    | none =>
      ({ s with pending := rest, gapKeys := if s.snapSeq < m.seq then s.gapKeys ++ [m.key] else s.gapKeys }, .lost m.seq)
    | some ch =>
      if ch.length < s.cfg.capC then
        ({ s with pending := rest, client := some (ch ++ [m]), bcast := s.bcast ++ [m], sent := s.sent ++ [m] },
         .sent m.seq)
      else
        ({ s with pending := rest, bcast := s.bcast ++ [m], fullKeys := s.fullKeys ++ [m.key], dropped := s.dropped ++ [m] },
         .dropped m.seq)

/-- a snapshot of the active's table is applied on the standby (`performFullSync`, or a `full` message in the
    stream).  A session stops counting as "lost to a full channel" once a snapshot is taken with nothing about
    it in flight any more. -/
def fullSync (s : State) : State × Obs :=
  let r := fullSyncApply s.store s.table
  ({ s with store := r.1, received := r.2, snapSeq := s.seq, fullSynced := true, gapKeys := [],
            fullKeys := s.fullKeys.filter fun k => s.inflight.any (·.touches k) }, .synced r.1)

/-- a `full` message (the active's GET payload) handed to `handleSSEData` while the stream is attached -/
def streamFull (s : State) : State × Obs :=
  match s.client with
  | none => (s, .noclient)
  | some _ => fullSync s

/-- `broadcastLoop`'s heartbeat ticker: a keep-alive is broadcast like a change (and silently dropped when the
    client channel is full) -/
def heartbeat (s : State) : State × Obs :=
  match s.client with
  | none => (s, .noclient)
  | some ch =>
    let hb : Msg := { seq := s.seq, kind := .heartbeat, key := 0, val := 0 }
    if ch.length < s.cfg.capC then
      ({ s with client := some (ch ++ [hb]), bcast := s.bcast ++ [hb], sent := s.sent ++ [hb] }, .sent s.seq)
    else (s, .dropped s.seq)

def attach (s : State) : State × Obs :=
  match s.client with
  | some _ => (s, .already)
  | none => ({ s with client := some [], bcast := [], sent := [], applied := [], dropped := [] }, .ok)

def deliver (s : State) : State × Obs :=
  match s.client with
  | none => (s, .noclient)
  | some [] => (s, .empty)
  | some (m :: rest) =>
    ({ s with client := some rest, store := applyMsg s.store m, received := applyMsg s.received m,
              applied := s.applied ++ [m] }, .applied m)

def disconnect (s : State) : State × Obs :=
  match s.client with
  | none => (s, .notconnected)
  | some _ =>
    ({ s with client := none, fullSynced := false, bcast := [], sent := [], applied := [], dropped := [] }, .ok)

inductive Op where
  | add (k v : Nat) | update (k v : Nat) | delete (k : Nat)
  | broadcast | fullSync | attach | deliver | disconnect
  | streamFull | heartbeat
  deriving Repr, DecidableEq

def step (s : State) : Op → State × Obs
  | .add k v => push s .add k v
  | .update k v => push s .update k v
  | .delete k => push s .delete k 0
  | .broadcast => broadcast s
  | .fullSync => fullSync s
  | .attach => attach s
  | .deliver => deliver s
  | .disconnect => disconnect s
  | .streamFull => streamFull s
  | .heartbeat => heartbeat s

def run (s : State) (ops : List Op) : State := ops.foldl (fun st op => (step st op).1) s

/-! ## The standby's connection loop (`standbyLoop`)

  for { performFullSync (on error: waitReconnect, continue); connectToStream (returns when the stream could not be
  established or has ended: waitReconnect, continue) }.  The events are what the standby's two requests come back
  with; `toOps` is what each event means for the data model above. -/

inductive Pc where
  | top          -- about to call performFullSync
  | afterSync    -- full sync succeeded, about to call connectToStream
  | streaming    -- inside connectToStream, reading the stream
  | waiting      -- in waitReconnect
  deriving DecidableEq, Repr

inductive LoopEv where
  | syncOk | syncFail          -- GET /ha/sessions answered 200 and applied | failed
  | streamOk | streamFail      -- GET /ha/sessions/stream answered 200 | refused / not 200
  | streamEnd                  -- the established stream ended
  | wake                       -- the back-off is over
  deriving DecidableEq, Repr

def loopStep : Pc → LoopEv → Option Pc
  | .top, .syncOk => some .afterSync
  | .top, .syncFail => some .waiting
  | .afterSync, .streamOk => some .streaming
  | .afterSync, .streamFail => some .waiting
  | .streaming, .streamEnd => some .waiting
  | .waiting, .wake => some .top
  | _, _ => none

def loopRun : Pc → List LoopEv → Option Pc
  | pc, [] => some pc
  | pc, e :: rest => match loopStep pc e with
    | some pc' => loopRun pc' rest
    | none => none

def LoopEv.toOps : LoopEv → List Op
  | .syncOk => [.fullSync]
  | .streamOk => [.attach]
  | .streamEnd => [.disconnect]
  | _ => []

/-! ## The monitor: the property, judged on observations only

  It sees the operations the harness issued (the active's operation log, the connect/disconnect schedule)
  and what the implementation answered, and keeps the abstract picture: the active's table, the changes
  accepted by PushChange but not yet broadcast, and — while a stream is attached — the changes that were
  broadcast into it and must therefore be applied by the standby, in that order. -/

structure Mon where
  act    : Table := []
  seq    : Nat := 0
  pend   : List Msg := []
  strm   : Option (List Msg) := none
  synced : Bool := false           -- a full sync completed and the stream has not been lost since
  snapFresh : Bool := false        -- a snapshot request was answered 200 since the last stream end / stream failure
  deriving Repr

inductive Ev where
  | pushed (kind : Kind) (k v : Nat) (accepted : Bool)
  | broadcast
  | fullSynced (store : List (Nat × Nat))     -- standby table right after the full sync, sorted by id
  | attached
  | disconnected
  | applied (kind : Kind) (k v : Nat) (seq : Nat)
  | nothingToApply                            -- the stream had nothing for the standby
  | table (store : List (Nat × Nat))          -- standby table, sorted by id
  | fullSyncedBlind                           -- a full sync completed; the table right after it was not observed
  | drained                                   -- the harness waited until the stream had nothing left (end to end)
  | requests (l : List (Bool × Nat))          -- the standby's requests as the network saw them complete, in order:
                                              -- (is it the stream request?, HTTP status)
  | nop
  deriving Repr

def insertSorted (p : Nat × Nat) : List (Nat × Nat) → List (Nat × Nat)
  | [] => [p]
  | q :: rest => if p.1 ≤ q.1 then p :: q :: rest else q :: insertSorted p rest

def sorted (m : Table) : List (Nat × Nat) := m.foldl (fun acc p => insertSorted p acc) []

abbrev Verdict := String × String

def showTable (l : List (Nat × Nat)) : String :=
  if l.isEmpty then "-" else ",".intercalate (l.map fun (k, v) => s!"s{k}={v}")

def dropThrough (seq : Nat) : List Msg → List Msg
  | [] => []
  | m :: rest => if m.seq = seq then rest else dropThrough seq rest

def check (m : Mon) : Ev → Mon × List Verdict
  | .pushed kind k v acc =>
    let msg : Msg := { seq := m.seq + 1, kind := kind, key := k, val := v }
    ({ m with act := applyMsg m.act msg, seq := m.seq + 1, pend := if acc then m.pend ++ [msg] else m.pend }, [])
  | .broadcast =>
    match m.pend with
    | [] => (m, [])
    | x :: rest => ({ m with pend := rest, strm := m.strm.map (· ++ [x]) }, [])
  | .fullSynced st =>
    ({ m with synced := true },
     if st = sorted m.act then []
     else [("fullsync-differs", s!"after the full sync the standby holds {showTable st}, the active's snapshot is {showTable (sorted m.act)}")])
  | .attached => ({ m with strm := some [] }, [])
  | .disconnected => ({ m with strm := none, synced := false, snapFresh := false }, [])
  | .requests l =>
    l.foldl (fun (acc : Mon × List Verdict) (r : Bool × Nat) =>
      let (m, vs) := acc
      match r with
      | (false, 200) => ({ m with snapFresh := true }, vs)
      | (false, _) => (m, vs)
      | (true, 200) =>
        ({ m with snapFresh := false },
         if m.snapFresh then vs else
          vs ++ [("stale-attach", "the stream was established (GET /ha/sessions/stream 200) with no successful full sync (GET /ha/sessions 200) since the last stream end or failed stream attempt")])
      | (true, _) => ({ m with snapFresh := false }, vs)) (m, [])
  | .applied kind k v seq =>
    match m.strm with
    | none => (m, [("order", s!"change {seq} applied with no stream attached")])
    | some [] => (m, [("order", s!"change {seq} applied but nothing was pushed into the stream")])
    | some (x :: rest) =>
      if x.seq = seq ∧ x.kind = kind ∧ x.key = k ∧ (kind = .delete ∨ x.val = v) then
        ({ m with strm := some rest }, [])
      else
        ({ m with strm := some (if (x :: rest).any (·.seq == seq) then dropThrough seq (x :: rest) else x :: rest) },
         [("order", s!"change {x.seq} was pushed into the stream next but the standby applied {seq}")])
  | .nothingToApply =>
    match m.strm with
    | some (x :: _) =>
      ({ m with strm := some [] }, [("order", s!"change {x.seq} was pushed while the stream was connected and never reached the standby")])
    | _ => (m, [])
  | .table st =>
    (m, if m.strm = some [] ∧ m.pend = [] ∧ m.synced ∧ st ≠ sorted m.act then
          [("diverged", s!"link up, active quiet, nothing in flight: standby holds {showTable st}, active holds {showTable (sorted m.act)}")]
        else [])
  | .fullSyncedBlind => ({ m with synced := true }, [])
  | .drained => ({ m with strm := m.strm.map fun _ => [] }, [])
  | .nop => (m, [])

def checkAll (m : Mon) : List Ev → Mon × List Verdict
  | [] => (m, [])
  | e :: es =>
    let (m1, v1) := check m e
    let (m2, v2) := checkAll m1 es
    (m2, v1 ++ v2)

end Bng.HaSync
