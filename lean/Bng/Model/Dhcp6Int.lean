import Bng.Model.Dhcp6
import Bng.Model.Dist
/-
  Model of the DHCPv6 server (pkg/dhcpv6/server.go) in INTEGRATED-ALLOCATOR mode: ServerConfig.AddressAllocator /
  PrefixAllocator are allocator.PoolAllocator objects (pkg/allocator/store.go: the bitmap allocator plus one store
  record per subscriber), keyed by the client DUID.  allocateAddress / allocatePrefix call AllocateWithOptions,
  releaseAddress / releasePrefix call Release.  Each PoolAllocator is `Bng.Dist.Session.State` (bitmap + store; its
  store calls take a failure flag: external call = parameter); the flags are server-wide switches here
  (`failRelA`, `failRelP`: RemoveAllocation of the address / prefix pool fails; `failSave`: SaveAllocation fails),
  flipped by the `fault` operation.

  Message handling is that of the legacy mode (Bng.Dhcp6; its Lease, Resp, Reply, Kind, ServerId and message
  operations are reused) with these differences of the code AS IT IS:
    * handleRenew extends lifetimes only `if s.addressPool != nil`: never in this mode;
    * handleConfirm accepts an address only `if s.addressPool != nil && …`: never in this mode (always NotOnLink);
    * the address allocator hands out EVERY address of its network, the network address included (unit 0);
    * handleRelease (and handleDecline, which calls it): a value whose allocator Release fails (the store's
      RemoveAllocation failed: PoolAllocator.Release then changes nothing) STAYS in the lease, the lease stays in the
      table and the client is answered UnspecFail; a value that was released is cleared from the lease; the lease is
      deleted and Success answered only when nothing is left (fix of finding G7; before, the error was swallowed, the
      lease deleted and Success answered: the value stayed allocated to a DUID without a binding for ever).
      An ErrNotAllocated answer of the allocator counts as released (nothing is held).
  As in legacy mode nothing expires (D6), DECLINE = RELEASE (D7), an Advertise allocates without creating a lease
  (D8), and a REQUEST creates the lease before it allocates (an empty lease stays when nothing could be allocated).

  The two pools are assumed disjoint (no address of the address pool is the first address of a delegated prefix):
  the shared store's by-IP conflict index then never refuses a save.
  Core Lean only.
-/
namespace Bng.Dhcp6Int
open Bng
open Bng.Dhcp6 (Lease Resp Reply Kind ServerId)

abbrev PA := Dist.Session.State

structure Cfg where
  hasAddr : Bool
  acfg    : Bitmap.Cfg      -- famBits 128, poolPrefix = length of the address network, plen 128
  hasPfx  : Bool
  pcfg    : Bitmap.Cfg      -- famBits 128, poolPrefix = length of the prefix pool, plen = delegation length
  valid   : Nat
  deriving Repr

structure State where
  cfg      : Cfg
  leases   : AMap Nat Lease := []
  aa       : PA
  pa       : PA
  failRelA : Bool := false
  failRelP : Bool := false
  failSave : Bool := false
  now      : Nat := 0
  deriving Repr

def init (c : Cfg) : State :=
  { cfg := c, aa := Dist.Session.init c.acfg, pa := Dist.Session.init c.pcfg }

/-- PoolAllocator.AllocateWithOptions as the server uses it: the value or "no value" (exhausted / store error) -/
def allocVal (p : PA) (d : Nat) (saveFails : Bool) : PA × Option Nat :=
  match Dist.Session.alloc p d saveFails with
  | (p', .okAddr a _) => (p', some a)
  | (p', _) => (p', none)

/-- releaseAddress / releasePrefix: `true` = released (or the allocator holds nothing for this DUID), `false` = the
    allocator's Release failed and changed nothing -/
def relVal (p : PA) (d : Nat) (removeFails : Bool) : PA × Bool :=
  match Dist.Session.release p d removeFails with
  | (p', .error) => (p', false)
  | (p', _) => (p', true)

/-- buildAdvertise's IA loops: an IA is answered only when a value could be allocated -/
def advIAs (p : PA) (d : Nat) (f : Bool) : List Nat → PA × List (Nat × Option Nat)
  | [] => (p, [])
  | iaid :: rest =>
    match allocVal p d f with
    | (p', some v) => let (p'', out) := advIAs p' d f rest; (p'', (iaid, some v) :: out)
    | (p', none) => advIAs p' d f rest

def buildAdvertise (s : State) (d : Nat) (ianas iapds : List Nat) : State × Reply :=
  let A := if s.cfg.hasAddr then advIAs s.aa d s.failSave ianas else (s.aa, [])
  let P := if s.cfg.hasPfx then advIAs s.pa d s.failSave iapds else (s.pa, [])
  ({ s with aa := A.1, pa := P.1 }, some { kind := .advertise, nas := A.2, pds := P.2 })

def replyNAs (p : PA) (d now valid : Nat) (f : Bool) (l : Lease) : List Nat → PA × Lease × List (Nat × Option Nat)
  | [] => (p, l, [])
  | iaid :: rest =>
    match allocVal p d f with
    | (p', some v) =>
      let (p'', l', out) := replyNAs p' d now valid f { l with addr := some v, iaid := iaid, validEnd := some (now + valid) } rest
      (p'', l', (iaid, some v) :: out)
    | (p', none) =>
      let (p'', l', out) := replyNAs p' d now valid f l rest
      (p'', l', (iaid, none) :: out)

def replyPDs (p : PA) (d : Nat) (f : Bool) (l : Lease) : List Nat → PA × Lease × List (Nat × Option Nat)
  | [] => (p, l, [])
  | iaid :: rest =>
    match allocVal p d f with
    | (p', some v) =>
      let (p'', l', out) := replyPDs p' d f { l with pfx := some v } rest
      (p'', l', (iaid, some v) :: out)
    | (p', none) =>
      let (p'', l', out) := replyPDs p' d f l rest
      (p'', l', (iaid, none) :: out)

def naPart (s : State) (d : Nat) (l0 : Lease) (ianas : List Nat) : PA × Lease × List (Nat × Option Nat) :=
  if s.cfg.hasAddr then replyNAs s.aa d s.now s.cfg.valid s.failSave l0 ianas else (s.aa, l0, [])

def pdPart (s : State) (d : Nat) (l1 : Lease) (iapds : List Nat) : PA × Lease × List (Nat × Option Nat) :=
  if s.cfg.hasPfx then replyPDs s.pa d s.failSave l1 iapds else (s.pa, l1, [])

/-- buildReply: the lease is looked up or CREATED first, then the IAs are served -/
def buildReply (s : State) (d : Nat) (ianas iapds : List Nat) (rapid : Bool) : State × Reply :=
  let A := naPart s d ((AMap.lookup s.leases d).getD {}) ianas
  let P := pdPart s d A.2.1 iapds
  ({ s with leases := AMap.insert s.leases d P.2.1, aa := A.1, pa := P.1 },
   some { kind := .reply, nas := A.2.2, pds := P.2.2, status := some 0, rapid := rapid })

def solicit (s : State) (d : Nat) (rapid : Bool) (ianas iapds : List Nat) : State × Reply :=
  if d = 0 then (s, none)
  else if rapid then buildReply s d ianas iapds true
  else buildAdvertise s d ianas iapds

def request (s : State) (d : Nat) (sid : ServerId) (ianas iapds : List Nat) : State × Reply :=
  if d = 0 then (s, none)
  else if sid ≠ .ok then (s, none)
  else buildReply s d ianas iapds false

/-- handleRenew (handleRebind calls it): any lease-table entry counts as a binding; no lifetime is extended here -/
def renew (s : State) (d : Nat) (ianas iapds : List Nat) : State × Reply :=
  if d = 0 then (s, none)
  else
    match AMap.lookup s.leases d with
    | none => (s, some { kind := .reply, status := some 3 })          -- NoBinding
    | some _ => buildReply s d ianas iapds false

/-- handleConfirm: `s.addressPool != nil` is false in this mode: NotOnLink (4) whatever the client names -/
def confirm (s : State) (d : Nat) (_addrs : List Nat) : State × Reply :=
  if d = 0 then (s, none) else (s, some { kind := .reply, status := some 4 })

/-- one half of handleRelease: the allocator is called only when the lease records a value -/
def relPart (p : PA) (d : Nat) (removeFails recorded : Bool) : PA × Bool :=
  if recorded then relVal p d removeFails else (p, true)

/-- the end of handleRelease, given what the two allocator calls did: a value that was released is cleared from the
    lease, the lease is deleted and Success answered only when nothing is left -/
def finishRelease (s : State) (d : Nat) (l : Lease) (A P : PA × Bool) : State × Reply :=
  if A.2 && P.2 then
    ({ s with aa := A.1, pa := P.1, leases := AMap.erase s.leases d }, some { kind := .reply, status := some 0 })
  else
    ({ s with aa := A.1, pa := P.1,
              leases := AMap.insert s.leases d
                { l with addr := if A.2 then none else l.addr, pfx := if P.2 then none else l.pfx } },
     some { kind := .reply, status := some 1 })

/-- handleRelease (handleDecline calls it) -/
def release (s : State) (d : Nat) : State × Reply :=
  if d = 0 then (s, none)
  else
    match AMap.lookup s.leases d with
    | none => (s, some { kind := .reply, status := some 0 })
    | some l =>
      finishRelease s d l (relPart s.aa d s.failRelA l.addr.isSome) (relPart s.pa d s.failRelP l.pfx.isSome)

inductive Fault where
  | relA | relP | save
  deriving Repr, DecidableEq

inductive Op where
  | msg (o : Dhcp6.Op)
  | fault (f : Fault) (on : Bool)
  deriving Repr, DecidableEq

def stepMsg (s : State) : Dhcp6.Op → State × Reply
  | .solicit d r a p => solicit s d r a p
  | .request d sid a p => request s d sid a p
  | .renew d a p => renew s d a p
  | .rebind d a p => renew s d a p
  | .confirm d addrs => confirm s d addrs
  | .release d => release s d
  | .decline d => release s d
  | .advance dt => ({ s with now := s.now + dt }, none)

def step (s : State) : Op → State × Reply
  | .msg o => stepMsg s o
  | .fault .relA on => ({ s with failRelA := on }, none)
  | .fault .relP on => ({ s with failRelP := on }, none)
  | .fault .save on => ({ s with failSave := on }, none)

def run (s : State) (ops : List Op) : State := ops.foldl (fun st op => (step st op).1) s

/-- the value the allocator holds for a DUID -/
def heldBy (p : PA) (d : Nat) : Option Nat :=
  (AMap.lookup p.a.allocated d).map (Bitmap.prefixOf p.a.cfg)

/-! ## monitor: judges the implementation's replies and table snapshots (observations only)

  What it sees after every message: the reply (kind, status, the values it carries), the lease table (client,
  address, prefix) and what the two allocators report as held per client.

    leak            a RELEASE / DECLINE was answered Success and afterwards an allocator still holds a value for that
                    client which no lease of the client records: nothing will ever release it
                    (C05 "a release puts the address back into circulation", C16)
    double-binding  two leases record the same address / prefix
    foreign-ack     a Reply hands a client a value that another client's lease records
    range           a Reply / Advertise carries a value outside the pool or not on a unit boundary
-/
namespace Mon

structure Snap where
  leases : List (Nat × Option Nat × Option Nat) := []   -- client, address, prefix
  aheld  : List (Nat × Nat) := []                       -- address allocator: client ↦ address
  pheld  : List (Nat × Nat) := []
  deriving Repr

/-- what a reply means -/
inductive Ev where
  | released (d : Nat) (status : Nat)                -- the answer to a RELEASE / DECLINE
  | served (d : Nat) (ack : Bool) (addrs pfxs : List Nat)   -- values carried by a Reply (ack) / Advertise
  | other
  deriving Repr

structure Geo where
  alo : Nat := 0
  acount : Nat := 0
  plo : Nat := 0
  pstep : Nat := 1
  pcount : Nat := 0
  deriving Repr

structure Verdict where
  name : String
  detail : String
  client : Nat := 0
  value : Nat := 0
  isAddr : Bool := true
  deriving Repr

def inA (g : Geo) (a : Nat) : Bool := decide (g.alo ≤ a) && decide (a < g.alo + g.acount)
def inP (g : Geo) (p : Nat) : Bool :=
  decide (g.plo ≤ p) && ((p - g.plo) % g.pstep == 0) && decide ((p - g.plo) / g.pstep < g.pcount)

def pairsDup (l : List (Nat × Nat)) : List (Nat × Nat × Nat) :=   -- (client, other client, value)
  l.flatMap fun (d, v) => (l.filter fun (d', v') => v' == v && decide (d < d')).map fun (d', _) => (d, d', v)

def check (g : Geo) (ev : Ev) (sn : Snap) : List Verdict :=
  let la : List (Nat × Nat) := sn.leases.filterMap fun (d, a, _) => a.map fun v => (d, v)
  let lp : List (Nat × Nat) := sn.leases.filterMap fun (d, _, p) => p.map fun v => (d, v)
  let leak : List Verdict := match ev with
    | .released d 0 =>
      ((sn.aheld.filter fun (d', v) => d' == d && !(la.contains (d, v))).map fun (_, v) =>
        ({ name := "leak", client := d, value := v, isAddr := true,
           detail := s!"address: the release of d{d} was answered Success, the allocator still holds {v} for it and no lease records it" } : Verdict)) ++
      ((sn.pheld.filter fun (d', v) => d' == d && !(lp.contains (d, v))).map fun (_, v) =>
        ({ name := "leak", client := d, value := v, isAddr := false,
           detail := s!"prefix: the release of d{d} was answered Success, the allocator still holds {v} for it and no lease records it" } : Verdict))
    | _ => []
  let dbl : List Verdict :=
    ((pairsDup la).map fun (d, d', v) =>
      ({ name := "double-binding", client := d, value := v, isAddr := true,
         detail := s!"address: {v} is recorded by the leases of d{d} and d{d'}" } : Verdict)) ++
    ((pairsDup lp).map fun (d, d', v) =>
      ({ name := "double-binding", client := d, value := v, isAddr := false,
         detail := s!"prefix: {v} is recorded by the leases of d{d} and d{d'}" } : Verdict))
  let served : List Verdict := match ev with
    | .served d ack addrs pfxs =>
      ((addrs.filter fun v => !(inA g v)).map fun v =>
        ({ name := "range", client := d, value := v, isAddr := true, detail := s!"address: {v} handed to d{d} lies outside the pool" } : Verdict)) ++
      ((pfxs.filter fun v => !(inP g v)).map fun v =>
        ({ name := "range", client := d, value := v, isAddr := false, detail := s!"prefix: {v} handed to d{d} is no unit of the pool" } : Verdict)) ++
      (if ack then
        (addrs.flatMap fun v => (la.filter fun (d', v') => v' == v && d' != d).map fun (d', _) =>
          ({ name := "foreign-ack", client := d, value := v, isAddr := true,
             detail := s!"address: {v} acknowledged to d{d} while the lease of d{d'} records it" } : Verdict)) ++
        (pfxs.flatMap fun v => (lp.filter fun (d', v') => v' == v && d' != d).map fun (d', _) =>
          ({ name := "foreign-ack", client := d, value := v, isAddr := false,
             detail := s!"prefix: {v} acknowledged to d{d} while the lease of d{d'} records it" } : Verdict))
       else [])
    | _ => []
  leak ++ dbl ++ served

end Mon

end Bng.Dhcp6Int
