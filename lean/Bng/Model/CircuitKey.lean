/-
  Model of pkg/ebpf/loader.go MakeCircuitIDKey (fixed 32-byte key: copy = truncate / zero-pad) and HashCircuitID
  (64-bit FNV-1a) and MACToUint64 (48-bit key of a hardware address), plus the monitor that judges the keys the implementation produced for distinct circuit-ids.
  Core Lean only.
-/
namespace Bng.CircuitKey

def keyLen : Nat := 32

/-- `var key [32]byte; copy(key[:], circuitID)` -/
def makeKey (cid : List UInt8) : List UInt8 :=
  cid.take keyLen ++ List.replicate (keyLen - cid.length) 0

def fnvInit : UInt64 := 0xcbf29ce484222325
def fnvPrime : UInt64 := 0x100000001b3

/-- HashCircuitID -/
def hash (cid : List UInt8) : UInt64 :=
  cid.foldl (fun h b => (h ^^^ b.toUInt64) * fnvPrime) fnvInit

/-- the domain on which the fixed-size key is injective: at most 32 bytes and no trailing zero byte -/
def keySafe (cid : List UInt8) : Bool :=
  decide (cid.length ≤ keyLen) && (cid.getLast? != some 0)

/-- MACToUint64 (pkg/ebpf/loader.go), the key of the subscriber_pools fast-path cache that pkg/dhcp/server.go writes for
    whatever hardware address (chaddr, hlen 1…16) the DHCP client sent: 0 for fewer than 6 bytes, otherwise the
    first 6 bytes big-endian (the value is below 2^48, so `Nat` arithmetic is the uint64 arithmetic). -/
def macKey (mac : List UInt8) : Nat :=
  if mac.length < 6 then 0 else (mac.take 6).foldl (fun r b => r * 256 + b.toNat) 0

/-! ## Monitor: key ↦ the circuit-id / hardware address it was produced for (observations only) -/

structure Mon where
  keys   : List (List UInt8 × List UInt8) := []
  hashes : List (Nat × List UInt8) := []
  macs   : List (Nat × List UInt8) := []

inductive Ev where
  | key (cid k : List UInt8)
  | hash (cid : List UInt8) (h : Nat)
  | mac (addr : List UInt8) (k : Nat)
  | nop

/-- verdict = (name, detail, the OTHER circuit-id involved) -/
def check (m : Mon) : Ev → Mon × List (String × String × List UInt8)
  | .key cid k =>
    ({ m with keys := if m.keys.any (fun e => e.1 == k && e.2 == cid) then m.keys else (k, cid) :: m.keys },
     (if k.length = keyLen then [] else [("range", s!"key of {k.length} bytes", [])]) ++
     (match m.keys.find? (fun e => e.1 == k && e.2 != cid) with
      | some e => [("dup-key", "two different circuit-ids were given the same fixed-size key", e.2)]
      | none => []))
  | .hash cid h =>
    ({ m with hashes := if m.hashes.any (fun e => e.1 == h && e.2 == cid) then m.hashes else (h, cid) :: m.hashes },
     match m.hashes.find? (fun e => e.1 == h && e.2 != cid) with
     | some e => [("dup-key", "two different circuit-ids were given the same 64-bit hash key", e.2)]
     | none => [])
  | .mac addr k =>
    ({ m with macs := if m.macs.any (fun e => e.1 == k && e.2 == addr) then m.macs else (k, addr) :: m.macs },
     match m.macs.find? (fun e => e.1 == k && e.2 != addr) with
     | some e => [("dup-key", "two different hardware addresses were given the same subscriber_pools key", e.2)]
     | none => [])
  | .nop => (m, [])

end Bng.CircuitKey
