import Bng.Model.PppoeServer
/-
  The timed layer over the PPPoE server model: Session.LastActivity against the idle sweep's timeout.
  `idle` holds, per live session, the whole hours since the server last accepted a session-stage frame on it
  (handleSession refreshes LastActivity after the owner check; a new session starts at 0).  The idle sweep with a
  timeout of h hours keeps exactly the sessions with idle ≤ h — which is an `In.sweep keep` of the untimed model, so
  every theorem about the untimed model holds for timed histories (`Spec.C16PppoeWhole.timed_projects`).
  The harness moves LastActivity back in whole hours and sweeps with h hours + 30 minutes, so the microseconds a
  sequence takes in real time never decide a comparison.  Core Lean only.
-/
namespace Bng.PppoeTimed
open Bng Bng.PppoeServer

structure TSrv where
  srv : Srv
  idle : AMap Nat Nat
  deriving Repr

inductive TIn where
  | frame (i : In)
  | age (hours : Nat)
  | sweepT (hours : Nat)
  deriving Repr, DecidableEq

def idleOf (t : TSrv) (sid : Nat) : Nat := (AMap.lookup t.idle sid).getD 0

/-- the sessions an idle sweep with a timeout of `h` hours keeps -/
def keepFor (t : TSrv) (h : Nat) : List Nat :=
  (t.srv.sessions.filter fun p => idleOf t p.1 ≤ h).map (·.1)

/-- the untimed input a timed input stands for -/
def untimed (t : TSrv) : TIn → Option In
  | .frame i => some i
  | .age _ => none
  | .sweepT h => some (.sweep (keepFor t h))

/-- LastActivity is refreshed by every session-stage frame that passes the owner check -/
def refreshed (t : TSrv) : In → AMap Nat Nat
  | .lcp m sid _ | .pap m sid _ _ | .ipcp m sid _ | .ip m sid =>
    if (ownerGate t.srv m sid).isSome then AMap.insert t.idle sid 0 else t.idle
  | _ => t.idle

def stepT (t : TSrv) (ti : TIn) : TSrv × List Out :=
  match ti with
  | .age n => ({ t with idle := t.srv.sessions.map fun p => (p.1, idleOf t p.1 + n) }, [])
  | .frame i =>
    let (s', outs) := step t.srv i
    ({ srv := s', idle := (refreshed t i).filter fun p => (AMap.lookup s'.sessions p.1).isSome }, outs)
  | .sweepT h =>
    let (s', outs) := step t.srv (.sweep (keepFor t h))
    ({ srv := s', idle := t.idle.filter fun p => (AMap.lookup s'.sessions p.1).isSome }, outs)

def initT (radius : Bool) (bits : Nat) : TSrv := { srv := init radius bits, idle := [] }

def runT (t : TSrv) (tis : List TIn) : TSrv := tis.foldl (fun st ti => (stepT st ti).1) t

/-- the untimed history a timed history stands for -/
def project : TSrv → List TIn → List In
  | _, [] => []
  | t, ti :: rest =>
    match untimed t ti with
    | some i => i :: project (stepT t ti).1 rest
    | none => project (stepT t ti).1 rest

end Bng.PppoeTimed
