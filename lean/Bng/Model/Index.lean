import Bng.Map
import Bng.Model.KeySpec
/-
  Bng.Index — ONE generic "primary map + secondary indexes" table, instantiated for three real Go types (C20):

    submgr     subscriber.Manager            (pkg/subscriber/manager.go)   sessions / byMAC / byIP
    stLease    state.Store leases, sessions  (pkg/state/store.go)          leases / leaseByMAC / leaseByIP,
                                                                          sessions / sessionByMAC / sessionByIP
    stSub      state.Store subscribers       (pkg/state/store.go)          subscribers / subscriberByMAC / subscriberByNTE
    stNat      state.Store NAT bindings      (pkg/state/store.go)          natBindings / natByPrivate / natByPublic
    memstore   allocator.MemoryAllocationStore (pkg/allocator/store.go)    byPool[pool][sub] / byIP

  A primary record carries its secondary key values (two slots: slot 0 = MAC, slot 1 = IP address, or NTE id for
  state.Store subscribers); there is one `AMap Nat Nat` (key value ↦ primary id) per secondary index.  A `Cfg` value
  selects the code's EXACT behaviour, bugs included:

    * insert into an index: plain overwrite (state.Store, Manager.byIP), refuse when the key is present
      (Manager.CreateSession on byMAC), refuse when the key is present and owned by another primary
      (MemoryAllocationStore.SaveAllocation on byIP);
    * create with the id of a live primary replaces the record and leaves the index entries of its old keys behind
      (state.Store Create* with a preset ID, SaveAllocation of an existing (pool, subscriber));
    * update: state.Store.UpdateLease / UpdateSession replace the record and do not touch any index;
      UpdateSubscriber deletes the old key's entry BY VALUE when the key changed and overwrites the new one;
    * Manager.AssignAddress (`setKey`) writes byIP[ip] = id and leaves the entry of a previous address behind;
    * Manager.TerminateSession is TWO critical sections with the allocator's ReleaseIPv4 between them, outside the lock:
      `tpark` is the first (the session is marked terminating and stays in every map; a further TerminateSession of it
      answers "already terminating" = `busy`, an AssignAddress for it hands the address back and answers `gone`),
      `tresume` the second (= `delete` on the record as it is then); every
      other operation may run in between.  A session without an address has nothing to release: its `tpark` runs
      both sections;
    * state.Store hands out and keeps POINTERS: every Get* returns the stored record itself, and Create*/Update* of
      leases, sessions and NAT bindings store the caller's object (subscribers: a private copy, `aliasOwn = false`).
      A field write through such a pointer is `poke`: the stored record changes, no index follows.  The caller's own
      objects are not store state — the driver keeps them (`updsame` = Update* with the kept object);
    * delete: every type deletes the index entries BY VALUE of the record's current keys, whoever they point to
      (`condDelete = false`; `true` is the repaired behaviour, used by none of the three);
    * lookup by key: index, then primary map; an entry whose primary is gone is observed as `dangling`
      (Manager returns (nil, true), state.Store returns (nil, nil)); MemoryAllocationStore.byIP holds a COPY of the
      record (`copyIdx`), so a stale entry still answers with the record as it was saved;
    * load: MemoryAllocationStore.UnmarshalJSON throws every map away and rebuilds them from the stored list IN LIST
      ORDER, overwriting byPool / byIP entry by entry with NO uniqueness check (`load`; the order is the JSON array's,
      i.e. a parameter of the operation, not Go map order).

  Not modelled: IPv6 keys (Lease.IPv6 / Session.IPv6 share the IP index; the harness leaves them nil), capacity limits
  (configured far above the driven sizes), timestamps, the expiry sweeps (same by-value deletion as Delete*).
  Primary ids are `Nat` (harness: p1, p2, … — uuids of the real code are numbered in order of creation).
  Core Lean only.
-/
namespace Bng.Index
open Bng

/-- the secondary key values carried by one primary record -/
structure Rec where
  k0 : Option Nat := none
  k1 : Option Nat := none
  deriving Repr, DecidableEq

def Rec.key (r : Rec) : Bool → Option Nat
  | false => r.k0
  | true => r.k1

def Rec.set (r : Rec) (slot : Bool) (v : Option Nat) : Rec :=
  match slot with
  | false => { r with k0 := v }
  | true => { r with k1 := v }

/-- what an insert into a secondary index does when the key is already there -/
inductive Dup where
  | overwrite
  | rejectPresent     -- refuse whenever the index has the key
  | rejectForeign     -- refuse when the index has the key for a DIFFERENT primary
  deriving Repr, DecidableEq

inductive Upd where
  | primaryOnly       -- replace the record, leave every index alone
  | reindex           -- drop the entry of a changed old key (by value), overwrite the entry of the new key
  deriving Repr, DecidableEq

inductive Op where
  /-- create / save; `id = none`: the code generates a fresh id -/
  | create (id : Option Nat) (k0 k1 : Option Nat)
  | update (id : Nat) (k0 k1 : Option Nat)
  /-- give an existing primary a (new) key in one slot (Manager.AssignAddress) -/
  | setKey (id : Nat) (slot : Bool) (v : Nat)
  | delete (id : Nat)
  | get (id : Nat)
  | byKey (slot : Bool) (v : Nat)
  | list
  /-- replace the whole table by the stored records, in list order (MemoryAllocationStore.UnmarshalJSON) -/
  | load (l : List (Nat × Rec))
  /-- first phase of Manager.TerminateSession: the first critical section marks the session `terminating`; the call then
      sits OUTSIDE the lock inside allocator.ReleaseIPv4 (parked there by the harness) — or, when the session has no
      address, there is nothing to release and the call runs straight through its second critical section -/
  | tpark (id : Nat)
  /-- second phase of a parked TerminateSession: the second critical section (indexes deleted by value, session
      removed) -/
  | tresume (id : Nat)
  /-- a field write through a pointer that ALIASES the stored record (state.Store: the object returned by Get*, and —
      for leases, sessions and NAT bindings, whose Create*/Update* store the caller's pointer — the caller's own
      object): the stored record's key in `slot` becomes `w`, no index is touched, no API is called -/
  | poke (id : Nat) (slot : Bool) (w : Option Nat)
  deriving Repr, DecidableEq

structure Cfg where
  dup0 : Dup
  dup1 : Dup
  upd : Upd
  /-- delete an index entry only while it points at the primary being removed (the repair; no real type does it) -/
  condDelete : Bool
  /-- deleting a primary that does not exist answers `ok` -/
  deleteMissingOk : Bool
  /-- the index stores a copy of the record instead of the primary id -/
  copyIdx : Bool
  /-- Create*/Update* keep the CALLER's pointer as the stored record (state.Store leases, sessions, NAT bindings);
      false: they store a private copy (state.Store subscribers).  Used by the driver: a write to the caller's own
      object is a `poke` of the stored record exactly when this is set. -/
  aliasOwn : Bool := false
  /-- the operations (and argument shapes) the Go API offers -/
  accepts : Op → Bool

def Cfg.dup (c : Cfg) : Bool → Dup
  | false => c.dup0
  | true => c.dup1

def submgrAccepts : Op → Bool
  | .create none (some _) none => true
  | .create _ _ _ => false
  | .update _ _ _ => false
  | .setKey _ slot _ => slot
  | .load _ => false
  | .poke _ _ _ => false
  | _ => true

def storeAccepts : Op → Bool
  | .setKey _ _ _ => false
  | .load _ => false
  | .tpark _ => false
  | .tresume _ => false
  | _ => true

/-- NAT bindings: both endpoints always present, no update, no listing -/
def natAccepts : Op → Bool
  | .create _ (some _) (some _) => true
  | .create _ _ _ => false
  | .update _ _ _ => false
  | .setKey _ _ _ => false
  | .list => false
  | .load _ => false
  | .tpark _ => false
  | .tresume _ => false
  | _ => true

def memAccepts : Op → Bool
  | .create (some _) none (some _) => true
  | .create _ _ _ => false
  | .update _ _ _ => false
  | .setKey _ _ _ => false
  | .byKey slot _ => slot
  | .load l => l.all fun e => e.2.k0 == none && e.2.k1 != none
  | .tpark _ => false
  | .tresume _ => false
  | .poke _ _ _ => false
  | _ => true

/-- subscriber.Manager -/
def submgr : Cfg :=
  { dup0 := .rejectPresent, dup1 := .overwrite, upd := .primaryOnly, condDelete := false,
    deleteMissingOk := false, copyIdx := false, accepts := submgrAccepts }

/-- state.Store leases and sessions -/
def stLease : Cfg :=
  { dup0 := .overwrite, dup1 := .overwrite, upd := .primaryOnly, condDelete := false,
    deleteMissingOk := false, copyIdx := false, aliasOwn := true, accepts := storeAccepts }

/-- state.Store subscribers -/
def stSub : Cfg :=
  { dup0 := .overwrite, dup1 := .overwrite, upd := .reindex, condDelete := false,
    deleteMissingOk := false, copyIdx := false, accepts := storeAccepts }

/-- state.Store NAT bindings (slot 0 = private endpoint, slot 1 = public endpoint) -/
def stNat : Cfg :=
  { dup0 := .overwrite, dup1 := .overwrite, upd := .primaryOnly, condDelete := false,
    deleteMissingOk := false, copyIdx := false, aliasOwn := true, accepts := natAccepts }

/-- allocator.MemoryAllocationStore (slot 1 = byIP; slot 0 unused) -/
def memstore : Cfg :=
  { dup0 := .overwrite, dup1 := .rejectForeign, upd := .primaryOnly, condDelete := false,
    deleteMissingOk := true, copyIdx := true, accepts := memAccepts }

structure State where
  prim : AMap Nat Rec := []
  i0 : AMap Nat Nat := []
  i1 : AMap Nat Nat := []
  /-- the next generated id (1 + the largest id ever used) -/
  next : Nat := 1
  /-- subscriber.Manager: the sessions whose TerminateSession is between its two critical sections (`terminating` set,
      still in every map) -/
  term : List Nat := []
  deriving Repr, DecidableEq

def init : State := {}

def State.idx (st : State) : Bool → AMap Nat Nat
  | false => st.i0
  | true => st.i1

inductive Obs where
  | ok
  | okId (id : Nat)
  | conflict
  | notfound
  | none
  | dangling
  /-- TerminateSession is parked between its two critical sections -/
  | parked
  /-- "session already terminating" -/
  | busy
  /-- `tresume` of a session that is not parked -/
  | noref
  /-- Manager.AssignAddress on a session that is being terminated: "session terminated during address assignment"
      (fix 9d53e2c: the address is handed back, no map is touched) -/
  | gone
  | found (id : Nat) (r : Rec)
  | ids (l : List Nat)
  | badop
  deriving Repr, DecidableEq

/-- does the duplicate policy refuse giving key `k` to primary `id`? -/
def dupBlocks (d : Dup) (i : AMap Nat Nat) (k : Option Nat) (id : Option Nat) : Bool :=
  match k with
  | none => false
  | some v =>
    match d, AMap.lookup i v with
    | .overwrite, _ => false
    | _, none => false
    | .rejectPresent, some _ => true
    | .rejectForeign, some h => id != some h

/-- `index[k] = id` when the record has a key in this slot -/
def idxPut (i : AMap Nat Nat) (k : Option Nat) (id : Nat) : AMap Nat Nat :=
  match k with
  | none => i
  | some v => AMap.insert i v id

/-- `delete(index, k)`; with `cond` only while the entry still points at `id` -/
def idxDrop (cond : Bool) (i : AMap Nat Nat) (k : Option Nat) (id : Nat) : AMap Nat Nat :=
  match k with
  | none => i
  | some v => if cond && AMap.lookup i v != some id then i else AMap.erase i v

/-- store record `e.2` under primary id `e.1` and point the indexes of its keys at it — no check of any kind -/
def putRaw (st : State) (e : Nat × Rec) : State :=
  { st with
    prim := AMap.insert st.prim e.1 e.2,
    i0 := idxPut st.i0 e.2.k0 e.1,
    i1 := idxPut st.i1 e.2.k1 e.1,
    next := if st.next ≤ e.1 then e.1 + 1 else st.next }

def create (c : Cfg) (st : State) (id? : Option Nat) (k0 k1 : Option Nat) : State × Obs :=
  if dupBlocks c.dup0 st.i0 k0 id? || dupBlocks c.dup1 st.i1 k1 id? then (st, .conflict)
  else (putRaw st (id?.getD st.next, ⟨k0, k1⟩), .okId (id?.getD st.next))

/-- UnmarshalJSON: start from empty maps and `putRaw` the stored records one after the other -/
def load (st : State) (l : List (Nat × Rec)) : State × Obs :=
  (l.foldl putRaw { next := st.next }, .ok)

/-- the index of one slot after an `Upd.reindex` update from record `old` to key `k` -/
def reindexSlot (cond : Bool) (i : AMap Nat Nat) (old k : Option Nat) (id : Nat) : AMap Nat Nat :=
  idxPut (if old = k then i else idxDrop cond i old id) k id

def update (c : Cfg) (st : State) (id : Nat) (k0 k1 : Option Nat) : State × Obs :=
  match AMap.lookup st.prim id with
  | none => (st, .notfound)
  | some old =>
    match c.upd with
    | .primaryOnly => ({ st with prim := AMap.insert st.prim id ⟨k0, k1⟩ }, .ok)
    | .reindex =>
      ({ st with prim := AMap.insert st.prim id ⟨k0, k1⟩,
                 i0 := reindexSlot c.condDelete st.i0 old.k0 k0 id,
                 i1 := reindexSlot c.condDelete st.i1 old.k1 k1 id }, .ok)

def setKey (st : State) (id : Nat) (slot : Bool) (v : Nat) : State × Obs :=
  match AMap.lookup st.prim id with
  | none => (st, .notfound)
  | some r =>
    match slot with
    | false => ({ st with prim := AMap.insert st.prim id (r.set false (some v)), i0 := AMap.insert st.i0 v id }, .ok)
    | true => ({ st with prim := AMap.insert st.prim id (r.set true (some v)), i1 := AMap.insert st.i1 v id }, .ok)

def delete (c : Cfg) (st : State) (id : Nat) : State × Obs :=
  match AMap.lookup st.prim id with
  | none => (st, if c.deleteMissingOk then .ok else .notfound)
  | some r =>
    ({ st with prim := AMap.erase st.prim id,
               i0 := idxDrop c.condDelete st.i0 r.k0 id,
               i1 := idxDrop c.condDelete st.i1 r.k1 id }, .ok)

/-- a write through an aliasing pointer: the stored record follows, the indexes do not -/
def poke (st : State) (id : Nat) (slot : Bool) (w : Option Nat) : State × Obs :=
  match AMap.lookup st.prim id with
  | none => (st, .none)
  | some r => ({ st with prim := AMap.insert st.prim id (r.set slot w) }, .ok)

/-- first critical section of Manager.TerminateSession (+ the whole call when there is no address to release) -/
def tpark (c : Cfg) (st : State) (id : Nat) : State × Obs :=
  if id ∈ st.term then (st, .busy) else
  match AMap.lookup st.prim id with
  | none => (st, .notfound)
  | some r => if r.k1 = none then delete c st id else ({ st with term := id :: st.term }, .parked)

/-- second critical section of a parked TerminateSession: exactly what `delete` does, on the record as it is NOW -/
def tresume (c : Cfg) (st : State) (id : Nat) : State × Obs :=
  if id ∈ st.term then delete c { st with term := st.term.filter (· ≠ id) } id else (st, .noref)

def get (st : State) (id : Nat) : Obs :=
  match AMap.lookup st.prim id with
  | some r => .found id r
  | none => .none

def byKey (c : Cfg) (st : State) (slot : Bool) (v : Nat) : Obs :=
  match AMap.lookup (st.idx slot) v with
  | none => .none
  | some id =>
    if c.copyIdx then .found id ((({} : Rec)).set slot (some v))
    else match AMap.lookup st.prim id with
      | some r => .found id r
      | none => .dangling

def insertSorted (n : Nat) : List Nat → List Nat
  | [] => [n]
  | m :: rest => if n ≤ m then n :: m :: rest else m :: insertSorted n rest

def sortNats (l : List Nat) : List Nat := l.foldl (fun acc n => insertSorted n acc) []

def step (c : Cfg) (st : State) (op : Op) : State × Obs :=
  if !c.accepts op then (st, .badop) else
  match op with
  | .create id k0 k1 => create c st id k0 k1
  | .update id k0 k1 => update c st id k0 k1
  | .setKey id slot v => if id ∈ st.term then (st, .gone) else setKey st id slot v
  | .delete id => if id ∈ st.term then (st, .busy) else delete c st id
  | .tpark id => tpark c st id
  | .tresume id => tresume c st id
  | .poke id slot w => poke st id slot w
  | .get id => (st, get st id)
  | .byKey slot v => (st, byKey c st slot v)
  | .list => (st, .ids (sortNats (AMap.keys st.prim)))
  | .load l => load st l

def run (c : Cfg) (st : State) (ops : List Op) : State := ops.foldl (fun s op => (step c s op).1) st

/-- the observation of the last operation of a history -/
def lastObs (c : Cfg) (st : State) : List Op → Obs
  | [] => .ok
  | [op] => (step c st op).2
  | op :: rest => lastObs c (step c st op).1 rest

/-! ## Monitor (observations only)

  The abstract table `live : primary ↦ keys` is rebuilt from what the API ACCEPTED (create / update / assign / delete
  answered ok); every lookup answer is judged against it:

    dup-key        the API gave a key to a primary while another live primary carries the same key (same slot)
    fwd-rev        a lookup by key returned nothing / a non-live primary / a primary that does not carry the key /
                   a record that differs from what was stored; or a lookup by id disagrees with the table
    release-frame  the same mismatch observed on a key of the primary deleted by the immediately preceding mutation
                   (the delete disturbed ANOTHER primary's mapping), or a key is refused as taken although no live
                   primary carries it (a released key stayed unusable)
-/

/-- the answer of a lookup by key -/
inductive Look where
  | none
  | dangling
  | found (id : Nat) (r : Rec)
  deriving Repr, DecidableEq

inductive Ev where
  /-- create / save / update answered ok: `id` now carries exactly these keys -/
  | put (id : Nat) (r : Rec)
  | setKey (id : Nat) (slot : Bool) (v : Nat)
  | deleted (id : Nat)
  /-- the API refused to give these keys to `id` (none: a new primary) as "already taken" -/
  | refused (id : Option Nat) (r : Rec)
  /-- the API said primary `id` does not exist (update / assign / delete answered notfound) -/
  | missing (id : Nat)
  | got (id : Nat) (r : Option (Nat × Rec))
  | byKey (slot : Bool) (v : Nat) (r : Look)
  | listed (ids : List Nat)
  /-- a bulk load answered ok: the table now holds exactly these records, written in this order -/
  | loaded (l : List (Nat × Rec))
  /-- the final audit of a concurrent workload that is clean by construction (no key shared, no re-keying): every
      live primary with its keys, every lookup by key over the universe, and the numbers of in-goroutine checks
      that failed (`anomalies`) and of generated ids that were handed out twice (`dupids`) -/
  | audit (live : List (Nat × Rec)) (looks : List (Bool × Nat × Look)) (anomalies dupids : Nat)
  | nop
  deriving Repr

/-- one overwrite of an index entry that was in use: `(slot, key)` was carried by the live primary `fst` when the API
    gave it to `snd` as well -/
structure Shared where
  slot : Bool
  key : Nat
  fst : Nat
  snd : Nat
  deriving Repr, DecidableEq

structure Mon where
  live : AMap Nat Rec := []
  /-- keys that were claimed by two primaries live at the same time, while at least one live primary still carries them -/
  shared : List Shared := []
  /-- `(slot, key, id)`: the accepted calls changed `id`'s key in `slot` away from or to `key` while `id` was live -/
  moved : List (Bool × Nat × Nat) := []
  /-- the primary removed by the most recent mutation, if that mutation was a delete -/
  lastDel : Option Rec := none
  deriving Repr

structure V where
  name : String
  detail : String
  /-- the secondary key the verdict is about -/
  key : Option (Bool × Nat) := none
  deriving Repr

def slotName (slot : Bool) : String := if slot then "slot1" else "slot0"

/-- live primaries carrying `v` in `slot` -/
def holders (live : AMap Nat Rec) (slot : Bool) (v : Nat) : List Nat :=
  (live.filter fun p => p.2.key slot == some v).map (·.1)

def carries (live : AMap Nat Rec) (id : Nat) (slot : Bool) (v : Nat) : Bool :=
  match AMap.lookup live id with
  | some r => r.key slot == some v
  | none => false

/-- dup-key verdicts and `shared` records for giving `k` (slot `slot`) to `id` -/
def claim (live : AMap Nat Rec) (id : Nat) (slot : Bool) (k : Option Nat) : List V × List Shared :=
  match k with
  | none => ([], [])
  | some v =>
    if carries live id slot v then ([], []) else
    let hs := (holders live slot v).filter (· ≠ id)
    (hs.map (fun h => { name := "dup-key",
                        detail := s!"{slotName slot} key {v} given to primary {id} while live primary {h} carries it",
                        key := some (slot, v) }),
     hs.map (fun h => { slot := slot, key := v, fst := h, snd := id }))

/-- the `moved` records of changing `id`'s key in `slot` from `old` to `new` -/
def rekeys (id : Nat) (slot : Bool) (old new : Option Nat) : List (Bool × Nat × Nat) :=
  if old = new then [] else
  (match old with | some v => [(slot, v, id)] | none => []) ++
  (match new with | some v => [(slot, v, id)] | none => [])

def purge (live : AMap Nat Rec) (sh : List Shared) : List Shared :=
  sh.filter fun e => !(holders live e.slot e.key).isEmpty

def frameName (m : Mon) (slot : Bool) (v : Nat) : String :=
  match m.lastDel with
  | some r => if r.key slot == some v then "release-frame" else "fwd-rev"
  | none => "fwd-rev"

def checkPut (m : Mon) (id : Nat) (r : Rec) : Mon × List V :=
  let old := (AMap.lookup m.live id).getD {}
  let wasLive := (AMap.lookup m.live id).isSome
  let (v0, s0) := claim m.live id false r.k0
  let (v1, s1) := claim m.live id true r.k1
  let live := AMap.insert m.live id r
  ({ live := live, shared := purge live (m.shared ++ s0 ++ s1),
     moved := m.moved ++ (if wasLive then rekeys id false old.k0 r.k0 ++ rekeys id true old.k1 r.k1 else []),
     lastDel := none }, v0 ++ v1)

/-- the final table of a clean-by-construction workload must be an exact bijection -/
def auditVerdicts (live : List (Nat × Rec)) (looks : List (Bool × Nat × Look)) (anomalies dupids : Nat) : List V :=
  (if (live.map (·.1)).Nodup then [] else
    [{ name := "id-unique", detail := "the final listing names one primary id twice" }]) ++
  (live.flatMap fun p => [false, true].flatMap fun s =>
    match p.2.key s with
    | none => []
    | some v =>
      (if (live.filter fun q => q.2.key s == some v).length > 1 then
        [{ name := "dup-key", detail := s!"{slotName s} key {v} is carried by two live primaries", key := some (s, v) }]
       else []) ++
      (match looks.find? (fun l => l.1 == s && l.2.1 == v) with
       | some (_, _, .found id r) =>
         if id == p.1 && r == p.2 then [] else
           [{ name := "fwd-rev", detail := s!"{slotName s} key {v} of live primary {p.1} resolves to primary {id}",
              key := some (s, v) }]
       | _ => [{ name := "fwd-rev", detail := s!"live primary {p.1} is not found by its {slotName s} key {v}",
                 key := some (s, v) }])) ++
  (looks.flatMap fun l =>
    match l.2.2 with
    | .none => []
    | .dangling => [{ name := "fwd-rev", detail := s!"the index entry of {slotName l.1} key {l.2.1} points to no primary",
                      key := some (l.1, l.2.1) }]
    | .found id r =>
      if live.any (fun q => q.1 == id && q.2 == r) && r.key l.1 == some l.2.1 then [] else
        [{ name := "fwd-rev",
           detail := s!"the index entry of {slotName l.1} key {l.2.1} points to primary {id}, which is not live with that key",
           key := some (l.1, l.2.1) }]) ++
  (if dupids = 0 then [] else
    [{ name := "id-unique", detail := s!"{dupids} generated primary ids were handed out twice" }]) ++
  (if anomalies = 0 then [] else
    [{ name := "fwd-rev", detail := s!"{anomalies} lookups inside the concurrent workload disagreed with what the caller stored" }])

def check (m : Mon) : Ev → Mon × List V
  | .put id r => checkPut m id r
  | .loaded l =>
    l.foldl (fun acc e => ((checkPut acc.1 e.1 e.2).1, acc.2 ++ (checkPut acc.1 e.1 e.2).2)) ({}, [])
  | .audit live looks anomalies dupids => (m, auditVerdicts live looks anomalies dupids)
  | .setKey id slot v =>
    match AMap.lookup m.live id with
    | none => (m, [{ name := "fwd-rev", detail := s!"a key was assigned to primary {id}, which is not live" }])
    | some old =>
      let (vs, ss) := claim m.live id slot (some v)
      let live := AMap.insert m.live id (old.set slot (some v))
      ({ live := live, shared := purge live (m.shared ++ ss),
         moved := m.moved ++ rekeys id slot (old.key slot) (some v), lastDel := none }, vs)
  | .deleted id =>
    let live := AMap.erase m.live id
    ({ m with live := live, shared := purge live m.shared, lastDel := AMap.lookup m.live id }, [])
  | .refused id r =>
    let taken := fun (slot : Bool) => match r.key slot with
      | some v => !((holders m.live slot v).filter (fun h => some h ≠ id)).isEmpty
      | none => false
    (m, if taken false || taken true then [] else
          [{ name := "release-frame",
             detail := "keys refused as already taken although no other live primary carries them",
             key := match r.k1, r.k0 with
               | some v, _ => some (true, v)
               | none, some v => some (false, v)
               | none, none => none }])
  | .missing id =>
    (m, if (AMap.lookup m.live id).isSome then
          [{ name := "fwd-rev", detail := s!"primary {id} reported as not existing although it is live" }] else [])
  | .got id r =>
    (m, if (AMap.lookup m.live id).map (fun x => (id, x)) = r then [] else
          [{ name := "fwd-rev", detail := s!"lookup of primary {id} disagrees with what was stored" }])
  | .byKey slot v r =>
    let hs := holders m.live slot v
    let bad := fun (d : String) => [{ name := frameName m slot v, detail := d, key := some (slot, v) : V }]
    (m, match r with
      | .none =>
        (match hs with
         | [] => []
         | h :: _ => bad s!"lookup by {slotName slot} key {v} found nothing although live primary {h} carries it")
      | .dangling =>
        (match hs with
         | [] => bad s!"the index entry of {slotName slot} key {v} outlived its primary"
         | h :: _ => bad s!"lookup by {slotName slot} key {v} hit a dead entry although live primary {h} carries it")
      | .found id rr =>
        (match AMap.lookup m.live id with
         | none => bad s!"lookup by {slotName slot} key {v} returned primary {id}, which is not live"
         | some want =>
           if want.key slot != some v then
             bad s!"lookup by {slotName slot} key {v} returned primary {id}, which does not carry that key"
           else if rr != want then
             bad s!"lookup by {slotName slot} key {v} returned a record of primary {id} that differs from what was stored"
           else []))
  | .listed ids =>
    (m, if ids = sortNats (AMap.keys m.live) then [] else
          [{ name := "fwd-rev", detail := "the listing of primaries disagrees with what was created and deleted" }])
  | .nop => (m, [])

/-! ## Exclusion clauses (decidable, on the monitor's own bookkeeping BEFORE the judged event)

  `exclD59` — finding D59, "secondary index overwritten without a uniqueness check and deleted by value": the failing
  lookup found NOTHING for a key that a live primary carries, that key was at some point claimed by two primaries that
  were live at the same time (the second claim overwrote the index entry), and one of the two has since given the key
  up (deleted, or re-keyed): its by-value delete took the entry the survivor depends on.

  `exclRekey` — sibling mechanism (NOT D59; reported as KF-index-rekey): an accepted call changed the key of a LIVE
  primary (UpdateLease / UpdateSession, a second AssignAddress, SaveAllocation of an existing allocation with another
  address, Create* with the id of a live record) and the index did not follow: the old key's entry stays behind
  (answers with the primary that moved away, or with a dead entry once it is deleted; a refusal "already taken"), or
  the new key was never indexed (answers nothing).
-/

def exclD59 (m : Mon) (slot : Bool) (v : Nat) (r : Look) : Bool :=
  (r == .none) && !(holders m.live slot v).isEmpty &&
  m.shared.any fun e => e.slot == slot && e.key == v && (!carries m.live e.fst slot v || !carries m.live e.snd slot v)

/-- a dup-key verdict belongs to D59 when the code path that accepted the key has no uniqueness check -/
def exclD59Dup (c : Cfg) (op : Op) (slot : Bool) : Bool :=
  match op with
  | .create _ _ _ => c.dup slot == .overwrite
  | .update _ _ _ => true
  | .setKey _ _ _ => true
  | .load _ => true
  | _ => false

/-- a further dup-key on a key whose index entry was ALREADY overwritten by a second live claimant (and is still carried
    by somebody): a uniqueness check that consults the index (SaveAllocation) is fooled by the overwritten entry -/
def exclD59Again (m : Mon) (slot : Bool) (v : Nat) : Bool :=
  m.shared.any fun e => e.slot == slot && e.key == v

def movedAt (m : Mon) (slot : Bool) (v : Nat) (p : Nat → Bool) : Bool :=
  m.moved.any fun e => e.1 == slot && e.2.1 == v && p e.2.2

def exclRekey (m : Mon) (slot : Bool) (v : Nat) (r : Look) : Bool :=
  match r with
  | .found id _ => movedAt m slot v (· == id) && !carries m.live id slot v
  | .dangling => movedAt m slot v fun id => (AMap.lookup m.live id).isNone
  | .none => (holders m.live slot v).any fun h => movedAt m slot v (· == h)

def exclRekeyRefused (m : Mon) (r : Rec) : Bool :=
  (match r.k0 with | some v => movedAt m false v (fun id => !carries m.live id false v) | none => false) ||
  (match r.k1 with | some v => movedAt m true v (fun id => !carries m.live id true v) | none => false)

/-- the clause a verdict of the monitor is attributed to (`none`: a violation outside every recorded mechanism) -/
def clauseOf (c : Cfg) (m : Mon) (op : Op) (ev : Ev) (v : V) : String :=
  match ev, v.key with
  | .byKey slot key r, some _ =>
    if exclD59 m slot key r then "D59"
    else if exclRekey m slot key r then "KF-index-rekey"
    else "none"
  | .put _ _, some (slot, key) =>
    if v.name == "dup-key" && (exclD59Dup c op slot || exclD59Again m slot key) then "D59" else "none"
  | .setKey _ _ _, some (slot, key) =>
    if v.name == "dup-key" && (exclD59Dup c op slot || exclD59Again m slot key) then "D59" else "none"
  | .loaded _, some (slot, _) => if v.name == "dup-key" && exclD59Dup c op slot then "D59" else "none"
  | .refused _ r, _ => if exclRekeyRefused m r then "KF-index-rekey" else "none"
  | _, _ => "none"

end Bng.Index
