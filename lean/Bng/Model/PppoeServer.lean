import Bng.Map
import Bng.Model.Decoders
/-
  Model of pkg/pppoe/server.go: the PPPoE access concentrator's discovery and session dispatch
  (handleDiscovery/handlePADI/handlePADR/handlePADT, handleSession → handleLCP/handlePAP/handleIPCP/
  handleIPPacket, startIPCPNegotiation, the idle sweep) at the level of well-formed frames
  (decoding of the bytes is C09's subject).  RADIUS is a parameter of the PAP operation
  (accept / reject / no answer).  `everAuthed` is a ghost field: it is set only where the code
  accepts a PAP exchange of that session, and is what the C04 theorems are about.
  Core Lean only.
-/
namespace Bng.PppoeServer
open Bng

inductive SState where
  | disc | lcp | auth | ipcp | est | term | closed
  deriving Repr, DecidableEq

structure Sess where
  id : Nat
  mac : Nat
  state : SState
  authed : Bool            -- Session.Authenticated
  ip : Option Nat          -- Session.ClientIP (last octet)
  serial : Nat             -- stands for the unique RADIUS Session-Id string (key of the IP pool)
  everAuthed : Bool        -- ghost
  deriving Repr, DecidableEq

structure Srv where
  radius : Bool
  sessions : AMap Nat Sess      -- by PPPoE session id
  nextID : Nat                  -- uint16
  avail : List Nat              -- IPPool.available
  alloc : AMap Nat Nat          -- IPPool.allocated: serial → address
  serialCtr : Nat
  deriving Repr

inductive Radius where | accept | reject | down
  deriving Repr, DecidableEq

/-- what the PAP request carries as password (the harness' RADIUS stub does not look at it, the server does) -/
inductive Pw where | good | bad | empty
  deriving Repr, DecidableEq

inductive LcpKind where | creq | cack | cnak | term | echo
  deriving Repr, DecidableEq
inductive IpcpKind where | creqIp | creqDns | creqNone | cack
  deriving Repr, DecidableEq

inductive In where
  | padi (m : Nat)
  | padr (m : Nat) (cookie : Bool)
  | padt (m sid : Nat)
  | lcp (m sid : Nat) (k : LcpKind)
  | pap (m sid : Nat) (pw : Pw) (r : Radius)
  | ipcp (m sid : Nat) (k : IpcpKind)
  | ip (m sid : Nat)
  /-- one pass of the idle sweep; `keep` = the sessions that are NOT idle past the timeout (which ones those are
      is decided by the clock: see the timed layer in `Bng.Drv.PppoeServer`) -/
  | sweep (keep : List Nat)
  deriving Repr, DecidableEq

inductive Out where
  | pado (m : Nat)
  | pads (sid m : Nat)
  | lcpreq (sid m : Nat) | lcpack (sid m : Nat) | lcptack (sid m : Nat) | lcperep (sid m : Nat)
  | papack (sid m : Nat) | papnak (sid m : Nat)
  | ipcpreq (sid m : Nat) | ipcpack (sid m : Nat) | ipcpnak (ip : Option Nat) (sid m : Nat)
  | ipcprej (sid m : Nat)    -- Configure-Reject of the IP-Address option: no address could be assigned to the session
  deriving Repr, DecidableEq

/-- NewIPPool on 10.77.0.0/bits with gateway .1: every host after the network address except the gateway
    and (for prefixes shorter than /31) the subnet's broadcast address -/
def poolAddrs (bits : Nat) : List Nat :=
  (List.range (2 ^ (32 - bits))).filter
    (fun a => a ≠ 0 ∧ a ≠ 1 ∧ (bits ≥ 31 ∨ a ≠ 2 ^ (32 - bits) - 1))

def init (radius : Bool) (bits : Nat) : Srv :=
  { radius := radius, sessions := [], nextID := 1, avail := poolAddrs bits, alloc := [], serialCtr := 0 }

/-- SessionManager.CreateSession's id search (the model shared with C09/C20: `Decoders.createSession`,
    with the "no free session ID" guard and the skip of the reserved id 0) -/
def newId (s : Srv) : Decoders.CreateOut :=
  (Decoders.createSession (fun i => (AMap.keys s.sessions).contains i) (AMap.keys s.sessions).length s.nextID).1

/-- IPPool.Allocate: the session that already holds an address keeps it -/
def poolAllocate (s : Srv) (serial : Nat) : Srv × Option Nat :=
  match AMap.lookup s.alloc serial with
  | some a => (s, some a)
  | none =>
    match s.avail with
    | [] => (s, none)
    | a :: rest => ({ s with avail := rest, alloc := AMap.insert s.alloc serial a }, some a)

/-- IPPool.Release -/
def poolRelease (s : Srv) (serial : Nat) : Srv :=
  match AMap.lookup s.alloc serial with
  | some a => { s with alloc := AMap.erase s.alloc serial, avail := s.avail ++ [a] }
  | none => s

/-- the handlers mutate the session object through the pointer stored under `sid` -/
def setSess (s : Srv) (sid : Nat) (x : Sess) : Srv := { s with sessions := AMap.insert s.sessions sid x }

/-- frames of a session are accepted from its owner only (the guard added by the fix for D16) -/
def ownerGate (s : Srv) (m sid : Nat) : Option Sess :=
  match AMap.lookup s.sessions sid with
  | some x => if x.mac = m then some x else none
  | none => none

/-- the outcome of a PAP exchange: RADIUS decides when one is configured, otherwise everybody is accepted -/
def papOk (s : Srv) (pw : Pw) (r : Radius) : Bool :=
  if s.radius then decide (pw ≠ .empty) && decide (r = .accept) else true

def step (s : Srv) : In → Srv × List Out
  | .padi m => (s, [.pado m])
  | .padr m cookie =>
    if !cookie then (s, [])
    else
      match newId s with
      | .got id nx =>
        let x : Sess := { id := id, mac := m, state := .lcp, authed := false, ip := none,
                          serial := s.serialCtr, everAuthed := false }
        ({ s with sessions := AMap.insert s.sessions id x, nextID := nx,
                  serialCtr := s.serialCtr + 1 },
         [.pads id m, .lcpreq id m])
      | _ => (s, [])       -- table full (the search cannot spin: `Decoders.createSession_spec`)
  | .padt m sid =>
    match ownerGate s m sid with
    | none => (s, [])
    | some x =>
      let s1 := poolRelease s x.serial
      ({ s1 with sessions := AMap.erase s1.sessions sid }, [])
  | .lcp m sid k =>
    match ownerGate s m sid with
    | none => (s, [])
    | some x =>
      match k with
      | .creq => (s, [.lcpack sid x.mac])
      | .cack => (setSess s sid { x with state := .auth }, [])
      | .cnak => (s, [.lcpreq sid x.mac])
      | .echo => (s, [.lcperep sid x.mac])
      | .term =>
        let s1 := poolRelease s x.serial
        ({ s1 with sessions := AMap.erase s1.sessions sid }, [.lcptack sid x.mac])
  | .pap m sid pw r =>
    match ownerGate s m sid with
    | none => (s, [])
    | some x =>
      if papOk s pw r then
        let (s1, ip) := poolAllocate s x.serial
        let x1 : Sess := { x with authed := true, state := .ipcp, ip := ip, everAuthed := true }
        (setSess s1 sid x1, if ip.isSome then [.papack sid x.mac, .ipcpreq sid x.mac] else [.papack sid x.mac])
      else
        -- authentication failure ends the session: address back to the pool, session removed
        let s1 := poolRelease s x.serial
        ({ s1 with sessions := AMap.erase s1.sessions sid }, [.papnak sid x.mac])
  | .ipcp m sid k =>
    match ownerGate s m sid with
    | none => (s, [])
    | some x =>
      if !x.authed then (s, [])      -- the guard added by the fix for D15
      else
        match k with
        -- a session without an assigned address (pool exhausted) may not pick its own: the option is rejected (fix D65)
        | .creqIp => (s, [if x.ip.isSome then .ipcpnak x.ip sid x.mac else .ipcprej sid x.mac])
        | .creqDns => (s, [.ipcpnak none sid x.mac])
        | .creqNone => (s, [.ipcpack sid x.mac])
        | .cack => (setSess s sid { x with state := .est }, [])
  | .ip _ _ => (s, [])
  | .sweep keep => ({ s with sessions := s.sessions.filter (fun p => keep.contains p.1) }, [])

def run (s : Srv) (ins : List In) : Srv := ins.foldl (fun st i => (step st i).1) s

end Bng.PppoeServer
