/-
  Generic executable model of the RFC 1661 option-negotiation automaton as implemented three times in
  /repo/pkg/pppoe/{lcp,ipcp,ipv6cp}.go  (LCPStateMachine, IPCPStateMachine, IPV6CPStateMachine).

  * The TRANSITION TABLES are not written here: `Tables` is the vocabulary in which
    harness/cmd/extractfsm (go/ast over the Go source) emits  Bng/Gen/Fsm{Lcp,Ipcp,Ipv6cp}.lean  on every
    run; this file interprets them.
  * Hand-written: option classification (`processConfigureOptions`), the Configure-Request contents,
    identifier arithmetic (UInt8, wraps), the restart counter (Int, goes negative in the code), the restart
    timer (arming creates an instance; `stale` delivers the expiry of an instance that was stopped), the
    LCP-only codes (Code-Reject, Protocol-Reject, Echo), and the ghost state of property C11.

  Core Lean only (linked into bngdrv-ncp).
-/
namespace Bng.Ncp

/-! ## vocabulary shared with the generated tables -/

inductive St
  | Initial | Starting | Closed | Stopped | Closing | Stopping | ReqSent | AckRcvd | AckSent | Opened
  deriving DecidableEq, Repr, Inhabited

/-- the event methods of the Go state machines (`close` = `closeInternal`) -/
inductive Handler
  | up | down | open | close | rcr | rca | rcn | rcj | rtr | rta | timeout
  deriving DecidableEq, Repr

/-- the two conditions the Go switch bodies test -/
structure Cond where
  /-- `respCode == LCPCodeConfigAck` (receiveConfigureRequest) -/
  respAck : Bool
  /-- `restartCount > 0` (timeout) -/
  rcPos : Bool
  deriving DecidableEq, Repr

/-- calls found in the `case` bodies -/
inductive Action
  | irc                 -- initializeRestartCount()
  | zrc                 -- zeroRestartCount()
  | scr                 -- sendConfigureRequest()
  | str                 -- sendTerminateRequest(reason)
  | sta                 -- sendTerminateAck(pkt.Identifier)
  | setState (s : St)   -- setState(XStateY)
  | stopTimer           -- stopTimer() inside a branch of timeout()
  deriving DecidableEq, Repr

/-- statements of a handler before its `switch m.state` -/
inductive Pre
  | guardId      -- if pkt.Identifier != m.lastIdentifier { return nil }
  | stopTimer    -- m.stopTimer()
  | parseAbort   -- opts, err := ParseLCPOptions(pkt.Data); if err != nil { return … }
  | parseLax     -- opts, _ := ParseLCPOptions(pkt.Data)
  | reply        -- processConfigureOptions + Ack/Nak/Reject selection + sendPacket (hand-modelled block)
  | applyOpts    -- `for _, opt := range opts { … }` touching only negotiated/config option fields
  | incFailure   -- m.failureCount++
  | allocPeer    -- IPCP Up(): allocate from IPPool when no static address
  | releasePeer  -- IPCP Down(): release to IPPool
  deriving DecidableEq, Repr

/-- statements of the three send helpers that matter to the automaton, in source order -/
inductive Eff
  | incId        -- m.identifier++
  | setLastId    -- m.lastIdentifier = m.identifier
  | send         -- m.sendPacket(…)
  | startTimer   -- m.startTimer()
  | decRc        -- m.restartCount--
  deriving DecidableEq, Repr

inductive Send | scr | str | sta
  deriving DecidableEq, Repr

/-- what the translator emits for one Go file -/
structure Tables where
  table : Handler → St → Cond → List Action
  pre : Handler → List Pre
  effs : Send → List Eff
  /-- `ReceivePacket`: packet code → handler -/
  dispatch : List (Nat × Handler)
  /-- packet codes `ReceivePacket` has a `case` for but which are not automaton handlers (LCP: 7…11) -/
  extra : List Nat
  /-- the `default:` branch of `ReceivePacket` sends a Code-Reject -/
  unknownRejects : Bool

/-! ## options -/

inductive Proto | lcp | ipcp | ipv6cp
  deriving DecidableEq, Repr

/-- A value that is random in the implementation is symbolic here: `ours` = equal to the automaton's own
    current magic number / interface identifier, `rnd` = freshly drawn from crypto/rand. -/
inductive Sym | conc | ours | rnd
  deriving DecidableEq, Repr

structure Opt where
  ty : Nat
  data : List Nat := []
  sym : Sym := .conc
  deriving DecidableEq, Repr

structure Cfg where
  proto : Proto
  /-- LCP: `MaxConfigure`; IPCP/IPv6CP: `MaxRetransmit` -/
  maxConf : Int
  /-- LCP: data of the Authentication-Protocol option we request -/
  auth : List Nat := [0xc0, 0x23]
  mru : Nat := 1492
  pfc : Bool := false
  acfc : Bool := false
  /-- IPCP: our address, the address assigned to the peer, DNS servers (4 bytes each) -/
  localIP : Option (List Nat) := none
  peerIP : Option (List Nat) := none
  dns1 : Option (List Nat) := none
  dns2 : Option (List Nat) := none
  /-- IPCP: an IPPool is configured (its answers are parameters: `Ev.poolNext`) -/
  pool : Bool := false
  deriving Repr

/-- the value `initializeRestartCount()` stores -/
def initRc (c : Cfg) : Int :=
  match c.proto with
  | .lcp => c.maxConf
  | _ => if c.maxConf = 0 then 10 else c.maxConf

inductive Verdict
  | ack
  | nak (o : Opt)
  | rej
  deriving DecidableEq, Repr

def allZero (l : List Nat) : Bool := l.all (· == 0)

def be16 (l : List Nat) : Nat :=
  match l with
  | a :: b :: _ => a * 256 + b
  | _ => 0

/-- one iteration of LCP `processConfigureOptions`; the flag says that a magic-number collision has already
    made the automaton draw a new magic number during this packet -/
def lcpClass1 (collided : Bool) (o : Opt) : Verdict :=
  if o.ty = 1 then
    if o.data.length ≠ 2 then .rej
    else if 64 ≤ be16 o.data ∧ be16 o.data ≤ 1492 then .ack
    else if be16 o.data < 64 then .nak { ty := 1, data := [0, 64] }
    else .nak { ty := 1, data := [0x05, 0xd4] }
  else if o.ty = 3 then .rej
  else if o.ty = 5 then
    if o.sym = .ours then (if collided then .ack else .nak { ty := 5, sym := .rnd })
    else if o.data.length ≠ 4 then .rej
    else if allZero o.data then .nak { ty := 5, sym := .rnd }
    else .ack
  else if o.ty = 7 ∨ o.ty = 8 then
    if o.data.length ≠ 0 then .rej else .ack
  else .rej

/-- one iteration of IPCP `processConfigureOptions` -/
def ipcpClass1 (c : Cfg) (o : Opt) : Verdict :=
  if o.ty = 3 then
    if o.data.length ≠ 4 then .rej
    else
      match c.peerIP with
      | none => .rej
      | some a => if allZero o.data then .nak { ty := 3, data := a } else if o.data = a then .ack else .nak { ty := 3, data := a }
  else if o.ty = 129 then
    if o.data.length ≠ 4 then .rej
    else if allZero o.data then
      match c.dns1 with
      | some d => .nak { ty := 129, data := d }
      | none => .ack
    else .ack
  else if o.ty = 131 then
    if o.data.length ≠ 4 then .rej
    else if allZero o.data then
      match c.dns2 with
      | some d => .nak { ty := 131, data := d }
      | none => .ack
    else .ack
  else .rej

/-- one iteration of IPv6CP `processConfigureOptions` -/
def ipv6cpClass1 (collided : Bool) (o : Opt) : Verdict :=
  if o.ty = 1 then
    if o.sym = .ours then (if collided then .ack else .nak { ty := 1, sym := .rnd })
    else if o.data.length ≠ 8 then .rej
    else if allZero o.data then .nak { ty := 1, sym := .rnd }
    else .ack
  else .rej

/-- the option equals the automaton's own magic number / interface identifier: the automaton draws a new one -/
def collides (c : Cfg) (o : Opt) : Bool :=
  match c.proto with
  | .lcp => o.ty == 5 && o.sym == .ours
  | .ipcp => false
  | .ipv6cp => o.ty == 1 && o.sym == .ours

def verdict1 (c : Cfg) (collided : Bool) (o : Opt) : Verdict :=
  match c.proto with
  | .lcp => lcpClass1 collided o
  | .ipcp => ipcpClass1 c o
  | .ipv6cp => ipv6cpClass1 collided o

def class1 (c : Cfg) (collided : Bool) (o : Opt) : Verdict × Bool :=
  (verdict1 c collided o, collided || collides c o)

/-- the verdict for every option of a request, in order -/
def verdicts (c : Cfg) : Bool → List Opt → List Verdict
  | _, [] => []
  | col, o :: os => let (v, col') := class1 c col o; v :: verdicts c col' os

def acks : List Opt → List Verdict → List Opt
  | o :: os, .ack :: vs => o :: acks os vs
  | _ :: os, _ :: vs => acks os vs
  | _, _ => []

def naks : List Verdict → List Opt
  | .nak n :: vs => n :: naks vs
  | _ :: vs => naks vs
  | [] => []

def rejs : List Opt → List Verdict → List Opt
  | o :: os, .rej :: vs => o :: rejs os vs
  | _ :: os, _ :: vs => rejs os vs
  | _, _ => []

/-! ### what the property calls an "offending" option, stated without reference to the classifier -/

/-- an option the automaton does not negotiate at all: unknown type, wrong length, a feature it refuses, or (IPCP)
    an address although none is assigned to the session -/
def unsupported (c : Cfg) (o : Opt) : Prop :=
  match c.proto with
  | .lcp => (o.ty = 1 ∧ o.data.length ≠ 2) ∨ o.ty = 3 ∨ (o.ty = 5 ∧ o.sym ≠ .ours ∧ o.data.length ≠ 4) ∨
      ((o.ty = 7 ∨ o.ty = 8) ∧ o.data.length ≠ 0) ∨ (o.ty ≠ 1 ∧ o.ty ≠ 3 ∧ o.ty ≠ 5 ∧ o.ty ≠ 7 ∧ o.ty ≠ 8)
  | .ipcp => (o.ty = 3 ∧ (o.data.length ≠ 4 ∨ c.peerIP = none)) ∨
      ((o.ty = 129 ∨ o.ty = 131) ∧ o.data.length ≠ 4) ∨ (o.ty ≠ 3 ∧ o.ty ≠ 129 ∧ o.ty ≠ 131)
  | .ipv6cp => (o.ty = 1 ∧ o.sym ≠ .ours ∧ o.data.length ≠ 8) ∨ o.ty ≠ 1

/-- a well-formed, negotiable option whose value the automaton will not accept -/
def nakable (c : Cfg) (o : Opt) : Prop :=
  match c.proto with
  | .lcp => (o.ty = 1 ∧ o.data.length = 2 ∧ (be16 o.data < 64 ∨ 1492 < be16 o.data)) ∨
      (o.ty = 5 ∧ (o.sym = .ours ∨ (o.data.length = 4 ∧ allZero o.data = true)))
  | .ipcp => (o.ty = 3 ∧ o.data.length = 4 ∧ ∃ a, c.peerIP = some a ∧ (allZero o.data = true ∨ o.data ≠ a)) ∨
      (o.ty = 129 ∧ o.data.length = 4 ∧ allZero o.data = true ∧ c.dns1.isSome = true) ∨
      (o.ty = 131 ∧ o.data.length = 4 ∧ allZero o.data = true ∧ c.dns2.isSome = true)
  | .ipv6cp => o.ty = 1 ∧ (o.sym = .ours ∨ (o.data.length = 8 ∧ allZero o.data = true))

/-- packet codes -/
def cCR : Nat := 1
def cCA : Nat := 2
def cCN : Nat := 3
def cCJ : Nat := 4
def cTR : Nat := 5
def cTA : Nat := 6
def cXJ : Nat := 7
def cPJ : Nat := 8
def cEQ : Nat := 9
def cER : Nat := 10

structure Pkt where
  code : Nat
  id : UInt8
  opts : List Opt := []
  deriving DecidableEq, Repr

/-- the reply `receiveConfigureRequest` sends: Reject if anything is rejected, else Nak, else Ack -/
def replyTo (c : Cfg) (id : UInt8) (opts : List Opt) : Pkt :=
  let vs := verdicts c false opts
  let j := rejs opts vs
  let n := naks vs
  if !j.isEmpty then { code := cCJ, id := id, opts := j }
  else if !n.isEmpty then { code := cCN, id := id, opts := n }
  else { code := cCA, id := id, opts := acks opts vs }

def isAck (c : Cfg) (opts : List Opt) : Bool := (replyTo c 0 opts).code == cCA

/-! ## state -/

structure State where
  st : St := .Initial
  rc : Int := 0
  ident : UInt8 := 0
  lastId : UInt8 := 0
  /-- a restart-timer instance is armed and has not fired -/
  armed : Bool := false
  /-- ghost: the peer acknowledged the identifier of our most recent Configure-Request -/
  our : Bool := false
  /-- ghost: we acknowledged the peer's most recent Configure-Request -/
  peer : Bool := false
  -- option values that later Configure-Requests carry
  localMRU : Nat := 1492
  pfc : Bool := false
  acfc : Bool := false
  localIP : Option (List Nat) := none
  /-- IPv6CP negotiated.LocalInterfaceID: `none` = still our own (symbolic), `some b` = the peer's suggestion -/
  localIfid : Option (List Nat) := none
  /-- IPCP `config.PeerIP`: the address the automaton believes it may acknowledge -/
  peerIP : Option (List Nat) := none
  /-- IPCP `negotiated.PeerIP != nil` -/
  negPeer : Bool := false
  /-- ghost: the address that IS assigned to the session — configured statically / by SetPeerIP, or held in the
      pool for this session; none once `IPPool.Release(sessionID)` has been called -/
  assigned : Option (List Nat) := none
  /-- what `IPPool.Allocate(sessionID)` answers next (an external call: a parameter, set by `Ev.poolNext`) -/
  poolNext : Option (List Nat) := none
  deriving Repr

def init (c : Cfg) : State :=
  { localMRU := c.mru, pfc := c.pfc, acfc := c.acfc, localIP := c.localIP, peerIP := c.peerIP, assigned := c.peerIP }

/-- the configuration in force in state `s`: `config.PeerIP` is mutable (pool allocation, SetPeerIP) -/
def effCfg (c : Cfg) (s : State) : Cfg := { c with peerIP := s.peerIP }

/-- options of the Configure-Request `sendConfigureRequest()` builds -/
def crOpts (c : Cfg) (s : State) : List Opt :=
  match c.proto with
  | .lcp =>
    [{ ty := 1, data := [s.localMRU / 256, s.localMRU % 256] }, { ty := 5, sym := .ours }, { ty := 3, data := c.auth }]
      ++ (if s.pfc then [{ ty := 7 }] else []) ++ (if s.acfc then [{ ty := 8 }] else [])
  | .ipcp =>
    match s.localIP with
    | some a => [{ ty := 3, data := a }]
    | none => []
  | .ipv6cp =>
    match s.localIfid with
    | some b => [{ ty := 1, data := b }]
    | none => [{ ty := 1, sym := .ours }]

/-- the option loop of receiveConfigureNak -/
def applyNak (c : Cfg) (s : State) (o : Opt) : State :=
  match c.proto with
  | .lcp =>
    if o.ty = 1 ∧ o.data.length ≥ 2 ∧ 64 ≤ be16 o.data ∧ be16 o.data ≤ 1492 then { s with localMRU := be16 o.data }
    else s
  | .ipcp => if o.ty = 3 ∧ o.data.length = 4 then { s with localIP := some o.data } else s
  | .ipv6cp =>
    if o.ty = 1 then
      match o.sym with
      | .ours => { s with localIfid := none }
      | _ => if o.data.length = 8 then { s with localIfid := some o.data } else s
    else s

/-- the option loop of receiveConfigureReject -/
def applyRej (c : Cfg) (s : State) (o : Opt) : State :=
  match c.proto with
  | .lcp => if o.ty = 7 then { s with pfc := false } else if o.ty = 8 then { s with acfc := false } else s
  | _ => s

/-- per-event context: the received packet -/
structure Ctx where
  id : UInt8 := 0
  opts : List Opt := []
  /-- the option bytes do not parse (`ParseLCPOptions` fails) -/
  bad : Bool := false

/-- intermediate result while a handler runs -/
structure Run where
  s : State
  out : List Pkt := []
  /-- false after an early `return` -/
  cont : Bool := true
  /-- the handler returned an error -/
  err : Bool := false
  respAck : Bool := false
  /-- what `opts` holds -/
  opts : List Opt := []
  /-- invocations of the onStateChange callback (old, new) -/
  trans : List (St × St) := []
  /-- calls made to the IPPool: `some a` = Allocate answered a (`some []` = nil), `none` = Release -/
  pool : List (Option (List Nat)) := []

def mkPkt (k : Send) (c : Cfg) (x : Ctx) (s : State) : Pkt :=
  match k with
  | .scr => { code := cCR, id := s.ident, opts := crOpts c s }
  | .str => { code := cTR, id := s.ident }
  | .sta => { code := cTA, id := x.id }

def doEff (k : Send) (c : Cfg) (x : Ctx) (r : Run) : Eff → Run
  | .incId => { r with s := { r.s with ident := r.s.ident + 1 } }
  | .setLastId => { r with s := { r.s with lastId := r.s.ident, our := false } }
  | .send => { r with out := r.out ++ [mkPkt k c x r.s] }
  | .startTimer => { r with s := { r.s with armed := true } }
  | .decRc => { r with s := { r.s with rc := r.s.rc - 1 } }

def doSend (T : Tables) (k : Send) (c : Cfg) (x : Ctx) (r : Run) : Run :=
  (T.effs k).foldl (doEff k c x) r

def doAct (T : Tables) (c : Cfg) (x : Ctx) (r : Run) : Action → Run
  | .irc => { r with s := { r.s with rc := initRc c } }
  | .zrc => { r with s := { r.s with rc := 0 } }
  | .scr => doSend T .scr c x r
  | .str => doSend T .str c x r
  | .sta => doSend T .sta c x r
  | .setState q => { r with s := { r.s with st := q }, trans := r.trans ++ [(r.s.st, q)] }
  | .stopTimer => { r with s := { r.s with armed := false } }

def doPre (c : Cfg) (h : Handler) (x : Ctx) (r : Run) (p : Pre) : Run :=
  if !r.cont then r else
  match p with
  | .guardId => if x.id == r.s.lastId then r else { r with cont := false }
  | .stopTimer => { r with s := { r.s with armed := false } }
  | .parseAbort => if x.bad then { r with cont := false, err := true } else r
  | .parseLax => if x.bad then { r with opts := [] } else r
  | .reply =>
    let p := replyTo c x.id x.opts
    -- an IPv6CP interface-identifier collision makes the automaton draw a new identifier of its own
    let ifid := if c.proto == .ipv6cp && x.opts.any (fun o => o.ty == 1 && o.sym == .ours) then none else r.s.localIfid
    -- IPCP stores an accepted address in negotiated.PeerIP while classifying, whatever the final reply is
    let neg := r.s.negPeer || (c.proto == .ipcp && (List.zip x.opts (verdicts c false x.opts)).any fun ov => ov.1.ty == 3 && ov.2 == .ack)
    { r with out := r.out ++ [p], respAck := p.code == cCA,
             s := { r.s with peer := p.code == cCA, localIfid := ifid, negPeer := neg } }
  | .applyOpts =>
    match h with
    | .rcn => { r with s := r.opts.foldl (applyNak c) r.s }
    | .rcj => { r with s := r.opts.foldl (applyRej c) r.s }
    | _ => r
  | .incFailure => r
  | .allocPeer =>
    -- Up(): `if config.PeerIP == nil && config.IPPool != nil { config.PeerIP = IPPool.Allocate(id); negotiated.PeerIP = config.PeerIP }`
    if r.s.peerIP.isNone && c.pool then
      match r.s.poolNext with
      | some a => { r with pool := r.pool ++ [some a],
                           s := { r.s with peerIP := some a, negPeer := true, assigned := some a } }
      | none => { r with pool := r.pool ++ [some []], s := { r.s with negPeer := false } }
    else r
  | .releasePeer =>
    -- Down(): `if config.IPPool != nil && negotiated.PeerIP != nil { IPPool.Release(id); config.PeerIP = nil; negotiated.PeerIP = nil }`
    if c.pool && r.s.negPeer then
      { r with pool := r.pool ++ [none],
               s := { r.s with peerIP := none, negPeer := false, assigned := none } }
    else r

def runHandler (T : Tables) (c : Cfg) (h : Handler) (x : Ctx) (s : State) : Run :=
  let r1 := (T.pre h).foldl (doPre c h x) { s := s, opts := x.opts }
  if !r1.cont then r1
  else (T.table h r1.s.st ⟨r1.respAck, decide (r1.s.rc > 0)⟩).foldl (doAct T c x) r1

/-! ## events -/

inductive Ev
  | up | down | open | close
  /-- the armed restart-timer instance expires -/
  | timeout
  /-- the callback of an instance that was stopped (or replaced) runs all the same: `time.AfterFunc` racing `Stop` -/
  | stale
  | rcr (id : UInt8) (opts : List Opt) (bad : Bool)
  | rca (id : UInt8)
  | rcn (id : UInt8) (opts : List Opt) (bad : Bool)
  | rcj (id : UInt8) (opts : List Opt) (bad : Bool)
  | rtr (id : UInt8)
  | rta (id : UInt8)
  /-- Code-Reject whose data starts with `code` (none: empty data) -/
  | codeRej (id : UInt8) (code : Option Nat)
  /-- Protocol-Reject naming `proto` (none: fewer than two data bytes) -/
  | protoRej (id : UInt8) (proto : Option Nat)
  /-- Echo-Request; `data` = the bytes after the 4-byte magic number -/
  | echoReq (id : UInt8) (data : List Nat)
  /-- any other code (Echo-Reply, Discard-Request, unassigned) -/
  | other (code : Nat) (id : UInt8)
  /-- API calls `SendEchoRequest()`, `SendProtocolReject()` (LCP only) -/
  | sendEcho | sendProtoRej
  /-- API call `SetPeerIP(ip)` (IPCP); none = nil -/
  | setPeer (a : Option (List Nat))
  /-- the pool's next answer to `Allocate` changes (other sessions took or returned addresses) -/
  | poolNext (a : Option (List Nat))
  deriving Repr

structure Obs where
  out : List Pkt := []
  err : Bool := false
  trans : List (St × St) := []
  pool : List (Option (List Nat)) := []
  deriving Repr

def fin (r : Run) : State × Obs := (r.s, { out := r.out, err := r.err, trans := r.trans, pool := r.pool })

/-- a packet whose code `ReceivePacket` dispatches to an automaton handler -/
def recv (T : Tables) (c : Cfg) (code : Nat) (x : Ctx) (s0 : State) : State × Obs :=
  -- ghost: a Configure-Ack carrying the identifier of our most recent Configure-Request acknowledges it
  let s := if code == cCA && x.id == s0.lastId then { s0 with our := true } else s0
  match T.dispatch.lookup code with
  | some h => fin (runHandler T c h x s)
  | none =>
    if T.extra.contains code then (s, {})
    else if T.unknownRejects then
      let s' := { s with ident := s.ident + 1 }
      (s', { out := [{ code := cXJ, id := s'.ident }] })
    else (s, {})

/-- one event under a FIXED configuration `c` (see `step`) -/
def step0 (T : Tables) (c : Cfg) (s : State) : Ev → State × Obs
  | .up => fin (runHandler T c .up {} s)
  | .down => fin (runHandler T c .down {} { s with our := false, peer := false })
  | .open => fin (runHandler T c .open {} s)
  | .close => fin (runHandler T c .close {} s)
  | .timeout => if s.armed then fin (runHandler T c .timeout {} { s with armed := false }) else (s, {})
  | .stale => fin (runHandler T c .timeout {} s)
  | .rcr id opts bad => recv T c cCR { id := id, opts := opts, bad := bad } s
  | .rca id => recv T c cCA { id := id } s
  | .rcn id opts bad => recv T c cCN { id := id, opts := opts, bad := bad } s
  | .rcj id opts bad => recv T c cCJ { id := id, opts := opts, bad := bad } s
  | .rtr id => recv T c cTR { id := id } s
  | .rta id => recv T c cTA { id := id } s
  | .codeRej id code =>
    if T.extra.contains cXJ then
      match code with
      | some k => if 1 ≤ k ∧ k ≤ 4 then fin (runHandler T c .close { id := id } s) else (s, {})
      | none => (s, {})
    else recv T c cXJ { id := id } s
  | .protoRej id proto =>
    if T.extra.contains cPJ then
      match proto with
      | some p => if p = 0xc021 then fin (runHandler T c .close { id := id } s) else (s, {})
      | none => (s, {})
    else recv T c cPJ { id := id } s
  | .echoReq id data =>
    if T.extra.contains cEQ then
      if s.st = .Opened then (s, { out := [{ code := cER, id := id, opts := [{ ty := 0, data := data }] }] })
      else (s, {})
    else recv T c cEQ { id := id } s
  | .other code id => recv T c code { id := id } s
  | .sendEcho =>
    if c.proto = .lcp ∧ s.st = .Opened then
      let s' := { s with ident := s.ident + 1 }
      (s', { out := [{ code := cEQ, id := s'.ident }] })
    else (s, {})
  | .sendProtoRej =>
    if c.proto = .lcp then
      let s' := { s with ident := s.ident + 1 }
      (s', { out := [{ code := cPJ, id := s'.ident }] })
    else (s, {})
  | .setPeer a =>
    if c.proto = .ipcp then
      ({ s with peerIP := a, negPeer := a.isSome, assigned := a }, {})
    else (s, {})
  | .poolNext a => ({ s with poolNext := a }, {})

/-- one event: the handlers see the configuration in force when the event arrives -/
def step (T : Tables) (c : Cfg) (s : State) (e : Ev) : State × Obs := step0 T (effCfg c s) s e

def run (T : Tables) (c : Cfg) : State → List Ev → State
  | s, [] => s
  | s, e :: es => run T c (step T c s e).1 es

/-! ## the monitor: judges the IMPLEMENTATION's observations (state after each event, timer, packets sent,
       pool calls, whether an Ack's bytes equal the request's) -/

/-- the states in which the automaton waits for the peer and relies on the restart timer to get out -/
def waiting : St → Bool
  | .Closing | .Stopping | .ReqSent | .AckRcvd | .AckSent => true
  | _ => false

structure Mon where
  /-- the previous observation already showed a timer-driven state without a running timer -/
  stuck : Bool := false
  lastCR : Option UInt8 := none
  our : Bool := false
  peer : Bool := false
  prev : String := "Initial"
  /-- Configure- and Terminate-Requests sent since (and including) the last event that came from the peer or the
      administrator -/
  tx : Nat := 0
  /-- the address assigned to the session, from the configuration, SetPeerIP and the pool calls observed -/
  assigned : Option (List Nat) := none

/-- what the monitor needs to know about an operation -/
inductive MEv
  | up | open | down | close | timeout | stale
  | rcr (id : UInt8) (opts : List Opt) (bad : Bool)
  | rca (id : UInt8)
  | rcnj (id : UInt8) (leaves : Bool)   -- leaves: the options parse, or the handler does not insist that they do
  | rtr (id : UInt8) | rta
  | critRej
  | echo (id : UInt8)
  | setPeer (a : Option (List Nat))
  | peerPkt      -- any other packet from the peer
  | local        -- an API call that is neither administrative nor from the peer
  deriving Repr

structure MObs where
  st : String
  armed : Bool
  ackBytesOk : Bool
  pool : List (Option (List Nat))
  out : List Pkt
  /-- the observation reports the timer (false for the observer `isopened`) -/
  timerKnown : Bool := true
  /-- the operation is a packet whose handler calls stopTimer() before its state switch (read off the generated
      table): the mechanism of finding KF-ncp-timer-stopped-early -/
  handlerStops : Bool := false

def isReplyCode (k : Nat) : Bool := k == cCA || k == cCN || k == cCJ || k == cTA || k == cER

/-- the options of a request the classifier does not acknowledge -/
def offending (c : Cfg) (opts : List Opt) : List Opt :=
  (List.zip opts (verdicts c false opts)).filterMap fun (o, v) => match v with | .ack => none | _ => some o

def sublistB [DecidableEq α] : List α → List α → Bool
  | [], _ => true
  | _ :: _, [] => false
  | a :: as, b :: bs => if a = b then sublistB as bs else sublistB (a :: as) bs

def applyPoolObs (m : Mon) : List (Option (List Nat)) → Mon
  | [] => m
  | some [] :: rest => applyPoolObs m rest
  | some a :: rest => applyPoolObs { m with assigned := some a } rest
  | none :: rest => applyPoolObs { m with assigned := none } rest

/-- verdicts `(clause, detail)` for one observed step; `c` carries the static configuration -/
def Mon.check (c : Cfg) (m : Mon) (e : MEv) (o : MObs) : Mon × List (String × String × String) :=
  let out := o.out
  let stNow := o.st
  let leaving : Bool := match e with
    | .down | .close | .rtr _ | .rta | .critRej => true
    | .rcr _ _ bad => !bad
    | .rca id => some id == m.lastCR
    | .rcnj id leaves => leaves && some id == m.lastCR
    | _ => false
  let our1 := match e with
    | .rca id => m.our || some id == m.lastCR
    | .down => false
    | _ => m.our
  let peer1 := match e with
    | .rcr id _ false => out.any fun p => p.code == cCA && p.id == id
    | .down => false
    | _ => m.peer
  let crs := out.filter fun p => p.code == cCR
  let our2 := if crs.isEmpty then our1 else false
  let lastCR := match crs.getLast? with | some p => some p.id | none => m.lastCR
  let reqId : Option UInt8 := match e with
    | .rcr id _ _ => some id | .rca id => some id | .rcnj id _ => some id | .rtr id => some id | .echo id => some id | _ => none
  -- the assignment in force while the event was handled: SetPeerIP first, pool calls of this event included
  let m1 : Mon := match e with
    | .setPeer a => { m with assigned := a }
    | _ => m
  -- (an Ack is sent before any pool call of the same event can happen: Up/Down send no Ack)
  let v1 := if stNow == "Opened" && !(our2 && peer1) then
      [("opened-without-agreement", s!"our={our2} peer={peer1}")] else []
  let v2 := if m.prev == "Opened" && leaving && stNow == "Opened" then [("stays-opened", "still Opened")] else []
  let v3 := match reqId with
    | some id => if out.any fun p => isReplyCode p.code && p.id != id then [("id-mismatch", s!"request id {id}")] else []
    | none => if out.any fun p => isReplyCode p.code then [("id-mismatch", "reply to nothing")] else []
  -- "offending" is judged against the address assigned to the session now
  let c := { c with peerIP := m1.assigned }
  let v4 := match e with
    | .rcr _ opts false =>
      (if out.any fun p => p.code == cCA && p.opts != opts then [("ack-options", "ack differs from request")] else []) ++
      (if out.any fun p => p.code == cCJ && !(sublistB p.opts (offending c opts)) then
          [("nak-options", "reject lists a non-offending option")] else []) ++
      (if out.any fun p => p.code == cCN && !(sublistB (p.opts.map (·.ty)) ((offending c opts).map (·.ty))) then
          [("nak-options", "nak lists a non-offending option")] else [])
    | _ => []
  let v4b := if !o.ackBytesOk then [("ack-options", "the bytes of the Ack differ from the bytes of the request")] else []
  let v4c := if c.proto == .ipcp && out.any (fun p => p.code == cCA && p.opts.any fun q => q.ty == 3 && some q.data != m1.assigned) then
      [("ipcp-address", s!"acked an address that is not assigned to the session")] else []
  -- silent peer: transmissions since the last event of the peer or the administrator
  let reset : Bool := match e with
    | .timeout | .stale | .local | .setPeer _ => false
    | _ => true
  let sent := (out.filter fun p => p.code == cCR || p.code == cTR).length
  let tx := (if reset then 0 else m.tx) + sent
  let bound := (if initRc c < 1 then 1 else initRc c).toNat
  let v5 := if tx > bound then [("no-termination", s!"{tx} transmissions without a word from the peer, configured {bound}")] else []
  -- waiting for the peer in a timer-driven state although no timer runs: against a silent peer it never ends.
  -- Attributed to the recorded finding only if a receive handler that stops the timer before its switch just ran,
  -- or the automaton was already stuck before this operation.
  let waitingNow := stNow == "Closing" || stNow == "Stopping" || stNow == "Req-Sent" || stNow == "Ack-Rcvd" || stNow == "Ack-Sent"
  let stuckNow := o.timerKnown && waitingNow && !o.armed
  let v7 := if stuckNow then
      [("no-termination", (if o.handlerStops || m.stuck then "KF-ncp-timer-stopped-early" else "none"),
        s!"waiting in {stNow} without a running restart timer")] else []
  let v6 := if o.armed && (stNow == "Initial" || stNow == "Starting" || stNow == "Closed" || stNow == "Stopped" || stNow == "Opened")
    then [("timer-armed", s!"restart timer armed in {stNow}")] else []
  let m2 := applyPoolObs m1 o.pool
  ({ m2 with lastCR := lastCR, our := our2, peer := peer1, prev := stNow, tx := tx,
             stuck := if o.timerKnown then stuckNow else m.stuck },
   ((v1 ++ v2 ++ v3 ++ v4 ++ v4b ++ v4c ++ v5 ++ v6).map fun (n, d) => (n, "none", d)) ++ v7)

end Bng.Ncp
