import Bng.Map
/-
  Model of pkg/nexus/vlan.go (VLANAllocator) as of /repo commits f275b09 (LoadFromStore refuses a stored pair held by
  another NTE and releases the NTE's previous pair), 0d88701 (AllocateWithSTag checks the S-TAG range and releases the
  old pair only after a new one was found) and e67ca78 (findAvailableCTag no longer returns CTagRange.Start unchecked
  for an unused S-TAG, so an empty C-TAG range yields nothing).

  One Lean function per Go method.  `allocations` is `allocs : NTE ↦ (s, c)`; the nested map
  `sTagUsage : s ↦ c ↦ NTE` is flattened to `usage : (s, c) ↦ NTE` — the inner map of `s` is nil exactly when no key
  with outer tag `s` exists, because releaseUnlocked deletes an inner map as soon as it is empty.
  Tags are `Nat` below 65536; the Go loops run over uint16, so a range that ends at 65535 makes the loop guard
  `tag <= End` always true and the counter wrap to 0 — modelled exactly (`w16`, fuel = one full cycle, `hang` when the
  Go loop would not terminate).  `GoodCfg` in the Spec (`sE, cE < 65535`; VLAN ids are 12 bit) excludes the wrap.
  NTE ids are `Nat` (harness: n0, n1, …).
  Core Lean only.
-/
namespace Bng.Vlan
open Bng

structure Cfg where
  sS : Nat
  sE : Nat
  cS : Nat
  cE : Nat
  deriving Repr, DecidableEq

abbrev Pair := Nat × Nat

structure State where
  cfg    : Cfg
  allocs : AMap Nat Pair
  usage  : AMap Pair Nat
  cur    : Nat              -- currentSTag
  deriving Repr

def init (c : Cfg) : State := { cfg := c, allocs := [], usage := [], cur := c.sS }

/-- result of one of the Go search loops: a value, "range exhausted", or the loop would never end -/
inductive Scan (α : Type) where
  | found (x : α)
  | exhausted
  | hang
  deriving Repr, DecidableEq

/-- uint16 increment -/
def w16 (n : Nat) : Nat := n % 65536

/-- the loop of findAvailableCTag, `for cTag := c; cTag <= cE; cTag++` over uint16: with `cE = 65535` the guard is
    always true and the counter wraps to 0.  `fuel` 65537 covers a whole cycle; running out of it means the Go loop
    does not terminate. -/
def scanC (u : AMap Pair Nat) (s cE : Nat) : Nat → Nat → Scan Nat
  | _, 0 => .hang
  | c, f + 1 =>
    if cE < c then .exhausted
    else if (AMap.lookup u (s, c)).isNone then .found c else scanC u s cE (w16 (c + 1)) f

/-- findAvailableCTag (a nil inner map reads as "nothing used", so the flattened `usage` needs no special case) -/
def findC (st : State) (s : Nat) : Scan Nat := scanC st.usage s st.cfg.cE st.cfg.cS 65537

/-- first loop of findAvailable, `for sTag := currentSTag; sTag <= sE; sTag++` over uint16 (wraps when sE = 65535) -/
def scanS1 (st : State) : Nat → Nat → Scan Pair
  | _, 0 => .hang
  | s, f + 1 =>
    if st.cfg.sE < s then .exhausted
    else match findC st s with
      | .found c => .found (s, c)
      | .hang => .hang
      | .exhausted => scanS1 st (w16 (s + 1)) f

/-- second loop, `for sTag := sS; sTag < currentSTag; sTag++` (cannot wrap: sTag + 1 ≤ currentSTag ≤ 65535) -/
def scanS2 (st : State) : Nat → Nat → Scan Pair
  | _, 0 => .exhausted
  | s, f + 1 =>
    match findC st s with
    | .found c => .found (s, c)
    | .hang => .hang
    | .exhausted => scanS2 st (s + 1) f

/-- findAvailable (without the update of currentSTag) -/
def findAvail (st : State) : Scan Pair :=
  match scanS1 st st.cur 65537 with
  | .found p => .found p
  | .hang => .hang
  | .exhausted => scanS2 st st.cfg.sS (st.cur - st.cfg.sS)

inductive Obs where
  | ok
  | okPair (s c : Nat)
  | pair (s c : Nat)
  | none
  | exhausted
  | hang
  | range
  | conflict
  | stats (allocs stags : Nat)
  | dump (fwd : List (Nat × Pair)) (rev : List (Pair × Nat)) (maps cur : Nat)
  deriving Repr, DecidableEq

/-- record `n ↦ p` in both maps -/
def record (st : State) (n : Nat) (p : Pair) : State :=
  { st with allocs := AMap.insert st.allocs n p, usage := AMap.insert st.usage p n }

/-- releaseUnlocked -/
def releaseU (st : State) (n : Nat) : State :=
  match AMap.lookup st.allocs n with
  | none => st
  | some p => { st with allocs := AMap.erase st.allocs n, usage := AMap.erase st.usage p }

def alloc (st : State) (n : Nat) : State × Obs :=
  match AMap.lookup st.allocs n with
  | some p => (st, .okPair p.1 p.2)
  | none =>
    match findAvail st with
    | .exhausted => (st, .exhausted)
    | .hang => (st, .hang)
    | .found p => (record { st with cur := p.1 } n p, .okPair p.1 p.2)

def heldWithTag (st : State) (n t : Nat) : Option Pair :=
  match AMap.lookup st.allocs n with
  | some p => if p.1 = t then some p else none
  | none => none

def allocWS (st : State) (n t : Nat) : State × Obs :=
  if t < st.cfg.sS ∨ st.cfg.sE < t then (st, .range)
  else
    match heldWithTag st n t with
    | some p => (st, .okPair p.1 p.2)
    | none =>
      match findC st t with
      | .exhausted => (st, .exhausted)
      | .hang => (st, .hang)
      | .found c => (record (releaseU st n) n (t, c), .okPair t c)

def release (st : State) (n : Nat) : State × Obs := (releaseU st n, .ok)

def get (st : State) (n : Nat) : Obs :=
  match AMap.lookup st.allocs n with
  | some p => .pair p.1 p.2
  | none => .none

/-- one iteration of LoadFromStore; the Bool is "a conflict was seen" -/
def loadOne (acc : State × Bool) (e : Nat × Pair) : State × Bool :=
  let st := acc.1
  if e.2.1 = 0 ∨ e.2.2 = 0 then acc
  else
    match AMap.lookup st.usage e.2 with
    | some owner =>
      if owner ≠ e.1 then (st, true) else (record (releaseU st e.1) e.1 e.2, acc.2)
    | none => (record (releaseU st e.1) e.1 e.2, acc.2)

def load (st : State) (l : List (Nat × Pair)) : State × Obs :=
  let r := l.foldl loadOne (st, false)
  (r.1, if r.2 then .conflict else .ok)

def insertBy {α : Type} (le : α → α → Bool) (x : α) : List α → List α
  | [] => [x]
  | y :: rest => if le x y then x :: y :: rest else y :: insertBy le x rest

def sortBy {α : Type} (le : α → α → Bool) (l : List α) : List α := l.foldl (fun acc x => insertBy le x acc) []

def pairLe (p q : Pair) : Bool := p.1 < q.1 || (p.1 == q.1 && p.2 ≤ q.2)

def dedup (l : List Nat) : List Nat := l.foldl (fun acc x => if x ∈ acc then acc else x :: acc) []

def stats (st : State) : Obs :=
  .stats st.allocs.length (dedup (st.usage.map fun e => e.1.1)).length

def dump (st : State) : Obs :=
  .dump (sortBy (fun a b => a.1 ≤ b.1) st.allocs) (sortBy (fun a b => pairLe a.1 b.1) st.usage)
    (dedup (st.usage.map fun e => e.1.1)).length st.cur

inductive Op where
  | alloc (n : Nat)
  | allocWS (n t : Nat)
  | release (n : Nat)
  | get (n : Nat)
  | load (l : List (Nat × Pair))
  | stats
  | dump
  deriving Repr, DecidableEq

def step (st : State) : Op → State × Obs
  | .alloc n => alloc st n
  | .allocWS n t => allocWS st n t
  | .release n => release st n
  | .get n => (st, get st n)
  | .load l => load st l
  | .stats => (st, stats st)
  | .dump => (st, dump st)

def run (st : State) (ops : List Op) : State := ops.foldl (fun s op => (step s op).1) st

/-- S-TAG and C-TAG inside the configured ranges -/
def inRange (c : Cfg) (p : Pair) : Bool :=
  decide (c.sS ≤ p.1) && decide (p.1 ≤ c.sE) && decide (c.cS ≤ p.2) && decide (p.2 ≤ c.cE)

end Bng.Vlan
