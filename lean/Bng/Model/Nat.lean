import Bng.Map
/-
  Model of pkg/nat/manager.go (Manager: AddPublicIP / AllocateNAT / DeallocateNAT / GetAllocation /
  GetPoolStats / GetAllocationCount) and of the port-block records of pkg/nat/logging.go
  (LogAllocation / LogDeallocation, bulk and traditional format).

  * One Lean function per Go critical section.  `AllocateNAT` is TWO steps, as in the code:
      `allocPre`     the lookup under `allocationMu.RLock`
      `allocCommit`  everything under `poolMu.Lock` (re-check, pool + slot selection, id, insert, count, log)
    so every interleaving of concurrent callers is an ordinary history over `Op`.
    `DeallocateNAT` runs entirely under `poolMu` and is one step.
  * Ports are `UInt16` exactly as in Go (`uint16(int)` truncation, wrapping `+`/`-`); the subscriber
    count and MaxSubscribers are Go `int`s (`Int`, division truncating towards zero).
  * Private / public IPv4 addresses are `Nat` (the harness maps k<n>, p<n> injectively to addresses).
  * The log is kept newest-first.
  * `commitFail` / `allocFail` / `deallocFail` are the same calls when the write to the kernel subscriber_nat map
    fails (Put of AllocateNAT, Delete of DeallocateNAT); `poke` is a caller writing over memory it was handed or
    passed in (no effect: the manager keeps and hands out copies).  The kernel map itself is Model/NatKMap.lean,
    the logger's buffering / flushing / failing output Model/NatLog.lean.
  Configuration fields are non-negative (`Nat`); negative Go ints are not modelled.
  Core Lean only.
-/
namespace Bng.Cgnat
open Bng

structure Cfg where
  pps        : Nat       -- portsPerSubscriber
  rangeStart : Nat
  rangeEnd   : Nat
  totalPorts : Int       -- portRangeEnd - portRangeStart + 1 on Go ints (negative when portRangeEnd is)
  logOn      : Bool      -- a Logger with Enabled=true is attached
  bulk       : Bool      -- RFC 6908 bulk format
  deriving Repr, DecidableEq

/-- NewManager's defaults for non-negative inputs: 0 means 1024 / 1024 / 65535 (no validation: see `newManager`) -/
def mkCfg (pps rs re : Nat) (logOn bulk : Bool) : Cfg :=
  let pps' := if pps = 0 then 1024 else pps
  let rs' := if rs = 0 then 1024 else rs
  let re' := if re = 0 then 65535 else re
  { pps := pps', rangeStart := rs', rangeEnd := re', totalPorts := (re' : Int) - (rs' : Int) + 1,
    logOn := logOn, bulk := bulk }

/-- NewManager on Go ints: defaults, then the validation of the port range and block size
    (ports and block sizes are 16 bit; anything else is rejected) -/
def newManager (pps rs re : Int) (logOn bulk : Bool) : Option Cfg :=
  let pps' := if pps = 0 then 1024 else pps
  let rs' := if rs = 0 then 1024 else rs
  let re' := if re = 0 then 65535 else re
  if rs' < 1 ∨ re' > 65535 then none
  else if pps' < 1 ∨ pps' > 65535 then none
  else some { pps := pps'.toNat, rangeStart := rs'.toNat, rangeEnd := re'.toNat, totalPorts := re' - rs' + 1,
              logOn := logOn, bulk := bulk }

/-- AddPublicIP: `totalPorts / portsPerSubscriber` on Go ints -/
def Cfg.maxSubs (c : Cfg) : Int := Int.tdiv c.totalPorts (c.pps : Int)

structure PoolEntry where
  ip   : Nat
  subs : Int
  max  : Int
  deriving Repr, DecidableEq

structure Alloc where
  priv      : Nat
  pub       : Nat
  portStart : UInt16
  portEnd   : UInt16
  poolIndex : Nat
  slot      : Nat        -- which block of the public address (unexported field `slot`)
  subId     : Nat
  deriving Repr, DecidableEq

/-- the port-block records of logging.go, with exactly the fields the code fills in -/
inductive LogEntry where
  | assign (sub priv pub : Nat) (portStart portEnd size : UInt16)   -- bulk "port_block_assign"
  | release (priv pub : Nat) (portStart : UInt16)                    -- bulk "port_block_release"
  | allocate (sub priv pub : Nat) (port : UInt16)                    -- traditional "allocate"
  | deallocate (priv pub : Nat) (port : UInt16)                      -- traditional "deallocate"
  deriving Repr, DecidableEq

structure State where
  cfg    : Cfg
  pool   : List PoolEntry
  allocs : AMap Nat Alloc      -- private IP → allocation
  nextId : Nat                 -- nextSubscriberID (uint32)
  ids    : AMap Nat Nat        -- private IP → subscriber id
  log    : List LogEntry       -- newest first
  deriving Repr

def init (c : Cfg) : State :=
  { cfg := c, pool := [], allocs := [], nextId := 1, ids := [], log := [] }

inductive Obs where
  | ok
  | dup                          -- AddPublicIP of an address already in the pool
  | miss                         -- precheck found nothing: the caller goes on to the pool lock
  | alloc (a : Alloc)
  | exhausted
  | none
  | count (n : Nat)
  | pools (l : List (Nat × Int × Int))
  | kernErr                      -- the write to the kernel subscriber_nat map failed and the call returned that error
  deriving Repr, DecidableEq

/-- AddPublicIP -/
def addPublicIP (s : State) (ip : Nat) : State × Obs :=
  if s.pool.any (fun e => e.ip == ip) then (s, .dup)
  else ({ s with pool := s.pool ++ [{ ip := ip, subs := 0, max := s.cfg.maxSubs }] }, .ok)

/-- the slots of pool entry `idx` held by live allocations (freeSlotLocked, first loop) -/
def usedSlots (allocs : AMap Nat Alloc) (idx : Nat) : List Nat :=
  (allocs.filter (fun p => p.2.poolIndex == idx)).map (fun p => p.2.slot)

/-- freeSlotLocked, second loop: the lowest slot in `[s, s+n)` that is not used -/
def scanSlot (used : List Nat) : Nat → Nat → Option Nat
  | _, 0 => none
  | s, n + 1 => if s ∈ used then scanSlot used (s + 1) n else some s

def freeSlot (allocs : AMap Nat Alloc) (idx : Nat) (max : Int) : Option Nat :=
  scanSlot (usedSlots allocs idx) 0 max.toNat

/-- the pool-selection loop of AllocateNAT: first entry with room and a free slot -/
def selectPool (allocs : AMap Nat Alloc) : List PoolEntry → Nat → Option (Nat × Nat × PoolEntry)
  | [], _ => none
  | e :: rest, i =>
    if e.subs < e.max then
      match freeSlot allocs i e.max with
      | some sl => some (i, sl, e)
      | none => selectPool allocs rest (i + 1)
    else selectPool allocs rest (i + 1)

/-- `uint16(m.portRangeStart + slot*m.portsPerSubscriber)` -/
def blockStart (c : Cfg) (slot : Nat) : UInt16 := UInt16.ofNat (c.rangeStart + slot * c.pps)
/-- `portStart + uint16(m.portsPerSubscriber) - 1` -/
def blockEnd (c : Cfg) (start : UInt16) : UInt16 := start + UInt16.ofNat c.pps - 1

/-- getOrCreateSubscriberID -/
def getOrCreateId (s : State) (k : Nat) : Nat × Nat × AMap Nat Nat :=
  match AMap.lookup s.ids k with
  | some id => (id, s.nextId, s.ids)
  | none => (s.nextId, (s.nextId + 1) % 2 ^ 32, AMap.insert s.ids k s.nextId)

/-- Logger.LogAllocation -/
def logAllocation (c : Cfg) (a : Alloc) : List LogEntry :=
  if !c.logOn then []
  else if c.bulk then [.assign a.subId a.priv a.pub a.portStart a.portEnd (a.portEnd - a.portStart + 1)]
  else [.allocate a.subId a.priv a.pub a.portStart]

/-- Logger.LogDeallocation -/
def logDeallocation (c : Cfg) (priv pub : Nat) (start : UInt16) : List LogEntry :=
  if !c.logOn then []
  else if c.bulk then [.release priv pub start]
  else [.deallocate priv pub start]

def bumpSubs (pool : List PoolEntry) (i : Nat) (d : Int) : List PoolEntry :=
  match pool[i]? with
  | some e => pool.set i { e with subs := e.subs + d }
  | none => pool

/-- AllocateNAT, first critical section (allocationMu.RLock) -/
def allocPre (s : State) (k : Nat) : State × Obs :=
  match AMap.lookup s.allocs k with
  | some a => (s, .alloc a)
  | none => (s, .miss)

/-- AllocateNAT, second critical section (poolMu.Lock … Unlock) -/
def allocCommit (s : State) (k : Nat) : State × Obs :=
  match AMap.lookup s.allocs k with
  | some a => (s, .alloc a)          -- re-check under the pool lock
  | none =>
    match selectPool s.allocs s.pool 0 with
    | none => (s, .exhausted)
    | some (i, sl, e) =>
      let start := blockStart s.cfg sl
      let (id, nextId', ids') := getOrCreateId s k
      let a : Alloc := { priv := k, pub := e.ip, portStart := start, portEnd := blockEnd s.cfg start,
                         poolIndex := i, slot := sl, subId := id }
      ({ s with allocs := AMap.insert s.allocs k a, pool := bumpSubs s.pool i 1,
                nextId := nextId', ids := ids', log := logAllocation s.cfg a ++ s.log }, .alloc a)

/-- a sequential AllocateNAT call -/
def alloc (s : State) (k : Nat) : State × Obs :=
  match allocPre s k with
  | (s', .miss) => allocCommit s' k
  | r => r

/-- DeallocateNAT (one critical section under poolMu) -/
def dealloc (s : State) (k : Nat) : State × Obs :=
  match AMap.lookup s.allocs k with
  | none => (s, .ok)
  | some a =>
    ({ s with allocs := AMap.erase s.allocs k, pool := bumpSubs s.pool a.poolIndex (-1),
              log := logDeallocation s.cfg k a.pub a.portStart ++ s.log }, .ok)

/-- GetAllocation -/
def getAllocation (s : State) (k : Nat) : Obs :=
  match AMap.lookup s.allocs k with
  | some a => .alloc a
  | none => .none

/-! ### kernel-map failures (the subscriber_nat Put of AllocateNAT / Delete of DeallocateNAT returns an error)

  `AllocateNAT`: the Put comes after the subscriber id has been taken and before the allocation is entered
  into the table: the call returns the error, the id stays taken, nothing else changes.
  `DeallocateNAT`: the Delete comes first; when it fails the call returns the error and NOTHING changes —
  the kernel goes on translating with the block, so the block stays the subscriber's (the fix of finding
  C10-delete-failure-frees-block; before it the table entry was removed, the slot counted free and the
  release logged although the kernel entry stayed). -/

/-- AllocateNAT, second critical section, when the kernel Put fails -/
def commitFail (s : State) (k : Nat) : State × Obs :=
  match AMap.lookup s.allocs k with
  | some a => (s, .alloc a)          -- re-check under the pool lock: no kernel write
  | none =>
    match selectPool s.allocs s.pool 0 with
    | none => (s, .exhausted)
    | some _ =>
      let (_, nextId', ids') := getOrCreateId s k
      ({ s with nextId := nextId', ids := ids' }, .kernErr)

/-- a sequential AllocateNAT call whose kernel Put fails -/
def allocFail (s : State) (k : Nat) : State × Obs :=
  match allocPre s k with
  | (s', .miss) => commitFail s' k
  | r => r

/-- DeallocateNAT when the kernel Delete fails -/
def deallocFail (s : State) (k : Nat) : State × Obs :=
  match AMap.lookup s.allocs k with
  | none => (s, .ok)                 -- not allocated: returns before any kernel write
  | some _ => (s, .kernErr)

inductive Op where
  | addIp (ip : Nat)
  | allocPre (k : Nat)
  | allocCommit (k : Nat)
  | alloc (k : Nat)
  | dealloc (k : Nat)
  | get (k : Nat)
  | count
  | pools
  | commitFail (k : Nat)       -- the pool-lock section of AllocateNAT with a failing kernel Put
  | allocFail (k : Nat)        -- a sequential AllocateNAT with a failing kernel Put
  | deallocFail (k : Nat)      -- DeallocateNAT with a failing kernel Delete
  /-- the caller writes over memory of its own: the Allocation it was handed (PoolIndex, the bytes of PublicIP /
      PrivateIP, the ports, the id), the address slice it passed to AllocateNAT / AddPublicIP, the entries
      GetPoolStats returned.  The manager keeps and hands out copies (the fix of finding C10-returned-alias), so
      nothing of the manager changes. -/
  | poke
  deriving Repr, DecidableEq

def step (s : State) : Op → State × Obs
  | .addIp ip => addPublicIP s ip
  | .allocPre k => allocPre s k
  | .allocCommit k => allocCommit s k
  | .alloc k => alloc s k
  | .dealloc k => dealloc s k
  | .get k => (s, getAllocation s k)
  | .count => (s, .count s.allocs.length)
  | .pools => (s, .pools (s.pool.map fun e => (e.ip, e.subs, e.max)))
  | .commitFail k => commitFail s k
  | .allocFail k => allocFail s k
  | .deallocFail k => deallocFail s k
  | .poke => (s, .ok)

def run (s : State) (ops : List Op) : State := ops.foldl (fun st op => (step st op).1) s

/-- the observations along a run -/
def trace : State → List Op → List (Op × Obs)
  | _, [] => []
  | s, op :: ops => (op, (step s op).2) :: trace (step s op).1 ops

/-! ## reading the log back: who held (public address, port)?

  `holders` replays the records in chronological order using ONLY logged fields.  The traditional
  format does not record the end of the block; it is reconstructed from the configured block size. -/

structure Held where
  priv : Nat
  pub  : Nat
  lo   : Nat
  hi   : Nat
  deriving Repr, DecidableEq

def applyEntry (c : Cfg) (h : List Held) : LogEntry → List Held
  | .assign _ priv pub ps pe _ => { priv := priv, pub := pub, lo := ps.toNat, hi := pe.toNat } :: h
  | .allocate _ priv pub p => { priv := priv, pub := pub, lo := p.toNat, hi := p.toNat + c.pps - 1 } :: h
  | .release priv pub ps => h.filter (fun x => !(x.priv == priv && x.pub == pub && x.lo == ps.toNat))
  | .deallocate priv pub p => h.filter (fun x => !(x.priv == priv && x.pub == pub && x.lo == p.toNat))

/-- holders after a newest-first log -/
def holders (c : Cfg) : List LogEntry → List Held
  | [] => []
  | e :: older => applyEntry c (holders c older) e

/-- the answer to "who had `ip:port` now?" from the log alone -/
def whoHeld (c : Cfg) (log : List LogEntry) (ip port : Nat) : List Nat :=
  ((holders c log).filter (fun x => x.pub == ip && decide (x.lo ≤ port) && decide (port ≤ x.hi))).map (·.priv)

/-! ## the monitor: abstract specification of C10 over API observations and log records only -/
namespace Spec

structure Blk where
  pub : Nat
  lo  : Nat
  hi  : Nat
  deriving Repr, DecidableEq

structure Mon where
  held    : AMap Nat Blk := []      -- subscriber ↦ block handed out and not yet released
  logHeld : List Held := []         -- holders according to the log records seen so far
  deriving Repr

inductive Ev where
  | got (k : Nat) (b : Blk)             -- the API told k that it holds b (allocate, re-ask, lookup)
  | released (k : Nat)                  -- DeallocateNAT(k) returned
  | lookedNone (k : Nat)                -- GetAllocation(k) = nil
  | logged (e : LogEntry)               -- one record appeared in the log
  | settled                             -- the call has returned: log and API must now agree
  | forget                              -- unobserved calls happened: what was handed out before is no longer known
  | blind                               -- from now on calls are not observed one by one (parallel stress)
  deriving Repr

abbrev Verdict := String × String

def overlaps (a b : Blk) : Bool := a.pub == b.pub && decide (a.lo ≤ b.hi) && decide (b.lo ≤ a.hi)

def inRange (c : Cfg) (b : Blk) : Bool :=
  decide (c.rangeStart ≤ b.lo) && decide (b.hi ≤ c.rangeEnd) && decide (b.lo ≤ b.hi) &&
  decide (b.hi - b.lo + 1 = c.pps)

def heldOverlap (a b : Held) : Bool := a.pub == b.pub && decide (a.lo ≤ b.hi) && decide (b.lo ≤ a.hi)

/-- is some pair of log-derived holders overlapping? -/
def logAmbiguous : List Held → Option (Held × Held)
  | [] => none
  | x :: rest => match rest.find? (heldOverlap x) with
    | some y => some (x, y)
    | none => logAmbiguous rest

def check (c : Cfg) (m : Mon) : Ev → Mon × List Verdict
  | .got k b =>
    ({ m with held := AMap.insert m.held k b },
      (if inRange c b then [] else [("range", s!"k{k} got {b.lo}-{b.hi}, outside the configured range/size")]) ++
      (match AMap.lookup m.held k with
        | some b' => if b' ≠ b then [("stable", s!"k{k} held {b'.lo}-{b'.hi} on p{b'.pub}, not released, now told {b.lo}-{b.hi} on p{b.pub}")] else []
        | none => []) ++
      (match (AMap.erase m.held k).find? (fun p => overlaps p.2 b) with
        | some (k', b') => [("overlap", s!"k{k} got {b.lo}-{b.hi} on p{b.pub} while k{k'} holds {b'.lo}-{b'.hi}")]
        | none => []))
  | .released k => ({ m with held := AMap.erase m.held k }, [])
  | .lookedNone k =>
    (m, match AMap.lookup m.held k with
      | some b => [("stable", s!"k{k} was given {b.lo}-{b.hi}, never released, and is now unknown")]
      | none => [])
  | .logged e =>
    let lh := applyEntry c m.logHeld e
    ({ m with logHeld := lh },
      match logAmbiguous lh with
      | some (x, y) => [("attrib", s!"log maps p{x.pub} ports {x.lo}-{x.hi} to k{x.priv} and ports {y.lo}-{y.hi} to k{y.priv} at the same time")]
      | none => [])
  | .forget => ({ m with held := [] }, [])
  | .blind => (m, [])
  | .settled =>
    (m, if !c.logOn then [] else
      (m.held.filterMap fun (k, b) =>
        if m.logHeld.any (fun x => x.priv == k && x.pub == b.pub && x.lo == b.lo && x.hi == b.hi) then none
        else some ("attrib", s!"k{k} holds {b.lo}-{b.hi} on p{b.pub} but the log does not say so")) ++
      (m.logHeld.filterMap fun x =>
        if AMap.lookup m.held x.priv = some { pub := x.pub, lo := x.lo, hi := x.hi } then none
        else some ("attrib", s!"log says k{x.priv} holds {x.lo}-{x.hi} on p{x.pub} but the API does not")))

/-! ### the record ledger: every allocation and every release is recorded exactly once

  The second half of `attrib`.  Each observed new allocation owes one assignment record and each
  observed release one release record, identified by (private address, public address, first port).
  A record that no observed call explains (a duplicate, a stray one) and a call whose record has not
  appeared when the log has been flushed are both failures.  Records may appear later than the call
  (the logger buffers), never more or fewer than the calls. -/

abbrev RecKey := Nat × Nat × Nat

structure Ledger where
  held  : AMap Nat Blk := []
  expA  : List RecKey := []       -- assignment records still owed
  expR  : List RecKey := []       -- release records still owed
  blind : Bool := false
  deriving Repr

/-- (is it an assignment?, key) of a record -/
def recKey : LogEntry → Bool × RecKey
  | .assign _ priv pub ps _ _ => (true, priv, pub, ps.toNat)
  | .allocate _ priv pub p => (true, priv, pub, p.toNat)
  | .release priv pub ps => (false, priv, pub, ps.toNat)
  | .deallocate priv pub p => (false, priv, pub, p.toNat)

def owed (c : Cfg) (l : Ledger) (key : RecKey) (old : List RecKey) : List RecKey :=
  if c.logOn && !l.blind then key :: old else old

def ledger (c : Cfg) (l : Ledger) : Ev → Ledger × List Verdict
  | .got k b =>
    match AMap.lookup l.held k with
    | some _ => ({ l with held := AMap.insert l.held k b }, [])
    | none => ({ l with held := AMap.insert l.held k b, expA := owed c l (k, b.pub, b.lo) l.expA }, [])
  | .released k =>
    match AMap.lookup l.held k with
    | some b => ({ l with held := AMap.erase l.held k, expR := owed c l (k, b.pub, b.lo) l.expR }, [])
    | none => (l, [])
  | .lookedNone _ => (l, [])
  | .logged e =>
    if l.blind then (l, []) else
    if (recKey e).1 then
      if l.expA.contains (recKey e).2 then ({ l with expA := l.expA.erase (recKey e).2 }, [])
      else (l, [("attrib", s!"assignment record for k{(recKey e).2.1} (p{(recKey e).2.2.1} from port {(recKey e).2.2.2}) that no allocation explains: duplicate or stray record")])
    else
      if l.expR.contains (recKey e).2 then ({ l with expR := l.expR.erase (recKey e).2 }, [])
      else (l, [("attrib", s!"release record for k{(recKey e).2.1} (p{(recKey e).2.2.1} from port {(recKey e).2.2.2}) that no release explains: duplicate or stray record")])
  | .settled =>
    ({ l with expA := [], expR := [] },
      (l.expA.map fun (k, p, lo) => ("attrib", s!"k{k} was given the block from port {lo} on p{p} but the flushed log has no assignment record for it")) ++
      (l.expR.map fun (k, p, lo) => ("attrib", s!"k{k} released the block from port {lo} on p{p} but the flushed log has no release record for it")))
  | .forget => ({ l with held := [], expA := [], expR := [] }, [])
  | .blind => ({ l with blind := true }, [])

def feedL (c : Cfg) (l : Ledger) (evs : List Ev) : Ledger × List Verdict :=
  evs.foldl (fun acc ev => ((ledger c acc.1 ev).1, acc.2 ++ (ledger c acc.1 ev).2)) (l, [])

/-- run the monitor over a list of events, collecting the verdicts (used by the driver on the
    implementation's observations and by the refinement theorem on the model's) -/
def feed (c : Cfg) (m : Mon) (evs : List Ev) : Mon × List Verdict :=
  evs.foldl (fun acc ev => ((check c acc.1 ev).1, acc.2 ++ (check c acc.1 ev).2)) (m, [])

end Spec

end Bng.Cgnat
