import Bng.Model.DhcpTerm
/-
  The C16 monitor of component `dhcpterm`, as a pure function over STRUCTURED observations.

  `Snap`         what the harness reads back after an operation (lease table, circuit-id index, pool, both QoS directions,
                 NAT table + kernel map, the four cache maps' keys, the accounting records), in canonical order;
  `monitorCore`  the judgment: monitor state (the previous snapshot + the MACs whose lease was made from a stale index
                 entry) × operation × observation → new state × verdicts `(name, clause, detail)`.  It never looks at the
                 model.  The driver runs `monitorCore ∘ parse` on the IMPLEMENTATION's lines;
  `obsOf`        the model's own observation, structured (what `parse (show s)` is; the driver cross-checks that on every
                 line: verdict `obs-roundtrip`);
  `runBoth`      model and monitor run side by side: the verdicts the monitor raises on the model's own observations.
                 Bng.Spec.C16DhcpMon proves that they are nothing but the recorded findings' clauses.
  Core Lean only.
-/
namespace Bng.DhcpTerm
open Bng

abbrev Verdict := String × String × String

/-! ### canonical order -/

def insertBy {α : Type} (le : α → α → Bool) (x : α) : List α → List α
  | [] => [x]
  | y :: rest => if le x y then x :: y :: rest else y :: insertBy le x rest

def sortBy {α : Type} (le : α → α → Bool) (l : List α) : List α := l.foldl (fun acc x => insertBy le x acc) []

def sortNat (l : List Nat) : List Nat := sortBy (fun a b => a ≤ b) l
def sortPair (l : List (Nat × Nat)) : List (Nat × Nat) := sortBy (fun a b => a.1 < b.1 || (a.1 == b.1 && a.2 ≤ b.2)) l

/-! ### snapshots

  A `Snap` is what the harness reads back after an operation (lease table, pool, both QoS directions and the
  manager's count, NAT table + kernel map + count, the four cache maps' keys, the accounting records).  The monitor
  compares the snapshot before and after an operation; it never looks at the model. -/

structure Snap where
  now    : Nat := 0
  leases : List (Nat × Nat × Nat × Option Nat) := []   -- mac, ip, expiry, circuit-id
  bound  : List (Nat × Nat) := []                      -- pool.allocated: mac, ip
  free   : List Nat := []
  unavail : List Nat := []
  qos    : List Nat := []        -- union of egress / ingress keys
  nat    : List Nat := []        -- union of manager table / subscriber_nat keys
  kMac   : List Nat := []
  kVlan  : List String := []
  kCid   : List (Nat × Nat) := []
  kHash  : List (Nat × Nat) := []
  acct   : List (Nat × Nat × Nat × Nat) := []          -- ordinal, mac, starts, stops
  early  : List Nat := []                              -- sessions whose Stop arrived before their Start
  idx    : List ((Nat × Nat) × Nat) := []              -- leasesByCircuitID: (mac, circuit-id) → address of the lease it points to
  /-- the three views of a resource disagree (egress ≠ ingress, manager table ≠ kernel map, count ≠ keys) -/
  skew   : List String := []
  deriving Repr, DecidableEq

/-- what the operation that produced the snapshot was meant to end, as far as the monitor needs to know -/
structure Kind where
  /-- RELEASE (`none`) / DECLINE (`some address`) messages that are part of the operation: MAC, declined address -/
  terms : List (Nat × Option Nat) := []
  /-- a cleanup pass is part of the operation: every lease that had run out is ended -/
  sweep : Bool := false
  shutdown : Bool := false
  /-- the operation is a REQUEST with terminations inside its unlock window (`estgap`) that was ACKed: the session
      (MAC, address) it establishes, or renews, is there for the terminations to end -/
  established : Option (Nat × Nat) := none
  /-- MACs whose lease (in the snapshot before the operation, or created by it) was made from a STALE circuit-id index
      entry: the slow path took a dead lease that `leasesByCircuitID` still held for the client's lease and "renewed"
      it (finding KF-dhcp4-stale-index-revival; the driver knows it from `staleHit` on the model) -/
  revived : List Nat := []
  /-- cache maps that were write-protected while the operation ran (the fault ops before it say so): every Delete on
      them failed and was only logged (finding KF-cache-delete-ignored) -/
  ro : List Nat := []
  deriving Repr, DecidableEq

def Kind.isTermination (k : Kind) : Bool := !k.terms.isEmpty || k.sweep || k.shutdown

def Snap.leaseOf (p : Snap) (mac : Nat) : Option (Nat × Nat × Option Nat) :=
  (p.leases.find? (fun e => e.1 == mac)).map (fun e => e.2)

def Snap.live (p : Snap) (ip : Nat) : Bool := p.leases.any (fun e => e.2.1 == ip)

def Snap.binds (p : Snap) (mac : Nat) : Bool := p.bound.any (fun b => b.1 == mac)

/-- entries no lease of the snapshot accounts for (`dead`: every session counts as ended, as after a shutdown) -/
def Snap.orphanNat (p : Snap) (dead : Bool) : List Nat := p.nat.filter fun a => dead || !(p.live a)
def Snap.orphanQos (p : Snap) (dead : Bool) : List Nat := p.qos.filter fun a => dead || !(p.live a)
def Snap.orphanMac (p : Snap) (dead : Bool) : List Nat := p.kMac.filter fun m => dead || (p.leaseOf m).isNone
def Snap.hasCid (p : Snap) (c : Nat × Nat) : Bool := p.leases.any fun e => e.1 == c.1 && e.2.2.2 == some c.2
def Snap.orphanCid (p : Snap) (dead : Bool) : List (Nat × Nat) := p.kCid.filter fun c => dead || !(p.hasCid c)
def Snap.orphanHash (p : Snap) (dead : Bool) : List (Nat × Nat) := p.kHash.filter fun c => dead || !(p.hasCid c)
def Snap.orphanIdx (p : Snap) (dead : Bool) : List (Nat × Nat) := (p.idx.map (·.1)).filter fun c => dead || !(p.hasCid c)

/-- the sessions an operation is meant to end, judged from the snapshot BEFORE it: (mac, ip, path) -/
def ended (before : Snap) (k : Kind) : List (Nat × Nat × String) :=
  if k.shutdown then before.leases.map fun (m, ip, _, _) => (m, ip, "shutdown") else
  -- a session the operation itself establishes (or renews) before its terminations run counts as there
  let leases := match k.established with
    | some (m, ip) => (m, ip, before.now, none) :: before.leases.filter (fun e => !(e.1 == m))
    | none => before.leases
  let byMsg := leases.filterMap fun (m, ip, _, _) =>
    if k.terms.any (fun t => t.1 == m && t.2.isNone) then some (m, ip, "RELEASE")
    else if k.terms.any (fun t => t.1 == m && t.2 == some ip) then some (m, ip, "DECLINE")   -- only the held address
    else none
  let byTime := if k.sweep then
      leases.filterMap fun (m, ip, exp, _) => if before.now > exp then some (m, ip, "expiry") else none
    else []
  byMsg ++ byTime.filter (fun e => !(byMsg.any (fun b => b.1 == e.1)))

/-- the clause of finding KF-dhcp4-offer-pinned (C02): the termination was aimed at a MAC that holds a pool binding
    and has no lease (DISCOVER was never followed by an ACK) -/
def offerOnly (before : Snap) (mac : Nat) : Bool := (before.leaseOf mac).isNone && before.binds mac


/-! ### the judgment, clause by clause -/

/-- KF-dhcp4-establish-race: THIS operation is a REQUEST that was ACKed and whose own inner termination ended the
    requesting MAC's session (it is among the ended sessions and has no lease afterwards) -/
def lost (before after : Snap) (k : Kind) (m : Nat) : Bool :=
  match k.established with
  | some (em, _) => em == m && (ended before k).any (fun e => e.1 == m) && (after.leaseOf m).isNone
  | none => false

/-- the clause a verdict `name` about MAC `m` carries: "none", or the id of the recorded finding whose mechanism shows
    on these two snapshots -/
def clFor (before after : Snap) (k : Kind) (name : String) (m : Nat) : String :=
  if k.shutdown then
    -- KF-dhcp4-shutdown-residue: what the sessions that were live at the shutdown keep
    if ["addr-not-returned", "nat-residue", "qos-residue", "cache-residue", "missing-stop"].contains name
    then "KF-dhcp4-shutdown-residue" else "none"
  else if lost before after k m && ["nat-residue", "qos-residue", "cache-residue", "index-residue", "stop-unstarted"].contains name then
    "KF-dhcp4-establish-race"
  -- KF-dhcp4-stale-index-revival: the lease of this MAC was made from a stale index entry (no pool binding of its own,
  -- the session id of the dead lease): when it ends, the old session gets a second Stop and the pool binding the
  -- client really has is not the one that is released
  else if k.revived.contains m && ["double-stop", "addr-not-returned"].contains name then
    "KF-dhcp4-stale-index-revival"
  else "none"

/-- the clause of a `cache-residue` verdict about a key of cache map `w` (3 subscriber_pools, 4 circuit_id_map,
    5 circuit_id_subscribers).  KF-cache-delete-ignored: THAT map was write-protected while the operation ran - the
    Delete of the key failed, the server logged it (or did not even look at the result) and went on; whatever else the
    operation left behind, and every key of a map that was writable, is judged as before -/
def clCache (before after : Snap) (k : Kind) (w m : Nat) : String :=
  if !k.shutdown && k.ro.contains w then "KF-cache-delete-ignored" else clFor before after k "cache-residue" m

/-- for one ended session: the address is back, the open accounting session got its Stop -/
def endChecks (before after : Snap) (k : Kind) : Nat × Nat × String → List Verdict
  | (m, ip, path) =>
    (if (after.leaseOf m).isSome || after.binds m then
       [("addr-not-returned", clFor before after k "addr-not-returned" m, s!"after {path} m{m} still holds a{ip} (lease or pool binding)")]
     else if !(after.free.contains ip) && !(after.unavail.contains ip) then
       [("addr-not-returned", clFor before after k "addr-not-returned" m, s!"after {path} of m{m} the address a{ip} is neither free nor quarantined")]
     else []) ++
    -- accounting: a session of this MAC that was open before (a Start, no Stop) must now have its Stop
    ((before.acct.filter (fun (_, am, st, sp) => am == m && st > 0 && sp == 0)).flatMap fun (o, _, _, _) =>
       match after.acct.find? (fun r => r.1 == o) with
       | some (_, _, _, sp) =>
         if sp == 0 then [("missing-stop", clFor before after k "missing-stop" m, s!"after {path} of m{m} session {o} has a Start and no Accounting-Stop")]
         else []
       | none => [("missing-stop", clFor before after k "missing-stop" m, s!"the records of session {o} vanished")])

def vEnd (before after : Snap) (k : Kind) : List Verdict := (ended before k).flatMap (endChecks before after k)

def pathOf (before : Snap) (k : Kind) (m : Nat) : String :=
  match (ended before k).find? (fun e => e.1 == m) with
  | some e => s!"after {e.2.2} of m{m}"
  | none => s!"m{m}"

def ownerOf (before : Snap) (k : Kind) (ip : Nat) : Nat :=
  match before.leases.find? (fun e => e.2.1 == ip) with
  | some e => e.1
  | none => match k.established with
    | some (em, eip) => if eip == ip then em else 0
    | none => 0

/-- whatever the operation: an entry that no lease accounts for any more (or never did) and that was not already an
    orphan before the operation is residue of this operation; after a shutdown every session counts as ended (the
    circuit-id index is part of the Server object and goes with it: a shutdown does not make its entries residue) -/
def vOrphans (before after : Snap) (k : Kind) : List Verdict :=
  ((after.orphanNat k.shutdown).filter (fun a => !((before.orphanNat false).contains a))).map (fun a =>
    ("nat-residue", clFor before after k "nat-residue" (ownerOf before k a), s!"{pathOf before k (ownerOf before k a)}: the NAT block of a{a} is allocated and no lease holds a{a}")) ++
  ((after.orphanQos k.shutdown).filter (fun a => !((before.orphanQos false).contains a))).map (fun a =>
    ("qos-residue", clFor before after k "qos-residue" (ownerOf before k a), s!"{pathOf before k (ownerOf before k a)}: the QoS policy of a{a} is installed and no lease holds a{a}")) ++
  ((after.orphanMac k.shutdown).filter (fun m => !((before.orphanMac false).contains m))).map (fun m =>
    ("cache-residue", clCache before after k 3 m, s!"mac: {pathOf before k m}: subscriber_pools answers for m{m}, which has no lease")) ++
  ((after.orphanCid k.shutdown).filter (fun c => !((before.orphanCid false).contains c))).map (fun c =>
    ("cache-residue", clCache before after k 5 c.1, s!"circuit: {pathOf before k c.1}: circuit_id_subscribers answers for m{c.1}.c{c.2}, which is not the circuit-id of a lease of m{c.1}")) ++
  ((after.orphanHash k.shutdown).filter (fun c => !((before.orphanHash false).contains c))).map (fun c =>
    ("cache-residue", clCache before after k 4 c.1, s!"circuit: {pathOf before k c.1}: circuit_id_map answers for m{c.1}.c{c.2}, which is not the circuit-id of a lease of m{c.1}")) ++
  ((after.orphanIdx false).filter (fun c => !((before.orphanIdx false).contains c))).map (fun c =>
    ("index-residue", clFor before after k "index-residue" c.1, s!"{pathOf before k c.1}: leasesByCircuitID answers for m{c.1}.c{c.2} with a lease that is not in the lease table"))

/-- the server never writes the VLAN map -/
def vVlan (after : Snap) : List Verdict :=
  if after.kVlan.isEmpty then [] else [("cache-residue", "none", s!"vlan: vlan_subscriber_pools has entries {after.kVlan}")]

/-- no session gets a second Stop, a Stop without a Start, or its Stop before its Start -/
def vAcct (before after : Snap) (k : Kind) : List Verdict :=
  after.acct.flatMap fun (o, m, st, sp) =>
    let was := ((before.acct.find? (fun r => r.1 == o)).map (fun r => r.2.2.2)).getD 0
    (if sp > 1 && sp > was then [("double-stop", clFor before after k "double-stop" m, s!"session {o} of m{m} has {sp} Accounting-Stops")] else []) ++
    (if sp > 0 && st == 0 && sp > was then [("stop-unstarted", "none", s!"session {o} of m{m} has an Accounting-Stop and no Start")] else []) ++
    (if after.early.contains o && !(before.early.contains o) then
       [("stop-unstarted", clFor before after k "stop-unstarted" m, s!"the Accounting-Stop of session {o} of m{m} was issued before its Start: the session stays open at the RADIUS server")] else [])

/-- a termination that finds no session to end (the MAC has no lease any more, nothing has expired): nothing may change -/
def vSecond (before after : Snap) (k : Kind) : List Verdict :=
  if k.isTermination && k.established.isNone && (ended before k).isEmpty && ({ after with now := 0 } != { before with now := 0 }) then
    [("second-end-effect", "none", "a termination that had no session to end changed the state")]
  else []

/-- the offer-only prefix: a RELEASE/DECLINE from a MAC that holds a pool binding and no lease -/
def vOffer (before after : Snap) (k : Kind) : List Verdict :=
  ((k.terms.map (·.1)).eraseDups.filter (fun m => offerOnly before m && after.binds m)).map fun m =>
    ("addr-not-returned", "KF-dhcp4-offer-pinned", s!"m{m} released/declined after DISCOVER only and keeps its pool binding")

def vSkew (after : Snap) : List Verdict := after.skew.map fun t => ("view-skew", "none", t)

/-- verdicts `(name, clause, detail)` for one operation -/
def monitor (before after : Snap) (k : Kind) : List Verdict :=
  vEnd before after k ++ vOrphans before after k ++ vVlan after ++ vAcct before after k ++ vSecond before after k ++
  vOffer before after k ++ vSkew after

/-! ### monitor state, operations, `monitorCore` -/

structure Mon where
  prev : Snap := {}
  /-- MACs whose current lease was made from a stale circuit-id index entry -/
  revived : List Nat := []
  /-- the write-protected cache maps, as the fault ops seen so far say -/
  ro : List Nat := []
  deriving Repr, DecidableEq

/-- an observation: the snapshot, and whether the operation reached its point of interest (`gap`: the cleanup pass had
    something to remove; `estgap`: the REQUEST was ACKed; `shutdown`: Server.Start reached its ctx.Done branch) -/
structure Obs where
  snap : Snap
  ran : Bool := true
  deriving Repr, DecidableEq

def termKind : Term → List (Nat × Option Nat)
  | .rel m => [(m, none)]
  | .dec m a => [(m, some a)]
  | .cleanup _ => []

def isCleanup : Term → Bool
  | .cleanup _ => true
  | _ => false

/-- what the operation is meant to end -/
def kindOf (op : OpX) (ran : Bool) : Kind :=
  match op with
  | .op (.term t) => { terms := termKind t, sweep := isCleanup t }
  | .op (.gap _ inner) => if ran then { terms := termKind inner, sweep := true } else { sweep := true }
  | .op (.split a b) => { terms := termKind a ++ termKind b, sweep := isCleanup a || isCleanup b }
  | .op .shutdown => if ran then { shutdown := true } else {}
  | .estGap m a _ inner =>
    if ran then { terms := termKind inner, sweep := isCleanup inner, established := some (m, a) } else {}
  | _ => {}

/-- the REQUEST is answered from a stale index entry, as far as the snapshot before it shows: the MAC has no lease and
    the index holds an entry for (MAC, circuit-id) -/
def hitOf (prev : Snap) (op : OpX) : Option Nat :=
  let chk := fun (m : Nat) (cid : Option Nat) => match cid with
    | some c => if (prev.leaseOf m).isNone && prev.idx.any (fun e => e.1 == (m, c)) then some m else none
    | none => none
  match op with
  | .op (.req m _ cid) => chk m cid
  | .estGap m _ cid _ => chk m cid
  | _ => none

def monitorCore (mn : Mon) (op : OpX) (ob : Obs) : Mon × List Verdict :=
  let rev := match hitOf mn.prev op with
    | some m => if mn.revived.contains m then mn.revived else m :: mn.revived
    | none => mn.revived
  let vs := monitor mn.prev ob.snap { kindOf op ob.ran with revived := rev, ro := mn.ro }
  let ro' := match op with
    | .wfault w on => if on then ins mn.ro w else rm mn.ro w
    | _ => mn.ro
  ({ prev := ob.snap, revived := rev.filter fun m => (ob.snap.leaseOf m).isSome, ro := ro' }, vs)

/-! ### the model's own observation -/

def obsOf (s : State) : Snap :=
  let idx : List ((Nat × Nat) × Lease) := (s.leases.filterMap fun (k, l) => l.cid.map fun c => ((k, c), l)) ++ s.stale
  let acct := sortBy (fun (a b : Nat × Sess) => a.1 ≤ b.1) s.acct
  { now := s.now,
    leases := (sortBy (fun (a b : Nat × Lease) => a.1 ≤ b.1) s.leases).map fun (k, l) => (k, l.ip, l.exp, l.cid),
    bound := sortBy (fun (a b : Nat × Nat) => a.1 ≤ b.1) s.pool.allocated,
    free := s.pool.avail, unavail := sortNat s.pool.unavailable,
    qos := sortNat s.qos, nat := sortNat s.nat, kMac := sortNat s.kMac,
    kVlan := s.kVlan.map fun v => s!"v{v.1}.{v.2}",
    kCid := sortPair s.kCid, kHash := sortPair s.kHash,
    acct := acct.map fun (k, r) => (k, r.mac, r.starts, r.stops),
    early := (acct.filter fun (k, _) => s.early.contains k).map (·.1),
    idx := (sortBy (fun (a b : (Nat × Nat) × Lease) => a.1.1 < b.1.1 || (a.1.1 == b.1.1 && a.1.2 ≤ b.1.2)) idx).map
      fun (k, l) => (k, l.ip),
    skew := [] }

/-- did the operation reach its point of interest, on the model -/
def ranOf (s : State) : OpX → Bool
  | .op (.gap o inner) => (gap s o inner).2
  | .estGap m r cid inner => (estGap s m r cid inner).2.2
  | _ => true

def initMon (radius : Bool) (lt : Nat) : Mon := { prev := obsOf (init radius lt) }

/-- model and monitor side by side: the verdicts the monitor raises on the model's own observations -/
def runBoth : State → Mon → List OpX → List Verdict
  | _, _, [] => []
  | s, mn, op :: rest =>
    let s' := (stepX s op).1
    let (mn', vs) := monitorCore mn op { snap := obsOf s', ran := ranOf s op }
    vs ++ runBoth s' mn' rest

end Bng.DhcpTerm
