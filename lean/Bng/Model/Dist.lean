import Bng.Model.Bitmap
import Bng.Model.Epoch
/-
  Model of pkg/allocator/distributed.go (DistributedAllocator) over the bitmap model (session mode) and
  the epoch model (lease mode) and a key-value store (pkg/nexus Store interface).

  * The store holds one record per subscriber under /allocation/<pool>/<subscriber>:
    (prefix address, prefix length, epoch).  Every store call an operation makes takes an explicit
    failure flag (external call = parameter).
  * `loadAllocations` (Start) and `cleanupExpiredFromStore` iterate over the result of Store.Query; its
    enumeration ORDER is a parameter (`order : List Nat`, subscriber ids); theorems quantify over it.
  * crash/restart: the allocator instance is volatile, the store durable; `restart` builds a fresh
    allocator and loads the store.  (Every operation makes at most one store WRITE, after the in-memory
    step, so "stop after every store operation" = restart between operations.)
  * `remotePut`/`remoteDel`: another node changed the shared store and the Watch callback
    `handleRemoteChange` runs on this node.  The store also echoes the node's OWN deletes to the watch
    (as nexus.MemoryStore does): that matters for the records an epoch tick's cleanup deletes; the echo of
    an own Put or of Release's delete finds memory already in that state and changes nothing.
  Announced prefixes are assumed aligned to their length (net.ParseCIDR masks them).
  Core Lean only.
-/
namespace Bng.Dist
open Bng

structure Rec where
  addr  : Nat
  plen  : Nat
  epoch : Nat
  deriving Repr, DecidableEq

abbrev Store := AMap Nat Rec

inductive Obs where
  | okAddr (a plen : Nat)
  | ok
  | exhausted
  | notfound
  | error               -- a store call failed
  | none
  | sub (k : Nat)
  | stats (alloc total : Nat)
  | num (n : Nat)
  deriving Repr, DecidableEq

/-- the records a Query returns, in the order the store enumerates them -/
def snapshot (st : Store) (order : List Nat) : List (Nat × Rec) :=
  order.filterMap fun k => (AMap.lookup st k).map fun r => (k, r)

/-! ## session mode -/
namespace Session

structure State where
  a     : Bitmap.State
  store : Store
  deriving Repr

def init (c : Bitmap.Cfg) : State := { a := Bitmap.init c, store := [] }

def holds (s : State) (k : Nat) : Bool := (AMap.lookup s.a.allocated k).isSome

/-- Allocate / AllocateWithMAC -/
def alloc (s : State) (k : Nat) (putFails : Bool) : State × Obs :=
  let existed := holds s k
  match Bitmap.alloc s.a k with
  | (a', .okAddr addr) =>
    if putFails then
      -- roll back only what this call created
      ({ s with a := if existed then a' else (Bitmap.release a' k).1 }, .error)
    else
      ({ a := a', store := AMap.insert s.store k { addr := addr, plen := s.a.cfg.plen, epoch := 0 } },
       .okAddr addr s.a.cfg.plen)
  | (_, .exhausted) => (s, .exhausted)
  | (_, _) => (s, .error)

/-- Release: the record is deleted from the store first; memory follows only if that succeeded -/
def release (s : State) (k : Nat) (delFails : Bool) : State × Obs :=
  if !holds s k then (s, .notfound)
  else if delFails then (s, .error)
  else ({ a := (Bitmap.release s.a k).1, store := AMap.erase s.store k }, .ok)

def get (s : State) (k : Nat) : Obs :=
  match Bitmap.lookup s.a k with
  | .okAddr a => .okAddr a s.a.cfg.plen
  | _ => .none

def owner (s : State) (addr plen : Nat) : Obs :=
  match Bitmap.lookupByPrefix s.a addr plen with
  | .sub k => .sub k
  | _ => .none

def stats (s : State) : Obs :=
  match Bitmap.stats s.a with
  | .stats a t => .stats a t
  | _ => .none

/-- loadAllocations: replay every stored record with SetAllocation (failures are skipped) -/
def load (a : Bitmap.State) : List (Nat × Rec) → Bitmap.State
  | [] => a
  | (k, r) :: rest => load (Bitmap.setAllocation a k r.addr r.plen).1 rest

/-- crash + restart: a fresh allocator over the same store -/
def restart (s : State) (order : List Nat) : State :=
  { s with a := load (Bitmap.init s.a.cfg) (snapshot s.store order) }

/-- Start: a failing Query of loadAllocations makes Start return an error — the node does not come up -/
def start (s : State) (order : List Nat) (queryFails : Bool) : Option State :=
  if queryFails then none else some (restart s order)

/-- handleRemoteChange for a put -/
def applyPut (a : Bitmap.State) (k : Nat) (r : Rec) : Bitmap.State :=
  match Bitmap.lookup a k with
  | .okAddr cur => if cur = r.addr ∧ a.cfg.plen = r.plen then a else (Bitmap.setAllocation a k r.addr r.plen).1
  | _ => (Bitmap.setAllocation a k r.addr r.plen).1

def remotePut (s : State) (k : Nat) (r : Rec) : State :=
  { a := applyPut s.a k r, store := AMap.insert s.store k r }

def remoteDel (s : State) (k : Nat) : State :=
  { a := (Bitmap.release s.a k).1, store := AMap.erase s.store k }

/-- a change another node makes to the shared store -/
inductive Remote where
  | put (k : Nat) (r : Rec)
  | del (k : Nat)
  deriving Repr, DecidableEq

/-- … as the store sees it -/
def Remote.onStore (st : Store) : Remote → Store
  | .put k r => AMap.insert st k r
  | .del k => AMap.erase st k

/-- … as handleRemoteChange applies it in memory -/
def Remote.onMem (a : Bitmap.State) : Remote → Bitmap.State
  | .put k r => applyPut a k r
  | .del k => (Bitmap.release a k).1

/-- the change reaches the store and this node's watch -/
def applyRemote (s : State) : Remote → State
  | .put k r => remotePut s k r
  | .del k => remoteDel s k

/-- Start, in its two steps (since fix 700037a): the Watch is registered FIRST; then, with remote changes held
    off by da.mu, loadAllocations replays the result of its Query.  `window` are the changes other nodes make
    after that Query was answered: they are in the store, not in the snapshot, and their notifications — the
    watch is registered — are applied in order once the load has finished. -/
def startGap (s : State) (order : List Nat) (window : List Remote) : State :=
  { a := window.foldl Remote.onMem (load (Bitmap.init s.a.cfg) (snapshot s.store order)),
    store := window.foldl Remote.onStore s.store }

/-- Start as it WAS (loadAllocations, then Watch): nobody was watching when the window's changes were
    announced, so memory never learnt of them -/
def startGapUnwatched (s : State) (order : List Nat) (window : List Remote) : State :=
  { a := load (Bitmap.init s.a.cfg) (snapshot s.store order),
    store := window.foldl Remote.onStore s.store }

inductive Op where
  | alloc (k : Nat) (putFails : Bool)
  | release (k : Nat) (delFails : Bool)
  | renew (k : Nat)                       -- no-op in session mode
  | get (k : Nat)
  | owner (addr plen : Nat)
  | stats
  | restart (order : List Nat)
  | remotePut (k : Nat) (r : Rec)
  | remoteDel (k : Nat)
  /-- crash + restart with other nodes writing to the store while this node's Start is reading it -/
  | restartGap (order : List Nat) (window : List Remote)
  deriving Repr, DecidableEq

def step (s : State) : Op → State × Obs
  | .alloc k f => alloc s k f
  | .release k f => release s k f
  | .renew _ => (s, .ok)
  | .get k => (s, get s k)
  | .owner a l => (s, owner s a l)
  | .stats => (s, stats s)
  | .restart order => (restart s order, .ok)
  | .remotePut k r => (remotePut s k r, .ok)
  | .remoteDel k => (remoteDel s k, .ok)
  | .restartGap order w => (startGap s order w, .ok)

def run (s : State) (ops : List Op) : State := ops.foldl (fun st op => (step st op).1) s

end Session

/-! ## lease mode -/
namespace Lease

structure State where
  a     : Epoch.State
  store : Store
  deriving Repr

def init (c : Epoch.Cfg) : State := { a := Epoch.init c, store := [] }

/-- `epochAllocator.Lookup(id) != nil` -/
def holds (s : Epoch.State) (k : Nat) : Bool :=
  match Epoch.lookup s k with
  | .addr _ => true
  | _ => false

def alloc (s : State) (k : Nat) (putFails : Bool) : State × Obs :=
  let existed := holds s.a k
  match Epoch.alloc s.a k with
  | (a', .okAddr addr) =>
    if putFails then
      ({ s with a := if existed then a' else (Epoch.release a' k).1 }, .error)
    else
      ({ a := a', store := AMap.insert s.store k { addr := addr, plen := 32, epoch := a'.epoch } },
       .okAddr addr 32)
  | (_, .exhausted) => (s, .exhausted)
  | (_, _) => (s, .error)

/-- Renew: generation first, then read-modify-write of the stored record -/
def renew (s : State) (k : Nat) (getFails putFails : Bool) : State × Obs :=
  match Epoch.renew s.a k with
  | (_, .notfound) => (s, .notfound)
  | (a', _) =>
    match (if getFails then none else AMap.lookup s.store k) with
    | none => ({ s with a := a' }, .error)
    | some r =>
      if putFails then ({ s with a := a' }, .error)
      else ({ a := a', store := AMap.insert s.store k { r with epoch := a'.epoch } }, .ok)

def release (s : State) (k : Nat) (delFails : Bool) : State × Obs :=
  if delFails then (s, .error)
  else ({ a := (Epoch.release s.a k).1, store := AMap.erase s.store k }, .ok)

def get (s : State) (k : Nat) : Obs :=
  match Epoch.lookup s.a k with
  | .addr a => .okAddr a 32
  | _ => .none

def owner (s : State) (addr : Nat) : Obs :=
  match Epoch.lookupByIP s.a addr with
  | .sub k => .sub k
  | _ => .none

def stats (s : State) : Obs :=
  match Epoch.stats s.a with
  | .stats a t => .stats a t
  | _ => .none

/-- the expiry test shared by loadAllocations and handleRemoteChange -/
def stale (cur recEpoch : Nat) : Bool := decide (cur ≥ 2 ∧ recEpoch < cur - 2)

/-- loadAllocations in lease mode: stale records are deleted from the store, every other record is
    RE-ALLOCATED (the stored address is not used) -/
def load (a : Epoch.State) (st : Store) : List (Nat × Rec) → Epoch.State × Store
  | [] => (a, st)
  | (k, r) :: rest =>
    if stale a.epoch r.epoch then load a (AMap.erase st k) rest
    else load (Epoch.alloc a k).1 st rest

def restart (s : State) (order : List Nat) : State :=
  let r := load (Epoch.init s.a.cfg) s.store (snapshot s.store order)
  { a := r.1, store := r.2 }

/-- Start: a failing Query of loadAllocations makes Start return an error — the node does not come up -/
def start (s : State) (order : List Nat) (queryFails : Bool) : Option State :=
  if queryFails then none else some (restart s order)

/-- cleanupExpiredFromStore -/
def cleanup (st : Store) (cur : Nat) : List (Nat × Rec) → Store
  | [] => st
  | (k, r) :: rest => if decide (r.epoch < cur - 2) then cleanup (AMap.erase st k) cur rest else cleanup st cur rest

/-- the store echoes a delete to its watchers (nexus.MemoryStore notifies on every Delete, the node's own
    included): handleRemoteChange releases the subscriber in memory -/
def echoDeletes (a : Epoch.State) : List Nat → Epoch.State
  | [] => a
  | k :: rest => echoDeletes (Epoch.release a k).1 rest

/-- one tick of epochLoop without the watch echo: AdvanceEpoch, then the store cleanup (skipped when its Query
    fails); also returns the subscribers whose records the cleanup deleted -/
def tickCore (s : State) (order : List Nat) (queryFails : Bool) : State × List Nat :=
  let a' := (Epoch.advance s.a).1
  if a'.epoch < 2 ∨ queryFails then ({ a := a', store := s.store }, [])
  else
    let snap := snapshot s.store order
    ({ a := a', store := cleanup s.store a'.epoch snap },
     (snap.filter fun p => decide (p.2.epoch < a'.epoch - 2)).map (·.1))

/-- one tick as the node sees it when nothing else happens in between: every record the cleanup deleted comes
    back through the watch and releases that subscriber's lease in memory -/
def tick (s : State) (order : List Nat) (queryFails : Bool) : State × Obs :=
  let r := tickCore s order queryFails
  ({ r.1 with a := echoDeletes r.1.a r.2 }, .num r.1.a.epoch)

/-- the watch echo is asynchronous: a caller that re-allocates between the tick and the delivery of its delete
    notifications has the FRESH lease released by the stale notification (finding KF-stale-delete-echo) -/
def tickThenAllocThenEcho (s : State) (order : List Nat) (k : Nat) : State × Obs × Obs :=
  let r := tickCore s order false
  let r2 := alloc r.1 k false
  ({ r2.1 with a := echoDeletes r2.1.a r.2 }, .num r.1.a.epoch, r2.2)

/-- handleRemoteChange for a put in lease mode: the announced address is not used -/
def applyPut (a : Epoch.State) (k : Nat) (r : Rec) : Epoch.State :=
  if stale a.epoch r.epoch then a
  else if holds a k then a
  else (Epoch.alloc a k).1

def remotePut (s : State) (k : Nat) (r : Rec) : State :=
  { a := applyPut s.a k r, store := AMap.insert s.store k r }

def remoteDel (s : State) (k : Nat) : State :=
  { a := (Epoch.release s.a k).1, store := AMap.erase s.store k }

/-- a change another node makes to the shared store, as this node applies it -/
def applyRemote (s : State) : Session.Remote → State
  | .put k r => remotePut s k r
  | .del k => remoteDel s k

/-- Start in lease mode, in its two steps (Watch first, then the load under da.mu; see `Session.startGap`):
    `window` are the changes that reach the store after the Query of the load step was answered -/
def startGap (s : State) (order : List Nat) (window : List Session.Remote) : State :=
  let r := load (Epoch.init s.a.cfg) s.store (snapshot s.store order)
  { a := window.foldl (fun a ev => match ev with
        | .put k rec => applyPut a k rec
        | .del k => (Epoch.release a k).1) r.1,
    store := window.foldl Session.Remote.onStore r.2 }

inductive Op where
  | alloc (k : Nat) (putFails : Bool)
  | release (k : Nat) (delFails : Bool)
  | renew (k : Nat) (getFails putFails : Bool)
  | get (k : Nat)
  | owner (addr : Nat)
  | stats
  | restart (order : List Nat)
  | tick (order : List Nat) (queryFails : Bool)
  | remotePut (k : Nat) (r : Rec)
  | remoteDel (k : Nat)
  deriving Repr, DecidableEq

def step (s : State) : Op → State × Obs
  | .alloc k f => alloc s k f
  | .release k f => release s k f
  | .renew k g p => renew s k g p
  | .get k => (s, get s k)
  | .owner a => (s, owner s a)
  | .stats => (s, stats s)
  | .restart order => (restart s order, .ok)
  | .tick order f => tick s order f
  | .remotePut k r => (remotePut s k r, .ok)
  | .remoteDel k => (remoteDel s k, .ok)

def run (s : State) (ops : List Op) : State := ops.foldl (fun st op => (step st op).1) s

end Lease

/-! ## PoolAllocator (pkg/allocator/store.go) over a MemoryAllocationStore shared with other pools

  The bitmap allocator plus the store's record per subscriber — the session-mode wrapper with the store
  write failing when the fault flag says so OR when the store's by-IP index already records the prefix for
  somebody else (ErrConflict).  TWO PoolAllocators, "p" (`s`) and "q" (`q`), of the same geometry share the
  store, so every unit of one collides with the same unit of the other in the by-IP index (its key is the
  address alone); `foreign` are prefixes recorded directly in the store for a third pool.

  The store owns its records (since fix 1525014 SaveAllocation keeps a copy and every getter returns
  copies): the objects a caller holds — the *net.IPNet Allocate returned, a record it passed to
  SaveAllocation, what GetByPool / GetBySubscriber / GetByIP returned — are not store state, so writing
  through them (`scribble`) is no operation on the model.  `Aliased` below is the store as it was before
  that fix, for the witness of the defect. -/
namespace Pool

structure State where
  s       : Session.State
  q       : Session.State
  foreign : List Nat
  deriving Repr

def init (c : Bitmap.Cfg) : State := { s := Session.init c, q := Session.init c, foreign := [] }

/-- the by-IP index names `a` for somebody who is not a subscriber of the pool asking: a record of the
    other pool or of the third one -/
def taken (foreign : List Nat) (other : Session.State) (a : Nat) : Bool :=
  foreign.contains a || other.store.any (fun p => p.2.addr == a)

/-- SaveAllocation's conflict check for the prefix Allocate (pool p) is about to hand out -/
def conflictFor (st : State) (k : Nat) : Bool :=
  match Bitmap.alloc st.s.a k with
  | (_, .okAddr a) => taken st.foreign st.q a
  | _ => false

/-- the same for pool q -/
def qconflictFor (st : State) (k : Nat) : Bool :=
  match Bitmap.alloc st.q.a k with
  | (_, .okAddr a) => taken st.foreign st.s a
  | _ => false

/-- AllocateWithOptions (pool p) -/
def alloc (st : State) (k : Nat) (saveFails : Bool) : State × Obs :=
  let r := Session.alloc st.s k (saveFails || conflictFor st k)
  ({ st with s := r.1 }, r.2)

/-- Release (pool p) -/
def release (st : State) (k : Nat) (removeFails : Bool) : State × Obs :=
  let r := Session.release st.s k removeFails
  ({ st with s := r.1 }, r.2)

/-- AllocateWithOptions (pool q) -/
def qalloc (st : State) (k : Nat) (saveFails : Bool) : State × Obs :=
  let r := Session.alloc st.q k (saveFails || qconflictFor st k)
  ({ st with q := r.1 }, r.2)

/-- Release (pool q) -/
def qrelease (st : State) (k : Nat) (removeFails : Bool) : State × Obs :=
  let r := Session.release st.q k removeFails
  ({ st with q := r.1 }, r.2)

/-- a third pool records `addr` in the shared store: refused when a record of p or q already names it -/
def foreign (st : State) (addr : Nat) : State × Obs :=
  if st.s.store.any (fun p => p.2.addr == addr) || st.q.store.any (fun p => p.2.addr == addr) then (st, .error)
  else ({ st with foreign := if st.foreign.contains addr then st.foreign else addr :: st.foreign }, .ok)

def unforeign (st : State) (addr : Nat) : State := { st with foreign := st.foreign.filter (· != addr) }

inductive Op where
  | alloc (k : Nat) (f : Bool)
  | release (k : Nat) (f : Bool)
  | lookup (k : Nat)
  | stats
  | foreign (addr : Nat)
  | unforeign (addr : Nat)
  | rtstore            -- MemoryAllocationStore Marshal/Unmarshal: the three indexes are rebuilt from the records
  | qalloc (k : Nat) (f : Bool)
  | qrelease (k : Nat) (f : Bool)
  | qlookup (k : Nat)
  /-- the caller writes through every pointer it was given or handed in (results of Allocate / Lookup,
      records passed to SaveAllocation, results of the store's getters): none of them is store state -/
  | scribble
  deriving Repr, DecidableEq

def step (st : State) : Op → State × Obs
  | .alloc k f => alloc st k f
  | .release k f => release st k f
  | .lookup k => (st, Session.get st.s k)
  | .stats => (st, Session.stats st.s)
  | .foreign a => foreign st a
  | .unforeign a => (unforeign st a, .ok)
  | .rtstore => (st, .ok)
  | .qalloc k f => qalloc st k f
  | .qrelease k f => qrelease st k f
  | .qlookup k => (st, Session.get st.q k)
  | .scribble => (st, .ok)

def run (st : State) (ops : List Op) : State := ops.foldl (fun s op => (step s op).1) st

/-- every answer of a history, in order -/
def answers : State → List Op → List Obs
  | _, [] => []
  | st, op :: ops => (step st op).2 :: answers (step st op).1 ops

/-- who the by-IP index names for address `a`: (pool, subscriber) with pool 0 = p, 1 = q, 2 = the third pool -/
def byIP (st : State) (a : Nat) : Option (Nat × Nat) :=
  match st.s.store.find? (fun p => p.2.addr == a) with
  | some p => some (0, p.1)
  | none =>
    match st.q.store.find? (fun p => p.2.addr == a) with
    | some p => some (1, p.1)
    | none => if st.foreign.contains a then some (2, a) else none

end Pool

/-! ### the store BEFORE fix 1525014: records shared with the callers

  One pool, one by-IP index kept next to the records (as the code keeps it).  `Allocate` returned the stored
  record's own *net.IPNet: a caller writing through it (`poke k a'`) changed the stored prefix and no index
  followed; RemoveAllocation computes the index key from the stored record and therefore missed the entry. -/
namespace Aliased

structure State where
  a     : Bitmap.State
  recs  : AMap Nat Nat          -- subscriber ↦ address of its stored record
  byIP  : AMap Nat Nat          -- address ↦ subscriber (the by-IP index)
  deriving Repr

def init (c : Bitmap.Cfg) : State := { a := Bitmap.init c, recs := [], byIP := [] }

def alloc (st : State) (k : Nat) : State × Obs :=
  let existed := (AMap.lookup st.a.allocated k).isSome
  match Bitmap.alloc st.a k with
  | (a', .okAddr addr) =>
    match AMap.lookup st.byIP addr with
    | some k' =>
      if k' == k then ({ st with a := a' }, .okAddr addr st.a.cfg.plen)
      else ({ st with a := if existed then a' else (Bitmap.release a' k).1 }, .error)     -- ErrConflict
    | none => ({ a := a', recs := AMap.insert st.recs k addr, byIP := AMap.insert st.byIP addr k }, .okAddr addr st.a.cfg.plen)
  | (_, .exhausted) => (st, .exhausted)
  | (_, _) => (st, .error)

/-- Release: RemoveAllocation derives the by-IP key from the STORED record -/
def release (st : State) (k : Nat) : State × Obs :=
  if (AMap.lookup st.a.allocated k).isNone then (st, .notfound)
  else
    let byIP' := match AMap.lookup st.recs k with
      | some addr => AMap.erase st.byIP addr
      | none => st.byIP
    ({ a := (Bitmap.release st.a k).1, recs := AMap.erase st.recs k, byIP := byIP' }, .ok)

/-- the caller writes address `a'` through the *net.IPNet Allocate returned for k -/
def poke (st : State) (k a' : Nat) : State :=
  match AMap.lookup st.recs k with
  | some _ => { st with recs := AMap.insert st.recs k a' }
  | none => st

end Aliased

end Bng.Dist
