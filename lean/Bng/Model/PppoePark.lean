import Bng.Model.PppoeTimed
import Bng.Model.PppoeMonitor
/-
  The PPPoE server with a PAP authentication that is NOT one step (review r-gaps A2).

  pkg/pppoe/server.go handlePAP calls radius.Client.Authenticate (bounded by 30 s) on the server's ONE receive
  goroutine: while the exchange is under way no frame is taken off the socket, but cleanupLoop — a goroutine of its
  own — goes on running SessionManager.CleanupExpired, and the clock goes on.  So the operation is split here:

    authpark m sid pw     the PAP request arrives; if it reaches the RADIUS call (a RADIUS client is configured, the
                          password is not empty, the frame passed handleSession's owner check — which also refreshed
                          LastActivity) the handler is parked inside the call, holding its *Session; otherwise the
                          frame is handled at once, exactly as `In.pap`
    age / sweepT / sweep  the only things that happen while the handler is parked (every frame is `busy`)
    authresume r          RADIUS answers.  Since fix ef7000f handlePAP looks the session up again
                          (`s.sessions.GetSession(session.ID) != session → return`): the rest of the handler is the
                          `In.pap` step taken NOW — with the session gone it answers nobody and allocates nothing.
                          LastActivity is not refreshed a second time.

  `stepResumeOld` is the code before the fix (no second look-up: PAP-Ack, IPCP Configure-Request and an address for
  a session object that is in no table); `Spec.C16PppoePark.recheck_is_needed_witness` shows what it strands.
  Every history of this layer is a history of the one-step model (`Spec.C16PppoePark.park_projects`), so all
  theorems of `Spec.C16PppoeWhole` carry over.  Core Lean only.
-/
namespace Bng.PppoePark
open Bng Bng.PppoeServer Bng.PppoeTimed Bng.PppoeMon

/-- what the parked handler holds: the frame's source MAC and session id, the password class, and the *Session it
    looked up before the call (`serial` stands for its RADIUS Session-Id, the key of the address pool) -/
structure Parked where
  m : Nat
  sid : Nat
  pw : Pw
  serial : Nat
  deriving Repr, DecidableEq

structure PSrv where
  t : TSrv
  parked : Option Parked
  deriving Repr

inductive PIn where
  | plain (ti : TIn)
  | authpark (m sid : Nat) (pw : Pw)
  | authresume (r : Radius)
  deriving Repr, DecidableEq

/-- the first word of the observation -/
inductive Note where | plain | parked | done | busy | notparked
  deriving Repr, DecidableEq

/-- handlePAP gets as far as radius.Client.Authenticate: the session whose handler will wait there -/
def reachesRadius (s : Srv) (m sid : Nat) (pw : Pw) : Option Sess :=
  if s.radius && decide (pw ≠ Pw.empty) then ownerGate s m sid else none

/-- what still happens while the receive goroutine waits for RADIUS: the clock and the cleanup goroutine -/
def allowedWhileParked : TIn → Bool
  | .age _ => true
  | .sweepT _ => true
  | .frame (.sweep _) => true
  | .frame _ => false

def liveIdle (idle : AMap Nat Nat) (s : Srv) : AMap Nat Nat :=
  idle.filter fun p => (AMap.lookup s.sessions p.1).isSome

def stepP (p : PSrv) : PIn → PSrv × List Out × Note
  | .plain ti =>
    if p.parked.isSome && !allowedWhileParked ti then (p, [], .busy)
    else
      let (t', outs) := stepT p.t ti
      ({ p with t := t' }, outs, .plain)
  | .authpark m sid pw =>
    if p.parked.isSome then (p, [], .busy)
    else
      match reachesRadius p.t.srv m sid pw with
      | some x =>
        -- handleSession has refreshed LastActivity before it dispatched to handlePAP
        ({ t := { srv := p.t.srv, idle := liveIdle (AMap.insert p.t.idle sid 0) p.t.srv },
           parked := some { m := m, sid := sid, pw := pw, serial := x.serial } }, [], .parked)
      | none =>
        let (t', outs) := stepT p.t (.frame (.pap m sid pw .accept))
        ({ p with t := t' }, outs, .done)
  | .authresume r =>
    match p.parked with
    | none => (p, [], .notparked)
    | some k =>
      let (s', outs) := step p.t.srv (.pap k.m k.sid k.pw r)
      ({ t := { srv := s', idle := liveIdle p.t.idle s' }, parked := none }, outs, .plain)

/-- the input of the one-step model a line of this layer stands for (also what the monitor is told the line was);
    a parked request is, for the session table and the pool, as inert as a PADI -/
def projIn (p : PSrv) : PIn → Option In
  | .plain ti => if p.parked.isSome && !allowedWhileParked ti then none else untimed p.t ti
  | .authpark m sid pw =>
    if p.parked.isSome then none
    else match reachesRadius p.t.srv m sid pw with
      | some _ => some (.padi m)
      | none => some (.pap m sid pw .accept)
  | .authresume r =>
    match p.parked with
    | none => none
    | some k => some (.pap k.m k.sid k.pw r)

def initP (radius : Bool) (bits : Nat) : PSrv := { t := initT radius bits, parked := none }

def runP (p : PSrv) (pis : List PIn) : PSrv := pis.foldl (fun st pi => (stepP st pi).1) p

/-- the one-step history a history with parked authentications stands for -/
def projectP : PSrv → List PIn → List In
  | _, [] => []
  | p, pi :: rest =>
    match projIn p pi with
    | some i => i :: projectP (stepP p pi).1 rest
    | none => projectP (stepP p pi).1 rest

/-- model and monitor side by side on a history with parked authentications: the monitor is told `projIn` -/
def runBothP : PSrv → Mon → List PIn → List Verdict
  | _, _, [] => []
  | p, mn, pi :: rest =>
    let r := stepP p pi
    match projIn p pi with
    | some i =>
      let (mn', vs) := monitorCore mn i (obsOf r.1.t.srv r.2.1)
      vs ++ runBothP r.1 mn' rest
    | none => runBothP r.1 mn rest

/-- handlePAP after the RADIUS call as it was BEFORE fix ef7000f: it goes on with the *Session it holds, whether or not
    the session table still has it -/
def stepResumeOld (s : Srv) (k : Parked) (r : Radius) : Srv × List Out :=
  match AMap.lookup s.sessions k.sid with
  | some _ => step s (.pap k.m k.sid k.pw r)
  | none =>
    if papOk s k.pw r then
      let (s1, ip) := poolAllocate s k.serial      -- startIPCPNegotiation: Allocate(session.SessionID)
      (s1, if ip.isSome then [.papack k.sid k.m, .ipcpreq k.sid k.m] else [.papack k.sid k.m])
    else (poolRelease s k.serial, [.papnak k.sid k.m])

end Bng.PppoePark
