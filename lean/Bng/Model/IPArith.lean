/-
  Address arithmetic shared by the free-list pool generators and the hash allocator
  (pkg/dhcp/pool.go generateAvailableIPs, pkg/pppoe/server.go NewIPPool/nextIP,
   pkg/dhcpv6/server.go NewAddressPool/nextIPv6/NewPrefixPool, pkg/pool/peer.go generateAvailableIPs,
   pkg/nexus/client.go allocateFromPool).

  Addresses are their numeric value (`Nat`, big-endian reading of the byte slice).
  Core Lean only.
-/
namespace Bng.IPArith

/-- `ip[0] += byte(i>>24); ip[1] += byte(i>>16); ip[2] += byte(i>>8); ip[3] += byte(i)` on a 4-byte
    address: every byte wraps on its own, no carry travels between bytes. -/
def addBytes4 (base i : Nat) : Nat :=
  ((base / 16777216 % 256 + i / 16777216 % 256) % 256) * 16777216 +
  ((base / 65536 % 256 + i / 65536 % 256) % 256) * 65536 +
  ((base / 256 % 256 + i / 256 % 256) % 256) * 256 +
  (base % 256 + i % 256) % 256

/-- `ipnet.Contains(x)` for a network whose host part has `h` bits: same network prefix. -/
def containsNet (base h x : Nat) : Bool := x / 2 ^ h == base / 2 ^ h

/-- The "increment, stop at the first address outside the network" loops of `NewIPPool` (fuel = 2^h, the
    real loop has no bound) and `NewAddressPool` (fuel = 1000, the real bound).  `bits` is the width of the
    byte slice the increment wraps in; `keep` is the per-address filter. -/
def walk (bits : Nat) (inNet keep : Nat → Bool) : Nat → Nat → List Nat
  | 0, _ => []
  | fuel + 1, ip =>
    let nx := (ip + 1) % 2 ^ bits
    if inNet nx then (if keep nx then nx :: walk bits inNet keep fuel nx else walk bits inNet keep fuel nx)
    else []

/-- `b |= 1 << p` on the number the byte slice denotes: nothing if the bit is set, else add 2^p. -/
def setBit1 (x p : Nat) : Nat := if x / 2 ^ p % 2 = 1 then x else x + 2 ^ p

/-- The inner loop of `NewPrefixPool`: bits `0 … n-1` of `idx` are OR-ed into the positions
    `s … s+n-1` (counted from the least significant bit of the 128-bit value) of `base`. -/
def placeBits (base s idx : Nat) : Nat → Nat
  | 0 => base
  | n + 1 =>
    let acc := placeBits base s idx n
    if idx / 2 ^ n % 2 = 1 then setBit1 acc (s + n) else acc

end Bng.IPArith
