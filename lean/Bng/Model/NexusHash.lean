import Bng.Model.IPArith
/-
  Model of the hash-based central allocation `(*Client).allocateFromPool` (pkg/nexus/client.go):

      numHosts := (1 << hostBits) - 2;  if numHosts <= 0 → error
      offset   := int(hashString(id) % uint64(numHosts)) + 1
      ip[3] += byte(offset); ip[2] += byte(offset>>8); ip[1] += byte(offset>>16); ip[0] += byte(offset>>24)

  The base address of the pool record is masked first (`ip[k] &= ipNet.Mask[k]`, since the repair of
  finding KF-nexus-unmasked).
  The function keeps no state: who already holds the computed address is never consulted.
  The hash is a parameter of every definition the theorems are about; `fnv1a` is the real one.
  Core Lean only.
-/
namespace Bng.NexusHash
open Bng.IPArith

structure Cfg where
  base : Nat      -- the address part of the CIDR string as written (host bits may be set)
  ones : Nat
  deriving Repr, DecidableEq

def Cfg.hostBits (c : Cfg) : Nat := 32 - c.ones
/-- `(1 << hostBits) - 2`; 0 stands for "≤ 0" -/
def Cfg.numHosts (c : Cfg) : Nat := 2 ^ c.hostBits - 2

/-- the base address with the host bits cleared -/
def Cfg.net (c : Cfg) : Nat := c.base / 2 ^ c.hostBits * 2 ^ c.hostBits

/-- `hash % numHosts + 1` -/
def offset (c : Cfg) (h : Nat) : Nat := h % c.numHosts + 1

/-- the address `allocateFromPool` computes for an id with hash `h` (`none` = "no usable addresses") -/
def addrOfHash (c : Cfg) (h : Nat) : Option Nat :=
  if c.numHosts = 0 then none else some (addBytes4 c.net (offset c h))

/-- the allocator for an arbitrary hash function on ids -/
def addr {κ : Type} (hash : κ → Nat) (c : Cfg) (id : κ) : Option Nat := addrOfHash c (hash id)

/-- hashString: 64-bit FNV-1a over the bytes of the id -/
def fnv1a (bytes : List Nat) : Nat :=
  bytes.foldl (fun h b => (Nat.xor h b) * 1099511628211 % 18446744073709551616) 14695981039346656037

/-- the exclusion clause of finding D1: the two ids fall on the same host offset -/
def collide (c : Cfg) (h₁ h₂ : Nat) : Bool := offset c h₁ == offset c h₂

end Bng.NexusHash
