import Bng.Map
import Bng.Model.IPArith
/-
  Model of the hash-based central allocation `(*Client).allocateFromPool` (pkg/nexus/client.go):

      numHosts := (1 << hostBits) - 2;  if numHosts <= 0 → error
      offset   := int(hashString(id) % uint64(numHosts)) + 1
      ip[3] += byte(offset); ip[2] += byte(offset>>8); ip[1] += byte(offset>>16); ip[0] += byte(offset>>24)

  The base address of the pool record is masked first (`ip[k] &= ipNet.Mask[k]`, since the repair of
  finding KF-nexus-unmasked).
  The function keeps no state: who already holds the computed address is never consulted.
  The hash is a parameter of every definition the theorems are about; `fnv1a` is the real one.
  Core Lean only.
-/
namespace Bng.NexusHash
open Bng.IPArith

structure Cfg where
  base : Nat      -- the address part of the CIDR string as written (host bits may be set)
  ones : Nat
  deriving Repr, DecidableEq

def Cfg.hostBits (c : Cfg) : Nat := 32 - c.ones
/-- `(1 << hostBits) - 2`; 0 stands for "≤ 0" -/
def Cfg.numHosts (c : Cfg) : Nat := 2 ^ c.hostBits - 2

/-- the base address with the host bits cleared -/
def Cfg.net (c : Cfg) : Nat := c.base / 2 ^ c.hostBits * 2 ^ c.hostBits

/-- `hash % numHosts + 1` -/
def offset (c : Cfg) (h : Nat) : Nat := h % c.numHosts + 1

/-- the address `allocateFromPool` computes for an id with hash `h` (`none` = "no usable addresses") -/
def addrOfHash (c : Cfg) (h : Nat) : Option Nat :=
  if c.numHosts = 0 then none else some (addBytes4 c.net (offset c h))

/-- the allocator for an arbitrary hash function on ids -/
def addr {κ : Type} (hash : κ → Nat) (c : Cfg) (id : κ) : Option Nat := addrOfHash c (hash id)

/-- hashString: 64-bit FNV-1a over the bytes of the id -/
def fnv1a (bytes : List Nat) : Nat :=
  bytes.foldl (fun h b => (Nat.xor h b) * 1099511628211 % 18446744073709551616) 14695981039346656037

/-- the exclusion clause of finding D1: the two ids fall on the same host offset -/
def collide (c : Cfg) (h₁ h₂ : Nat) : Bool := offset c h₁ == offset c h₂


/-! ## the client around it: `AllocateIPForSubscriber`, `ReleaseSubscriberIP`, `LookupSubscriberIP`
    (pkg/nexus/client.go) over the subscriber, ISP and pool records of the store -/
namespace Client
open Bng

/-- the fields of a subscriber record the allocation path reads and writes -/
structure Sub where
  pool : Option Nat      -- IPv4Pool ("" = none)
  isp  : Option Nat      -- ISPID
  addr : Option Nat      -- IPv4Addr ("" = none)
  hash : Nat             -- hashString(ID)
  deriving Repr, DecidableEq

structure State where
  pools : AMap Nat Cfg             -- pool records, read from the store on every allocation
  isps  : AMap Nat (Option Nat)    -- ISP record ↦ its first IPv4 pool (IPv4Pools[0]), if any
  subs  : AMap Nat Sub             -- the client's CACHE of subscriber records (what GetSubscriber answers)
  store : AMap Nat Sub             -- the subscriber records in the store
  deriving Repr

def init : State := { pools := [], isps := [], subs := [], store := [] }

inductive Obs where
  | okAddr (a : Nat)
  | ok
  | nosub
  | nopool          -- "no IPv4 pool configured for subscriber"
  | nopoolrec       -- the pool record does not exist
  | nohosts         -- "pool has no usable addresses"
  | none
  | error           -- the store refused the write
  deriving Repr, DecidableEq

/-- a subscriber record is written to the store and (by the watch, or directly after the write since fix
    08ca96f) reaches the cache -/
def save (s : State) (k : Nat) (sub : Sub) : State :=
  { s with subs := AMap.insert s.subs k sub, store := AMap.insert s.store k sub }

/-- AllocateIPForSubscriber: a stored address is returned as it is; otherwise the address is computed
    from the pool record AS IT IS NOW (the subscriber's own pool, else the first pool of its ISP) and
    stored together with the pool id. -/
def alloc (s : State) (k : Nat) : State × Obs :=
  match s.subs.lookup k with
  | Option.none => (s, .nosub)
  | some sub =>
    match sub.addr with
    | some a => (s, .okAddr a)
    | Option.none =>
      let poolID := match sub.pool with
        | some p => some p
        | Option.none => match sub.isp with
          | some i => (s.isps.lookup i).join
          | Option.none => Option.none
      match poolID with
      | Option.none => (s, .nopool)
      | some p =>
        match s.pools.lookup p with
        | Option.none => (s, .nopoolrec)
        | some c =>
          match addrOfHash c sub.hash with
          | Option.none => (s, .nohosts)
          | some a => (save s k { sub with addr := some a, pool := some p }, .okAddr a)

/-- ReleaseSubscriberIP -/
def release (s : State) (k : Nat) : State × Obs :=
  match s.subs.lookup k with
  | Option.none => (s, .nosub)
  | some sub =>
    match sub.addr with
    | Option.none => (s, .ok)
    | some _ => (save s k { sub with addr := Option.none }, .ok)

/-- AllocateIPForSubscriber while the store refuses subscriber writes: every answer that needs no write is as
    usual; a newly computed address is NOT handed out and (the client edits a copy of the cached record, since
    fix 08ca96f) neither cache nor store changes -/
def allocF (s : State) (k : Nat) : State × Obs :=
  match s.subs.lookup k with
  | Option.none => (s, .nosub)
  | some sub =>
    match sub.addr with
    | some a => (s, .okAddr a)
    | Option.none =>
      match (alloc s k).2 with
      | .okAddr _ => (s, .error)
      | o => (s, o)

/-- ReleaseSubscriberIP while the store refuses subscriber writes -/
def releaseF (s : State) (k : Nat) : State × Obs :=
  match s.subs.lookup k with
  | Option.none => (s, .nosub)
  | some sub =>
    match sub.addr with
    | Option.none => (s, .ok)
    | some _ => (s, .error)

/-- the same two calls BEFORE fix 08ca96f: the cached record itself was edited first, so a refused write left
    the change in the cache -/
def allocFUnfixed (s : State) (k : Nat) : State × Obs :=
  match (allocF s k).2 with
  | .error => ({ s with subs := (alloc s k).1.subs }, .error)
  | o => (s, o)

def releaseFUnfixed (s : State) (k : Nat) : State × Obs :=
  match (releaseF s k).2 with
  | .error => ({ s with subs := (release s k).1.subs }, .error)
  | o => (s, o)

/-- LookupSubscriberIP -/
def lookup (s : State) (k : Nat) : Obs :=
  match s.subs.lookup k with
  | Option.none => .none
  | some sub => match sub.addr with
    | some a => .okAddr a
    | Option.none => .none

inductive Op where
  | pool (p : Nat) (c : Cfg)                              -- the pool record is written (created or edited)
  | isp (i : Nat) (first : Option Nat)                    -- the ISP record is written
  | sub (k : Nat) (pool isp : Option Nat) (hash : Nat)    -- the subscriber record is (re)provisioned, without address
  | alloc (k : Nat)
  | release (k : Nat)
  | lookup (k : Nat)
  | allocF (k : Nat)                                      -- … while the store refuses subscriber writes
  | releaseF (k : Nat)
  deriving Repr, DecidableEq

def step (s : State) : Op → State × Obs
  | .pool p c => ({ s with pools := AMap.insert s.pools p c }, .ok)
  | .isp i f => ({ s with isps := AMap.insert s.isps i f }, .ok)
  | .sub k p i h => (save s k { pool := p, isp := i, addr := Option.none, hash := h }, .ok)
  | .alloc k => alloc s k
  | .release k => release s k
  | .lookup k => (s, lookup s k)
  | .allocF k => allocF s k
  | .releaseF k => releaseF s k

def run (s : State) (ops : List Op) : State := ops.foldl (fun st op => (step st op).1) s

end Client

end Bng.NexusHash
