import Bng.Model.Nat
/-
  Model of the buffering and flushing of pkg/nat/logging.go (Logger: addEntry / addPortBlockEntry, Flush /
  FlushPortBlocks, writeWithRotation), generic in the record type.  Core Lean only.

  The code (after the fixes of findings C10-flush-reorders and C10-write-error-drops-records):

      add      addEntry / addPortBlockEntry: append to the buffer (under the buffer mutex only — it does not wait
               for a flush in flight)
      take     Flush / FlushPortBlocks, first half: the WRITE lock `l.mu` is taken, then the buffer is swapped out.
               A second flush waits at `l.mu` (in the model: its `take` is a step that can only happen later).
      finish   second half: the records of the batch are written one by one; from the first Write that fails on,
               the rest of the batch is put back IN FRONT of whatever was buffered meanwhile; the lock is released.
      writer   the log file's state: healthy, or good for `n` more Writes and failing afterwards (a full disk, a
               rotation that could not open the new file and left a closed handle behind).

  `Old*` is the code as it was before the fixes: the buffer was swapped out BEFORE the write lock was taken (so a
  second flush could take the next batch and write it first), and a failing Write only logged an error (the
  record was gone).  It is used by the witness theorems only.
-/
namespace Bng.NatLog
open Bng

structure St (ρ : Type) where
  file   : List ρ := []             -- records written, oldest first
  flight : Option (List ρ) := none  -- batch of the flush that holds the write lock
  buf    : List ρ := []             -- buffered records, oldest first
  budget : Option Nat := none       -- none: every Write succeeds; some n: n more succeed, then all fail
  deriving Repr

inductive Ctl where
  | take
  | finish
  | writer (b : Option Nat)
  deriving Repr, DecidableEq

def add {ρ : Type} (s : St ρ) (r : ρ) : St ρ := { s with buf := s.buf ++ [r] }

def take {ρ : Type} (s : St ρ) : St ρ :=
  match s.flight with
  | some _ => s
  | none => { s with flight := some s.buf, buf := [] }

/-- how many records of a batch of `len` the writer accepts -/
def accepted (budget : Option Nat) (len : Nat) : Nat :=
  match budget with
  | none => len
  | some n => min n len

def finish {ρ : Type} (s : St ρ) : St ρ :=
  match s.flight with
  | none => s
  | some b =>
    let n := accepted s.budget b.length
    { s with file := s.file ++ b.take n, buf := b.drop n ++ s.buf, flight := none,
             budget := s.budget.map (· - n) }

def ctl {ρ : Type} (s : St ρ) : Ctl → St ρ
  | .take => take s
  | .finish => finish s
  | .writer b => { s with budget := b }

/-- one uninterrupted Flush -/
def flush {ρ : Type} (s : St ρ) : St ρ := finish (take s)

/-- every record the logger still has or has written, in the order in which a complete flush leaves them -/
def everything {ρ : Type} (s : St ρ) : List ρ := s.file ++ s.flight.getD [] ++ s.buf

/-- nothing waits to be written -/
def settled {ρ : Type} (s : St ρ) : Bool := s.flight.isNone && s.buf.isEmpty

inductive Op (ρ : Type) where
  | add (r : ρ)
  | ctl (c : Ctl)

def step {ρ : Type} (s : St ρ) : Op ρ → St ρ
  | .add r => add s r
  | .ctl c => ctl s c

def run {ρ : Type} (s : St ρ) (ops : List (Op ρ)) : St ρ := ops.foldl step s

/-- the records logged by a history, in call order -/
def added {ρ : Type} : List (Op ρ) → List ρ
  | [] => []
  | .add r :: rest => r :: added rest
  | .ctl _ :: rest => added rest

/-! ## the manager and its logger together -/

structure Sys where
  m  : Cgnat.State
  lg : St Cgnat.LogEntry := {}

inductive SysOp where
  | call (op : Cgnat.Op)     -- a critical section of the manager; its records go to the logger at once
  | ctl (c : Ctl)            -- the logger's flushes and the state of its output, at any time in between
  deriving Repr

/-- records written between two states of the manager, oldest first -/
def recordsOf (before after : Cgnat.State) : List Cgnat.LogEntry :=
  (after.log.take (after.log.length - before.log.length)).reverse

def sysStep (x : Sys) : SysOp → Sys
  | .call op =>
    let m' := (Cgnat.step x.m op).1
    { m := m', lg := (recordsOf x.m m').foldl add x.lg }
  | .ctl c => { x with lg := ctl x.lg c }

def sysRun (x : Sys) (ops : List SysOp) : Sys := ops.foldl sysStep x

/-- the manager's calls of a combined history -/
def calls : List SysOp → List Cgnat.Op
  | [] => []
  | .call op :: rest => op :: calls rest
  | .ctl _ :: rest => calls rest

/-! ## the logger before the fixes -/

structure OldSt (ρ : Type) where
  file    : List ρ := []
  flights : List (List ρ) := []     -- batches swapped out by flushes that have not got the write lock yet
  buf     : List ρ := []
  budget  : Option Nat := none
  deriving Repr

inductive OldOp (ρ : Type) where
  | add (r : ρ)
  | take                    -- a flush swaps the buffer out (nothing to do when it is empty) and queues at the write lock
  | write (i : Nat)         -- the i-th waiting flush gets the lock and writes its batch; records the writer refuses are dropped
  | writer (b : Option Nat)

def oldStep {ρ : Type} (s : OldSt ρ) : OldOp ρ → OldSt ρ
  | .add r => { s with buf := s.buf ++ [r] }
  | .take => if s.buf.isEmpty then s else { s with flights := s.flights ++ [s.buf], buf := [] }
  | .write i =>
    match s.flights[i]? with
    | none => s
    | some b =>
      let n := accepted s.budget b.length
      { s with file := s.file ++ b.take n, flights := s.flights.eraseIdx i, budget := s.budget.map (· - n) }
  | .writer b => { s with budget := b }

def oldRun {ρ : Type} (s : OldSt ρ) (ops : List (OldOp ρ)) : OldSt ρ := ops.foldl oldStep s

end Bng.NatLog
