import Bng.Map
/-
  Model of the DHCPv4 slow path: pkg/dhcp/server.go (handleDiscover, handleRequest, handleRelease,
  handleDecline, handleInform, cleanupExpiredLeases) over pkg/dhcp/pool.go (Pool: Allocate, Reserve,
  Release by value, MarkUnavailable, Contains, generateAvailableIPs).

  One Lean function per Go method, mirroring the code as it is after the three `fix:` commits of C02
  (Pool.Reserve guard in the new-session REQUEST branch; DECLINE only for the held address; DECLINE
  releases the pool binding and the circuit-id index entry) and after 676b977 of C03 (a renewal under a different
  circuit-id drops the old circuit-id's index entry).

  MACs, circuit-ids: `Nat`.  Addresses: `Nat` (the 32-bit value).  Time: seconds, virtual.
  Go maps are `AMap`s.  `leasesByCircuitID` maps a circuit-id to (a copy of) the lease object it
  points to; lease objects are never mutated after creation in the Go code, so a copy is exact.

  Nexus / HTTP-allocator mode (Demo E) IS modelled: `Cfg.nexusMode` with the table `Cfg.nexus` of allocations the
  Nexus API answers LookupIPv4 with (found / 404; lookup failures behave like 404), as fixed by d4aaa77.
  `cleanupExpiredLeases` is modelled both as one step (`Op.cleanup`) and split at the point where it drops its read
  lock (`expiredList` = the scan, `Op.cleanupApply` = the write-locked removal, as fixed by bb6b2ef: it re-checks
  every lease); `applyUnchecked` is the removal loop as it was BEFORE that fix (for the witness theorem).

  NOT modelled (parameters fixed to "absent/disabled"): Nexus client (GetSubscriberByMAC), peer pool,
  RADIUS authentication/accounting, QoS, NAT, the eBPF fast-path cache, several pools per server
  (one pool, id 1, which `ClassifyClient` always returns), reserved ranges (ReservedStart = ReservedEnd = 0),
  hostnames.  Option 82 is absent, carries a circuit-id, carries an EMPTY circuit-id (`Msg.o82empty`), or carries
  no parsable circuit-id (remote-id only / truncated TLV: behaves like "absent" for everything modelled).
  Core Lean only.
-/
namespace Bng.Dhcp4
open Bng

structure Cfg where
  base      : Nat      -- network address (masked by net.ParseCIDR)
  plen      : Nat      -- prefix length
  gateway   : Nat
  leaseTime : Nat      -- seconds
  nexusMode : Bool := false            -- SetHTTPAllocator was called
  nexus     : AMap Nat Nat := []       -- MAC → address: what the Nexus API answers LookupIPv4 with
  deriving Repr, DecidableEq

def Cfg.size (c : Cfg) : Nat := 2 ^ (32 - c.plen)
def Cfg.bcast (c : Cfg) : Nat := c.base + c.size - 1
/-- `(1 << hostBits) - 2` -/
def Cfg.numHosts (c : Cfg) : Nat := c.size - 2
/-- Pool.Contains = Network.Contains -/
def Cfg.contains (c : Cfg) (ip : Nat) : Bool := decide (c.base ≤ ip) && decide (ip < c.base + c.size)
/-- a host address that may be served: inside the network, not network / broadcast / gateway -/
def Cfg.usable (c : Cfg) (ip : Nat) : Bool :=
  decide (c.base < ip) && decide (ip < c.bcast) && !(ip == c.gateway)

/-- httpAllocator.LookupIPv4 (none: allocator not configured, or no allocation for this MAC) -/
def Cfg.nexusLookup (c : Cfg) (mac : Nat) : Option Nat :=
  if c.nexusMode then AMap.lookup c.nexus mac else none

/-- generateAvailableIPs with no reserved ranges: hosts 1 … numHosts in order, gateway skipped
    (the byte-wise addition of the code is numeric addition because the base is masked) -/
def Cfg.initialAvail (c : Cfg) : List Nat :=
  ((List.range c.numHosts).map (fun i => c.base + (i + 1))).filter (fun ip => !(ip == c.gateway))

structure Pool where
  allocated   : AMap Nat Nat := []     -- MAC → address
  avail       : List Nat := []         -- free list, in order
  unavailable : List Nat := []         -- addresses marked unavailable (set)
  deriving Repr

/-- Pool.Allocate -/
def Pool.allocate (p : Pool) (mac : Nat) : Pool × Option Nat :=
  match AMap.lookup p.allocated mac with
  | some ip => (p, some ip)
  | none =>
    match p.avail with
    | [] => (p, none)
    | ip :: rest => ({ p with avail := rest, allocated := AMap.insert p.allocated mac ip }, some ip)

/-- Pool.Reserve (fix D3): bind `ip` to `mac` iff already held by `mac` or on the free list -/
def Pool.reserve (p : Pool) (mac ip : Nat) : Pool × Bool :=
  match AMap.lookup p.allocated mac with
  | some cur =>
    if cur = ip then (p, true)
    else if ip ∈ p.avail then
      ({ p with avail := p.avail.erase ip ++ [cur], allocated := AMap.insert p.allocated mac ip }, true)
    else (p, false)
  | none =>
    if ip ∈ p.avail then
      ({ p with avail := p.avail.erase ip, allocated := AMap.insert p.allocated mac ip }, true)
    else (p, false)

/-- a key whose value is `ip` (the first in table order) -/
def holderOf (m : AMap Nat Nat) (ip : Nat) : Option Nat :=
  (AMap.keys m).find? (fun k => AMap.lookup m k == some ip)

/-- Pool.Release (by VALUE: scans the map for a MAC holding `ip`).  The Go map iteration order only matters
    when two MACs hold the same address, which `PoolInv` excludes in every reachable state. -/
def Pool.release (p : Pool) (ip : Nat) : Pool :=
  match holderOf p.allocated ip with
  | some k => { p with allocated := AMap.erase p.allocated k, avail := p.avail ++ [ip] }
  | none => p

/-- Pool.MarkUnavailable -/
def Pool.markUnavailable (p : Pool) (ip : Nat) : Pool :=
  { p with unavailable := if ip ∈ p.unavailable then p.unavailable else ip :: p.unavailable,
           avail := p.avail.erase ip }

structure Lease where
  mac : Nat
  ip  : Nat
  exp : Nat               -- ExpiresAt
  cid : Option Nat        -- option 82 circuit-id stored in the lease
  deriving Repr, DecidableEq

structure State where
  cfg    : Cfg
  leases : AMap Nat Lease := []      -- MAC → lease
  byCid  : AMap Nat Lease := []      -- circuit-id → lease (leasesByCircuitID)
  pool   : Pool := {}
  now    : Nat := 0
  deriving Repr

def init (c : Cfg) : State := { cfg := c, pool := { avail := c.initialAvail } }

/-- the fields of a client message the handlers read -/
structure Msg where
  mac       : Nat
  requested : Option Nat := none   -- option 50
  ciaddr    : Nat := 0
  giaddr    : Nat := 0             -- ≠ 0 ⇒ relayed
  cid       : Option Nat := none   -- option 82 circuit-id (non-empty)
  o82empty  : Bool := false        -- option 82 present with a circuit-id sub-option of length 0
  deriving Repr, DecidableEq

inductive Reply where
  | offer (ip lease : Nat)
  | ack (ip lease : Nat)
  | nak
  | none
  deriving Repr, DecidableEq

/-- the lease the handlers treat as "this client's": by MAC, else (relayed with circuit-id) by circuit-id -/
def existing (s : State) (m : Msg) : Option Lease :=
  match AMap.lookup s.leases m.mac with
  | some l => some l
  | none =>
    if m.giaddr ≠ 0 then
      match m.cid with
      | some c => AMap.lookup s.byCid c
      | none => none
    else none

/-- the lookup fell through to the circuit-id index and found a lease there (mechanism of finding D9) -/
def circuitHit (s : State) (m : Msg) : Bool :=
  (AMap.lookup s.leases m.mac).isNone && (existing s m).isSome

/-- handleDiscover.  The requested-address option (50) of a DISCOVER is never read: `m.requested` does not occur
    below (the local-pool path is `pool.Allocate(mac)`, which returns the MAC's current binding — also the binding of
    an expired lease the sweep has not removed yet — or the head of the free list). -/
def discover (s : State) (m : Msg) : State × Reply :=
  let fresh : State × Reply :=
    match s.cfg.nexusLookup m.mac with
    | some ip => (s, .offer ip s.cfg.leaseTime)          -- activated subscriber: the Nexus allocation, no pool binding
    | none =>
      match s.pool.allocate m.mac with
      | (p, some ip) => ({ s with pool := p }, .offer ip s.cfg.leaseTime)
      | (_, none) => (s, .none)
  match existing s m with
  | some l => if s.now < l.exp then (s, .offer l.ip s.cfg.leaseTime) else fresh
  | none => fresh

/-- `requestedIP`: option 50, or ciaddr when absent/unspecified -/
def requestedOf (m : Msg) : Nat :=
  match m.requested with
  | some r => if r = 0 then m.ciaddr else r
  | none => m.ciaddr

/-- the tail of handleRequest: create/replace the lease, maintain the circuit-id index, ACK -/
def commit (s : State) (m : Msg) (ip : Nat) (cid : Option Nat) : State × Reply :=
  let l : Lease := { mac := m.mac, ip := ip, exp := s.now + s.cfg.leaseTime, cid := cid }
  ({ s with leases := AMap.insert s.leases m.mac l,
            byCid := match cid with
              | some c => AMap.insert s.byCid c l
              | none => s.byCid },
   .ack ip s.cfg.leaseTime)

/-- the renewal carries a different circuit-id: the OLD circuit-id's index entry is dropped if it still points to
    the lease being renewed (the Go code compares pointers; lease objects are immutable and a circuit-id's entry
    is always the newest lease committed under it, so comparing contents is the same thing) -/
def dropStale (s : State) (l : Lease) (newCid : Option Nat) : State :=
  match l.cid with
  | some oc =>
    if some oc ≠ newCid ∧ AMap.lookup s.byCid oc = some l then { s with byCid := AMap.erase s.byCid oc } else s
  | none => s

/-- handleRequest -/
def request (s : State) (m : Msg) : State × Reply :=
  let r := requestedOf m
  match existing s m with
  | some l =>
    if l.ip ≠ r then (s, .nak)
    else
      -- an empty circuit-id sub-option is a non-nil empty slice: it is NOT replaced by the stored circuit-id
      let cid := match m.cid with | some c => some c | none => if m.o82empty then none else l.cid
      commit (dropStale s l cid) m r cid
  | none =>
    match s.cfg.nexusLookup m.mac with
    | some nip => if nip ≠ r then (s, .nak) else commit s m r m.cid
    | none =>
      if !s.cfg.contains r then (s, .nak)
      else
        match s.pool.reserve m.mac r with
        | (p, true) => commit { s with pool := p } m r m.cid
        | (_, false) => (s, .nak)

def dropIndex (byCid : AMap Nat Lease) (l : Lease) : AMap Nat Lease :=
  match l.cid with
  | some c => AMap.erase byCid c
  | none => byCid

/-- handleRelease -/
def release (s : State) (mac : Nat) : State :=
  match AMap.lookup s.leases mac with
  | none => s
  | some l =>
    { s with leases := AMap.erase s.leases mac, byCid := dropIndex s.byCid l, pool := s.pool.release l.ip }

/-- handleDecline (fixes D4, D5) -/
def decline (s : State) (mac : Nat) (requested : Option Nat) : State :=
  match AMap.lookup s.leases mac with
  | none => s
  | some l =>
    if requested ≠ some l.ip then s
    else
      { s with leases := AMap.erase s.leases mac, byCid := dropIndex s.byCid l,
               pool := (s.pool.release l.ip).markUnavailable l.ip }

/-- one iteration of the second loop of cleanupExpiredLeases; `t` is the `now` read at its start -/
def expireOne (t : Nat) (s : State) (mac : Nat) : State :=
  match AMap.lookup s.leases mac with
  | none => s
  | some l =>
    if t > l.exp then
      { s with leases := AMap.erase s.leases mac, byCid := dropIndex s.byCid l, pool := s.pool.release l.ip }
    else s

/-- cleanupExpiredLeases.  The expired MACs are collected by ranging over a Go map: `order` is that
    iteration order (any MACs; those without an expired lease are skipped, the rest follow in table order). -/
def cleanup (s : State) (order : List Nat) : State :=
  (order ++ AMap.keys s.leases).foldl (expireOne s.now) s

/-- the read-locked scan of cleanupExpiredLeases: the MACs whose lease has run out, in map-iteration order -/
def expiredList (s : State) (order : List Nat) : List Nat :=
  (order ++ AMap.keys s.leases).eraseDups.filter fun mac =>
    match AMap.lookup s.leases mac with
    | some l => decide (s.now > l.exp)
    | none => false

/-- the write-locked removal loop over the scanned MACs; `t` is the `now` read before the scan.  Since bb6b2ef
    every lease is looked at again (`expireOne`): one that is gone or no longer expired is skipped. -/
def applyList (t : Nat) (s : State) (macs : List Nat) : State := macs.foldl (expireOne t) s

/-- the removal loop BEFORE bb6b2ef: `lease := s.leases[mac]` is used without any check.
    `none` = nil-pointer dereference (the process dies holding the lease lock). -/
def applyUnchecked : State → List Nat → Option State
  | s, [] => some s
  | s, mac :: rest =>
    match AMap.lookup s.leases mac with
    | none => none
    | some l =>
      applyUnchecked { s with leases := AMap.erase s.leases mac, byCid := dropIndex s.byCid l,
                              pool := s.pool.release l.ip } rest

inductive Op where
  | discover (m : Msg)
  | request (m : Msg)
  | release (mac : Nat)
  | decline (mac : Nat) (requested : Option Nat)
  | inform (mac : Nat)
  | advance (dt : Nat)                 -- virtual time passes
  | cleanup (order : List Nat)         -- one pass of the one-minute cleanup, undisturbed
  | cleanupApply (t : Nat) (macs : List Nat)   -- the removal half of a pass whose scan (at time t) found `macs`;
                                               -- any messages may have been handled since the scan
  deriving Repr, DecidableEq

def step (s : State) : Op → State × Reply
  | .discover m => discover s m
  | .request m => request s m
  | .release mac => (release s mac, .none)
  | .decline mac r => (decline s mac r, .none)
  | .inform _ => (s, .ack 0 0)
  | .advance dt => ({ s with now := s.now + dt }, .none)
  | .cleanup order => (cleanup s order, .none)
  | .cleanupApply t macs => (applyList t s macs, .none)

def run (s : State) (ops : List Op) : State := ops.foldl (fun st op => (step st op).1) s

/-- does the operation take the circuit-id-index path in this state (finding D9)? -/
def hits (s : State) : Op → Bool
  | .discover m => circuitHit s m
  | .request m => circuitHit s m
  | _ => false

/-- no operation of the history takes the circuit-id-index path -/
def noCircuitHit : State → List Op → Bool
  | _, [] => true
  | s, op :: ops => !hits s op && noCircuitHit (step s op).1 ops

end Bng.Dhcp4
