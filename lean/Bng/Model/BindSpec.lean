/-
  The abstract binding table a DHCP server is judged against (C02), for DHCPv4 addresses, DHCPv6
  addresses and DHCPv6 delegated prefixes alike.

  It consumes OBSERVATIONS ONLY — the client message that went in, the reply that came out, and the
  virtual-time advances — and keeps what a careful reader of the wire would conclude the server has
  promised: for every client the value it was OFFERed/Advertised (an offer is outstanding for
  `offerHold` seconds) or ACKed/Replied (a lease runs until its lifetime ends).  Verdicts:

    foreign-ack         an ACK/Reply carries a value that is currently leased or offered to another client
    double-binding      two unexpired bindings of different clients on one value (ACK or OFFER creating the second)
    range               a served value is outside the pool, or is the gateway / network / broadcast address
    renew-changed       a client renewing its own unexpired lease was answered with a different value or refused
    declined-reoffered  a value a client declined (while holding it) was served again
    not-reusable        a client holding nothing was refused for lack of values although fewer values than
                        the pool has are held — i.e. some released / expired / lapsed value never came back.
                        Leases count as held until `grace` seconds after their end (the server's cleanup period).

  It never looks at the implementation's state.  Core Lean only.
-/
namespace Bng.BindSpec

structure Geo where
  lo        : Nat                -- first usable value
  hi        : Nat                -- last usable value
  step      : Nat := 1           -- distance between values
  excluded  : List Nat := []     -- e.g. the gateway
  capacity  : Nat                -- number of usable values of the pool
  extra     : List Nat := []     -- values outside the pool that may be served all the same (allocations of an
                                 -- external allocator, e.g. Nexus); they do not count towards `capacity`
  offerHold : Nat := 60
  grace     : Nat := 60
  deriving Repr

/-- a value of the pool itself -/
def Geo.inPool (g : Geo) (v : Nat) : Bool :=
  decide (g.lo ≤ v) && decide (v ≤ g.hi) && (g.step == 0 || (v - g.lo) % g.step == 0) && !(g.excluded.contains v)

/-- a value that may be served -/
def Geo.usable (g : Geo) (v : Nat) : Bool := g.inPool v || g.extra.contains v

structure Binding where
  client : Nat
  value  : Nat
  lease  : Bool      -- false: an outstanding offer
  til    : Nat       -- end of the lease / of the offer hold
  deriving Repr, DecidableEq

structure Mon where
  table    : List Binding := []
  declined : List Nat := []     -- declined by a client holding an unexpired lease: must not be served again
  soft     : List Nat := []     -- declined in the `grace` window after the lease's end: the server may or may not
                                -- still have had the lease; only counted when exhaustion is judged
  now      : Nat := 0
  deriving Repr

inductive Ev where
  | offered (c v : Nat)                      -- OFFER / Advertise of v to c
  | acked (c v life : Nat)                   -- ACK / Reply binding v to c for `life` seconds
  | refused (c : Nat) (asked : Option Nat)   -- NAK / no-binding answer to a request naming `asked`
  | refusedAny (c : Nat)                     -- "no binding" answer to a renewal of whatever the client holds
  | noOffer (c : Nat)                        -- a request for any value was answered with nothing / "none available"
  | released (c : Nat)                       -- the client released what it holds
  | declined (c : Nat) (v : Option Nat)      -- the client declined v
  | tick (dt : Nat)
  | nop
  deriving Repr

structure Verdict where
  name   : String
  value  : Nat
  detail : String
  deriving Repr

/-- still binding at time `now` -/
def Binding.live (b : Binding) (now : Nat) : Bool := decide (now < b.til)

/-- still counted as occupying its value when exhaustion is judged -/
def Binding.holding (g : Geo) (b : Binding) (now : Nat) : Bool :=
  if b.lease then decide (now < b.til + g.grace) else decide (now < b.til)

def foreignHolder (m : Mon) (c v : Nat) : Option Binding :=
  m.table.find? (fun b => b.client != c && b.value == v && b.live m.now)

def insertNodup (v : Nat) (l : List Nat) : List Nat := if l.contains v then l else v :: l

/-- distinct values of the pool occupied at `now` -/
def heldValues (g : Geo) (m : Mon) : List Nat :=
  m.table.foldl (fun acc b => if b.holding g m.now && g.inPool b.value then insertNodup b.value acc else acc) []

def servedChecks (g : Geo) (m : Mon) (v : Nat) : List Verdict :=
  (if g.usable v then [] else [⟨"range", v, s!"value {v} is outside the pool or is a reserved address"⟩]) ++
  (if m.declined.contains v then [⟨"declined-reoffered", v, s!"value {v} was declined and is served again"⟩] else [])

def check (g : Geo) (m : Mon) : Ev → Mon × List Verdict
  | .offered c v =>
    let vs := servedChecks g m v ++
      (match foreignHolder m c v with
        | some b => [⟨"double-binding", v, s!"value {v} offered to client {c} while bound to client {b.client}"⟩]
        | none => [])
    -- an unexpired lease of c on v stays as it is; otherwise the offer is recorded (replacing an older offer of v
    -- to c), and a lease of c on v that ended less than `grace` ago is kept beside it: the server may still have it
    let keeps := m.table.any (fun b => b.client == c && b.value == v && b.lease && b.live m.now)
    let table := if keeps then m.table
      else ⟨c, v, false, m.now + g.offerHold⟩ ::
        m.table.filter (fun b => !(b.client == c && b.value == v) || (b.lease && b.holding g m.now))
    ({ m with table := table }, vs)
  | .acked c v life =>
    let vs := servedChecks g m v ++
      (match foreignHolder m c v with
        | some b => [⟨"foreign-ack", v, s!"value {v} acknowledged to client {c} while bound to client {b.client}"⟩,
                     ⟨"double-binding", v, s!"clients {c} and {b.client} both hold value {v}"⟩]
        | none => []) ++
      (match m.table.find? (fun b => b.client == c && b.lease && b.live m.now && b.value != v) with
        | some b => [⟨"renew-changed", b.value, s!"client {c} held {b.value} (unexpired) and was acknowledged {v}"⟩]
        | none => [])
    ({ m with table := ⟨c, v, true, m.now + life⟩ :: m.table.filter (fun b => b.client != c) }, vs)
  | .refused c asked =>
    (m, match asked with
      | some v =>
        if m.table.any (fun b => b.client == c && b.value == v && b.lease && b.live m.now) then
          [⟨"renew-changed", v, s!"client {c} renewing its unexpired lease on {v} was refused"⟩] else []
      | none => [])
  | .refusedAny c =>
    (m, match m.table.find? (fun b => b.client == c && b.lease && b.live m.now) with
      | some b => [⟨"renew-changed", b.value, s!"client {c} renewing its unexpired lease on {b.value} was told it has no binding"⟩]
      | none => [])
  | .noOffer c =>
    let mine := m.table.any (fun b => b.client == c && b.holding g m.now)
    let held := (heldValues g m).length + ((m.declined ++ m.soft).filter g.inPool).eraseDups.length
    (m, if !mine && held < g.capacity then
          [⟨"not-reusable", held, s!"client {c} refused for lack of values with {held} of {g.capacity} values held or declined"⟩]
        else [])
  | .released c => ({ m with table := m.table.filter (fun b => b.client != c) }, [])
  | .declined c v =>
    match v with
    | some v =>
      if m.table.any (fun b => b.client == c && b.value == v && b.lease && b.live m.now) then
        ({ m with table := m.table.filter (fun b => !(b.client == c && b.value == v)),
                  declined := insertNodup v m.declined }, [])
      else if m.table.any (fun b => b.client == c && b.value == v && b.lease && b.holding g m.now) then
        ({ m with table := m.table.filter (fun b => !(b.client == c && b.value == v)),
                  soft := insertNodup v m.soft }, [])
      else (m, [])
    | none => (m, [])
  | .tick dt => ({ m with now := m.now + dt }, [])
  | .nop => (m, [])

end Bng.BindSpec
