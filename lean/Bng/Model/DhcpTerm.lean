import Bng.Map
import Bng.Model.Dhcp4
/-
  Model of everything a DHCPv4 session of pkg/dhcp/server.go holds, and of every way the server ends it
  (property C16, DHCPv4 paths), at the level of the calls the server makes:

    handleDiscover            pool.Allocate
    handleRequest             pool.Reserve, s.leases[mac] = lease, (renewal under another circuit-id: the old
                              circuit-id's cache entries are dropped, 676b977), updateFastPathCache (loader.AddSubscriber),
                              loader.AddCircuitIDMapping + AddCircuitIDSubscriber, and FOR A NEW SESSION
                              qosMgr.SetSubscriberPolicy, natMgr.AllocateNAT, radiusClient.SendAccounting(Start)
    handleRelease             delete(s.leases) under leasesMu; then releaseSessionResources (Accounting-Stop,
                              qosMgr.RemoveSubscriberQoS, natMgr.DeallocateNAT), pool.Release, loader.Remove…
    handleDecline             delete(s.leases) under leasesMu (only for the held address); then
                              removeFromFastPathCache, releaseSessionResources (ff76ae1), pool.Release + MarkUnavailable
    cleanupExpiredLeases      read-locked scan; write-locked removal that re-checks every lease (bb6b2ef):
                              delete, pool.Release, removeFromFastPathCache, releaseSessionResources (35938e6)
    Server.Start on ctx.Done  server.Close() and nothing else (`shutdown`)

  The code is mirrored AS IT IS after the two `fix:` commits of this component (ff76ae1, 35938e6); `declinePre` and
  `expireOnePre` are the two handlers as they were before (finding D46), kept for the witness theorems.

  State: the lease table, the pool (Bng.Dhcp4.Pool: the same model C02 uses), and per resource the SET of keys
  present: QoS entries and NAT allocations are keyed by ADDRESS (qos_egress/qos_ingress/subscriber_nat and the two
  managers' tables), the fast-path cache by MAC (subscriber_pools), by VLAN pair (vlan_subscriber_pools: no code
  path of pkg/dhcp ever sets Lease.STag/CTag, so the server never writes it - the branch is dead code) and by
  circuit-id (circuit_id_subscribers and the hash-keyed circuit_id_map).  RADIUS accounting is the table of records
  the accounting server received, per Acct-Session-Id in order of first appearance (`sess` = that ordinal).

  (Since 1f47870 handleRelease / handleDecline also delete the circuit-id index entry and give the address back to the
  pool INSIDE that critical section; the model keeps the pool release in the tail.  The two orders differ only in the
  order in which two DIFFERENT addresses reach the free list when a second termination of another client runs in
  between - a pair the harness refuses - and no theorem depends on that order.  207289c - handleRequest re-reads the
  table under the write lock and starts over when the client's entry changed - concerns what runs BEFORE the lease
  insert; the window modelled by `estGap` is the one AFTER it, which is unchanged.)

  Concurrency.  Every termination takes the lease out of the table inside ONE critical section of leasesMu
  (`takeRelease` / `takeDecline`; the removal loop of the cleanup holds the write lock throughout) and then works on
  the lease object it took.  `Op.split first second` runs a second termination after the first one has dropped the
  lock and before its tail has run; `Op.gap order inner` runs a termination between the scan and the removal of a
  cleanup pass (the unlock point C02's hook marks).

  ASSUMED (fixed in the harness): one pool (id 1, 8 addresses, gateway = 1), circuit-ids are private to a MAC (a
  circuit-id shared by two MACs is finding D9 of C02: the index then aliases two leases), so the circuit-id index
  `leasesByCircuitID` never changes which lease a handler finds and is not modelled; QoS policy and NAT pool never
  refuse; the accounting server answers every request; RADIUS authentication is off.

  Failing map operations.  `Op.fault` keeps a kernel map FULL (a Put of a NEW key fails, updates of existing keys and
  deletes work): QoS egress / ingress, subscriber_nat, and the three cache maps the server writes (subscriber_pools,
  circuit_id_map, circuit_id_subscribers).  handleRequest only logs a failed install, so a session can live with a
  PARTIAL cache set (`putK`); every termination deletes every key all the same (a missing key is not an error).
  `OpX.wfault` write-protects a cache map: EVERY write through the Loader's handle fails, Put and Delete alike
  (`State.ro`, `putK`/`delK`).  A failed Delete is only logged by handleRelease and ignored by
  removeFromFastPathCache and by the renewal that drops the old circuit-id's entries: the entry outlives the session
  (finding KF-cache-delete-ignored).  `ro = []` in every history of `Op`.
  Core Lean only.
-/
namespace Bng.DhcpTerm
open Bng

abbrev Pool := Bng.Dhcp4.Pool
abbrev Cfg := Bng.Dhcp4.Cfg

/-- the harness's pool: 10.0.0.0/29 with addresses written as offsets 0 … 7, gateway 1 -/
def mkCfg (leaseTime : Nat) : Cfg := { base := 0, plen := 29, gateway := 1, leaseTime := leaseTime }

structure Lease where
  ip   : Nat
  exp  : Nat             -- ExpiresAt
  cid  : Option Nat      -- option 82 circuit-id stored in the lease (the j-th circuit-id of this MAC)
  sess : Nat             -- ordinal of the session's Acct-Session-Id at the accounting server; 0 = no Start was sent
  deriving Repr, DecidableEq

/-- accounting records received for one Acct-Session-Id -/
structure Sess where
  mac    : Nat
  starts : Nat
  stops  : Nat
  deriving Repr, DecidableEq

structure State where
  cfg    : Cfg
  radius : Bool                       -- SetRADIUSClient was called
  now    : Nat := 0
  pool   : Pool := {}
  leases : AMap Nat Lease := []       -- MAC → lease
  qos    : List Nat := []             -- addresses with a QoS entry (the egress map: written first)
  /-- addresses whose QoS install stopped half-way: the egress bucket was written, the ingress Put failed (map full),
      and qos.Manager does not track the subscriber; ingress keys and the manager's table are `qos` minus these -/
  qosHalf : List Nat := []
  /-- fault injection: the QoS egress / QoS ingress / subscriber_nat kernel map has no free slot (a Put of a NEW key
      fails, updates of existing keys and deletes work) -/
  fullE  : Bool := false
  fullI  : Bool := false
  fullN  : Bool := false
  /-- the same for the cache maps: subscriber_pools / circuit_id_map (hash → MAC) / circuit_id_subscribers -/
  fullS  : Bool := false
  fullH  : Bool := false
  fullC  : Bool := false
  /-- cache maps whose handle is write-protected: every Put AND every Delete through the Loader fails
      (3 = subscriber_pools, 4 = circuit_id_map, 5 = circuit_id_subscribers); only `OpX.wfault` changes it -/
  ro     : List Nat := []
  nat    : List Nat := []             -- addresses with a NAT allocation
  kMac   : List Nat := []             -- subscriber_pools keys
  kVlan  : List (Nat × Nat) := []     -- vlan_subscriber_pools keys (never written by pkg/dhcp)
  kCid   : List (Nat × Nat) := []     -- circuit_id_subscribers keys (MAC, j)
  kHash  : List (Nat × Nat) := []     -- circuit_id_map keys (MAC, j)
  acct   : AMap Nat Sess := []        -- ordinal → records
  nextSess : Nat := 1
  /-- accounting sessions whose Stop reached the server BEFORE their Start (only an establishment raced by a
      termination produces one, `estGap`): the RADIUS server is left with a session that never ends -/
  early  : List Nat := []
  /-- entries of the circuit-id index `leasesByCircuitID` that point to a lease which is NOT in the lease table:
      (MAC, j) → the dead lease.  Only a raced establishment (`estGap`) creates one; while it is `[]` - in every
      history of `Op` - the index says nothing the lease table does not say and is not modelled. -/
  stale  : AMap (Nat × Nat) Lease := []
  deriving Repr

def init (radius : Bool) (leaseTime : Nat) : State :=
  { cfg := mkCfg leaseTime, radius := radius, pool := { avail := (mkCfg leaseTime).initialAvail } }

/-! ### sets of keys -/

def rm {α : Type} [DecidableEq α] (l : List α) (x : α) : List α := l.filter (fun y => !(y == x))
def ins {α : Type} [DecidableEq α] (l : List α) (x : α) : List α := x :: rm l x

theorem mem_rm {α : Type} [DecidableEq α] (l : List α) (x y : α) : y ∈ rm l x ↔ y ∈ l ∧ y ≠ x := by
  simp [rm]

theorem mem_ins {α : Type} [DecidableEq α] (l : List α) (x y : α) : y ∈ ins l x ↔ y = x ∨ y ∈ l := by
  simp only [ins, List.mem_cons, mem_rm]
  constructor
  · rintro (h | ⟨h, _⟩)
    · exact Or.inl h
    · exact Or.inr h
  · rintro (h | h)
    · exact Or.inl h
    · by_cases e : y = x
      · exact Or.inl e
      · exact Or.inr ⟨h, e⟩

/-! ### writes into a kernel hash map that can fail -/

/-- Put: fails (nothing changes) when the handle is write-protected, or when the map has no free slot and the key is new -/
def putK {α : Type} [DecidableEq α] (ro full : Bool) (l : List α) (x : α) : List α :=
  if ro || (full && !(l.contains x)) then l else ins l x

/-- Delete: fails (nothing changes) when the handle is write-protected -/
def delK {α : Type} [DecidableEq α] (ro : Bool) (l : List α) (x : α) : List α := if ro then l else rm l x

theorem mem_putK {α : Type} [DecidableEq α] (ro full : Bool) (l : List α) (x y : α) :
    y ∈ putK ro full l x → y = x ∨ y ∈ l := by
  unfold putK
  split
  · exact Or.inr
  · exact (mem_ins l x y).mp

theorem delK_false {α : Type} [DecidableEq α] (l : List α) (x : α) : delK false l x = rm l x := rfl

def State.roS (s : State) : Bool := s.ro.contains 3
def State.roH (s : State) : Bool := s.ro.contains 4
def State.roC (s : State) : Bool := s.ro.contains 5

/-! ### accounting -/

def addStart (a : AMap Nat Sess) (k mac : Nat) : AMap Nat Sess :=
  match AMap.lookup a k with
  | some r => AMap.insert a k { r with starts := r.starts + 1 }
  | none => AMap.insert a k { mac := mac, starts := 1, stops := 0 }

def addStop (a : AMap Nat Sess) (k mac : Nat) : AMap Nat Sess :=
  match AMap.lookup a k with
  | some r => AMap.insert a k { r with stops := r.stops + 1 }
  | none => AMap.insert a k { mac := mac, starts := 0, stops := 1 }

def stopsOf (a : AMap Nat Sess) (k : Nat) : Nat := ((AMap.lookup a k).map (·.stops)).getD 0
def startsOf (a : AMap Nat Sess) (k : Nat) : Nat := ((AMap.lookup a k).map (·.starts)).getD 0

/-! ### the pieces the handlers share -/

/-- releaseSessionResources: Accounting-Stop (`s.radiusClient != nil && lease.SessionID != ""`: every lease has a
    session id), RemoveSubscriberQoS, DeallocateNAT -/
def sessionEnd (s : State) (mac : Nat) (l : Lease) : State :=
  { s with acct := if s.radius then addStop s.acct l.sess mac else s.acct,
           qos := rm s.qos l.ip, qosHalf := rm s.qosHalf l.ip, nat := rm s.nat l.ip }

/-- removeFromFastPathCache (and the same calls inlined in handleRelease): MAC entry, VLAN entry only when the lease
    has tags (never), both circuit-id entries when the lease has a circuit-id -/
def uncache (s : State) (mac : Nat) (l : Lease) : State :=
  match l.cid with
  | some c => { s with kMac := delK s.roS s.kMac mac, kCid := delK s.roC s.kCid (mac, c), kHash := delK s.roH s.kHash (mac, c) }
  | none => { s with kMac := delK s.roS s.kMac mac }

/-- updateFastPathCache (AddSubscriber) + AddCircuitIDMapping + AddCircuitIDSubscriber: three Puts, each of which can
    fail on its own (handleRequest logs the error and goes on); `fS fH fC`: the map has no free slot at that moment -/
def cacheF (fS fH fC : Bool) (s : State) (mac : Nat) (cid : Option Nat) : State :=
  match cid with
  | some c => { s with kMac := putK s.roS fS s.kMac mac, kCid := putK s.roC fC s.kCid (mac, c),
                       kHash := putK s.roH fH s.kHash (mac, c) }
  | none => { s with kMac := putK s.roS fS s.kMac mac }

def cache (s : State) (mac : Nat) (cid : Option Nat) : State := cacheF s.fullS s.fullH s.fullC s mac cid

inductive Reply where
  | offer (ip : Nat)
  | ack (ip : Nat)
  | nak
  | none
  deriving Repr, DecidableEq

/-! ### establishment -/

/-- handleDiscover -/
def discover (s : State) (mac : Nat) : State × Reply :=
  let fresh : State × Reply :=
    match s.pool.allocate mac with
    | (p, some ip) => ({ s with pool := p }, .offer ip)
    | (_, none) => (s, .none)
  match AMap.lookup s.leases mac with
  | some l => if s.now < l.exp then (s, .offer l.ip) else fresh
  | none => fresh

/-- the renewal carries another circuit-id than the lease: the old one's cache entries go (676b977; the index entry
    is "stale" in the sense of the code whenever circuit-ids are private to a MAC) -/
def dropStale (s : State) (mac : Nat) (old new : Option Nat) : State :=
  match old with
  | some oc => if some oc ≠ new then { s with kCid := delK s.roC s.kCid (mac, oc), kHash := delK s.roH s.kHash (mac, oc) } else s
  | none => s

/-- the cache writes of a renewal: the old circuit-id's entries go, then the three Puts.  A Delete that removed an
    entry leaves a free slot in a full map for the Put that follows in the same call. -/
def recache (s : State) (mac : Nat) (old new : Option Nat) : State :=
  let s1 := dropStale s mac old new
  cacheF s.fullS (s.fullH && s1.kHash.length == s.kHash.length) (s.fullC && s1.kCid.length == s.kCid.length) s1 mac new

/-- the circuit-id the renewed lease carries: the request's, else the stored one -/
def keepCid (cid old : Option Nat) : Option Nat :=
  match cid with
  | some c => some c
  | none => old

/-- handleRequest, renewal branch (a lease of this MAC exists, expired or not) -/
def renew (s : State) (mac : Nat) (l : Lease) (r : Nat) (cid : Option Nat) : State × Reply :=
  if l.ip ≠ r then (s, .nak)
  else
    let nl : Lease := { ip := r, exp := s.now + s.cfg.leaseTime, cid := keepCid cid l.cid, sess := l.sess }
    (recache { s with leases := AMap.insert s.leases mac nl } mac l.cid nl.cid, .ack r)

/-- qosMgr.SetSubscriberPolicy → SetSubscriberQoS: egress Put, then ingress Put, then the manager's table; an error
    (map full) returns at once and handleRequest only logs it - the session goes on with what was written -/
def qosInstall (s : State) (r : Nat) : State :=
  if s.fullE && !(s.qos.contains r) then s                                   -- egress Put failed: nothing written
  else if s.fullI && !(s.qos.contains r && !(s.qosHalf.contains r)) then     -- ingress Put failed: egress bucket stays
    { s with qos := ins s.qos r, qosHalf := ins s.qosHalf r }
  else { s with qos := ins s.qos r, qosHalf := rm s.qosHalf r }

/-- natMgr.AllocateNAT: an existing allocation is returned as it is; otherwise the subscriber_nat Put comes before
    the manager's own bookkeeping, so a failed Put leaves nothing -/
def natInstall (s : State) (r : Nat) : State :=
  if s.fullN && !(s.nat.contains r) then s else { s with nat := ins s.nat r }

/-- handleRequest, new-session branch -/
def establish (s : State) (mac r : Nat) (cid : Option Nat) : State × Reply :=
  if !s.cfg.contains r then (s, .nak)
  else
    match s.pool.reserve mac r with
    | (_, false) => (s, .nak)
    | (p, true) =>
      let k := if s.radius then s.nextSess else 0
      let nl : Lease := { ip := r, exp := s.now + s.cfg.leaseTime, cid := cid, sess := k }
      let s1 := cache { s with pool := p, leases := AMap.insert s.leases mac nl } mac cid
      let s2 := natInstall (qosInstall s1 r) r
      ({ s2 with acct := if s.radius then addStart s1.acct k mac else s1.acct,
                 nextSess := if s.radius then s.nextSess + 1 else s.nextSess }, .ack r)

def request (s : State) (mac r : Nat) (cid : Option Nat) : State × Reply :=
  match AMap.lookup s.leases mac with
  | some l => renew s mac l r cid
  | none => establish s mac r cid

/-! ### termination: the critical section that takes the lease, and the tail that works on it -/

/-- handleRelease under leasesMu: look the lease up and delete it -/
def takeRelease (s : State) (mac : Nat) : State × Option Lease :=
  match AMap.lookup s.leases mac with
  | some l => ({ s with leases := AMap.erase s.leases mac }, some l)
  | none => (s, none)

/-- the rest of handleRelease, on the lease that was taken -/
def releaseTail (s : State) (mac : Nat) (l : Lease) : State :=
  let s1 := sessionEnd s mac l
  uncache { s1 with pool := s1.pool.release l.ip } mac l

def release (s : State) (mac : Nat) : State :=
  match takeRelease s mac with
  | (s1, some l) => releaseTail s1 mac l
  | (s1, none) => s1

/-- handleDecline under leasesMu: only the address the client holds can be declined -/
def takeDecline (s : State) (mac ip : Nat) : State × Option Lease :=
  match AMap.lookup s.leases mac with
  | some l => if l.ip = ip then ({ s with leases := AMap.erase s.leases mac }, some l) else (s, none)
  | none => (s, none)

/-- the rest of handleDecline (after ff76ae1) -/
def declineTail (s : State) (mac : Nat) (l : Lease) : State :=
  let s1 := sessionEnd (uncache s mac l) mac l
  { s1 with pool := (s1.pool.release l.ip).markUnavailable l.ip }

/-- the rest of handleDecline BEFORE ff76ae1: no Accounting-Stop, QoS policy and NAT block stay (D46) -/
def declineTailPre (s : State) (mac : Nat) (l : Lease) : State :=
  let s1 := uncache s mac l
  { s1 with pool := (s1.pool.release l.ip).markUnavailable l.ip }

def decline (s : State) (mac ip : Nat) : State :=
  match takeDecline s mac ip with
  | (s1, some l) => declineTail s1 mac l
  | (s1, none) => s1

def declinePre (s : State) (mac ip : Nat) : State :=
  match takeDecline s mac ip with
  | (s1, some l) => declineTailPre s1 mac l
  | (s1, none) => s1

/-- one iteration of the removal loop of cleanupExpiredLeases (after bb6b2ef and 35938e6); `t` = the `now` read at
    the start of the pass -/
def expireOne (t : Nat) (s : State) (mac : Nat) : State :=
  match AMap.lookup s.leases mac with
  | none => s
  | some l =>
    if t > l.exp then
      let s1 := { s with leases := AMap.erase s.leases mac, pool := s.pool.release l.ip }
      sessionEnd (uncache s1 mac l) mac l
    else s

/-- the same iteration BEFORE 35938e6 (D46) -/
def expireOnePre (t : Nat) (s : State) (mac : Nat) : State :=
  match AMap.lookup s.leases mac with
  | none => s
  | some l =>
    if t > l.exp then
      uncache { s with leases := AMap.erase s.leases mac, pool := s.pool.release l.ip } mac l
    else s

/-- the read-locked scan: MACs whose lease has run out, in Go map iteration order (`order` first, then table order) -/
def expiredList (s : State) (order : List Nat) : List Nat :=
  (order ++ AMap.keys s.leases).eraseDups.filter fun mac =>
    match AMap.lookup s.leases mac with
    | some l => decide (s.now > l.exp)
    | none => false

def applyList (t : Nat) (s : State) (macs : List Nat) : State := macs.foldl (expireOne t) s

/-- cleanupExpiredLeases as one step -/
def cleanup (s : State) (order : List Nat) : State := applyList s.now s (expiredList s order)

def cleanupPre (s : State) (order : List Nat) : State := (expiredList s order).foldl (expireOnePre s.now) s

/-! ### operations -/

/-- a termination -/
inductive Term where
  | rel (mac : Nat)
  | dec (mac ip : Nat)
  | cleanup (order : List Nat)
  deriving Repr, DecidableEq

def Term.run (s : State) : Term → State
  | .rel m => Bng.DhcpTerm.release s m
  | .dec m ip => Bng.DhcpTerm.decline s m ip
  | .cleanup o => Bng.DhcpTerm.cleanup s o

inductive Op where
  | disc (mac : Nat)
  | req (mac ip : Nat) (cid : Option Nat)
  | term (t : Term)
  | tick (secs : Nat)
  /-- one cleanup pass with `inner` handled between its scan and its removal -/
  | gap (order : List Nat) (inner : Term)
  /-- two terminations at once: `first` (a RELEASE or DECLINE) has taken its lease and dropped the lock, `second` runs,
      then the tail of `first` -/
  | split (first second : Term)
  | shutdown
  /-- fault injection: which = 0 QoS egress map, 1 QoS ingress map, 2 subscriber_nat, 3 subscriber_pools,
      4 circuit_id_map, 5 circuit_id_subscribers: full (on) / as created (off); any other number (6 =
      vlan_subscriber_pools, which pkg/dhcp never writes) changes nothing -/
  | fault (which : Nat) (on : Bool)
  deriving Repr, DecidableEq

def setFault (s : State) (which : Nat) (on : Bool) : State :=
  if which = 0 then { s with fullE := on } else if which = 1 then { s with fullI := on }
  else if which = 2 then { s with fullN := on } else if which = 3 then { s with fullS := on }
  else if which = 4 then { s with fullH := on } else if which = 5 then { s with fullC := on } else s

def gap (s : State) (order : List Nat) (inner : Term) : State × Bool :=
  let ex := expiredList s order
  if ex.isEmpty then (s, false)
  else (applyList s.now (inner.run s) ex, true)

def split (s : State) (first second : Term) : State :=
  match first with
  | .rel m =>
    match takeRelease s m with
    | (s1, some l) => releaseTail (second.run s1) m l
    | (s1, none) => second.run s1
  | .dec m ip =>
    match takeDecline s m ip with
    | (s1, some l) => declineTail (second.run s1) m l
    | (s1, none) => second.run s1
  | .cleanup o => second.run (cleanup s o)     -- the removal loop holds the lock throughout: nothing runs inside it

def step (s : State) : Op → State × Reply
  | .disc m => discover s m
  | .req m ip cid => request s m ip cid
  | .term t => (t.run s, .none)
  | .tick n => ({ s with now := s.now + n }, .none)
  | .gap o inner => ((gap s o inner).1, .none)
  | .split a b => (split s a b, .none)
  | .shutdown => (s, .none)
  | .fault w on => (setFault s w on, .none)

def run (s : State) (ops : List Op) : State := ops.foldl (fun st op => (step st op).1) s

/-! ### establishment is NOT atomic in the code (finding KF-dhcp4-establish-race)

  handleRequest puts the lease into the table under leasesMu, drops the lock, and only then maintains the circuit-id
  index, writes the cache entries, installs the QoS policy, allocates the NAT block and sends the Accounting-Start;
  server4 runs one goroutine per packet.  `requestBegin` / `requestFinish` are handleRequest split at that unlock point
  (`request_split`: together they are `request`), `estGap` runs a termination in between.  The operations of the
  theorems (`Op`) establish atomically; `OpX` adds the raced establishment. -/

/-- what handleRequest carries across the unlock point: the lease it inserted and the lease it renews (none: new session) -/
structure Pending where
  nl  : Lease
  old : Option Lease
  deriving Repr, DecidableEq

/-- handleRequest up to and including the lease insert (NAK paths return `none`) -/
def requestBegin (s : State) (mac r : Nat) (cid : Option Nat) : State × Option Pending :=
  match AMap.lookup s.leases mac with
  | some l =>
    if l.ip ≠ r then (s, none)
    else
      let nl : Lease := { ip := r, exp := s.now + s.cfg.leaseTime, cid := keepCid cid l.cid, sess := l.sess }
      ({ s with leases := AMap.insert s.leases mac nl }, some { nl := nl, old := some l })
  | none =>
    if !s.cfg.contains r then (s, none)
    else
      match s.pool.reserve mac r with
      | (_, false) => (s, none)
      | (p, true) =>
        let nl : Lease := { ip := r, exp := s.now + s.cfg.leaseTime, cid := cid, sess := if s.radius then s.nextSess else 0 }
        ({ s with pool := p, leases := AMap.insert s.leases mac nl }, some { nl := nl, old := none })

/-- the rest of handleRequest, run without any lock and without looking at the lease table again -/
def requestFinish (s : State) (mac : Nat) (p : Pending) : State :=
  match p.old with
  | some l => recache s mac l.cid p.nl.cid
  | none =>
    let s1 := cache s mac p.nl.cid
    { natInstall (qosInstall s1 p.nl.ip) p.nl.ip with acct := if s.radius then addStart s1.acct p.nl.sess mac else s1.acct, nextSess := if s.radius then s.nextSess + 1 else s.nextSess, early := if s.radius && (AMap.lookup s1.acct p.nl.sess).isSome then p.nl.sess :: s1.early else s1.early }

/-- the circuit-id index answers for a MAC that has no lease in the table (relayed message with a circuit-id): only a
    stale entry can -/
def staleHit (s : State) (mac : Nat) (cid : Option Nat) : Option Lease :=
  match AMap.lookup s.leases mac, cid with
  | none, some c => AMap.lookup s.stale (mac, c)
  | _, _ => none

/-- an index entry is stale only while no lease of that MAC with that circuit-id is in the table (an ACK rewrites the
    entry, the termination of such a lease deletes it) -/
def fixStale (s : State) : State :=
  { s with stale := s.stale.filter fun e =>
      match AMap.lookup s.leases e.1.1 with
      | some l => !(l.cid == some e.1.2)
      | none => true }

/-- a REQUEST with a termination handled inside its unlock window; the Bool says whether the window was reached.
    Afterwards the index entry of the lease's circuit-id points to the inserted lease whether or not that lease is
    still in the table. -/
def estGap (s : State) (mac r : Nat) (cid : Option Nat) (inner : Term) : State × Reply × Bool :=
  let begun : State × Option Pending := match staleHit s mac cid with
    | some l =>
      -- the dead lease the index still holds is taken for this client's lease: a "renewal" of it
      if l.ip ≠ r then (s, none)
      else
        let nl : Lease := { ip := r, exp := s.now + s.cfg.leaseTime, cid := keepCid cid l.cid, sess := l.sess }
        ({ s with leases := AMap.insert s.leases mac nl }, some { nl := nl, old := some l })
    | none => requestBegin s mac r cid
  match begun with
  | (s1, none) => (s1, .nak, false)
  | (s1, some p) =>
    let s2 := requestFinish (inner.run s1) mac p
    let s3 := match p.nl.cid with
      | some c => { s2 with stale := AMap.insert s2.stale (mac, c) p.nl }
      | none => s2
    (s3, .ack r, true)

/-- the operations of the real server, raced establishment and its after-effects included -/
inductive OpX where
  | op (o : Op)
  /-- DISCOVER with the relay's circuit-id (it matters only when the index holds a stale entry) -/
  | disc (mac : Nat) (cid : Option Nat)
  | estGap (mac ip : Nat) (cid : Option Nat) (inner : Term)
  /-- fault injection: the Loader's handle of cache map `which` (3 subscriber_pools, 4 circuit_id_map,
      5 circuit_id_subscribers) is write-protected (on) / as created (off) -/
  | wfault (which : Nat) (on : Bool)
  deriving Repr, DecidableEq

def setRo (s : State) (which : Nat) (on : Bool) : State :=
  { s with ro := if on then ins s.ro which else rm s.ro which }

def stepX (s : State) : OpX → State × Reply
  | .op (.req m r cid) =>
    match staleHit s m cid with
    | some l => let (s', rp) := renew s m l r cid; (fixStale s', rp)
    | none => let (s', rp) := request s m r cid; (fixStale s', rp)
  | .op o => let (s', rp) := step s o; (fixStale s', rp)
  | .disc m cid =>
    match staleHit s m cid with
    | some l => if s.now < l.exp then (s, .offer l.ip) else discover s m
    | none => discover s m
  | .estGap m ip cid inner => let (s', rp, _) := estGap s m ip cid inner; (fixStale s', rp)
  | .wfault w on => (fixStale (setRo s w on), .none)

def runX (s : State) (ops : List OpX) : State := ops.foldl (fun st o => (stepX st o).1) s

end Bng.DhcpTerm
