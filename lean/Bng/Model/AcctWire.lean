/-
  Counter attributes of `radius.Client.SendAccounting` (pkg/radius/client.go).

    rfc2866.AcctInputOctets_Set(packet, rfc2866.AcctInputOctets(req.InputOctets&0xFFFFFFFF))
    if req.InputOctets > 0xFFFFFFFF {
        rfc2869.AcctInputGigawords_Set(packet, rfc2869.AcctInputGigawords(req.InputOctets>>32))
    }

  (the same two statements for OutputOctets).  The 64-bit counter keeps its machine type.
  Core Lean only.
-/
namespace Bng.AcctWire

/-- what goes on the wire for one 64-bit octet counter: the Acct-*-Octets attribute (always present on
    Interim/Stop) and the Acct-*-Gigawords attribute (optional) -/
structure Octets where
  low  : UInt64
  giga : Option UInt64
  deriving DecidableEq, Repr

/-- `x & 0xFFFFFFFF` -/
def low (x : UInt64) : UInt64 := x &&& 0xFFFFFFFF

/-- `x >> 32` -/
def high (x : UInt64) : UInt64 := x >>> 32

/-- the two statements of SendAccounting -/
def encode (x : UInt64) : Octets :=
  { low := low x, giga := if x > 0xFFFFFFFF then some (high x) else none }

/-- the value a RADIUS server reconstructs (RFC 2869 §5.1: gigawords count wraps of the 32-bit counter) -/
def decode (o : Octets) : Nat :=
  (match o.giga with | some g => g.toNat | none => 0) * 2 ^ 32 + o.low.toNat

end Bng.AcctWire
