/-
  Model of pkg/pppoe/auth.go: the PPP `Authenticator` (PAP, RFC 1334, and CHAP, RFC 1994) as the code is
  after the fixes fa8bae0 (only the configured protocol), 7335a5f (a response needs an outstanding,
  unanswered challenge), 83f467b (the CHAP exchange is forwarded to RADIUS) and 2f4e42c (empty PAP
  password is not sent to RADIUS as a bare user name).

  One Lean function per Go method: `start` (Start), `reauth` (SendReauthChallenge), `receivePap`
  (ReceivePacket → receivePAP → handlePAPAuthRequest → authenticate), `receiveChap` (ReceivePacket →
  receiveCHAP → handleCHAPResponse → authenticateCHAP), `isRateLimited`, `recordFailure`,
  `sendChallenge` (sendCHAPChallenge).  Packets are well-formed (decoding is C09's subject).

  External: the RADIUS exchange.  Its outcome is a parameter of the operation (`Radius`): `accept` /
  `reject` answer unconditionally, `down` never answers, `challenge` answers Access-Challenge (which the client
  reports as an error, like no answer), `verify` is an honest server that accepts iff the credentials it was
  SHOWN verify against its user table.  What the Access-Request carries is part of
  the model's observation (`Obs.rad`), so "RADIUS accepted THIS exchange" is a statement about the
  model, not an assumption.  `rand.Read` is not modelled (challenge values are opaque; the harness
  checks length and freshness).  Time: `lastFail` counts the seconds since the last recorded failure
  (advanced by the `age` operation only); the API has no timer, `AuthConfig.MaxRetries` is unused by the code.

  `acceptedFor` is a ghost field: the identifier of the exchange that was accepted by the configured
  authority (RADIUS when one is configured, otherwise the code's local accept-everything rule).
  Core Lean only.
-/
namespace Bng.PppAuth

inductive Proto where | pap | chap | other
  deriving Repr, DecidableEq

inductive AState where | none_ | pending | success | failure
  deriving Repr, DecidableEq

/-- scripted behaviour of the RADIUS server for one operation -/
inductive Radius where | accept | reject | down | challenge | verify
  deriving Repr, DecidableEq

/-- PAP password of a request: the user's real one, a wrong one, the empty string -/
inductive Pw where | good | bad | empty
  deriving Repr, DecidableEq

/-- CHAP response value: MD5(id ‖ secret ‖ outstanding challenge), 16 other bytes, zero bytes long -/
inductive Resp where | matching | nomatch | short
  deriving Repr, DecidableEq

inductive Msg where | ok | rl | err | rej | emptypw
  deriving Repr, DecidableEq

inductive Pkt where
  | ack (id : Nat) (m : Msg) | nak (id : Nat) (m : Msg)
  | chal (id : Nat)
  | succ (id : Nat) (m : Msg) | fail (id : Nat) (m : Msg)
  deriving Repr, DecidableEq

/-- the credentials an Access-Request carries -/
inductive Cred where
  | pap (pw : Pw)                       -- User-Password
  | chap (id : Nat) (resp : Resp)       -- CHAP-Password = id ‖ response, CHAP-Challenge = the outstanding challenge
  deriving Repr, DecidableEq

structure Req where
  user : Nat
  cred : Cred
  deriving Repr, DecidableEq

inductive Method where | pap | chap
  deriving Repr, DecidableEq

structure Obs where
  err : Bool := false                       -- ReceivePacket returned an error
  sent : List Pkt := []
  cb : Option (Method × Bool) := none       -- onAuthComplete(result): Method, Success
  rad : Option Req := none                  -- the Access-Request sent to RADIUS, if any
  deriving Repr, DecidableEq

structure Auth where
  proto : Proto
  radius : Bool
  state : AState := .none_
  user : Option Nat := none
  chapID : Nat := 0               -- uint8
  outstanding : Bool := false     -- a.challenge != nil
  answered : Bool := false        -- chapAnswered
  accepted : Bool := false        -- chapAccepted
  failures : Nat := 0             -- failureCount
  lastFail : Option Nat := none   -- seconds since lastFailure (none: never failed)
  acceptedFor : Option Nat := none  -- ghost
  deriving Repr, DecidableEq

inductive Op where
  | start
  | reauth
  | age (secs : Nat)              -- verif hook: the last failure moves `secs` into the past
  | setid (id : Nat)              -- verif hook: pre-set the CHAP identifier counter
  | pap (id user : Nat) (pw : Pw) (r : Radius)
  | chap (id user : Nat) (resp : Resp) (r : Radius)
  deriving Repr, DecidableEq

def init (p : Proto) (radius : Bool) : Auth := { proto := p, radius := radius }

/-- the RADIUS server's answer (`none` = no answer) given whether the credentials it was shown verify -/
def radAnswer (r : Radius) (verifies : Bool) : Option Bool :=
  match r with
  | .accept => some true
  | .reject => some false
  | .down => none
  | .challenge => none
  | .verify => some verifies

/-- an honest server's check of the credentials it was shown -/
def Cred.verifies : Cred → Bool
  | .pap pw => decide (pw = .good)
  | .chap _ resp => decide (resp = .matching)

/-- sendCHAPChallenge -/
def sendChallenge (a : Auth) : Auth × List Pkt :=
  let id := (a.chapID + 1) % 256
  ({ a with chapID := id, outstanding := true, answered := false, accepted := false }, [.chal id])

/-- Start -/
def start (a : Auth) : Auth × Obs :=
  let a1 := { a with state := .pending, acceptedFor := none }
  if a.proto = .chap then
    let (a2, ps) := sendChallenge a1
    (a2, { sent := ps })
  else (a1, {})

/-- SendReauthChallenge -/
def reauth (a : Auth) : Auth × Obs :=
  if a.state = .success ∧ a.proto = .chap then
    let (a2, ps) := sendChallenge a
    (a2, { sent := ps })
  else (a, {})

/-- time.Since(lastFailure) < time.Minute -/
def recentFail (a : Auth) : Bool := match a.lastFail with | some t => decide (t < 60) | none => false
/-- time.Since(lastFailure) > time.Minute (the zero time is long ago) -/
def oldFail (a : Auth) : Bool := match a.lastFail with | some t => decide (t > 60) | none => true

/-- isRateLimited: at most 5 failures per minute; the counter is forgotten a minute after the last failure -/
def isRateLimited (a : Auth) : Auth × Bool :=
  if a.failures ≥ 5 ∧ recentFail a = true then (a, true)
  else (if oldFail a then { a with failures := 0 } else a, false)

/-- recordFailure -/
def recordFailure (a : Auth) : Auth := { a with failures := a.failures + 1, lastFail := some 0 }

/-- authenticate (PAP) / authenticateCHAP: the verdict, the message of a rejection, the RADIUS request sent -/
def authenticate (a : Auth) (q : Req) (r : Radius) : Bool × Msg × Option Req :=
  if a.radius then
    if q.cred = .pap .empty then (false, .emptypw, none)
    else
      match radAnswer r q.cred.verifies with
      | some true => (true, .ok, some q)
      | some false => (false, .rej, some q)
      | none => (false, .err, some q)
  else (true, .ok, none)

/-- the verdict part of handlePAPAuthRequest (after the rate-limit check) -/
def papVerdict (a : Auth) (id user : Nat) (pw : Pw) (r : Radius) : Auth × Obs :=
  let v := authenticate a { user := user, cred := .pap pw } r
  if v.1 then
    ({ a with state := .success, acceptedFor := some id },
     { sent := [.ack id .ok], cb := some (.pap, true), rad := v.2.2 })
  else
    ({ recordFailure a with state := .failure, acceptedFor := none },
     { sent := [.nak id v.2.1], cb := some (.pap, false), rad := v.2.2 })

/-- ReceivePacket(ProtocolPAP, Authenticate-Request) -/
def receivePap (a : Auth) (id user : Nat) (pw : Pw) (r : Radius) : Auth × Obs :=
  if a.proto ≠ .pap then (a, { err := true })
  else
    let rl := isRateLimited { a with user := some user }
    if rl.2 then (rl.1, { sent := [.nak id .rl] })
    else papVerdict rl.1 id user pw r

/-- the verdict part of handleCHAPResponse (after the rate-limit check) -/
def chapVerdict (a : Auth) (id user : Nat) (resp : Resp) (r : Radius) : Auth × Obs :=
  let v := authenticate a { user := user, cred := .chap a.chapID resp } r
  if v.1 then
    ({ a with answered := true, accepted := true, state := .success, acceptedFor := some id },
     { sent := [.succ id .ok], cb := some (.chap, true), rad := v.2.2 })
  else
    ({ recordFailure a with answered := true, accepted := false, state := .failure, acceptedFor := none },
     { sent := [.fail id v.2.1], cb := some (.chap, false), rad := v.2.2 })

/-- ReceivePacket(ProtocolCHAP, Response) -/
def receiveChap (a : Auth) (id user : Nat) (resp : Resp) (r : Radius) : Auth × Obs :=
  if a.proto ≠ .chap then (a, { err := true })
  else if a.outstanding = false ∨ id ≠ a.chapID then (a, {})
  else if a.answered then
    (a, { sent := [if a.accepted then .succ id .ok else .fail id .rej] })
  else
    let rl := isRateLimited { a with user := some user }
    if rl.2 then
      ({ rl.1 with answered := true, accepted := false }, { sent := [.fail id .rl] })
    else chapVerdict rl.1 id user resp r

def step (a : Auth) : Op → Auth × Obs
  | .start => start a
  | .reauth => reauth a
  | .age n => ({ a with lastFail := a.lastFail.map (· + n) }, {})
  | .setid n => ({ a with chapID := n % 256 }, {})
  | .pap id user pw r => receivePap a id user pw r
  | .chap id user resp r => receiveChap a id user resp r

def run (a : Auth) (ops : List Op) : Auth := ops.foldl (fun s o => (step s o).1) a

/-- every packet sent during a history, in order -/
def sentBy (a : Auth) : List Op → List Pkt
  | [] => []
  | o :: rest => (step a o).2.sent ++ sentBy (step a o).1 rest

/-! ### the monitor: an abstract specification over OBSERVATIONS only -/

/-- what the implementation reported for one operation -/
structure Seen where
  sent : List Pkt
  state : AState
  cb : Option (Method × Bool)
  /-- the Access-Requests the RADIUS server received: user, and for each credential attribute whether
      it is the one of this operation: `some (.pap _)`-style faithfulness is decided by the harness, the
      monitor gets (user, kind) where kind = 0 none, 1 faithful PAP, 2 unfaithful PAP,
      3 faithful CHAP for `chapId`, 4 unfaithful CHAP -/
  rad : List (Nat × Nat × Nat)     -- (user, kind, chapId)
  deriving Repr

structure Mon where
  proto : Proto
  radius : Bool
  issued : Option Nat := none      -- identifier of the latest Challenge seen
  answer : Option Bool := none     -- the verdict already seen for it
  authorised : Bool := false       -- an exchange was accepted by the authority and not revoked since
  deriving Repr

def outcomeAccepts (r : Radius) (verifies : Bool) : Bool := radAnswer r verifies = some true

/-- the operation is an exchange the configured authority accepted, judged from the operation, the
    Challenge/verdict packets seen so far and what the RADIUS server reports to have received -/
def acceptedExchange (m : Mon) (o : Op) (seen : Seen) : Bool :=
  match o with
  | .pap _ user pw r =>
    decide (m.proto = .pap) &&
    (!m.radius || (decide (seen.rad = [(user, 1, 0)]) && decide (pw ≠ .empty) && outcomeAccepts r (decide (pw = .good))))
  | .chap id user resp r =>
    decide (m.proto = .chap) && decide (m.issued = some id) && decide (m.answer = none) &&
    (!m.radius || (decide (seen.rad = [(user, 3, id)]) && outcomeAccepts r (decide (resp = .matching))))
  | _ => false

def opId : Op → Option Nat
  | .pap id _ _ _ => some id
  | .chap id _ _ _ => some id
  | _ => none

def Pkt.isVerdict : Pkt → Bool
  | .chal _ => false
  | _ => true

def Pkt.id : Pkt → Nat
  | .ack i _ | .nak i _ | .chal i | .succ i _ | .fail i _ => i

/-- the implementation shows a NEW acceptance: a success callback, an Ack, a Success packet that is not the
    repetition of the verdict already given for this challenge, or the state moving into Success -/
def newAccept (m : Mon) (prev : AState) (seen : Seen) : Bool :=
  (match seen.cb with | some (_, true) => true | _ => false) ||
  seen.sent.any (fun p => match p with
    | .ack _ _ => true
    | .succ i _ => !(decide (m.issued = some i) && decide (m.answer = some true))
    | _ => false) ||
  (decide (seen.state = .success) && decide (prev ≠ .success))

def monitorStep (m : Mon) (prev : AState) (o : Op) (seen : Seen) : Mon × List (String × String) :=
  let okx := acceptedExchange m o seen
  let na := newAccept m prev seen
  let v1 : List (String × String) :=
    if na && !okx then
      match o with
      | .pap id _ _ _ =>
        if m.proto ≠ .pap then [("wrong-protocol", s!"PAP request {id} accepted although PAP is not the configured protocol")]
        else [("success-without-accept", s!"PAP request {id} accepted although RADIUS did not accept this exchange (or was not shown it)")]
      | .chap id _ _ _ =>
        if m.proto ≠ .chap then [("wrong-protocol", s!"CHAP response {id} accepted although CHAP is not the configured protocol")]
        else if m.issued ≠ some id then [("stale-challenge", s!"CHAP response {id} accepted although no Challenge {id} is outstanding")]
        else if m.answer ≠ none then [("stale-challenge", s!"CHAP response {id} accepted although Challenge {id} was already answered")]
        else [("success-without-accept", s!"CHAP response {id} accepted although RADIUS did not accept this exchange (or was not shown it)")]
      | _ => [("success-without-accept", "acceptance reported by an operation that carries no credentials")]
    else []
  -- bookkeeping of challenges and verdicts
  let (issued, answer) := seen.sent.foldl (fun (acc : Option Nat × Option Bool) p =>
      match p with
      | .chal i => (some i, none)
      | .succ i _ => if acc.1 = some i ∧ acc.2 = none then (acc.1, some true) else acc
      | .fail i _ => if acc.1 = some i ∧ acc.2 = none then (acc.1, some false) else acc
      | _ => acc) (m.issued, m.answer)
  let authorised :=
    if okx && na then true
    else if seen.state = .failure ∨ o = .start then false
    else m.authorised
  let v2 : List (String × String) :=
    if v1.isEmpty ∧ seen.state = .success ∧ authorised = false then
      [("success-without-accept", "state Success although no exchange accepted by the authority is in force")]
    else []
  let v3 : List (String × String) :=
    (seen.sent.filter (fun p => p.isVerdict && opId o ≠ some p.id)).map fun p =>
      ("id-mismatch", s!"reply carries identifier {p.id} but the request carried {match opId o with | some i => toString i | none => "none"}")
  ({ m with issued := issued, answer := answer, authorised := authorised }, v1 ++ v2 ++ v3)

end Bng.PppAuth
