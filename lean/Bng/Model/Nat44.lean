import Bng.CNat
import Bng.Map
/-
  Byte-level model of the packet ACCESS and WRITE pattern of the three entry points of
  /repo/bpf/nat44.c (core Lean only):

      SEC("tc/egress")  nat44_egress        → `egress`
      SEC("tc/ingress") nat44_ingress       → `ingress`
      SEC("xdp")        nat44_hairpin_xdp   → `hairpin`

  Mirrors the C as it is, branch for branch: every `(void *)(hdr + 1) > data_end` comparison, every
  packet load and store (through the CHECKED accesses of `Bng.CNat`: an access outside `[0,size)` is
  `Except.error`, i.e. the fault the guard page / the verifier would report), the version/ihl guard
  (`ip->version != 4 || ip->ihl < 5`, added by the fix of finding D-nat44-ihl), the
  `l4_hdr = ip + ihl*4` computation, the re-reads of `ip->protocol` and the re-checks of the L4 bounds after the address
  rewrite, the UDP "checksum 0 = none" rule, and the returned verdicts.

  Map side.  The maps the packet path depends on are part of the argument `Maps` (association lists with
  first-match `lookup`: ANY lookup result can be produced by choosing the lists, and the theorems
  quantify over all of them): `nat_config_map[0].flags` (`cfg`, `none` = lookup returned NULL),
  `subscriber_nat`, `nat_sessions`, `nat_reverse`, `eim_table`, `alg_ports`, `hairpin_ips`.  Keys are
  built exactly as the C builds them (field values as loaded from the packet on a little-endian host,
  explicit padding bytes zero).  The map UPDATES that influence later packets are modelled too
  (session + reverse creation, EIM creation, the 64-step port search of `allocate_port_from_block` with
  its `next_port` cursor, deletion of a stale reverse entry), sequentially (no concurrent CPUs: the
  `BPF_NOEXIST` race branch of `get_eim_mapping` cannot be taken).  NOT modelled: `nat_stats_map`
  counters, byte/packet counters, timestamps other than `last_seen`, TCP state tracking (the flag
  byte is loaded, its effect on `session->state` is dropped), the content of ring-buffer records
  (only their number), LRU eviction.
-/
namespace Bng.Nat44
open Bng Bng.CNat

/-! ### constants of the C program -/

def TC_ACT_OK : Nat := 0
def TC_ACT_SHOT : Nat := 2
def XDP_PASS : Nat := 2

/-- `bpf_htons(ETH_P_IP)` as a little-endian host holds it -/
def ETH_P_IP_BE : UInt16 := 0x0008

def IPPROTO_ICMP : UInt8 := 1
def IPPROTO_TCP : UInt8 := 6
def IPPROTO_UDP : UInt8 := 17

def NAT_FLAG_EIM_ENABLED : UInt32 := 0x01
def NAT_FLAG_HAIRPIN_ENABLED : UInt32 := 0x04
def NAT_FLAG_ALG_FTP : UInt32 := 0x08
def NAT_FLAG_ALG_SIP : UInt32 := 0x10
def NAT_FLAG_PORT_PARITY : UInt32 := 0x20

/-- sizeof(struct ethhdr) -/
def ETH_HLEN : Nat := 14
/-- offset of the first byte after `struct iphdr` (without options) -/
def IP_END : Nat := 34
/-- packet offsets of the fields the programs touch -/
def OFF_ETHERTYPE : Nat := 12
def OFF_VIHL : Nat := 14
def OFF_PROTO : Nat := 23
/-- `ip->frag_off` (flags + 13-bit fragment offset) -/
def OFF_FRAG : Nat := 20
def OFF_IPCSUM : Nat := 24
def OFF_SADDR : Nat := 26
def OFF_DADDR : Nat := 30

/-! ### map keys and values (only the fields the packet path depends on) -/

/-- `struct nat_key` (16 bytes); `pad` = the three explicit `_pad` bytes (0 in every key the program builds) -/
structure NatKey where
  srcIp : UInt32
  dstIp : UInt32
  srcPort : UInt16
  dstPort : UInt16
  proto : UInt8
  pad : UInt32 := 0
  deriving DecidableEq, Repr

/-- `struct eim_key` (8 bytes) -/
structure EimKey where
  ip : UInt32
  port : UInt16
  proto : UInt8
  pad : UInt8 := 0
  deriving DecidableEq, Repr

/-- `struct eim_mapping`: external_ip, external_port (host order) -/
structure EimMapping where
  extIp : UInt32
  extPort : UInt16
  deriving DecidableEq, Repr

/-- `struct nat_session`: nat_ip, nat_port, orig_port, orig_ip, last_seen -/
structure Session where
  natIp : UInt32
  natPort : UInt16
  origPort : UInt16
  origIp : UInt32
  lastSeen : UInt64 := 0
  deriving DecidableEq, Repr

/-- `struct subscriber_nat`.block: public_ip, port_start, port_end, next_port -/
structure SubNat where
  publicIp : UInt32
  portStart : UInt16
  portEnd : UInt16
  nextPort : UInt32
  deriving DecidableEq, Repr

structure Maps where
  /-- `nat_config_map[0].flags`; `none` = the lookup returned NULL -/
  cfg : Option UInt32 := some 0
  subNat : AMap UInt32 SubNat := []
  sessions : AMap NatKey Session := []
  reverse : AMap NatKey NatKey := []
  eim : AMap EimKey EimMapping := []
  /-- `alg_ports`, key = `port << 16 | protocol` -/
  alg : AMap UInt32 Unit := []
  hairpin : AMap UInt32 Unit := []
  deriving Repr

/-- `cfg && (cfg->flags & mask)` -/
def Maps.cfgHas (m : Maps) (mask : UInt32) : Bool :=
  match m.cfg with
  | none => false
  | some fl => fl &&& mask != 0

/-- result of one program run -/
structure Out where
  verdict : Nat
  frame : Frame
  maps : Maps
  /-- number of ring-buffer records emitted (`log_nat_event`) -/
  events : Nat := 0
  deriving Repr

/-! ### helpers of nat44.c -/

/-- `is_private_ip(ip)`, `ip` as loaded from the packet -/
def isPrivate (ip : UInt32) : Bool :=
  let h := bswap32 ip
  let first : UInt32 := (h >>> 24) &&& 0xff
  let second : UInt32 := (h >>> 16) &&& 0xff
  if first == 10 then true
  else if first == 172 && (second >= 16 && second <= 31) then true
  else if first == 192 && second == 168 then true
  else if first == 100 && (second >= 64 && second <= 127) then true
  else false

/-- `ip->version != 4 || ip->ihl < 5` on the first byte of the IP header (the guard added by the
    fix of finding D-nat44-ihl; before it, for ihl < 5 the "L4 header" overlapped the IP header) -/
def badIpHeader (vihl : UInt8) : Bool := vihl >>> 4 != 4 || (vihl &&& 0x0f) < 5

/-- `ip->frag_off & bpf_htons(0x1FFF)`: a non-first fragment (the little-endian host holds `htons(0x1FFF)` as
    0xFF1F) — it carries no L4 header (guard added by the fix of finding D-nat44-frag) -/
def laterFragment (fragOff : UInt16) : Bool := (fragOff &&& 0xFF1F) != 0

/-- `check_alg_trigger(port, protocol)`: key of `alg_ports` -/
def algKey (port : UInt16) (proto : UInt8) : UInt32 := (port.toUInt32 <<< 16) ||| proto.toUInt32

/-- `csum_fold` -/
def csumFold (c : UInt32) : UInt16 :=
  let c : UInt32 := (c &&& (0xffff : UInt32)) + (c >>> (16 : UInt32))
  let c : UInt32 := (c &&& (0xffff : UInt32)) + (c >>> (16 : UInt32))
  (~~~ c).toUInt16

/-- the arithmetic of `update_csum(csum, old_val, new_val)` (32-bit value changed) -/
def csum32 (cur : UInt16) (o n : UInt32) : UInt16 :=
  let sum : UInt32 := (~~~ cur.toUInt32) &&& (0xffff : UInt32)
  let sum : UInt32 := sum + ((~~~ o) &&& (0xffff : UInt32))
  let sum : UInt32 := sum + ((~~~ (o >>> (16 : UInt32))) &&& (0xffff : UInt32))
  let sum : UInt32 := sum + (n &&& (0xffff : UInt32))
  let sum : UInt32 := sum + (n >>> (16 : UInt32))
  csumFold sum

/-- the arithmetic of `update_csum16(csum, old_val, new_val)` -/
def csum16 (cur : UInt16) (o n : UInt16) : UInt16 :=
  let sum : UInt32 := (~~~ cur.toUInt32) &&& (0xffff : UInt32)
  let sum : UInt32 := sum + ((~~~ o.toUInt32) &&& (0xffff : UInt32))
  let sum : UInt32 := sum + (n.toUInt32 &&& (0xffff : UInt32))
  csumFold sum

/-- `update_csum(&field, old, new)` on a 16-bit checksum field of the packet: one load, one store -/
def updateCsum (f : Frame) (off : Nat) (o n : UInt32) : M Frame := do
  let cur ← ld16 f off
  st16 f off (csum32 cur o n)

/-- `update_csum16(&field, old, new)` -/
def updateCsum16 (f : Frame) (off : Nat) (o n : UInt16) : M Frame := do
  let cur ← ld16 f off
  st16 f off (csum16 cur o n)

/-- one iteration of the search loop of `allocate_port_from_block`: the advanced block and the port
    if this iteration returns one -/
def allocStep (eim : AMap EimKey EimMapping) (parity : Bool) (origPort : UInt16) (ip : UInt32)
    (proto : UInt8) (b : SubNat) : SubNat × Option UInt16 :=
  let port0 : UInt16 := b.nextPort.toUInt16
  let np : UInt32 := b.nextPort + 1
  let port := if port0 > b.portEnd then b.portStart else port0
  let np := if np > b.portEnd.toUInt32 then b.portStart.toUInt32 else np
  let b' := { b with nextPort := np }
  if parity && ((port &&& 1) != (origPort &&& 1)) then (b', none)
  else if (AMap.lookup eim { ip := ip, port := port, proto := proto : EimKey }).isSome then (b', none)
  else (b', some port)

def allocLoop (eim : AMap EimKey EimMapping) (parity : Bool) (origPort : UInt16) (ip : UInt32)
    (proto : UInt8) : Nat → SubNat → SubNat × UInt16
  | 0, b => (b, 0)
  | n + 1, b =>
    match allocStep eim parity origPort ip proto b with
    | (b', some p) => (b', p)
    | (b', none) => allocLoop eim parity origPort ip proto n b'

/-- `allocate_port_from_block` (64 unrolled iterations; 0 = exhaustion) -/
def allocatePort (eim : AMap EimKey EimMapping) (parity : Bool) (origPort : UInt16) (ip : UInt32)
    (proto : UInt8) (b : SubNat) : SubNat × UInt16 :=
  allocLoop eim parity origPort ip proto 64 b

/-- `get_eim_mapping(internal_ip, internal_port, protocol, sub_nat, stats)` with `sub_nat ≠ NULL`:
    updated eim table, updated block, the mapping (none = NULL) -/
def getEim (m : Maps) (ip : UInt32) (port : UInt16) (proto : UInt8) (sub : SubNat) :
    AMap EimKey EimMapping × SubNat × Option EimMapping :=
  let key : EimKey := { ip := ip, port := port, proto := proto }
  match AMap.lookup m.eim key with
  | some e => (m.eim, sub, some e)
  | none =>
    let a := allocatePort m.eim (m.cfgHas NAT_FLAG_PORT_PARITY) port ip proto sub
    if a.2 == 0 then (m.eim, a.1, none)
    else (AMap.insert m.eim key { extIp := a.1.publicIp, extPort := a.2 }, a.1,
          some { extIp := a.1.publicIp, extPort := a.2 })

/-! ### nat44_egress -/

/-- what the parsing part of the TC programs extracted from the packet -/
structure Pkt where
  saddr : UInt32
  daddr : UInt32
  proto : UInt8
  /-- offset of `l4_hdr` = 14 + ihl*4 -/
  l4 : Nat
  sport : UInt16
  dport : UInt16
  deriving Repr

inductive EgParse where
  /-- `return TC_ACT_OK` before any write, `ev` ring-buffer records emitted -/
  | pass (ev : Nat)
  /-- continue to the NAT decision with the subscriber's allocation -/
  | go (p : Pkt) (sub : SubNat)

/-- nat44_egress up to (excluding) the hairpin check / session lookup -/
def egressParse (m : Maps) (f : Frame) : M EgParse :=
  let dataEnd := f.length
  -- if ((void *)(eth + 1) > data_end) return TC_ACT_OK;
  if ETH_HLEN > dataEnd then pure (.pass 0) else do
  let hproto ← ld16 f OFF_ETHERTYPE
  if hproto != ETH_P_IP_BE then pure (.pass 0) else
  -- if ((void *)(ip + 1) > data_end) return TC_ACT_OK;
  if IP_END > dataEnd then pure (.pass 0) else do
  -- if (ip->version != 4 || ip->ihl < 5) return TC_ACT_OK;
  let vihl0 ← ld8 f OFF_VIHL
  if badIpHeader vihl0 then pure (.pass 0) else do
  -- if (ip->frag_off & bpf_htons(0x1FFF)) return TC_ACT_OK;
  let fragOff ← ld16 f OFF_FRAG
  if laterFragment fragOff then pure (.pass 0) else do
  let saddr ← ld32 f OFF_SADDR
  if !isPrivate saddr then pure (.pass 0) else
  match AMap.lookup m.subNat saddr with
  | none => pure (.pass 0)
  | some sub => do
  let daddr ← ld32 f OFF_DADDR
  let proto ← ld8 f OFF_PROTO
  let vihl ← ld8 f OFF_VIHL
  let l4 := ETH_HLEN + (vihl &&& 0x0f).toNat * 4
  if proto == IPPROTO_TCP then
    if l4 + 20 > dataEnd then pure (.pass 0) else do
    let sport ← ld16 f l4
    let dport ← ld16 f (l4 + 2)
    if m.cfgHas (NAT_FLAG_ALG_FTP ||| NAT_FLAG_ALG_SIP) &&
        (AMap.lookup m.alg (algKey (bswap16 dport) IPPROTO_TCP)).isSome then pure (.pass 1)
    else pure (.go { saddr, daddr, proto, l4, sport, dport } sub)
  else if proto == IPPROTO_UDP then
    if l4 + 8 > dataEnd then pure (.pass 0) else do
    let sport ← ld16 f l4
    let dport ← ld16 f (l4 + 2)
    if m.cfgHas NAT_FLAG_ALG_SIP &&
        (AMap.lookup m.alg (algKey (bswap16 dport) IPPROTO_UDP)).isSome then pure (.pass 1)
    else pure (.go { saddr, daddr, proto, l4, sport, dport } sub)
  else if proto == IPPROTO_ICMP then
    if l4 + 8 > dataEnd then pure (.pass 0) else do
    let id ← ld16 f (l4 + 4)
    pure (.go { saddr, daddr, proto, l4, sport := id, dport := 0 } sub)
  else pure (.pass 0)

inductive NatDecision where
  /-- port exhaustion: `return TC_ACT_SHOT` -/
  | shot
  /-- translate the source to `ip:port` (port in network order as held by a little-endian host) -/
  | nat (ip : UInt32) (port : UInt16)
  deriving Repr

/-- the "new session" part of nat44_egress: EIM lookup/creation when enabled, otherwise (or when that
    yields nothing) a port from the block: updated eim table, updated block, the translation
    (`none` = port exhaustion) -/
def egressChoose (m : Maps) (p : Pkt) (sub : SubNat) :
    AMap EimKey EimMapping × SubNat × Option (UInt32 × UInt16) :=
  let r := if m.cfgHas NAT_FLAG_EIM_ENABLED then getEim m p.saddr p.sport p.proto sub else (m.eim, sub, none)
  match r.2.2 with
  | some e => (r.1, r.2.1, some (e.extIp, bswap16 e.extPort))
  | none =>
    let a := allocatePort r.1 (m.cfgHas NAT_FLAG_PORT_PARITY) (bswap16 p.sport) p.saddr p.proto r.2.1
    if a.2 == 0 then (r.1, a.1, none) else (r.1, a.1, some (a.1.publicIp, bswap16 a.2))

/-- the connection-tracking key nat44_egress builds -/
def sessKey (p : Pkt) : NatKey :=
  { srcIp := p.saddr, dstIp := p.daddr, srcPort := p.sport, dstPort := p.dport, proto := p.proto }

/-- the session lookup / EIM / port allocation / session creation part of nat44_egress:
    updated maps, decision, ring-buffer records emitted -/
def egressNat (m : Maps) (clk : UInt64) (p : Pkt) (sub : SubNat) : Maps × NatDecision × Nat :=
  match AMap.lookup m.sessions (sessKey p) with
  | some s =>
    ({ m with sessions := AMap.insert m.sessions (sessKey p) { s with lastSeen := clk } }, .nat s.natIp s.natPort, 0)
  | none =>
    let c := egressChoose m p sub
    let m1 := { m with eim := c.1, subNat := AMap.insert m.subNat p.saddr c.2.1 }
    match c.2.2 with
    | none => (m1, .shot, 1)
    | some np =>
      let sess : Session :=
        { natIp := np.1, natPort := np.2, origPort := p.sport, origIp := p.saddr, lastSeen := clk }
      let rev : NatKey :=
        { srcIp := p.daddr, dstIp := np.1, srcPort := p.dport, dstPort := np.2, proto := p.proto }
      ({ m1 with sessions := AMap.insert m1.sessions (sessKey p) sess, reverse := AMap.insert m1.reverse rev (sessKey p) },
       .nat np.1 np.2, 1)

/-- "Perform SNAT" part of nat44_egress: rewrites source address, IP checksum, L4 source port / ICMP id
    and L4 checksum in place. `dataEnd` is the `data_end` captured at program entry. -/
def snat (f : Frame) (dataEnd l4 : Nat) (natIp : UInt32) (natPort : UInt16) : M Frame := do
  let oldIp ← ld32 f OFF_SADDR
  let f ← st32 f OFF_SADDR natIp
  let f ← updateCsum f OFF_IPCSUM oldIp natIp
  let proto ← ld8 f OFF_PROTO
  if proto == IPPROTO_TCP then
    if l4 + 20 > dataEnd then pure f else do
    let oldPort ← ld16 f l4
    let f ← st16 f l4 natPort
    let f ← updateCsum f (l4 + 16) oldIp natIp
    updateCsum16 f (l4 + 16) oldPort natPort
  else if proto == IPPROTO_UDP then
    if l4 + 8 > dataEnd then pure f else do
    let oldPort ← ld16 f l4
    let f ← st16 f l4 natPort
    let c ← ld16 f (l4 + 6)
    if c != 0 then do
      let f ← updateCsum f (l4 + 6) oldIp natIp
      let f ← updateCsum16 f (l4 + 6) oldPort natPort
      let c ← ld16 f (l4 + 6)
      if c == 0 then st16 f (l4 + 6) 0xffff else pure f
    else pure f
  else if proto == IPPROTO_ICMP then
    if l4 + 8 > dataEnd then pure f else do
    let oldId ← ld16 f (l4 + 4)
    let f ← st16 f (l4 + 4) natPort
    updateCsum16 f (l4 + 2) oldId natPort
  else pure f

/-- `nat44_egress(skb)`: `m` = map contents, `clk` = value of `bpf_ktime_get_ns()`, `f` = the linear packet -/
def egress (m : Maps) (clk : UInt64) (f : Frame) : M Out := do
  match ← egressParse m f with
  | .pass ev => pure { verdict := TC_ACT_OK, frame := f, maps := m, events := ev }
  | .go p sub =>
    match egressNat m clk p sub with
    | (m', .shot, ev) => pure { verdict := TC_ACT_SHOT, frame := f, maps := m', events := ev }
    | (m', .nat ip port, ev) => do
      let f' ← snat f f.length p.l4 ip port
      pure { verdict := TC_ACT_OK, frame := f', maps := m', events := ev }

/-! ### nat44_ingress -/

/-- nat44_ingress up to (excluding) the reverse lookup; `none` = `return TC_ACT_OK` -/
def ingressParse (f : Frame) : M (Option Pkt) :=
  let dataEnd := f.length
  if ETH_HLEN > dataEnd then pure none else do
  let hproto ← ld16 f OFF_ETHERTYPE
  if hproto != ETH_P_IP_BE then pure none else
  if IP_END > dataEnd then pure none else do
  -- if (ip->version != 4 || ip->ihl < 5) return TC_ACT_OK;
  let vihl0 ← ld8 f OFF_VIHL
  if badIpHeader vihl0 then pure none else do
  -- if (ip->frag_off & bpf_htons(0x1FFF)) return TC_ACT_OK;
  let fragOff ← ld16 f OFF_FRAG
  if laterFragment fragOff then pure none else do
  let saddr ← ld32 f OFF_SADDR
  let daddr ← ld32 f OFF_DADDR
  let proto ← ld8 f OFF_PROTO
  let vihl ← ld8 f OFF_VIHL
  let l4 := ETH_HLEN + (vihl &&& 0x0f).toNat * 4
  if proto == IPPROTO_TCP then
    if l4 + 20 > dataEnd then pure none else do
    let sport ← ld16 f l4
    let dport ← ld16 f (l4 + 2)
    pure (some { saddr, daddr, proto, l4, sport, dport })
  else if proto == IPPROTO_UDP then
    if l4 + 8 > dataEnd then pure none else do
    let sport ← ld16 f l4
    let dport ← ld16 f (l4 + 2)
    pure (some { saddr, daddr, proto, l4, sport, dport })
  else if proto == IPPROTO_ICMP then
    if l4 + 8 > dataEnd then pure none else do
    let id ← ld16 f (l4 + 4)
    pure (some { saddr, daddr, proto, l4, sport := 0, dport := id })
  else pure none

/-- the reverse-lookup key nat44_ingress builds -/
def revKey (p : Pkt) : NatKey :=
  { srcIp := p.saddr, dstIp := p.daddr, srcPort := p.sport, dstPort := p.dport, proto := p.proto }

/-- "Update connection state for TCP": re-check of the TCP bounds and the load of the flag byte
    (`tcp->fin || tcp->rst`, `tcp->ack`: byte 13 of the TCP header). `none` = the unreachable
    `return TC_ACT_OK` of that block. -/
def ingressTcpState (f : Frame) (dataEnd l4 : Nat) : M (Option UInt8) := do
  let proto ← ld8 f OFF_PROTO
  if proto == IPPROTO_TCP then
    if l4 + 20 > dataEnd then pure none else do
    let fl ← ld8 f (l4 + 13)
    pure (some fl)
  else pure (some 0)

/-- "Perform DNAT" part of nat44_ingress -/
def dnat (f : Frame) (dataEnd l4 : Nat) (newIp : UInt32) (newPort : UInt16) : M Frame := do
  let oldIp ← ld32 f OFF_DADDR
  let f ← st32 f OFF_DADDR newIp
  let f ← updateCsum f OFF_IPCSUM oldIp newIp
  let proto ← ld8 f OFF_PROTO
  if proto == IPPROTO_TCP then
    if l4 + 20 > dataEnd then pure f else do
    let oldPort ← ld16 f (l4 + 2)
    let f ← st16 f (l4 + 2) newPort
    let f ← updateCsum f (l4 + 16) oldIp newIp
    updateCsum16 f (l4 + 16) oldPort newPort
  else if proto == IPPROTO_UDP then
    if l4 + 8 > dataEnd then pure f else do
    let oldPort ← ld16 f (l4 + 2)
    let f ← st16 f (l4 + 2) newPort
    let c ← ld16 f (l4 + 6)
    if c != 0 then do
      let f ← updateCsum f (l4 + 6) oldIp newIp
      let f ← updateCsum16 f (l4 + 6) oldPort newPort
      let c ← ld16 f (l4 + 6)
      if c == 0 then st16 f (l4 + 6) 0xffff else pure f
    else pure f
  else if proto == IPPROTO_ICMP then
    if l4 + 8 > dataEnd then pure f else do
    let oldId ← ld16 f (l4 + 4)
    let f ← st16 f (l4 + 4) newPort
    updateCsum16 f (l4 + 2) oldId newPort
  else pure f

/-- `nat44_ingress(skb)` -/
def ingress (m : Maps) (clk : UInt64) (f : Frame) : M Out := do
  match ← ingressParse f with
  | none => pure { verdict := TC_ACT_OK, frame := f, maps := m }
  | some p =>
    match AMap.lookup m.reverse (revKey p) with
    | none => pure { verdict := TC_ACT_OK, frame := f, maps := m }
    | some orig =>
      match AMap.lookup m.sessions orig with
      | none =>
        -- session expired: bpf_map_delete_elem(&nat_reverse, &rev_key)
        pure { verdict := TC_ACT_OK, frame := f, maps := { m with reverse := AMap.erase m.reverse (revKey p) } }
      | some s => do
        let m' := { m with sessions := AMap.insert m.sessions orig { s with lastSeen := clk } }
        match ← ingressTcpState f f.length p.l4 with
        | none => pure { verdict := TC_ACT_OK, frame := f, maps := m' }
        | some _ => do
          let f' ← dnat f f.length p.l4 s.origIp s.origPort
          pure { verdict := TC_ACT_OK, frame := f', maps := m' }

/-! ### nat44_hairpin_xdp -/

/-- `nat44_hairpin_xdp(ctx)`: never writes; every path returns XDP_PASS -/
def hairpin (m : Maps) (f : Frame) : M Out :=
  let dataEnd := f.length
  let pass : M Out := pure { verdict := XDP_PASS, frame := f, maps := m }
  if !m.cfgHas NAT_FLAG_HAIRPIN_ENABLED then pass else
  if ETH_HLEN > dataEnd then pass else do
  let hproto ← ld16 f OFF_ETHERTYPE
  if hproto != ETH_P_IP_BE then pass else
  if IP_END > dataEnd then pass else do
  let saddr ← ld32 f OFF_SADDR
  if !isPrivate saddr then pass else do
  let daddr ← ld32 f OFF_DADDR
  if (AMap.lookup m.hairpin daddr).isNone then pass else pass

/-! ### what the programs are specified to act on (decidable, used by the theorems AND by the monitor) -/

/-- offset of the L4 header the programs compute -/
def l4Off (f : Frame) : Nat := ETH_HLEN + (rd8 f OFF_VIHL &&& 0x0f).toNat * 4

/-- an IPv4 frame with a complete, well-formed basic IP header (version 4, header length at least 5
    words) that is not a later fragment (fragment offset 0: only then is there an L4 header) and carries TCP, UDP or ICMP with the part of the L4 header the programs use (20/8/8 bytes
    at `14 + ihl*4`) inside the frame -/
def natCandidate (f : Frame) : Bool :=
  decide (IP_END ≤ f.length) && rd16 f OFF_ETHERTYPE == ETH_P_IP_BE &&
  (rd8 f OFF_VIHL >>> 4 == 4 && (rd8 f OFF_VIHL &&& 0x0f) >= 5) &&
  !laterFragment (rd16 f OFF_FRAG) &&
  ((rd8 f OFF_PROTO == IPPROTO_TCP && decide (l4Off f + 20 ≤ f.length)) ||
   (rd8 f OFF_PROTO == IPPROTO_UDP && decide (l4Off f + 8 ≤ f.length)) ||
   (rd8 f OFF_PROTO == IPPROTO_ICMP && decide (l4Off f + 8 ≤ f.length)))

/-- nat44_egress is specified to act on `f`: a NAT candidate whose source address is private and holds
    a NAT allocation (`subscriber_nat` entry) -/
def egressActsOn (m : Maps) (f : Frame) : Bool :=
  natCandidate f && isPrivate (rd32 f OFF_SADDR) && (AMap.lookup m.subNat (rd32 f OFF_SADDR)).isSome

/-- the reverse key of a frame (source/destination address, ports or ICMP id, protocol) -/
def revKeyOf (f : Frame) : NatKey :=
  let pr := rd8 f OFF_PROTO
  let l4 := l4Off f
  { srcIp := rd32 f OFF_SADDR, dstIp := rd32 f OFF_DADDR,
    srcPort := if pr == IPPROTO_ICMP then 0 else rd16 f l4,
    dstPort := if pr == IPPROTO_ICMP then rd16 f (l4 + 4) else rd16 f (l4 + 2),
    proto := pr }

/-- nat44_ingress is specified to act on `f`: a NAT candidate for which a NAT flow exists (a
    `nat_reverse` entry for its 5-tuple whose `nat_sessions` entry exists) -/
def ingressActsOn (m : Maps) (f : Frame) : Bool :=
  natCandidate f &&
  match AMap.lookup m.reverse (revKeyOf f) with
  | none => false
  | some orig => (AMap.lookup m.sessions orig).isSome

/-- nat44_hairpin_xdp is a pure classifier (it only counts): it is specified to act on NO frame -/
def hairpinActsOn (_m : Maps) (_f : Frame) : Bool := false

end Bng.Nat44
