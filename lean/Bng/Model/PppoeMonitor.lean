import Bng.Model.PppoeServer
/-
  The C04/C05/C16 monitor of component `pppoesrv` as a pure function over a STRUCTURED observation
  (what the line-protocol driver parses out of the implementation's observation string), so that it can
  be reasoned about: `Bng.Proof.PppoeMonitor` proves that it never raises a verdict outside the recorded
  finding KF-pppoe-idle-leak on any history of the model (`monitor_silent_on_model`), i.e. that it demands
  nothing the model does not deliver.  The string layer (`Bng.Drv.PppoeServer.parseObs`) is outside that
  theorem; the driver cross-checks `parseObs (showSrv s outs) = obsOf s outs` on every replayed line.
  Core Lean only.
-/
namespace Bng.PppoeMon
open Bng Bng.PppoeServer

/-- a session as reported by the implementation -/
structure Seen where
  sid : Nat
  mac : Nat
  est : Bool          -- state shown as EST
  hasIp : Bool        -- an address is shown
  addr : Option Nat   -- … which one (last octet)
  raw : String
  deriving DecidableEq, Repr

/-- a frame the server sent on a session (PADO carries no session and is not listed) -/
structure Sent where
  sid : Nat
  pads : Bool         -- PADS
  ipcpAns : Bool      -- IPCP Configure-Ack, or Configure-Nak carrying an address
  ack : Bool          -- IPCP Configure-Ack
  kind : String
  deriving DecidableEq, Repr

structure Obs where
  seen : List Seen
  sent : List Sent
  free : Nat
  alloc : Nat
  /-- the pool's own view: (session, address) for every live session the pool records an address for; its free list -/
  held : List (Nat × Nat)
  freeL : List Nat
  deriving DecidableEq, Repr

structure Mon where
  owner : AMap Nat Nat := []     -- sid → MAC the session was created for (from PADS)
  authOK : List Nat := []        -- sessions whose own PAP exchange was accepted
  prev : List Seen := []
  radius : Bool := false
  /-- addresses known to be stranded by the idle sweep (recorded finding KF-pppoe-idle-leak) -/
  stranded : Nat := 0
  total : Nat := 0

/-- (monitor, known-finding clause or "none", detail) -/
abbrev Verdict := String × String × String

def owner1 (mn : Mon) (i : In) (o : Obs) : AMap Nat Nat :=
  o.sent.foldl (fun ow t =>
    if t.pads then
      match i with
      | .padr m _ => AMap.insert ow t.sid m
      | _ => ow
    else ow) mn.owner

def auth0 (mn : Mon) (o : Obs) : List Nat :=
  o.sent.foldl (fun a t => if t.pads then a.filter (· ≠ t.sid) else a) mn.authOK

/-- the session whose PAP exchange this input completes successfully, judged from the monitor's own records -/
def papAccepted (mn : Mon) (owner : AMap Nat Nat) : In → Option Nat
  | .pap m sid pw r =>
    if AMap.lookup owner sid = some m ∧ (mn.prev.any (·.sid == sid)) = true ∧
       (!mn.radius || (decide (r = Radius.accept) && decide (pw ≠ Pw.empty))) = true
    then some sid else none
  | _ => none

def auth1 (mn : Mon) (i : In) (o : Obs) : List Nat :=
  let a := auth0 mn o
  match papAccepted mn (owner1 mn i o) i with
  | some sid => if a.contains sid then a else sid :: a
  | none => a

/-- service (an address or the Established state) only for sessions whose PAP exchange was accepted -/
def v1 (auth : List Nat) (o : Obs) : List Verdict :=
  o.seen.filterMap fun x =>
    if (x.est || x.hasIp) && !auth.contains x.sid then
      some ("service-without-auth", "none", s!"session {x.raw} has service but its PAP exchange was never accepted")
    else none

def v2 (auth : List Nat) (o : Obs) : List Verdict :=
  o.sent.filterMap fun t =>
    if t.ipcpAns && !auth.contains t.sid then
      some ("ipcp-without-auth", "none", s!"{t.kind} sent for session {t.sid} before its authentication")
    else none

def target : In → Option (Nat × Nat)
  | .padt m sid | .lcp m sid _ | .pap m sid _ _ | .ipcp m sid _ | .ip m sid => some (m, sid)
  | _ => none

/-- frames from a MAC that does not own the session are inert -/
def v3 (mn : Mon) (i : In) (o : Obs) : List Verdict :=
  match target i with
  | some (m, sid) =>
    match AMap.lookup mn.owner sid, mn.prev.find? (·.sid == sid) with
    | some ow, some before =>
      if ow ≠ m then
        let after := o.seen.find? (·.sid == sid)
        (if after ≠ some before then
          [("foreign-mac", "none", s!"frame from m{m} changed session {sid} owned by m{ow}: {before.raw} -> {(after.map (·.raw)).getD "removed"}")]
         else []) ++
        (if o.sent.any (fun t => t.sid == sid) then
          [("foreign-mac", "none", s!"frame from m{m} made the server answer on session {sid} owned by m{ow}")] else [])
      else []
    | _, _ => []
  | none => []

def holders (seen : List Seen) : Nat := (seen.filter (·.hasIp)).length

/-- address-holding sessions a sweep pass removed (a sweep only removes sessions) -/
def sweptNow (mn : Mon) (o : Obs) : In → Nat
  | .sweep _ => holders mn.prev - holders o.seen
  | _ => 0

/-- (C16/C05) every address recorded as allocated belongs to a live session, nothing is lost -/
def v4 (mn : Mon) (i : In) (o : Obs) : List Verdict :=
  let swept := sweptNow mn o i
  let stranded := mn.stranded + swept
  (if swept > 0 then
    [("residue", "KF-pppoe-idle-leak", s!"the idle sweep removed {swept} session(s) without returning their address")]
   else []) ++
  (if o.alloc ≠ holders o.seen + stranded then
    [("residue", "none", s!"{o.alloc} addresses recorded as allocated but {holders o.seen} live sessions hold one (+{stranded} stranded by sweeps)")]
   else []) ++
  (if mn.total ≠ 0 ∧ o.free + o.alloc ≠ mn.total then
    [("conservation", "none", s!"free {o.free} + allocated {o.alloc} ≠ pool size {mn.total}")] else [])

/-- does the pool's view agree with the address this session shows? -/
def poolAgrees (o : Obs) (x : Seen) : Bool :=
  match x.addr with
  | some a => o.held.contains (x.sid, a)
  | none => !(o.held.any (·.1 == x.sid))

/-- (C01/C05) what a session shows as its address is the pool's entry for it … -/
def v5a (o : Obs) : List Verdict :=
  o.seen.filterMap fun x =>
    if poolAgrees o x then none else
      some ("pool-entry", "none", s!"session {x.raw}: the address it shows is not what the pool records for it")

/-- … no address is recorded for two live sessions … -/
def v5b (o : Obs) : List Verdict :=
  if (o.held.map (·.2)).Nodup then [] else
    [("unique", "none", s!"an address is recorded for two live sessions: {o.held}")]

/-- … and no held address is on the free list -/
def v5c (o : Obs) : List Verdict :=
  o.held.filterMap fun p =>
    if o.freeL.contains p.2 then some ("held-free", "none", s!"address {p.2} is held by session {p.1} and on the free list")
    else none

def v5 (o : Obs) : List Verdict := v5a o ++ v5b o ++ v5c o

/-- the server acknowledges an IP-Address option only for the address it assigned: a Configure-Request carrying an
    address, from a session that holds none (pool exhausted), must not be answered with a Configure-Ack — the peer would
    have picked its own address, possibly another session's -/
def v6 (i : In) (o : Obs) : List Verdict :=
  match i with
  | .ipcp _ sid .creqIp =>
    if o.sent.any (fun t => t.sid == sid && t.ack) && o.seen.any (fun x => x.sid == sid && !x.hasIp) then
      [("self-chosen-address", "none",
        s!"session {sid} holds no address, yet its IPCP Configure-Request with an IP-Address option was acknowledged")]
    else []
  | _ => []

def monitorCore (mn : Mon) (i : In) (o : Obs) : Mon × List Verdict :=
  let owner := owner1 mn i o
  let auth := auth1 mn i o
  let live := o.seen.map (·.sid)
  ({ mn with owner := owner.filter (fun p => live.contains p.1),
             authOK := auth.filter (fun sid => live.contains sid),
             prev := o.seen,
             stranded := mn.stranded + sweptNow mn o i },
   v1 auth o ++ v2 auth o ++ v3 mn i o ++ v4 mn i o ++ v5 o ++ v6 i o)

/-! ### the model's own observation, structured -/

def stateName : SState → String
  | .disc => "DISC" | .lcp => "LCP" | .auth => "AUTH" | .ipcp => "IPCP" | .est => "EST"
  | .term => "TERM" | .closed => "CLOSED"

def showSess (x : Sess) : String :=
  let ip := match x.ip with | some a => toString a | none => "-"
  s!"{x.id}:m{x.mac}:{stateName x.state}:{if x.authed then "auth" else "unauth"}:{ip}"

def insertSorted (x : Sess) : List Sess → List Sess
  | [] => [x]
  | y :: rest => if x.id ≤ y.id then x :: y :: rest else y :: insertSorted x rest

def sortedSess (s : Srv) : List Sess := s.sessions.foldl (fun acc p => insertSorted p.2 acc) []

def toSeen (x : Sess) : Seen :=
  { sid := x.id, mac := x.mac, est := decide (x.state = .est), hasIp := x.ip.isSome, addr := x.ip, raw := showSess x }

def plainSent (sid : Nat) (kind : String) : Option Sent :=
  some { sid := sid, pads := false, ipcpAns := false, ack := false, kind := kind }

def toSent : Out → Option Sent
  | .pado _ => none
  | .pads sid _ => some { sid := sid, pads := true, ipcpAns := false, ack := false, kind := "PADS" }
  | .ipcpack sid _ => some { sid := sid, pads := false, ipcpAns := true, ack := true, kind := "IPCPACK" }
  | .ipcpnak (some ip) sid _ => some { sid := sid, pads := false, ipcpAns := true, ack := false, kind := s!"IPCPNAK[{ip}]" }
  | .ipcprej sid _ => plainSent sid "IPCPREJ"
  | .ipcpnak none sid _ => plainSent sid "IPCPNAK"
  | .lcpreq sid _ => plainSent sid "LCPREQ"
  | .lcpack sid _ => plainSent sid "LCPACK"
  | .lcptack sid _ => plainSent sid "LCPTACK"
  | .lcperep sid _ => plainSent sid "LCPEREP"
  | .papack sid _ => plainSent sid "PAPACK"
  | .papnak sid _ => plainSent sid "PAPNAK"
  | .ipcpreq sid _ => plainSent sid "IPCPREQ"

def obsOf (s : Srv) (outs : List Out) : Obs :=
  { seen := (sortedSess s).map toSeen, sent := outs.filterMap toSent,
    free := s.avail.length, alloc := s.alloc.length,
    held := (sortedSess s).filterMap fun x => (AMap.lookup s.alloc x.serial).map fun a => (x.id, a),
    freeL := s.avail }

/-- model and monitor side by side: the verdicts the monitor raises on the model's own observations -/
def runBoth : Srv → Mon → List In → List Verdict
  | _, _, [] => []
  | s, mn, i :: rest =>
    let (s', outs) := step s i
    let (mn', vs) := monitorCore mn i (obsOf s' outs)
    vs ++ runBoth s' mn' rest

def initMon (radius : Bool) (bits : Nat) : Mon := { radius := radius, total := (poolAddrs bits).length }

end Bng.PppoeMon
