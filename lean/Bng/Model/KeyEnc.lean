import Bng.Model.Layout
/-
  C06 — key derivations and value encodings, modelled on BOTH sides exactly as the sources write them.

  Machine integers are `Nat` with the wrap of the source type written out (`% 2^64` …), `|||`, `<<<`, `&&&`
  are the Nat bit operations, so that "the OR of the shifted bytes is their sum" is a THEOREM
  (Spec/C06.lean), not a modelling decision.  Core Lean only (linked into `bngdrv-layout`).

  Source of every function is named in its doc comment.  Little-endian host on both sides
  (cilium marshals with the native byte order, the BPF target is little-endian: DESIGN §6).
-/
namespace Bng.KeyEnc
open Bng.Layout

abbrev B := UInt8

/-! ## machine helpers -/

/-- uint64 `(r << 8) | b` -/
def shlOr8 (r : Nat) (b : B) : Nat := ((r <<< 8) % 2 ^ 64) ||| b.toNat

/-- the integer a little-endian CPU loads from `bs` (`*(__u16 *)p`, `*(__u32 *)p`) -/
def loadLE (bs : List B) : Nat := leVal bs

/-- `__builtin_bswap16` -/
def bswap16 (x : Nat) : Nat := (x % 256) * 256 + (x / 256) % 256

/-- `__builtin_bswap32` -/
def bswap32 (x : Nat) : Nat :=
  (x % 256) * 2 ^ 24 + (x / 2 ^ 8 % 256) * 2 ^ 16 + (x / 2 ^ 16 % 256) * 2 ^ 8 + x / 2 ^ 24 % 256

/-- `binary.BigEndian.Uint32(b)` (Go): `uint32(b[3]) | uint32(b[2])<<8 | uint32(b[1])<<16 | uint32(b[0])<<24` -/
def beUint32 (a b c d : B) : Nat :=
  d.toNat ||| (c.toNat <<< 8) ||| (b.toNat <<< 16) ||| (a.toNat <<< 24)

/-! ## MAC → u64  (subscriber_pools key, circuit_id_map value, subscriber_bindings key, walled-garden key) -/

/-- Go `ebpf.MACToUint64` (pkg/ebpf/loader.go) = `walledgarden.macToUint64`: `len(mac) < 6 → 0`, else
    `for i < 6 { result = (result << 8) | uint64(mac[i]) }` -/
def macU64GoLoop (mac : List B) : Nat :=
  if mac.length < 6 then 0 else (mac.take 6).foldl shlOr8 0

/-- C `mac_to_u64` of bpf/dhcp_fastpath.c: the same loop over the six bytes behind the pointer -/
def macU64CLoop (b0 b1 b2 b3 b4 b5 : B) : Nat :=
  [b0, b1, b2, b3, b4, b5].foldl shlOr8 0

/-- C `mac_to_u64` of bpf/antispoof.c and Go `antispoof.macToUint64`:
    `(u64)mac[0] << 40 | (u64)mac[1] << 32 | … | (u64)mac[5]` (no shift leaves 64 bits) -/
def macU64Shift (b0 b1 b2 b3 b4 b5 : B) : Nat :=
  (b0.toNat <<< 40) ||| (b1.toNat <<< 32) ||| (b2.toNat <<< 24) ||| (b3.toNat <<< 16) |||
    (b4.toNat <<< 8) ||| b5.toNat

/-- Go `antispoof.macToUint64` on an ARBITRARY hardware address: it indexes `mac[0]`…`mac[5]`, so fewer than six
    bytes is an index-out-of-range panic (`none`); extra bytes are ignored -/
def macU64ShiftL : List B → Option Nat
  | b0 :: b1 :: b2 :: b3 :: b4 :: b5 :: _ => some (macU64Shift b0 b1 b2 b3 b4 b5)
  | _ => none

/-- what the kernel programs key a client by: `mac_to_u64` over the SIX bytes they have — `dhcp->chaddr[0..5]` /
    `eth->h_source` — i.e. the hardware address truncated (zero padded) to six bytes -/
def macU64COf (mac : List B) : Nat :=
  macU64CLoop (mac.getD 0 0) (mac.getD 1 0) (mac.getD 2 0) (mac.getD 3 0) (mac.getD 4 0) (mac.getD 5 0)

/-- THE map key of a hardware address: the big-endian number of its FIRST six bytes -/
def macKey6 (mac : List B) : Nat := (mac.take 6).foldl (fun r b => r * 256 + b.toNat) 0

/-- Go `Uint64ToMAC` / `uint64ToMAC`: `for i := 5; i >= 0; i-- { mac[i] = byte(n & 0xFF); n >>= 8 }` -/
def u64ToMacAux : Nat → Nat → List B → List B
  | 0, _, acc => acc
  | i + 1, n, acc => u64ToMacAux i (n >>> 8) (UInt8.ofNat (n &&& 0xFF) :: acc)

def u64ToMac (n : Nat) : List B := u64ToMacAux 6 n []

/-- the eight key bytes of a `__u64` / `uint64` map key -/
def u64KeyBytes (k : Nat) : List B := leBytes 8 k

/-! ## VLAN pair  (vlan_subscriber_pools key) -/

/-- Go: `VLANKey{STag: sTag, CTag: cTag}` marshalled by encoding/binary, little-endian -/
def vlanKeyGo (s c : Nat) : List B := leBytes 2 s ++ leBytes 2 c

/-- C `parse_packet_headers`: `bpf_ntohs(vhdr->h_vlan_TCI) & 0x0FFF` for the two TCI bytes in the frame -/
def vidOfTci (t0 t1 : B) : Nat := bswap16 (loadLE [t0, t1]) &&& 0x0FFF

/-- C `dhcp_fastpath_prog`: `struct vlan_key vkey = { .s_tag = pkt.vlan_id, .c_tag = pkt.inner_vlan_id }`
    (packed, two `__u16`); `inner` is `none` for a single-tagged frame (`inner_vlan_id = 0`) -/
def vlanKeyC (outer : B × B) (inner : Option (B × B)) : List B :=
  leBytes 2 (vidOfTci outer.1 outer.2) ++
    leBytes 2 (match inner with | some t => vidOfTci t.1 t.2 | none => 0)

/-- the two TCI bytes a frame carries for priority `pcp`, drop-eligible bit `dei` and VLAN id `vid` -/
def tciBytes (pcp dei vid : Nat) : B × B :=
  let t := pcp * 2 ^ 13 + dei * 2 ^ 12 + vid
  (UInt8.ofNat (t / 256), UInt8.ofNat (t % 256))

/-! ## circuit-id  (circuit_id_subscribers key, circuit_id_map key) -/

/-- Go `MakeCircuitIDKey`: `var key [32]byte; copy(key[:], circuitID)` — zero-pad / truncate to 32 -/
def circuitKeyGo (cid : List B) : List B := (cid ++ List.replicate 32 0).take 32

/-- the unrolled copy of `extract_circuit_id_fixed`: `for i < 32: if (i < cid_len) key->data[i] = opts[start+i]`
    into a zeroed key -/
def copyCid (opts : List B) (start len : Nat) : List B :=
  (List.range 32).map fun i => if i < len then opts.getD (start + i) 0 else 0

/-- one candidate position `pos` of the second loop of `extract_circuit_id_fixed` (12 ≤ pos < 20) -/
def cidAt (opts : List B) (pos : Nat) : Option (List B) :=
  if opts.getD pos 0 == 82 ∧ pos + 8 ≤ opts.length then
    if (opts.getD (pos + 1) 0).toNat ≥ 4 ∧ opts.getD (pos + 2) 0 == 1 then
      let n := (opts.getD (pos + 3) 0).toNat
      if 0 < n ∧ n ≤ 32 ∧ pos + 4 + n ≤ opts.length then some (copyCid opts (pos + 4) n) else none
    else none
  else none

/-- C `extract_circuit_id_fixed` (bpf/dhcp_fastpath.c) over the option area `opts` = the bytes from
    `dhcp_base + 240` to `data_end`; `none` = the function returns 0 (no circuit-id lookup is made) -/
def circuitKeyC (opts : List B) : Option (List B) :=
  if opts.length < 64 then none else
  let first : Option (List B) :=
    if opts.getD 3 0 == 82 then
      let l := (opts.getD 4 0).toNat
      if l ≥ 4 ∧ 5 + l ≤ opts.length then
        if opts.getD 5 0 == 1 then
          let n := (opts.getD 6 0).toNat
          if 0 < n ∧ n ≤ 32 ∧ 7 + n ≤ opts.length then some (copyCid opts 7 n) else none
        else none
      else none
    else none
  match first with
  | some k => some k
  | none => (List.range 8).findSome? fun j => cidAt opts (12 + j)

/-- the option area of a request whose first option is the message type and whose second is
    Option 82 of length `l` starting with sub-option 1 = `cid` (the shape the first branch of the C parser
    recognises), followed by `rest` (further sub-options, further options, padding) -/
def opts82 (msgType : B) (l : Nat) (cid rest : List B) : List B :=
  [53, 1, msgType, 82, UInt8.ofNat l, 1, UInt8.ofNat cid.length] ++ (cid ++ rest)

/-- Go `HashCircuitID`: 64-bit FNV-1a (`hash ^= b; hash *= prime`, wrapping) -/
def fnv1aGo (bs : List B) : Nat :=
  bs.foldl (fun h b => ((h ^^^ b.toNat) * 0x100000001b3) % 2 ^ 64) 0xcbf29ce484222325

/-! ## ALG trigger  (alg_ports key) -/

/-- Go `ConfigureALG`: `(uint32(port) << 16) | uint32(protocol)` -/
def algKeyGo (port proto : Nat) : Nat := ((port <<< 16) % 2 ^ 32) ||| proto

/-- C `check_alg_trigger(bpf_ntohs(dst_port), proto)`: `((__u32)port << 16) | protocol` where the port is the
    host-order value of the two port bytes in the TCP/UDP header -/
def algKeyC (p0 p1 : B) (proto : Nat) : Nat :=
  ((bswap16 (loadLE [p0, p1]) <<< 16) % 2 ^ 32) ||| proto

/-! ## walled-garden allowed destination (Go only: no kernel program in bpf/ declares the map) -/

/-- Go `allowedDestKey`: `uint64(ip)<<32 | uint64(port)<<16 | uint64(proto)<<8` with `ip = BigEndian.Uint32` -/
def allowedDestKeyGo (a b c d : B) (port proto : Nat) : Nat :=
  ((beUint32 a b c d <<< 32) % 2 ^ 64) ||| (port <<< 16) ||| (proto <<< 8)

/-! ## IPv4 fields and keys -/

/-- bytes Go puts into a `uint32` field/key holding an IPv4 address a.b.c.d:
    `IPToUint32 / ipToKey / ipToUint32` = `binary.BigEndian.Uint32(ip)` (or the equivalent shifts in pkg/qos),
    marshalled little-endian -/
def ipFieldGo (a b c d : B) : List B := leBytes 4 (beUint32 a b c d)

/-- bytes the C programs expect: they copy the field to/from `__be32` header fields (`ip->saddr`, `yiaddr`,
    option payloads) and compare it with `ip->saddr` WITHOUT conversion, i.e. the bytes in memory are the
    bytes on the wire -/
def ipFieldC (a b c d : B) : List B := [a, b, c, d]

/-- a 16-bit port `p` as Go marshals it (host order) -/
def portFieldGo (p : Nat) : List B := leBytes 2 p

/-- a 16-bit port as the NAT program stores it in `nat_key.src_port/dst_port`, `eim_key.internal_port`:
    `tcp->source` / `udp->dest` copied raw (network order in memory) -/
def portFieldC (p : Nat) : List B := [UInt8.ofNat (p / 256), UInt8.ofNat (p % 256)]

/-- how a side holds an IPv4 address a.b.c.d in a 4-byte field -/
inductive Ord where
  /-- the bytes on the wire `a b c d` in memory (a raw `__be32`; Go: `copy(key.IP[:], ip4)`) -/
  | wire
  /-- the host-order integer `BigEndian.Uint32(ip)` / `bpf_ntohl(x)`, little-endian in memory: `d c b a` -/
  | host
deriving DecidableEq, Repr

structure IpField where
  map : String
  /-- "key" | "value" -/
  side : String
  /-- leaf name in the C record ("" for a scalar key) -/
  leaf : String
  /-- what the Go code writes / looks up -/
  go : Ord
  /-- what the C program expects: `wire` = it copies the field from/to / compares it with a raw `__be32`
      header field; `host` = it converts with `bpf_ntohl/bpf_htonl` at the use -/
  c : Ord
deriving DecidableEq, Repr

/-- EVERY IPv4-carrying leaf of a map shared by the two sides, with each side's convention in the current
    tree, derived by reading both sources.  The byte-level correspondence (`bngdrv-layout`) predicts the bytes
    of both sides from this table, so a stale cell is a DIFF on the first run after the code changed
    (that is how /repo 6defdda, 66ece4c and 61ee199 — C-side repairs of QoS and anti-spoofing, Go-side repair of
    the LPM key — showed up here). -/
def ipFields : List IpField := [
  ⟨"subscriber_pools", "value", "allocated_ip", .host, .wire⟩,
  ⟨"vlan_subscriber_pools", "value", "allocated_ip", .host, .wire⟩,
  ⟨"circuit_id_subscribers", "value", "allocated_ip", .host, .wire⟩,
  ⟨"ip_pools", "value", "gateway", .host, .wire⟩,
  ⟨"ip_pools", "value", "dns_primary", .host, .wire⟩,
  ⟨"ip_pools", "value", "dns_secondary", .host, .wire⟩,
  ⟨"server_config", "value", "server_ip", .host, .wire⟩,
  ⟨"subscriber_nat", "key", "", .host, .wire⟩,
  ⟨"subscriber_nat", "value", "block.public_ip", .host, .wire⟩,
  ⟨"hairpin_ips", "key", "", .host, .wire⟩,
  ⟨"qos_egress", "key", "", .host, .host⟩,
  ⟨"qos_ingress", "key", "", .host, .host⟩,
  ⟨"subscriber_bindings", "value", "ipv4_addr", .host, .host⟩,
  ⟨"allowed_ranges_v4", "key", "ip", .wire, .wire⟩,
  ⟨"eim_table", "key", "internal_ip", .host, .wire⟩,
  ⟨"nat_sessions", "key", "src_ip", .host, .wire⟩,
  ⟨"nat_sessions", "key", "dst_ip", .host, .wire⟩,
  -- values the PROGRAM writes and Go reads back (LookupSession / GetEIMMapping): `c` = the order of the bytes
  -- the program stores.  nat_ip / external_ip are raw copies of subscriber_nat.block.public_ip, i.e. of the
  -- host-order integer Go wrote there; orig_ip / dest_ip are raw copies of ip->saddr / ip->daddr.
  ⟨"nat_sessions", "value", "nat_ip", .host, .host⟩,
  ⟨"nat_sessions", "value", "orig_ip", .host, .wire⟩,
  ⟨"nat_sessions", "value", "dest_ip", .host, .wire⟩,
  ⟨"eim_table", "value", "external_ip", .host, .host⟩,
  -- the VALUE of nat_reverse is the nat_sessions key of the flow (`bpf_map_update_elem(&nat_reverse, &rev_key, &key, …)`):
  -- src_ip is the raw ip->saddr.  `purgeSubscriberState` (/repo ac77db8) decodes it as a uint32 and compares it with
  -- `ipToKey(privateIP)` — as it does with nat_sessions key.src_ip and eim_table key.internal_ip above.
  ⟨"nat_reverse", "value", "src_ip", .host, .wire⟩]

/-- finding D10 = the leaves on which the two conventions differ.  The byte-level check attributes a
    `byteorder` verdict to D10 only for these tuples (and only when the bytes are exactly reversed). -/
def d10Fields : List (String × String × String) :=
  (ipFields.filter fun f => f.go != f.c).map fun f => (f.map, f.side, f.leaf)

def ordOf (a b c d : B) : Ord → List B
  | .wire => ipFieldC a b c d
  | .host => ipFieldGo a b c d

def ipField? (m side leaf : String) : Option IpField :=
  ipFields.find? fun f => f.map == m && f.side == side && f.leaf == leaf

/-- bytes the Go code writes for a.b.c.d into `(m, side, leaf)` -/
def ipGo (m side leaf : String) (a b c d : B) : List B :=
  ordOf a b c d (match ipField? m side leaf with | some f => f.go | none => .host)

/-- bytes the C program that owns `(m, side, leaf)` presents to the map / expects to find there -/
def ipC (m side leaf : String) (a b c d : B) : List B :=
  ordOf a b c d (match ipField? m side leaf with | some f => f.c | none => .wire)

/-- what a C program puts on the wire when it emits the 4 stored bytes `v` of a value leaf: the bytes
    themselves (`wire`: raw copy) or their reversal (`host`: `bpf_htonl`) -/
def wireC (m side leaf : String) (v : List B) : List B :=
  match ipField? m side leaf with
  | some ⟨_, _, _, _, .host⟩ => v.reverse
  | _ => v

structure PortField where
  map : String
  side : String
  leaf : String
  /-- how Go marshals / interprets the 16 bits: always the logical number (host order) today -/
  go : Ord
  /-- what the program stores: `wire` = the header bytes (`tcp->source`, `bpf_htons(port)`), `host` = the number -/
  c : Ord
deriving DecidableEq, Repr

/-- EVERY transport-port leaf of a map shared by the two sides (keys Go looks up with, values Go reads back) -/
def portFields : List PortField := [
  ⟨"eim_table", "key", "internal_port", .host, .wire⟩,
  ⟨"nat_sessions", "key", "src_port", .host, .wire⟩,
  ⟨"nat_sessions", "key", "dst_port", .host, .wire⟩,
  ⟨"nat_sessions", "value", "nat_port", .host, .wire⟩,    -- `.nat_port = bpf_htons(alloc_port)`
  ⟨"nat_sessions", "value", "orig_port", .host, .wire⟩,   -- `.orig_port = src_port` (raw tcp->source)
  ⟨"nat_sessions", "value", "dest_port", .host, .wire⟩,   -- `.dest_port = dst_port`
  ⟨"eim_table", "value", "external_port", .host, .host⟩,  -- `.external_port = ext_port` (allocator's number)
  ⟨"subscriber_nat", "value", "block.port_start", .host, .host⟩,
  ⟨"subscriber_nat", "value", "block.port_end", .host, .host⟩,
  ⟨"alg_ports", "value", "port", .host, .host⟩,
  ⟨"nat_config_map", "value", "port_range_start", .host, .host⟩,
  ⟨"nat_config_map", "value", "port_range_end", .host, .host⟩]

/-- every OTHER 4-byte / 2-byte integer data leaf of the shared records: plain host-order integers on both sides
    (ids, indices, counters, flags, lengths, the 12-bit VLAN ids).  `ip_pools.value.network` IS an address, written
    by Go in host order, but no program reads it.  Spec.C06.convention_tables_cover_all_u32_u16_leaves proves that
    `ipFields ∪ portFields ∪ plainLeaves ∪ carriedLeaves` is every such leaf, so a new one cannot go unclassified. -/
def plainLeaves : List (String × String × String) := [
  ("antispoof_config", "key", ""), ("antispoof_stats", "key", ""), ("stats_map", "key", ""), ("ip_pools", "key", ""),
  ("server_config", "key", ""), ("alg_ports", "key", ""), ("nat_config_map", "key", ""), ("nat_stats_map", "key", ""),
  ("qos_stats_map", "key", ""),
  ("allowed_ranges_v4", "key", "prefixlen"),
  ("vlan_subscriber_pools", "key", "s_tag"), ("vlan_subscriber_pools", "key", "c_tag"),
  ("subscriber_pools", "value", "pool_id"), ("subscriber_pools", "value", "vlan_id"),
  ("vlan_subscriber_pools", "value", "pool_id"), ("vlan_subscriber_pools", "value", "vlan_id"),
  ("circuit_id_subscribers", "value", "pool_id"), ("circuit_id_subscribers", "value", "vlan_id"),
  ("ip_pools", "value", "network"), ("ip_pools", "value", "lease_time"),
  ("server_config", "value", "interface_index"),
  ("subscriber_nat", "value", "block.next_port"), ("subscriber_nat", "value", "block.ports_in_use"),
  ("subscriber_nat", "value", "block.subscriber_id"),
  ("alg_ports", "value", "flags"), ("nat_config_map", "value", "flags"),
  ("nat_config_map", "value", "default_ports_per_sub"),
  ("eim_table", "value", "ref_count"), ("eim_table", "value", "flags"),
  ("qos_egress", "value", "burst_bytes"), ("qos_ingress", "value", "burst_bytes")]

/-- a 4-byte address or 2-byte port leaf of an entry that the Go code only CARRIES: it receives the entry from
    `MapIterator.Next` and hands the key back to `Delete` byte for byte (`purgeSubscriberState`), never converting the
    leaf from or to an address / a port number.  There is no Go-side convention to agree with; `c` records what the
    program stores (confirmed per run against the natively compiled nat44_egress by op `x purge`). -/
structure Carried where
  map : String
  side : String
  leaf : String
  /-- what the program stores: `wire` = raw header bytes, `host` = a raw copy of the host-order integer Go wrote elsewhere -/
  c : Ord
  /-- a 2-byte transport port (otherwise a 4-byte IPv4 address) -/
  port : Bool
deriving DecidableEq, Repr

/-- nat_reverse: key `rev_key = {src_ip = ip->daddr, dst_ip = nat_ip, src_port = dst_port, dst_port = nat_port}`,
    value = the nat_sessions key `{ip->saddr, ip->daddr, src_port, dst_port}` (value.src_ip is COMPARED by the purge and
    therefore lives in `ipFields`).  `nat_ip` is a raw copy of `block.public_ip` / `eim->external_ip`, i.e. of the
    host-order integer Go wrote; `nat_port = bpf_htons(port)`; the other ports are raw header fields.
    Spec.C06.carried_leaves_only_iterated proves from the generated table that Go performs nothing but `Next` and
    `Delete` on these maps, so a future Lookup/Put with a constructed key forces a real classification. -/
def carriedLeaves : List Carried := [
  ⟨"nat_reverse", "key", "src_ip", .wire, false⟩,
  ⟨"nat_reverse", "key", "dst_ip", .host, false⟩,
  ⟨"nat_reverse", "key", "src_port", .wire, true⟩,
  ⟨"nat_reverse", "key", "dst_port", .wire, true⟩,
  ⟨"nat_reverse", "value", "dst_ip", .wire, false⟩,
  ⟨"nat_reverse", "value", "src_port", .wire, true⟩,
  ⟨"nat_reverse", "value", "dst_port", .wire, true⟩]

def carried? (m side leaf : String) : Option Carried :=
  carriedLeaves.find? fun f => f.map == m && f.side == side && f.leaf == leaf

/-- the 4 bytes the program stores in the carried address leaf `(m, side, leaf)` for a.b.c.d -/
def carriedIpC (m side leaf : String) (a b c d : B) : List B :=
  ordOf a b c d (match carried? m side leaf with | some f => f.c | none => .wire)

/-- the 2 bytes the program stores in the carried port leaf `(m, side, leaf)` for port `p` -/
def carriedPortC (m side leaf : String) (p : Nat) : List B :=
  match carried? m side leaf with
  | some ⟨_, _, _, .host, _⟩ => portFieldGo p
  | _ => portFieldC p

/-! ## DeallocateNAT → purgeSubscriberState (/repo ac77db8) -/

/-- the leaves `purgeSubscriberState` compares with the subscriber's key: `k.SrcIP == privKey` on nat_sessions,
    `v.SrcIP == privKey` on nat_reverse, `k.InternalIP == privKey` on eim_table -/
def purgeLeaves : List (String × String × String) :=
  [("nat_sessions", "key", "src_ip"), ("nat_reverse", "value", "src_ip"), ("eim_table", "key", "internal_ip")]

/-- Go: the four `stored` bytes of such a leaf decoded as a (little-endian) `uint32`, compared with
    `privKey = ipToKey(a.b.c.d) = binary.BigEndian.Uint32(ip)` -/
def purgeSelects (a b c d : B) (stored : List B) : Bool := loadLE stored == beUint32 a b c d

/-- C `is_private_ip(ip->saddr)` (bpf/nat44.c) on the wire bytes of the source address: only these are translated -/
def isPrivateWire (a b : B) : Bool :=
  a == 10 || (a == 172 && decide (16 ≤ b.toNat ∧ b.toNat ≤ 31)) || (a == 192 && b == 168) ||
    (a == 100 && decide (64 ≤ b.toNat ∧ b.toNat ≤ 127))

/-- finding KF-C06-port-order = the port leaves on which the two conventions differ -/
def portOrderFields : List (String × String × String) :=
  (portFields.filter fun f => f.go != f.c).map fun f => (f.map, f.side, f.leaf)

/-- the two bytes the program that owns `(m, side, leaf)` stores for port `p` -/
def portC (m side leaf : String) (p : Nat) : List B :=
  match portFields.find? fun f => f.map == m && f.side == side && f.leaf == leaf with
  | some ⟨_, _, _, _, .host⟩ => portFieldGo p
  | _ => portFieldC p

end Bng.KeyEnc
