import Bng.Map
import Bng.Model.KeySpec
/-
  Model of pkg/pppoe/session.go (SessionManager) as of /repo commits 8154de2 (CreateSession refuses when 65535
  sessions exist), 64c9c22 (the id counter is normalised 0 → 1 before the search, so id 0 is never handed out) and
  547a196 (RemoveSession / CleanupExpired delete macToSession[mac] only while it still points at the removed id).

  `sessions : id ↦ MAC`, `mac2s : MAC ↦ id`, `next` is the uint16 counter (kept < 65536).  `idle` is the set of
  session ids whose LastActivity the harness zeroed; CleanupExpired(1h) removes exactly those (its result does not
  depend on Go's map iteration order: every deletion decision reads only the entry of its own MAC).
  The id search is fuel-bounded (65536 candidates cover the whole cycle 1…65535); running out of fuel is the
  observation `hang` — unreachable behind the 65535 guard, which is property C09's concern, not C20's.
  MACs are `Nat` (harness: m1, m2, …).  Core Lean only.
-/
namespace Bng.PppoeSessions
open Bng

structure State where
  sessions : AMap Nat Nat := []
  mac2s    : AMap Nat Nat := []
  next     : Nat := 1
  idle     : List Nat := []
  deriving Repr

def init : State := {}

/-- `m.nextID++` followed by "skip 0" inside the search loop -/
def bump (id : Nat) : Nat := if (id + 1) % 65536 = 0 then 1 else (id + 1) % 65536

/-- the `for { … }` search: first id from `id` on (cyclically over 1…65535) that is not in use -/
def search (sess : AMap Nat Nat) : Nat → Nat → Option Nat
  | 0, _ => none
  | f + 1, id => if (AMap.lookup sess id).isNone then some id else search sess f (bump id)

inductive Obs where
  | ok
  | okId (id : Nat)
  | error
  | hang
  | none
  | mac (m : Nat)
  | id (id : Nat)
  | num (n : Nat)
  | dump (l : List (Nat × Nat))
  deriving Repr, DecidableEq

def create (st : State) (mac : Nat) : State × Obs :=
  if st.sessions.length ≥ 65535 then (st, .error)
  else
    let n0 := if st.next = 0 then 1 else st.next
    match search st.sessions 65536 n0 with
    | none => (st, .hang)
    | some id =>
      ({ st with sessions := AMap.insert st.sessions id mac, mac2s := AMap.insert st.mac2s mac id,
                 next := (id + 1) % 65536, idle := st.idle.filter (· ≠ id) }, .okId id)

/-- the body shared by RemoveSession and CleanupExpired for one session -/
def drop (st : State) (id : Nat) : State :=
  match AMap.lookup st.sessions id with
  | none => st
  | some mac =>
    { st with mac2s := if AMap.lookup st.mac2s mac = some id then AMap.erase st.mac2s mac else st.mac2s,
              sessions := AMap.erase st.sessions id, idle := st.idle.filter (· ≠ id) }

def remove (st : State) (id : Nat) : State × Obs := (drop st id, .ok)

def get (st : State) (id : Nat) : Obs :=
  match AMap.lookup st.sessions id with
  | some m => .mac m
  | none => .none

def byMac (st : State) (mac : Nat) : Obs :=
  match AMap.lookup st.mac2s mac with
  | some id => match AMap.lookup st.sessions id with
    | some _ => .id id
    | none => .none
  | none => .none

def markIdle (st : State) (id : Nat) : State × Obs :=
  match AMap.lookup st.sessions id with
  | some _ => ({ st with idle := if id ∈ st.idle then st.idle else id :: st.idle }, .ok)
  | none => (st, .none)

def cleanup (st : State) : State × Obs :=
  let victims := st.idle.filter fun id => (AMap.lookup st.sessions id).isSome
  (victims.foldl drop st, .num victims.length)

def insertSorted (p : Nat × Nat) : List (Nat × Nat) → List (Nat × Nat)
  | [] => [p]
  | q :: rest => if p.1 ≤ q.1 then p :: q :: rest else q :: insertSorted p rest

def sorted (m : AMap Nat Nat) : List (Nat × Nat) := m.foldl (fun acc p => insertSorted p acc) []

inductive Op where
  | create (mac : Nat)
  | remove (id : Nat)
  | get (id : Nat)
  | byMac (mac : Nat)
  | markIdle (id : Nat)
  | cleanup
  | count
  | next
  | setNext (n : Nat)
  | dump
  deriving Repr, DecidableEq

def step (st : State) : Op → State × Obs
  | .create m => create st m
  | .remove id => remove st id
  | .get id => (st, get st id)
  | .byMac m => (st, byMac st m)
  | .markIdle id => markIdle st id
  | .cleanup => cleanup st
  | .count => (st, .num st.sessions.length)
  | .next => (st, .num st.next)
  | .setNext n => ({ st with next := n % 65536 }, .ok)
  | .dump => (st, .dump (sorted st.sessions))

def run (st : State) (ops : List Op) : State := ops.foldl (fun s op => (step s op).1) st

/-! ## Monitor (observations only)

  A "subscriber" is one session instance, named by the ordinal of the successful create that made it; its keys are
  the session id (KeySpec table `ordinal ↦ id`) and the client MAC. -/

structure Mon where
  keys    : KeySpec.Mon := {}
  macOf   : AMap Nat Nat := []     -- ordinal ↦ MAC
  lastFor : AMap Nat Nat := []     -- MAC ↦ ordinal of the most recent create for that MAC
  creates : Nat := 0
  deriving Repr

inductive Ev where
  | created (mac id : Nat)
  | removed (id : Nat)
  | got (id : Nat) (r : Option Nat)        -- GetSession(id) → MAC of the session returned
  | byMac (mac : Nat) (r : Option Nat)     -- GetSessionByMAC(mac) → id of the session returned
  | cleaned (ids : List Nat)               -- sessions expected to expire now
  | dump (l : List (Nat × Nat))            -- (id, MAC) sorted by id
  | nop
  deriving Repr

/-- live session instances whose MAC is `mac` -/
def liveWithMac (m : Mon) (mac : Nat) : List Nat :=
  (m.keys.held.filter fun p => AMap.lookup m.macOf p.1 = some mac).map (·.1)

/-- the exclusion clause of finding KF-pppsess-mac-orphan, evaluated on the monitor's own bookkeeping: some session of
    `mac` is live, but the most recently created session of `mac` is not (its removal dropped the MAC index entry and
    nothing re-points it at the older session) -/
def macOrphaned (m : Mon) (mac : Nat) : Bool :=
  !(liveWithMac m mac).isEmpty &&
  (match AMap.lookup m.lastFor mac with
   | some h => !(liveWithMac m mac).contains h
   | none => false)

def check (m : Mon) : Ev → Mon × List KeySpec.Verdict
  | .created mac id =>
    let h := m.creates + 1
    let (k, vs) := KeySpec.check m.keys (.created h id (decide (1 ≤ id ∧ id ≤ 65535)))
    ({ keys := k, macOf := AMap.insert m.macOf h mac, lastFor := AMap.insert m.lastFor mac h, creates := h }, vs)
  | .removed id =>
    let (k, vs) := KeySpec.check m.keys (.releasedKey id)
    ({ m with keys := k }, vs)
  | .got id r =>
    let want := (KeySpec.holderOf m.keys.held id).bind fun h => AMap.lookup m.macOf h
    (m, if want = r then [] else
          [(KeySpec.frameName m.keys, s!"lookup of session id {id} disagrees with the sessions created and removed")])
  | .byMac mac r =>
    (m, match r with
      | some id =>
        (match KeySpec.holderOf m.keys.held id with
          | some h => if AMap.lookup m.macOf h = some mac then [] else
              [("fwd-rev", s!"lookup by MAC {mac} returned session {id}, which belongs to another MAC")]
          | none => [("fwd-rev", s!"lookup by MAC {mac} returned session {id}, which is not live")])
      | none =>
        if (liveWithMac m mac).isEmpty then [] else
          [(KeySpec.frameName m.keys, s!"lookup by MAC {mac} found nothing although a session of that MAC is live")])
  | .cleaned ids =>
    let k := ids.foldl (fun k id => (KeySpec.check k (.releasedKey id)).1) m.keys
    ({ m with keys := k }, [])
  | .dump l =>
    let want := sorted ((m.keys.held.filterMap fun p => (AMap.lookup m.macOf p.1).map fun mac => (p.2, mac)))
    (m, if l = want then [] else
          [(KeySpec.frameName m.keys, "session listing disagrees with the sessions created and removed")])
  | .nop => (m, [])

end Bng.PppoeSessions
