import Bng.Model.Coa
/-
  C15 — pkg/radius/coa_handler.go: what `CoAProcessor.HandleCoA` / `HandleDisconnect` do with a request the
  listener (`Bng.Coa`, pkg/radius/coa.go) accepted: `findSession`, `findSessionFromDisconnect`, `buildPolicyUpdate`,
  `applyPolicyUpdate`, `terminateSession`, and the replies incl. the Reply-Message texts that reach the wire.

  The processor's callbacks (three lookups, terminator, policy updater, eBPF QoS updater) are the ENVIRONMENT: here
  they are a session table (`State.tbl`, insertion order) with three fault flags, exactly as the harness
  (`harness/cmd/coaproc`) implements them; a callback that is not configured (`Cfg`) is `nil` in the code.
  The accounting manager is not set (`acctMgr == nil`), the audit logger is not set.

  `step` = `Coa.receive` ∘ `Coa.parseFields` ∘ `process` ∘ `Coa.respond`: one datagram at the real listener whose
  handlers are the processor's.  Core Lean only.
-/
namespace Bng.CoaProc
open Bng.Go Bng.Coa

/-- one live session as the callbacks see it -/
structure Sess where
  sid : Bytes
  ip : Bytes
  mac : Bytes
  /-- policy rates the session manager holds (`SessionInfo.DownloadRateBPS/UploadRateBPS`), bit/s -/
  down : Nat
  up : Nat
  /-- what the policy updater recorded -/
  filter : Bytes := []
  sessT : Nat := 0          -- nanoseconds (`time.Duration`)
  idleT : Nat := 0
  /-- the rates the eBPF QoS updater was given last (what the fast path enforces) -/
  eDown : Nat := 0
  eUp : Nat := 0
  deriving Repr, DecidableEq

/-- `PolicyUpdate` -/
structure Update where
  filter : Bytes
  down : Nat
  up : Nat
  sessT : Nat
  idleT : Nat
  deriving Repr, DecidableEq

/-- which callbacks of the processor are set (non-nil) -/
structure Cfg where
  hasID : Bool := true
  hasIP : Bool := true
  hasMAC : Bool := true
  hasTerm : Bool := true
  hasPol : Bool := true
  hasEbpf : Bool := true
  deriving Repr, DecidableEq

structure State where
  secret : Bytes := []
  cfg : Cfg := {}
  failTerm : Bool := false
  failPol : Bool := false
  failEbpf : Bool := false
  tbl : List Sess := []
  deriving Repr, DecidableEq

/-- `CoARequest` as far as the processor reads it -/
structure CoaReq where
  sessionID : Bytes := []
  /-- `nil` = `[]` (the listener's parser stores only 4-byte values) -/
  framedIP : Bytes := []
  calling : Bytes := []
  filterID : Bytes := []
  sessionTimeout : Nat := 0
  idleTimeout : Nat := 0
  /-- kbit/s; never set by the listener's parser ("Vendor-specific QoS attributes would be handled here") -/
  qosDown : Nat := 0
  qosUp : Nat := 0
  deriving Repr, DecidableEq

/-- `DisconnectRequest` -/
structure DmReq where
  sessionID : Bytes := []
  acctSessionID : Bytes := []
  framedIP : Bytes := []
  calling : Bytes := []
  deriving Repr, DecidableEq

/-- an identifying attribute handed to one of the lookup callbacks -/
inductive Key where
  | id (v : Bytes)
  | ip (v : Bytes)
  | mac (v : Bytes)
  deriving Repr, DecidableEq

/-- a callback invocation, with its arguments and its outcome -/
inductive Call where
  | look (k : Key) (hit : Bool)
  | term (sid : Bytes) (reason : Nat) (ok : Bool)
  | pol (sid : Bytes) (u : Update) (ok : Bool)
  | ebpf (sid : Bytes) (down up : Nat) (ok : Bool)
  deriving Repr, DecidableEq

/-- the session a session-CHANGING callback was invoked for -/
def Call.target : Call → Option Bytes
  | .look _ _ => none
  | .term sid _ _ => some sid
  | .pol sid _ _ => some sid
  | .ebpf sid _ _ _ => some sid

/-! ### the callbacks (harness side) -/

def Key.matches : Key → Sess → Bool
  | .id v, s => decide (s.sid = v)
  | .ip v, s => decide (s.ip = v)
  | .mac v, s => decide (s.mac = v)

/-- a lookup callback: the first session (insertion order) that matches -/
def lookup (tbl : List Sess) (k : Key) : Option Sess := tbl.find? k.matches

/-- the terminator: takes the session out of the table -/
def removeSid (tbl : List Sess) (sid : Bytes) : List Sess := tbl.filter fun s => decide (s.sid ≠ sid)

/-- what the policy updater records on a session: only the fields the update names (non-empty / non-zero) -/
def Sess.withUpdate (s : Sess) (u : Update) : Sess :=
  { s with
    filter := if u.filter ≠ [] then u.filter else s.filter
    down := if u.down > 0 then u.down else s.down
    up := if u.up > 0 then u.up else s.up
    sessT := if u.sessT > 0 then u.sessT else s.sessT
    idleT := if u.idleT > 0 then u.idleT else s.idleT }

def modifySid (tbl : List Sess) (sid : Bytes) (f : Sess → Sess) : List Sess :=
  tbl.map fun s => if s.sid = sid then f s else s

/-! ### `findSession` / `findSessionFromDisconnect` -/

/-- the lookups in the order the code tries them; a lookup is skipped when the attribute is empty / nil or the
    callback is not set -/
def coaKeys (c : Cfg) (r : CoaReq) : List Key :=
  (if r.sessionID ≠ [] ∧ c.hasID then [Key.id r.sessionID] else []) ++
  (if r.framedIP ≠ [] ∧ c.hasIP then [Key.ip r.framedIP] else []) ++
  (if r.calling ≠ [] ∧ c.hasMAC then [Key.mac r.calling] else [])

def dmKeys (c : Cfg) (r : DmReq) : List Key :=
  (if r.sessionID ≠ [] ∧ c.hasID then [Key.id r.sessionID] else []) ++
  (if r.acctSessionID ≠ [] ∧ r.acctSessionID ≠ r.sessionID ∧ c.hasID then [Key.id r.acctSessionID] else []) ++
  (if r.framedIP ≠ [] ∧ c.hasIP then [Key.ip r.framedIP] else []) ++
  (if r.calling ≠ [] ∧ c.hasMAC then [Key.mac r.calling] else [])

/-- try the lookups in order, stop at the first hit -/
def runKeys (tbl : List Sess) : List Key → Option Sess × List Call
  | [] => (none, [])
  | k :: ks =>
    match lookup tbl k with
    | some s => (some s, [Call.look k true])
    | none =>
      let r := runKeys tbl ks
      (r.1, Call.look k false :: r.2)

/-! ### texts -/

def ascii (s : String) : Bytes := s.toUTF8.toList

def hexDigit (n : Nat) : UInt8 := if n < 10 then UInt8.ofNat (48 + n) else UInt8.ofNat (87 + n)

def hexString : Bytes → Bytes
  | [] => []
  | b :: rest => hexDigit (b.toNat / 16) :: hexDigit (b.toNat % 16) :: hexString rest

def dotted : Bytes → Bytes
  | [] => []
  | [b] => ascii (toString b.toNat)
  | b :: rest => ascii (toString b.toNat) ++ [46] ++ dotted rest

/-- `%v` of a `net.IP` (`IP.String()`): `<nil>` for length 0, dotted decimal for length 4, `?hex` for the lengths
    that are neither 4 nor 16.  (16-byte values are never produced by the listener's parser; the harness's direct
    calls use nil or 4 bytes.) -/
def ipString (ip : Bytes) : Bytes :=
  if ip = [] then ascii "<nil>" else if ip.length = 4 then dotted ip else [63] ++ hexString ip

/-- `fmt.Errorf("session not found for session_id=%s, ip=%v, mac=%s", …)` -/
def coaNotFound (r : CoaReq) : Bytes :=
  ascii "session not found for session_id=" ++ r.sessionID ++ ascii ", ip=" ++ ipString r.framedIP ++
  ascii ", mac=" ++ r.calling

def dmNotFound (r : DmReq) : Bytes :=
  ascii "session not found for session_id=" ++ r.sessionID ++ ascii ", acct_session_id=" ++ r.acctSessionID ++
  ascii ", ip=" ++ ipString r.framedIP ++ ascii ", mac=" ++ r.calling

/-- `TerminateCauseNASRequest` -/
def nasRequest : Nat := 10

/-! ### `HandleDisconnect` -/

/-- `terminateSession` (accounting manager not set): `some table'` = no error -/
def terminateSession (st : State) (sid : Bytes) : Option (List Sess) × List Call :=
  if st.cfg.hasTerm then
    if st.failTerm then (none, [Call.term sid nasRequest false])
    else (some (removeSid st.tbl sid), [Call.term sid nasRequest true])
  else (some st.tbl, [])

def processDm (st : State) (r : DmReq) : State × Reply × List Call :=
  let f := runKeys st.tbl (dmKeys st.cfg r)
  match f.1 with
  | none => (st, ⟨false, 503, dmNotFound r⟩, f.2)
  | some s =>
    let t := terminateSession st s.sid
    match t.1 with
    | none =>
      (st, ⟨false, 504, ascii "Failed to terminate session: terminate session: terminator failed"⟩, f.2 ++ t.2)
    | some tbl' => ({ st with tbl := tbl' }, ⟨true, 0, ascii "Session disconnected"⟩, f.2 ++ t.2)

/-! ### `HandleCoA` -/

/-- `buildPolicyUpdate`: `none` = "No policy changes specified".  (`update.X = req.X` also when the guard is false:
    the field then keeps its zero value, which is what `req.X` is.) -/
def buildPolicyUpdate (r : CoaReq) : Option Update :=
  if r.filterID ≠ [] ∨ r.qosDown > 0 ∨ r.qosUp > 0 ∨ r.sessionTimeout > 0 ∨ r.idleTimeout > 0 then
    some { filter := r.filterID, down := r.qosDown * 1000, up := r.qosUp * 1000,
           sessT := r.sessionTimeout * 1000000000, idleT := r.idleTimeout * 1000000000 }
  else none

/-- the rates `applyPolicyUpdate` hands to the eBPF updater: the update's, or the looked-up session's when zero -/
def ebpfRates (s : Sess) (u : Update) : Nat × Nat :=
  (if u.down = 0 then s.down else u.down, if u.up = 0 then s.up else u.up)

/-- `applyPolicyUpdate`: `none` = the policy updater's error.  An error of the eBPF updater is logged and
    swallowed ("Don't fail the CoA - the session policy was updated"). -/
def applyPolicyUpdate (st : State) (s : Sess) (u : Update) : Option (List Sess) × List Call :=
  if st.cfg.hasPol ∧ st.failPol then (none, [Call.pol s.sid u false])
  else
    let tbl1 := if st.cfg.hasPol then modifySid st.tbl s.sid (·.withUpdate u) else st.tbl
    let c1 := if st.cfg.hasPol then [Call.pol s.sid u true] else []
    if st.cfg.hasEbpf ∧ (u.down > 0 ∨ u.up > 0) then
      let d := ebpfRates s u
      if st.failEbpf then (some tbl1, c1 ++ [Call.ebpf s.sid d.1 d.2 false])
      else (some (modifySid tbl1 s.sid fun x => { x with eDown := d.1, eUp := d.2 }),
            c1 ++ [Call.ebpf s.sid d.1 d.2 true])
    else (some tbl1, c1)

def processCoa (st : State) (r : CoaReq) : State × Reply × List Call :=
  let f := runKeys st.tbl (coaKeys st.cfg r)
  match f.1 with
  | none => (st, ⟨false, 503, coaNotFound r⟩, f.2)
  | some s =>
    match buildPolicyUpdate r with
    | none => (st, ⟨false, 402, ascii "No policy changes specified"⟩, f.2)
    | some u =>
      let a := applyPolicyUpdate st s u
      match a.1 with
      | none =>
        (st, ⟨false, 506, ascii "Failed to apply policy: update session policy: policy updater failed"⟩, f.2 ++ a.2)
      | some tbl' => ({ st with tbl := tbl' }, ⟨true, 0, ascii "Policy updated successfully"⟩, f.2 ++ a.2)

/-! ### one datagram at the listener -/

/-- `parseCoARequest` as far as the processor reads it (QoS rates are never parsed) -/
def coaReqOf (f : Fields) : CoaReq :=
  { sessionID := f.sessionID, framedIP := f.framedIP, calling := f.calling, filterID := f.filterID,
    sessionTimeout := f.sessionTimeout, idleTimeout := f.idleTimeout }

/-- `parseDisconnectRequest`: Acct-Session-Id fills BOTH `SessionID` and `AcctSessionID` -/
def dmReqOf (f : Fields) : DmReq :=
  { sessionID := f.sessionID, acctSessionID := f.sessionID, framedIP := f.framedIP, calling := f.calling }

/-- the handler the listener dispatches to -/
def process (st : State) (k : Kind) (f : Fields) : State × Reply × List Call :=
  match k with
  | .coa => processCoa st (coaReqOf f)
  | .dm => processDm st (dmReqOf f)

/-- what one datagram does: `none` = dropped (no callback, nothing sent); `some (response, calls)` otherwise -/
def step (H : Bytes → Bytes) (st : State) (buf : Bytes) : G (State × Option (Bytes × List Call)) := do
  let (req?, _) ← receive H st.secret buf
  match req? with
  | none => pure (st, none)
  | some req =>
    let f ← parseFields req.kind req.attrs {}
    let r := process st req.kind f
    pure (r.1, some (respond H st.secret req r.2.1, r.2.2))

/-! ### histories -/

inductive Fault where
  | term | pol | ebpf
  deriving Repr, DecidableEq

inductive Op where
  /-- the harness adds a live session (refused when the session id is taken) -/
  | sess (s : Sess)
  | fail (f : Fault) (on : Bool)
  | dg (buf : Bytes)
  /-- the handlers called directly -/
  | hcoa (r : CoaReq)
  | hdm (r : DmReq)
  deriving Repr

def addSess (st : State) (s : Sess) : State :=
  if st.tbl.any (fun x => decide (x.sid = s.sid)) then st else { st with tbl := st.tbl ++ [s] }

def setFault (st : State) : Fault → Bool → State
  | .term, b => { st with failTerm := b }
  | .pol, b => { st with failPol := b }
  | .ebpf, b => { st with failEbpf := b }

/-- the state after one operation (a panic of the listener leaves the state as it was) -/
def stepOp (H : Bytes → Bytes) (st : State) : Op → State
  | .sess s => addSess st s
  | .fail f b => setFault st f b
  | .dg buf => match step H st buf with
    | .ok (st', _) => st'
    | .error _ => st
  | .hcoa r => (processCoa st r).1
  | .hdm r => (processDm st r).1

def run (H : Bytes → Bytes) (st : State) (ops : List Op) : State := ops.foldl (stepOp H) st

/-- a freshly configured processor: secret and callback configuration, empty table, no faults -/
def init (secret : Bytes) (cfg : Cfg) : State := { secret := secret, cfg := cfg }

/-! ### the specification side -/

/-- session `s` is THE session the request's identifying attributes `keys` (in the code's order of precedence)
    name in table `tbl`: some attribute names it (it is the first session, in table order, that carries the value)
    and no attribute of higher precedence names any session at all -/
def Identified (tbl : List Sess) (keys : List Key) (s : Sess) : Prop :=
  ∃ pre k post, keys = pre ++ k :: post ∧ lookup tbl k = some s ∧ ∀ k' ∈ pre, lookup tbl k' = none

/-- executable version of `Identified` for the monitors (proved equal to `runKeys` in `Proof/CoaProc.lean`) -/
def identify (tbl : List Sess) : List Key → Option Sess
  | [] => none
  | k :: ks => match lookup tbl k with
    | some s => some s
    | none => identify tbl ks

/-- session ids are unique in the table -/
def UniqueSids (tbl : List Sess) : Prop := (tbl.map Sess.sid).Nodup

end Bng.CoaProc
