import Bng.Model.PoolSpec
/-
  The abstract specification a LEASE pool is judged against (C01, C05): the pool monitor of
  Bng.PoolSpec (subscriber ↦ value, reconstructed from API answers only) extended with epochs.

  A lease granted or renewed at epoch e is valid through epoch e + grace and lapses when the epoch
  reaches e + grace + 1.  The monitor lapses leases itself at every `advance` and then judges the
  implementation's answers:
    * a lease the specification still holds but the pool has dropped    → `reclaimed`
      ("a lease renewed within its grace period is never reclaimed");
    * a lease that lapsed by the specification but is still answered    → `expiry`
      (an expiry without renewal must put the address back into circulation);
    * everything else goes to PoolSpec.check (unique, range, idempotent, agree, count, total,
      exhaustion, lost).
  After a verdict the monitor follows the implementation so that one defect is reported once.
  Core Lean only.
-/
namespace Bng.LeaseSpec
open Bng Bng.PoolSpec

structure Mon where
  mon     : PoolSpec.Mon := []
  renewed : AMap Nat Nat := []     -- subscriber ↦ epoch of the last grant/renewal
  ghost   : AMap Nat Nat := []     -- subscriber ↦ value of leases that lapsed by the specification
  epoch   : Nat := 0               -- epochs counted from construction
  grace   : Nat := 1
  deriving Repr

inductive Ev where
  | got (k a : Nat)                 -- allocate answered a
  | exhausted
  | renewed (k : Nat)               -- renew accepted
  | renewRefused (k : Nat)          -- renew answered "not found"
  | released (k : Nat)
  | advanced
  | looked (k : Nat) (r : Option Nat)
  | owner (a : Nat) (r : Option Nat)
  | stats (alloc total : Nat)
  | util (kind : String)
  | nop
  deriving Repr

/-- leases whose grace period is over at the monitor's epoch -/
def lapse (m : Mon) : Mon :=
  let dead := m.mon.filter fun p => decide ((AMap.lookup m.renewed p.1).getD 0 + m.grace < m.epoch)
  { m with mon := m.mon.filter (fun p => !decide ((AMap.lookup m.renewed p.1).getD 0 + m.grace < m.epoch)),
           ghost := dead.foldl (fun (g : AMap Nat Nat) p => AMap.insert g p.1 p.2) m.ghost }

def check (g : Geo) (m : Mon) : Ev → Mon × List Verdict
  | .got k a =>
    let (mon', vs) := PoolSpec.check g m.mon (.got k a)
    ({ m with mon := mon', renewed := AMap.insert m.renewed k m.epoch, ghost := AMap.erase m.ghost k }, vs)
  | .exhausted => (m, (PoolSpec.check g m.mon .exhausted).2)
  | .renewed k =>
    match AMap.lookup m.mon k with
    | some _ => ({ m with renewed := AMap.insert m.renewed k m.epoch }, [])
    | none =>
      match AMap.lookup m.ghost k with
      | some a =>
        ({ m with mon := AMap.insert m.mon k a, ghost := AMap.erase m.ghost k,
                  renewed := AMap.insert m.renewed k m.epoch },
         [("expiry", s!"s{k}'s lease on {a} lapsed (grace {m.grace}) and was still renewable")])
      | none => (m, [("agree", s!"renew accepted for s{k}, which holds nothing")])
  | .renewRefused k =>
    match AMap.lookup m.mon k with
    | some a =>
      ({ m with mon := AMap.erase m.mon k },
       [("reclaimed", s!"s{k}'s lease on {a} was within its grace period and is gone")])
    | none => (m, [])
  | .released k =>
    ({ m with mon := AMap.erase m.mon k, ghost := AMap.erase m.ghost k, renewed := AMap.erase m.renewed k }, [])
  | .advanced => (lapse { m with epoch := m.epoch + 1 }, [])
  | .looked k r =>
    match AMap.lookup m.mon k, r with
    | some a, none =>
      ({ m with mon := AMap.erase m.mon k },
       [("reclaimed", s!"s{k}'s lease on {a} was within its grace period and is gone")])
    | none, some a =>
      if AMap.lookup m.ghost k = some a then
        ({ m with mon := AMap.insert m.mon k a, ghost := AMap.erase m.ghost k,
                  renewed := AMap.insert m.renewed k m.epoch },
         [("expiry", s!"s{k}'s lease on {a} lapsed (grace {m.grace}) and is still held")])
      else (m, (PoolSpec.check g m.mon (.looked k r)).2)
    | _, _ => (m, (PoolSpec.check g m.mon (.looked k r)).2)
  | .owner a r =>
    match holderOf m.mon a, r with
    | some k, none =>
      ({ m with mon := AMap.erase m.mon k },
       [("reclaimed", s!"s{k}'s lease on {a} was within its grace period and is gone")])
    | none, some k =>
      if AMap.lookup m.ghost k = some a then
        ({ m with mon := AMap.insert m.mon k a, ghost := AMap.erase m.ghost k,
                  renewed := AMap.insert m.renewed k m.epoch },
         [("expiry", s!"s{k}'s lease on {a} lapsed (grace {m.grace}) and is still held")])
      else (m, (PoolSpec.check g m.mon (.owner a r)).2)
    | _, _ => (m, (PoolSpec.check g m.mon (.owner a r)).2)
  | .stats al tot => (m, (PoolSpec.check g m.mon (.stats al tot)).2)
  | .util kind =>
    (m, if kind == "zero" || kind == "ratio" then []
        else [("utilisation", s!"the reported utilisation is '{kind}', not allocated/total")])
  | .nop => (m, [])

end Bng.LeaseSpec
