import Bng.Map
/-
  The specification the distributed allocator is judged against (C12), evaluated on API answers only.

  * `audit` rows  (subscriber, store record, Get answer):  memory and store must agree for every
    subscriber (`store-agree`); right after a restart every stored record must be answered by Get with the
    stored prefix (`restart`); Get answers of different subscribers are always different (`unique`).
    The audit also carries the REVERSE direction, one row per unit of the pool (unit, GetByPrefix answer):
    the two directions must describe the same table (`reverse`) — never excused.
    When the STORE itself is inconsistent for a subscriber — two records announce the same prefix, or the
    record is a remote announcement that could not be honoured (a prefix outside the pool or one held by
    somebody else) — the verdict is still emitted but flagged `collision` (finding KF-dist-remote-collision:
    handleRemoteChange/loadAllocations drop SetAllocation's refusal).  The flag lasts until an audit finds
    the subscriber in agreement with a collision-free record.
    An acknowledged local write must be in the store: a record older than the last write that answered ok,
    or a missing record under a live lease, is a `store-agree` verdict of its own.
  * a Start whose load Query fails must refuse to start (`restart`): a node must not come up empty over a
    store that holds records.
  * a remote put that can be applied (in range, prefix free or already the subscriber's, not stale)
    must make Get answer exactly the announced prefix (`remote`).
  * serialise/restore: the original and the restored allocator must answer every later operation
    identically (`roundtrip`).
  Core Lean only.
-/
namespace Bng.DistSpec
open Bng

/-- (clause name, detail, excused by a collision in the store) -/
abbrev Verdict := String × String × Bool

def hexDigits (n : Nat) : Nat → List Char → List Char
  | 0, acc => acc
  | f + 1, acc =>
    let d := n % 16
    let ch := if d < 10 then Char.ofNat (48 + d) else Char.ofNat (87 + d)
    if n < 16 then ch :: acc else hexDigits (n / 16) f (ch :: acc)

/-- lower-case hex, as in the line protocol -/
def hex (n : Nat) : String := String.ofList (hexDigits n 40 [])

structure Mon where
  afterRestart : Bool := false
  /-- subscribers involved in a collision in the store (an announcement that could not be honoured) -/
  conflicted   : List Nat := []
  /-- prefixes some unapplicable announcement put into the store next to their holder -/
  badPfx       : List (Nat × Nat) := []
  /-- subscriber ↦ epoch of the last ACKNOWLEDGED local write of its record (lease mode) -/
  acked        : AMap Nat Nat := []
  deriving Repr

/-- (subscriber, stored (addr, plen, epoch), Get answer (addr, plen)) -/
abbrev Row := Nat × Option (Nat × Nat × Nat) × Option (Nat × Nat)

/-- (unit address, prefix length, GetByPrefix answer) -/
abbrev RevRow := Nat × Nat × Option Nat

inductive Ev where
  | audit (rows : List Row) (rev : List RevRow)
  | restarted
  /-- a restart whose load Query was made to fail, over a store that holds records: did Start claim success? -/
  | startOutcome (queryFailed storeHasRecords implOk : Bool)
  /-- the subscriber's record was (re)written or deleted by a local operation that answered ok;
      `epoch` = the epoch an acknowledged write must carry (none: deleted / not epoch-stamped) -/
  | mutated (k : Nat) (epoch : Option Nat)
  /-- an operation that changed nothing for the subscriber's record (refused, failed or read-only) -/
  | attempt
  /-- remote put of (addr, plen) for k: Get answer afterwards, whether the announcement was applicable -/
  | remotePut (k addr plen : Nat) (getAfter : Option (Nat × Nat)) (applicable : Bool) (rival : Option Nat)
  | remoteDel (k : Nat)
  | forked (a b : String)
  | util (kind : String)
  | nop
  deriving Repr

def dupStore (rows : List Row) (a : Nat × Nat) : Bool :=
  decide ((rows.filter fun r => match r.2.1 with
    | some (x, l, _) => x = a.1 ∧ l = a.2
    | none => false).length ≥ 2)

def dupGet (rows : List Row) : List Verdict :=
  let gets := rows.filterMap fun r => r.2.2.map fun g => (r.1, g)
  gets.filterMap fun (k, g) =>
    match gets.find? (fun (k', g') => k' ≠ k ∧ g' = g) with
    | some (k', _) =>
      if k < k' then some ("unique", s!"s{k} and s{k'} are both answered {hex g.1}/{g.2}", false) else none
    | none => none

def rowAgrees : Row → Bool
  | (_, none, none) => true
  | (_, some (a, l, _), some (a', l')) => a = a' ∧ l = l'
  | _ => false

/-- forward (Get) and reverse (GetByPrefix) answers must be each other's inverse -/
def reverseCheck (rows : List Row) (rev : List RevRow) : List Verdict :=
  rev.filterMap fun (a, l, o) =>
    let holders := rows.filter fun r => r.2.2 == some (a, l)
    match o with
    | some k =>
      if holders.any (fun r => r.1 == k) then none
      else some ("reverse", s!"the reverse lookup of {hex a}/{l} answers s{k}, but Get of s{k} does not answer {hex a}/{l}", false)
    | none =>
      match holders with
      | r :: _ => some ("reverse", s!"Get of s{r.1} answers {hex a}/{l}, but the reverse lookup of {hex a}/{l} finds nobody", false)
      | [] => none

/-- an acknowledged write must be in the store: the record cannot be older than the last write that
    answered ok -/
def ackCheck (m : Mon) (rows : List Row) : List Verdict :=
  rows.filterMap fun r =>
    match r.2.1, AMap.lookup m.acked r.1 with
    | some (_, _, e), some w =>
      if e < w then
        some ("store-agree", s!"s{r.1}: the record carries epoch {e} although a write at epoch {w} was acknowledged", false)
      else none
    | none, some w =>
      if r.2.2.isSome then
        some ("store-agree", s!"s{r.1}: no record although a write at epoch {w} was acknowledged and the lease is live", false)
      else none
    | _, _ => none

def check (m : Mon) : Ev → Mon × List Verdict
  | .audit rows rev =>
    let name := if m.afterRestart then "restart" else "store-agree"
    let dup := fun (r : Row) => match r.2.1 with
      | some (x, l, _) => dupStore rows (x, l) || m.badPfx.contains (x, l)
      | none => false
    let collided := fun (r : Row) => m.conflicted.contains r.1 || dup r
    let bad := rows.filter fun r => !rowAgrees r
    -- a subscriber that lost its prefix to a colliding record in the store stays marked until an audit
    -- finds it in agreement with a collision-free record
    let marked := (rows.filter fun r => !rowAgrees r && collided r).map (·.1)
    let cleared := (rows.filter fun r => rowAgrees r && !dup r).map (·.1)
    let pfxLive := fun (p : Nat × Nat) => rows.any fun r => match r.2.1 with
      | some (x, l, _) => (x, l) == p && (!rowAgrees r || dupStore rows p)
      | none => false
    ({ m with conflicted := marked ++ m.conflicted.filter (fun k => !cleared.contains k),
              badPfx := m.badPfx.filter pfxLive },
     dupGet rows ++ reverseCheck rows rev ++ ackCheck m rows ++
       bad.map fun r => (name, s!"s{r.1}: the store and Get disagree", collided r))
  | .restarted => ({ m with afterRestart := true, acked := [] }, [])
  | .startOutcome qf has ok =>
    ({ m with afterRestart := true, acked := [] },
     if qf && has && ok then
       [("restart", "Start reported success although the Query of its load step failed: the node serves with an empty pool over a store that holds records", false)]
     else [])
  | .mutated k e =>
    ({ m with afterRestart := false,
              acked := match e with
                | some e => AMap.insert m.acked k e
                | none => AMap.erase m.acked k }, [])
  | .attempt => ({ m with afterRestart := false }, [])
  | .remotePut k addr plen g applicable rival =>
    let m' : Mon := { m with afterRestart := false, acked := AMap.erase m.acked k }
    if applicable then
      if g = some (addr, plen) then (m', [])
      else (m', [("remote", s!"s{k} was announced with {hex addr}/{plen} and is not answered with it", false)])
    else
      -- an announcement that cannot be honoured makes the STORE inconsistent for k and for the present
      -- holder of the prefix (either may lose it at the next reload)
      ({ m' with conflicted := k :: (match rival with
          | some k' => [k']
          | none => []) ++ m'.conflicted, badPfx := (addr, plen) :: m'.badPfx }, [])
  | .remoteDel k => ({ m with afterRestart := false, acked := AMap.erase m.acked k }, [])
  | .forked a b => (m, if a = b then [] else [("roundtrip", s!"original answers '{a}', restored copy '{b}'", false)])
  | .util kind =>
    (m, if kind == "zero" || kind == "ratio" then []
        else [("utilisation", s!"the reported utilisation is '{kind}', not allocated/total", false)])
  | .nop => (m, [])

end Bng.DistSpec
