import Bng.Map
/-
  The specification the distributed allocator is judged against (C12), evaluated on API answers only.

  * `audit` rows  (subscriber, store record, Get answer):  memory and store must agree for every
    subscriber (`store-agree`); right after a restart every stored record must be answered by Get with the
    stored prefix (`restart`); Get answers of different subscribers are always different (`unique`).
    The audit also carries the REVERSE direction, one row per unit of the pool (unit, GetByPrefix answer):
    the two directions must describe the same table (`reverse`) — never excused.
    Rows are not judged when the STORE itself is inconsistent for that subscriber: two records announce
    the same prefix, or the record is a remote announcement that could not be applied (it named a prefix
    outside the pool or one held by somebody else) — that is not this node's doing.  Such subscribers
    (and the holder the announcement collided with) stay excused for the rest of the sequence.
  * a remote put that can be applied (in range, prefix free or already the subscriber's, not stale)
    must make Get answer exactly the announced prefix (`remote`).
  * serialise/restore: the original and the restored allocator must answer every later operation
    identically (`roundtrip`).
  Core Lean only.
-/
namespace Bng.DistSpec
open Bng

abbrev Verdict := String × String

def hexDigits (n : Nat) : Nat → List Char → List Char
  | 0, acc => acc
  | f + 1, acc =>
    let d := n % 16
    let ch := if d < 10 then Char.ofNat (48 + d) else Char.ofNat (87 + d)
    if n < 16 then ch :: acc else hexDigits (n / 16) f (ch :: acc)

/-- lower-case hex, as in the line protocol -/
def hex (n : Nat) : String := String.ofList (hexDigits n 40 [])

structure Mon where
  afterRestart : Bool := false
  conflicted   : List Nat := []
  /-- prefixes some unapplicable announcement put into the store next to their holder -/
  badPfx       : List (Nat × Nat) := []
  deriving Repr

/-- (subscriber, stored (addr, plen, epoch), Get answer (addr, plen)) -/
abbrev Row := Nat × Option (Nat × Nat × Nat) × Option (Nat × Nat)

/-- (unit address, prefix length, GetByPrefix answer) -/
abbrev RevRow := Nat × Nat × Option Nat

inductive Ev where
  | audit (rows : List Row) (rev : List RevRow)
  | restarted
  | mutated (k : Nat)
  /-- an operation that changed nothing for the subscriber's record (refused, failed or read-only) -/
  | attempt
  /-- remote put of (addr, plen) for k: Get answer afterwards, whether the announcement was applicable -/
  | remotePut (k addr plen : Nat) (getAfter : Option (Nat × Nat)) (applicable : Bool) (rival : Option Nat)
  | forked (a b : String)
  | nop
  deriving Repr

def dupStore (rows : List Row) (a : Nat × Nat) : Bool :=
  decide ((rows.filter fun r => match r.2.1 with
    | some (x, l, _) => x = a.1 ∧ l = a.2
    | none => false).length ≥ 2)

def dupGet (rows : List Row) : List Verdict :=
  let gets := rows.filterMap fun r => r.2.2.map fun g => (r.1, g)
  gets.filterMap fun (k, g) =>
    match gets.find? (fun (k', g') => k' ≠ k ∧ g' = g) with
    | some (k', _) => if k < k' then some ("unique", s!"s{k} and s{k'} are both answered {hex g.1}/{g.2}") else none
    | none => none

def rowAgrees : Row → Bool
  | (_, none, none) => true
  | (_, some (a, l, _), some (a', l')) => a = a' ∧ l = l'
  | _ => false

/-- forward (Get) and reverse (GetByPrefix) answers must be each other's inverse -/
def reverseCheck (rows : List Row) (rev : List RevRow) : List Verdict :=
  rev.filterMap fun (a, l, o) =>
    let holders := rows.filter fun r => r.2.2 == some (a, l)
    match o with
    | some k =>
      if holders.any (fun r => r.1 == k) then none
      else some ("reverse", s!"the reverse lookup of {hex a}/{l} answers s{k}, but Get of s{k} does not answer {hex a}/{l}")
    | none =>
      match holders with
      | r :: _ => some ("reverse", s!"Get of s{r.1} answers {hex a}/{l}, but the reverse lookup of {hex a}/{l} finds nobody")
      | [] => none

def check (m : Mon) : Ev → Mon × List Verdict
  | .audit rows rev =>
    let name := if m.afterRestart then "restart" else "store-agree"
    let dup := fun (r : Row) => match r.2.1 with
      | some (x, l, _) => dupStore rows (x, l) || m.badPfx.contains (x, l)
      | none => false
    let bad := rows.filter fun r => !rowAgrees r && !m.conflicted.contains r.1 && !dup r
    -- a subscriber that lost its prefix to a conflicting record in the store stays excused
    let excused := (rows.filter fun r => !rowAgrees r && dup r).map (·.1)
    ({ m with conflicted := excused ++ m.conflicted },
     dupGet rows ++ reverseCheck rows rev ++ bad.map fun r => (name, s!"s{r.1}: the store and Get disagree"))
  | .restarted => ({ m with afterRestart := true }, [])
  | .mutated _ => ({ m with afterRestart := false }, [])
  | .attempt => ({ m with afterRestart := false }, [])
  | .remotePut k addr plen g applicable rival =>
    let m' : Mon := { m with afterRestart := false }
    if applicable then
      if g = some (addr, plen) then (m', [])
      else
        ({ m' with conflicted := k :: m'.conflicted },
         [("remote", s!"s{k} was announced with {hex addr}/{plen} and is not answered with it")])
    else
      -- an announcement that cannot be applied makes the STORE inconsistent for k and for the present
      -- holder of the prefix (either may lose it at the next reload): both are excused from here on
      ({ m' with conflicted := k :: (match rival with
          | some k' => [k']
          | none => []) ++ m'.conflicted, badPfx := (addr, plen) :: m'.badPfx }, [])
  | .forked a b => (m, if a = b then [] else [("roundtrip", s!"original answers '{a}', restored copy '{b}'")])
  | .nop => (m, [])

end Bng.DistSpec
