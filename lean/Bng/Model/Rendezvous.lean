/-
  Model of the rendezvous (highest-random-weight) ownership code of pkg/pool/peer.go:
  rendezvousHash, rendezvousRanked, getHealthyOwner, NewPeerPool's peer-list construction,
  AddPeer, RemovePeer, GetOwner, IsLocalOwner, and which node's pool serves Allocate.

  Node ids are an arbitrary type `α` with decidable equality; `le` is the order `sort.Strings`
  uses (byte-wise lexicographic on Go strings); `score k n` is `hashCombine(hashString(k), n)` —
  a PARAMETER here and in every theorem, FNV-1a + the 64-bit mixer only in the driver
  (`Bng/Drv/Rendezvous.lean`).  `empty` is Go's zero string "" (what rendezvousHash returns when no
  candidate beats the initial bestHash = 0).
  Core Lean only.
-/
namespace Bng.Rendezvous

variable {α : Type} [DecidableEq α]

/-- rendezvousHash: "" for no nodes, the node itself for one node, otherwise the first node whose
    score is strictly greater than every earlier one, starting from bestHash = 0 -/
def owner (empty : α) (score : α → Nat) (nodes : List α) : α :=
  match nodes with
  | [] => empty
  | [n] => n
  | _ => (nodes.foldl (fun (b : α × Nat) n => if score n > b.2 then (n, score n) else b) (empty, 0)).1

/-- one pass of Go's insertionSortLessFunc with less(i,j) = score[i] > score[j]: the new element moves
    left past strictly smaller scores only (stable) -/
def insertDesc (score : α → Nat) (x : α) : List α → List α
  | [] => [x]
  | y :: ys => if score x > score y then x :: y :: ys else y :: insertDesc score x ys

/-- rendezvousRanked: sort.Slice by descending score.  For at most 12 elements Go's pdqsort IS this
    insertion sort; beyond 12 the model assumes the same (stable) result. -/
def ranked (score : α → Nat) (nodes : List α) : List α :=
  nodes.foldl (fun acc x => insertDesc score x acc) []

/-- getHealthyOwner: first node in rank order that is the local node or not marked unhealthy;
    the local node when there is none -/
def healthyOwner (self : α) (unhealthy : List α) (rankedNodes : List α) : α :=
  match rankedNodes.find? (fun n => n == self || !(unhealthy.contains n)) with
  | some n => n
  | none => self

/-- sort.Strings -/
def insertAsc (le : α → α → Bool) (x : α) : List α → List α
  | [] => [x]
  | y :: ys => if le x y then x :: y :: ys else y :: insertAsc le x ys

def sortNodes (le : α → α → Bool) (l : List α) : List α := l.foldr (insertAsc le) []

/-- the part of PeerPool the ownership decision depends on -/
structure Pool (α : Type) where
  self      : α
  nodes     : List α       -- peerNodes
  unhealthy : List α       -- peers whose health entry says "unhealthy"
  deriving Repr

/-- slices.Compact: drop adjacent repetitions -/
def compact : List α → List α
  | [] => []
  | [x] => [x]
  | x :: y :: rest => if x = y then compact (y :: rest) else x :: compact (y :: rest)

/-- NewPeerPool: append the own id if missing, sort, drop duplicate entries -/
def newPool (le : α → α → Bool) (self : α) (peers : List α) : Pool α :=
  { self := self, nodes := compact (sortNodes le (if self ∈ peers then peers else peers ++ [self])),
    unhealthy := [] }

/-- AddPeer -/
def addPeer (le : α → α → Bool) (p : Pool α) (x : α) : Pool α :=
  if x ∈ p.nodes then p else { p with nodes := sortNodes le (p.nodes ++ [x]) }

/-- RemovePeer: the first occurrence -/
def removePeer (p : Pool α) (x : α) : Pool α := { p with nodes := p.nodes.erase x }

/-- the effect of checkPeer crossing the failure threshold / recovering (set through the verif hook) -/
def setHealth (p : Pool α) (x : α) (healthy : Bool) : Pool α :=
  if healthy then { p with unhealthy := p.unhealthy.filter (fun y => !(y == x)) }
  else if p.unhealthy.contains x then p else { p with unhealthy := x :: p.unhealthy }

inductive PoolOp (α : Type) where
  | add (x : α)
  | remove (x : α)
  | health (x : α) (healthy : Bool)
  deriving Repr

def stepPool (le : α → α → Bool) (p : Pool α) : PoolOp α → Pool α
  | .add x => addPeer le p x
  | .remove x => removePeer p x
  | .health x h => setHealth p x h

def runPool (le : α → α → Bool) (p : Pool α) (ops : List (PoolOp α)) : Pool α := ops.foldl (stepPool le) p

variable {κ : Type}

/-- GetOwner -/
def getOwner (empty : α) (score : κ → α → Nat) (p : Pool α) (k : κ) : α := owner empty (score k) p.nodes
/-- IsLocalOwner -/
def isLocalOwner (empty : α) (score : κ → α → Nat) (p : Pool α) (k : κ) : Bool := getOwner empty score p k == p.self
/-- rendezvousRanked on the pool's node list -/
def rankedOf (score : κ → α → Nat) (p : Pool α) (k : κ) : List α := ranked (score k) p.nodes
/-- getHealthyOwner -/
def getHealthyOwner (score : κ → α → Nat) (p : Pool α) (k : κ) : α :=
  healthyOwner p.self p.unhealthy (rankedOf score p k)

/-- Allocate entering at pool `p`: served locally when the healthy owner is the local node, otherwise
    forwarded to the healthy owner, whose /pool/allocate handler allocates from ITS local pool without
    consulting the hash again.  So the pool that serves the request is the healthy owner seen by `p`. -/
def servedBy (score : κ → α → Nat) (p : Pool α) (k : κ) : α := getHealthyOwner score p k

/-! ### where a forwarded request goes: getPeerAddr -/

/-- what `PeerPool.peers` holds after NewPeerPool.  `peers` aliases the caller's `cfg.Peers`: when the node's own id is
    listed, `sort.Strings` and `slices.Compact` work IN PLACE on that very array (sorted, repetitions squeezed out, the
    tail zeroed to ""); when it is not, `append(allPeers, NodeID)` moves to a new array (the harness passes slices without
    spare capacity) and the configured order survives.  AddPeer / RemovePeer never touch it. -/
def cfgPeersAfterNew (le : α → α → Bool) (empty : α) (self : α) (peers : List α) : List α :=
  if self ∈ peers then
    let c := compact (sortNodes le peers)
    c ++ List.replicate (peers.length - c.length) empty
  else peers

/-- `PeerPool.peers` over time.  When the node listed itself, `peers` and `peerNodes` share ONE array: `peers` is the whole
    array, `peerNodes` its front; AddPeer appends into the spare slot behind `peerNodes` (and sorts the front in place),
    RemovePeer shifts the front left and leaves the old last element behind it — so `peers` = `peerNodes` ++ `tail`.  Once
    AddPeer finds no spare slot it moves `peerNodes` to a new array and `peers` stays what the old one held (`frozen`). -/
structure PeersField (α : Type) where
  frozen : List α
  tail : Option (List α)
  deriving Repr

def peersFieldNew (le : α → α → Bool) (empty : α) (self : α) (peers : List α) : PeersField α :=
  if self ∈ peers then
    { frozen := [], tail := some (List.replicate (peers.length - (compact (sortNodes le peers)).length) empty) }
  else { frozen := peers, tail := none }

def peersFieldAdd (pf : PeersField α) (nodesBefore : List α) (x : α) : PeersField α :=
  if x ∈ nodesBefore then pf else
  match pf.tail with
  | some (_ :: t) => { pf with tail := some t }
  | some [] => { frozen := nodesBefore, tail := none }
  | none => pf

def peersFieldRemove (pf : PeersField α) (nodesBefore : List α) (x : α) : PeersField α :=
  if x ∈ nodesBefore then
    match pf.tail, nodesBefore.getLast? with
    | some t, some l => { pf with tail := some (l :: t) }
    | _, _ => pf
  else pf

def peersOf (pf : PeersField α) (nodes : List α) : List α :=
  match pf.tail with
  | some t => nodes ++ t
  | none => pf.frozen

/-- getPeerAddr: the first configured entry that is the node id itself or the node id followed by ":8081" (`withPort`);
    the node id when there is none -/
def peerAddr (withPort : α → α) (cfgPeers : List α) (x : α) : α :=
  match cfgPeers.find? (fun p => p == x || p == withPort x) with
  | some p => p
  | none => x

/-- Allocate entering at pool `p`, with the transport: local when the healthy owner is the local node, otherwise the request
    goes to whatever listens at `peerAddr` of the healthy owner (`resolve`: address ↦ node), and that node allocates from ITS
    pool without consulting the hash again -/
def servedVia (withPort : α → α) (resolve : α → Option α) (cfgPeers : List α) (score : κ → α → Nat) (p : Pool α) (k : κ) :
    Option α :=
  let h := getHealthyOwner score p k
  if h = p.self then some h else resolve (peerAddr withPort cfgPeers h)

/-! ## the monitor: abstract specification of C17 over the nodes' answers only

  It knows the operations that were issued (peer sets and health views are inputs) and judges answers:
    agree    two answers for the same key over the same peer SET name the same owner
    minimal  an owner that is still a member after peers were removed (or before peers were added) stays the owner
    perm     the ranked list is a rearrangement of the peer list
    head     the ranked list starts with the owner
    hminimal marking further peers unhealthy does not move a key whose server is still eligible
    single   two entry nodes with the same peer set hand a key to the same node (attributed to the recorded
             finding C17-split-health-view exactly when their eligibility views differ on a serving node)
-/
namespace Spec

/-- canonical form of a peer set: sorted, duplicates removed -/
def canon (le : α → α → Bool) (l : List α) : List α := (sortNodes le l).eraseDups

def subset (a b : List α) : Bool := a.all (fun x => b.contains x)

structure OwnerRec (α κ : Type) where
  set   : List α
  key   : κ
  owner : α

structure ServeRec (α κ : Type) where
  self      : α
  set       : List α
  unhealthy : List α      -- canonical
  key       : κ
  served    : α
  viaAlloc  : Bool
  pool      : Nat := 0    -- which pool of the cluster answered

structure Mon (α κ : Type) where
  owners : List (OwnerRec α κ) := []
  serves : List (ServeRec α κ) := []

abbrev Verdict := String × String

variable [DecidableEq κ]

/-- one answered query at the pool `self` whose peer SET is `S` and whose unhealthy peers are `U`
    (both canonical) -/
def checkQuery (le : α → α → Bool) (m : Mon α κ) (self : α) (S U : List α) (k : κ)
    (ownerAns : α) (localAns : Bool) (rankedAns : List α) (howner : α) : Mon α κ × List Verdict :=
  let vAgree := m.owners.filterMap fun r =>
    if r.key = k then
      if r.set = S then (if r.owner = ownerAns then none else some ("agree", "two nodes with the same peer set name different owners"))
      else if subset S r.set && S.contains r.owner && !(r.owner = ownerAns) then
        some ("minimal", "ownership moved although the previous owner is still a peer")
      else if subset r.set S && r.set.contains ownerAns && !(r.owner = ownerAns) then
        some ("minimal", "ownership moved to a node that was already a peer when peers were added")
      else none
    else none
  let vLocal := if localAns = (ownerAns == self) then [] else [("agree", "IsLocalOwner disagrees with GetOwner")]
  let vPerm := if sortNodes le rankedAns = S then [] else [("perm", "ranked list is not a rearrangement of the peer set")]
  let vHead := match rankedAns with
    | h :: _ => if h = ownerAns then [] else [("head", "ranked list does not start with the owner")]
    | [] => if S.isEmpty then [] else [("head", "ranked list empty")]
  let vH := m.serves.filterMap fun r =>
    if r.key = k && r.self = self && r.set = S && !r.viaAlloc && subset r.unhealthy U &&
       (r.served = self || !(U.contains r.served)) && !(r.served = howner) then
      some ("hminimal", "healthy owner moved although the previous one is still eligible")
    else none
  ({ owners := { set := S, key := k, owner := ownerAns } :: m.owners,
     serves := { self := self, set := S, unhealthy := U, key := k, served := howner, viaAlloc := false } :: m.serves },
   vAgree ++ vLocal ++ vPerm ++ vHead ++ vH)

/-- eligibility as getHealthyOwner sees it from the entry node `self` with unhealthy set `U` -/
def eligibleFrom (self : α) (U : List α) (x : α) : Bool := x == self || !(U.contains x)

/-- the exclusion clause of finding C17-split-health-view: the two entry nodes disagree on the
    eligibility (health entry, or the "local node is always healthy" rule) of one of the two nodes
    that served the same key -/
def splitView (self₁ : α) (U₁ : List α) (self₂ : α) (U₂ : List α) (a b : α) : Bool :=
  eligibleFrom self₁ U₁ a != eligibleFrom self₂ U₂ a || eligibleFrom self₁ U₁ b != eligibleFrom self₂ U₂ b

/-- one answered Allocate entering at pool `i` (= node `self`).  `views` are the CURRENT views (self, peer
    set, unhealthy set) of all pools: an earlier answer of a pool whose view has not changed since is what
    that pool would answer now, so both answers coexist and must name the same node when the two pools
    have the same peer set.  Returns (monitor, clause, detail). -/
def checkServe (m : Mon α κ) (views : List (Nat × α × List α × List α)) (i : Nat) (self : α) (S U : List α)
    (k : κ) (served : α) : Mon α κ × List (String × String × String) :=
  let vs := if S.contains self then
      m.serves.filterMap fun r =>
        let current := views.any fun v => v.1 == r.pool && v.2.1 = r.self && v.2.2.1 = r.set && v.2.2.2 = r.unhealthy
        if r.viaAlloc && r.key = k && r.set = S && S.contains r.self && current && !(r.served = served) then
          if splitView r.self r.unhealthy self U r.served served then
            some ("single", "C17-split-health-view", "entry nodes with different health views were served by different nodes")
          else some ("single", "none", "entry nodes whose views agree on both serving nodes were served by different nodes")
        else none
    else []
  ({ m with serves := { self := self, set := S, unhealthy := U, key := k, served := served, viaAlloc := true, pool := i } :: m.serves }, vs)

end Spec

/-! ## the concrete instance used by the real code (and by the driver) -/
namespace Real

abbrev Bytes := List UInt8

/-- Go string comparison: byte-wise lexicographic -/
def bytesLe : Bytes → Bytes → Bool
  | [], _ => true
  | _ :: _, [] => false
  | a :: as, b :: bs => if a < b then true else if b < a then false else bytesLe as bs

/-- hashString: FNV-1a, 64 bit -/
def fnv1a (bs : Bytes) : UInt64 :=
  bs.foldl (fun h b => (h ^^^ b.toUInt64) * 0x100000001b3) 0xcbf29ce484222325

/-- the mixer of hashCombine -/
def mix (c0 : UInt64) : UInt64 :=
  let c := (~~~c0) + (c0 <<< 21)
  let c := c ^^^ (c >>> 24)
  let c := (c + (c <<< 3)) + (c <<< 8)
  let c := c ^^^ (c >>> 14)
  let c := (c + (c <<< 2)) + (c <<< 4)
  let c := c ^^^ (c >>> 28)
  c + (c <<< 31)

/-- hashCombine(hashString(key), node) -/
def score (k n : Bytes) : Nat := (mix (fnv1a k ^^^ fnv1a n)).toNat

end Real

end Bng.Rendezvous
