import Bng.Map
/-
  Model of the DHCPv6 server: pkg/dhcpv6/server.go (handleSolicit, handleRequest, handleRenew, handleRebind,
  handleConfirm, handleRelease, handleDecline, buildAdvertise, buildReply) over the legacy AddressPool and
  PrefixPool (free list + map keyed by client DUID; both pools are the same code, modelled once as `FPool`).

  DUIDs: `Nat` (0 = the message carries no Client Identifier).  Addresses and delegated prefixes: `Nat` (the
  128-bit value of the address / of the prefix's first address).  Time: seconds, virtual.

  The code AS IT IS:
    * nothing ever expires: `ValidEnd` is written and never read (finding D6);
    * DECLINE is handled by handleRelease (finding D7);
    * buildAdvertise allocates from the pools but creates no lease, and RELEASE only releases what a LEASE
      records (finding D8);
    * the addresses/prefixes a client puts into its IA options are ignored (except by CONFIRM).

  NOT modelled: the integrated allocator.PoolAllocator mode (only the legacy pools), Information-Request,
  relay messages, DNS / domain options, IA options too short to parse.
  Core Lean only.
-/
namespace Bng.Dhcp6
open Bng

/-- one free-list pool: AddressPool and PrefixPool -/
structure FPool where
  allocated : AMap Nat Nat := []     -- DUID → value
  avail     : List Nat := []
  deriving Repr

/-- Allocate(duid) -/
def FPool.allocate (p : FPool) (d : Nat) : FPool × Option Nat :=
  match AMap.lookup p.allocated d with
  | some v => (p, some v)
  | none =>
    match p.avail with
    | [] => (p, none)
    | v :: rest => ({ avail := rest, allocated := AMap.insert p.allocated d v }, some v)

/-- Release(duid) -/
def FPool.release (p : FPool) (d : Nat) : FPool :=
  match AMap.lookup p.allocated d with
  | some v => { allocated := AMap.erase p.allocated d, avail := p.avail ++ [v] }
  | none => p

structure Cfg where
  hasAddr : Bool          -- an address pool is configured
  abase   : Nat           -- its network address (masked)
  aplen   : Nat
  hasPfx  : Bool          -- a prefix pool is configured
  pbase   : Nat
  pplen   : Nat
  dlen    : Nat           -- delegation length (pplen < dlen ≤ 128)
  valid   : Nat           -- valid lifetime, seconds
  deriving Repr, DecidableEq

def Cfg.asize (c : Cfg) : Nat := 2 ^ (128 - c.aplen)
/-- NewAddressPool: base+1, base+2, … while inside the network, at most 1000 -/
def Cfg.acount (c : Cfg) : Nat := min 1000 (c.asize - 1)
def Cfg.initialAddrs (c : Cfg) : List Nat := (List.range c.acount).map (fun i => c.abase + (i + 1))
def Cfg.pstep (c : Cfg) : Nat := 2 ^ (128 - c.dlen)
/-- NewPrefixPool: `indexBits := delegationLen - ones` -/
def Cfg.indexBits (c : Cfg) : Nat := c.dlen - c.pplen
/-- NewPrefixPool: `numPrefixes := 1000; if indexBits < 10 { numPrefixes = 1 << indexBits }` -/
def Cfg.pcount (c : Cfg) : Nat := if c.indexBits < 10 then 2 ^ c.indexBits else 1000
/-- the inner loop of NewPrefixPool: for every bit `b < indexBits` of the index `i` that is set, the bit at position
    `delegationLen - 1 - b` (counted from the most significant bit, i.e. weight `2^b * pstep`) is OR-ed into the
    prefix.  Bits of `i` at or above `indexBits` are ignored.  The OR is an addition here: the base is masked to
    `pplen` (net.ParseCIDR) and every placed bit lies in [pplen, dlen), so no two set bits ever coincide. -/
def placeIndex (i indexBits step : Nat) : Nat :=
  (List.range indexBits).foldl (fun acc b => if i.testBit b then acc + 2 ^ b * step else acc) 0
/-- entry `i` of the free list NewPrefixPool builds -/
def Cfg.prefixAt (c : Cfg) (i : Nat) : Nat := c.pbase + placeIndex i c.indexBits c.pstep
def Cfg.initialPrefixes (c : Cfg) : List Nat := (List.range c.pcount).map c.prefixAt
def Cfg.addrContains (c : Cfg) (a : Nat) : Bool := decide (c.abase ≤ a) && decide (a < c.abase + c.asize)
def Cfg.addrOk (c : Cfg) (a : Nat) : Bool := decide (c.abase < a) && decide (a ≤ c.abase + c.acount)
def Cfg.prefixOk (c : Cfg) (p : Nat) : Bool :=
  decide (c.pbase ≤ p) && ((p - c.pbase) % c.pstep == 0) && decide ((p - c.pbase) / c.pstep < c.pcount)

structure Lease where
  addr     : Option Nat := none
  pfx      : Option Nat := none
  iaid     : Nat := 0
  validEnd : Option Nat := none      -- none: never set (zero time.Time)
  deriving Repr, DecidableEq

structure State where
  cfg    : Cfg
  leases : AMap Nat Lease := []
  apool  : FPool := {}
  ppool  : FPool := {}
  now    : Nat := 0
  deriving Repr

def init (c : Cfg) : State :=
  { cfg := c,
    apool := { avail := if c.hasAddr then c.initialAddrs else [] },
    ppool := { avail := if c.hasPfx then c.initialPrefixes else [] } }

inductive Kind where
  | advertise | reply
  deriving Repr, DecidableEq

/-- what a reply carries: per requested IA_NA its IAID and the address (none = NoAddrsAvail status), the same
    for IA_PD (none = NoPrefixAvail), the top-level status code, the Rapid Commit flag -/
structure Resp where
  kind   : Kind
  nas    : List (Nat × Option Nat) := []
  pds    : List (Nat × Option Nat) := []
  status : Option Nat := none
  rapid  : Bool := false
  deriving Repr, DecidableEq

abbrev Reply := Option Resp

/-- buildAdvertise's IA loops: an IA is answered only when a value could be allocated -/
def advIAs (p : FPool) (d : Nat) : List Nat → FPool × List (Nat × Option Nat)
  | [] => (p, [])
  | iaid :: rest =>
    match p.allocate d with
    | (p', some v) => let (p'', out) := advIAs p' d rest; (p'', (iaid, some v) :: out)
    | (p', none) => advIAs p' d rest

def buildAdvertise (s : State) (d : Nat) (ianas iapds : List Nat) : State × Reply :=
  let A := if s.cfg.hasAddr then advIAs s.apool d ianas else (s.apool, [])
  let P := if s.cfg.hasPfx then advIAs s.ppool d iapds else (s.ppool, [])
  ({ s with apool := A.1, ppool := P.1 }, some { kind := .advertise, nas := A.2, pds := P.2 })

/-- buildReply's IA_NA loop: lease fields are overwritten for every IA that got an address -/
def replyNAs (p : FPool) (d now valid : Nat) (l : Lease) : List Nat → FPool × Lease × List (Nat × Option Nat)
  | [] => (p, l, [])
  | iaid :: rest =>
    match p.allocate d with
    | (p', some v) =>
      let (p'', l', out) := replyNAs p' d now valid { l with addr := some v, iaid := iaid, validEnd := some (now + valid) } rest
      (p'', l', (iaid, some v) :: out)
    | (p', none) =>
      let (p'', l', out) := replyNAs p' d now valid l rest
      (p'', l', (iaid, none) :: out)

def replyPDs (p : FPool) (d : Nat) (l : Lease) : List Nat → FPool × Lease × List (Nat × Option Nat)
  | [] => (p, l, [])
  | iaid :: rest =>
    match p.allocate d with
    | (p', some v) =>
      let (p'', l', out) := replyPDs p' d { l with pfx := some v } rest
      (p'', l', (iaid, some v) :: out)
    | (p', none) =>
      let (p'', l', out) := replyPDs p' d l rest
      (p'', l', (iaid, none) :: out)

/-- the IA_NA half of buildReply (skipped entirely when no address pool is configured) -/
def naPart (s : State) (d : Nat) (l0 : Lease) (ianas : List Nat) : FPool × Lease × List (Nat × Option Nat) :=
  if s.cfg.hasAddr then replyNAs s.apool d s.now s.cfg.valid l0 ianas else (s.apool, l0, [])

/-- the IA_PD half of buildReply -/
def pdPart (s : State) (d : Nat) (l1 : Lease) (iapds : List Nat) : FPool × Lease × List (Nat × Option Nat) :=
  if s.cfg.hasPfx then replyPDs s.ppool d l1 iapds else (s.ppool, l1, [])

def buildReply (s : State) (d : Nat) (ianas iapds : List Nat) (rapid : Bool) : State × Reply :=
  let A := naPart s d ((AMap.lookup s.leases d).getD {}) ianas
  let P := pdPart s d A.2.1 iapds
  ({ s with leases := AMap.insert s.leases d P.2.1, apool := A.1, ppool := P.1 },
   some { kind := .reply, nas := A.2.2, pds := P.2.2, status := some 0, rapid := rapid })

inductive ServerId where
  | ok | bad | absent
  deriving Repr, DecidableEq

/-- handleSolicit -/
def solicit (s : State) (d : Nat) (rapid : Bool) (ianas iapds : List Nat) : State × Reply :=
  if d = 0 then (s, none)
  else if rapid then buildReply s d ianas iapds true
  else buildAdvertise s d ianas iapds

/-- handleRequest -/
def request (s : State) (d : Nat) (sid : ServerId) (ianas iapds : List Nat) : State × Reply :=
  if d = 0 then (s, none)
  else if sid ≠ .ok then (s, none)
  else buildReply s d ianas iapds false

/-- handleRenew (handleRebind calls it) -/
def renew (s : State) (d : Nat) (ianas iapds : List Nat) : State × Reply :=
  if d = 0 then (s, none)
  else
    match AMap.lookup s.leases d with
    | none => (s, some { kind := .reply, status := some 3 })          -- NoBinding
    | some l =>
      let l' := if s.cfg.hasAddr then { l with validEnd := some (s.now + s.cfg.valid) } else l
      buildReply { s with leases := AMap.insert s.leases d l' } d ianas iapds false

/-- handleConfirm: status Success (0) or NotOnLink (4) -/
def confirm (s : State) (d : Nat) (addrs : List Nat) : State × Reply :=
  if d = 0 then (s, none)
  else
    let ok := addrs.any fun a =>
      s.cfg.hasAddr && s.cfg.addrContains a &&
        (match AMap.lookup s.leases d with
          | some l => l.addr == some a
          | none => true)
    (s, some { kind := .reply, status := some (if ok then 0 else 4) })

/-- handleRelease (handleDecline calls it) -/
def release (s : State) (d : Nat) : State × Reply :=
  if d = 0 then (s, none)
  else
    let s' := match AMap.lookup s.leases d with
      | none => s
      | some l =>
        { s with apool := if l.addr.isSome then s.apool.release d else s.apool,
                 ppool := if l.pfx.isSome then s.ppool.release d else s.ppool,
                 leases := AMap.erase s.leases d }
    (s', some { kind := .reply, status := some 0 })

inductive Op where
  | solicit (d : Nat) (rapid : Bool) (ianas iapds : List Nat)
  | request (d : Nat) (sid : ServerId) (ianas iapds : List Nat)
  | renew (d : Nat) (ianas iapds : List Nat)
  | rebind (d : Nat) (ianas iapds : List Nat)
  | confirm (d : Nat) (addrs : List Nat)
  | release (d : Nat)
  | decline (d : Nat)
  | advance (dt : Nat)
  deriving Repr, DecidableEq

def step (s : State) : Op → State × Reply
  | .solicit d r a p => solicit s d r a p
  | .request d sid a p => request s d sid a p
  | .renew d a p => renew s d a p
  | .rebind d a p => renew s d a p
  | .confirm d addrs => confirm s d addrs
  | .release d => release s d
  | .decline d => release s d
  | .advance dt => ({ s with now := s.now + dt }, none)

def run (s : State) (ops : List Op) : State := ops.foldl (fun st op => (step st op).1) s

end Bng.Dhcp6
