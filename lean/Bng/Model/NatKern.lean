import Bng.Model.Nat44
/-
  nat.Manager's writes to the kernel NAT maps, on the map model of `Bng.Nat44` (core Lean only).

  * `install m ip b` — AllocateNAT: `subscriber_nat[ip] = b` (only for an address without an entry and a
    well-formed block whose cursor stands at its start: what the manager guarantees, C10);
  * `release m ip`   — DeallocateNAT (of an address that holds an allocation; otherwise it does nothing) since the fix of finding G6-nat-stale-sessions: delete
    `subscriber_nat[ip]` AND every `nat_sessions` entry with `key.src_ip = ip`, every `nat_reverse` entry with
    `value.src_ip = ip` and every `eim_table` entry with `key.internal_ip = ip`;
  * `releaseOld`     — DeallocateNAT before the fix (only the `subscriber_nat` entry): used by the witness theorem.
  * `deallocFail ip` — DeallocateNAT when the kernel refuses the Delete of `subscriber_nat[ip]`: since the fix of finding
    C10-delete-failure-frees-block the call returns the error before touching anything, so the maps are unchanged (the
    block stays the subscriber's in the manager too: Spec.C10 `failed_delete_keeps_block`);
  * `purgeKeepBlock` — what it did before that fix: the sessions, reverse entries and EIM mappings were purged, the
    manager counted the block free, and `subscriber_nat[ip]` stayed.  Used by the witness theorem.

  Attribution (C10 at kernel level): every session translates to a port of the CURRENT block of the session's
  private address; every EIM mapping likewise.
-/
namespace Bng.NatKern
open Bng Bng.CNat Bng.Nat44

/-- the block is well formed and its cursor is inside it -/
def BlockWF (b : SubNat) : Prop :=
  b.portStart.toNat ≤ b.portEnd.toNat ∧ b.portStart.toNat ≤ b.nextPort.toNat ∧ b.nextPort.toNat ≤ b.portEnd.toNat

instance (b : SubNat) : Decidable (BlockWF b) := by unfold BlockWF; infer_instance

def install (m : Maps) (ip : UInt32) (b : SubNat) : Maps :=
  if (AMap.lookup m.subNat ip).isNone ∧ BlockWF b then { m with subNat := AMap.insert m.subNat ip b } else m

def release (m : Maps) (ip : UInt32) : Maps :=
  { m with
    subNat := AMap.erase m.subNat ip,
    sessions := m.sessions.filter (fun kv => kv.1.srcIp != ip),
    reverse := m.reverse.filter (fun kv => kv.2.srcIp != ip),
    eim := m.eim.filter (fun kv => kv.1.ip != ip) }

def releaseOld (m : Maps) (ip : UInt32) : Maps := { m with subNat := AMap.erase m.subNat ip }

def purgeKeepBlock (m : Maps) (ip : UInt32) : Maps :=
  { m with
    sessions := m.sessions.filter (fun kv => kv.1.srcIp != ip),
    reverse := m.reverse.filter (fun kv => kv.2.srcIp != ip),
    eim := m.eim.filter (fun kv => kv.1.ip != ip) }

/-- `(ip, port)` — port in network order as the session stores it — lies in block `b` -/
def inBlock (b : SubNat) (ip : UInt32) (portNet : UInt16) : Prop :=
  ip = b.publicIp ∧ ∃ p : UInt16, portNet = bswap16 p ∧ b.portStart.toNat ≤ p.toNat ∧ p.toNat ≤ b.portEnd.toNat

/-- Bool twin used by the run-time monitor (byte-swaps the observed port instead of guessing `p`) -/
def inBlockB (b : SubNat) (ip : UInt32) (portNet : UInt16) : Bool :=
  ip == b.publicIp && decide (b.portStart.toNat ≤ (bswap16 portNet).toNat) &&
    decide ((bswap16 portNet).toNat ≤ b.portEnd.toNat)

/-- every session and every EIM mapping uses a port of the current block of its private address, and
    every block is well formed -/
structure Attributable (m : Maps) : Prop where
  sess : ∀ k s, AMap.lookup m.sessions k = some s →
    ∃ b, AMap.lookup m.subNat k.srcIp = some b ∧ inBlock b s.natIp s.natPort
  eim : ∀ k e, AMap.lookup m.eim k = some e →
    ∃ b, AMap.lookup m.subNat k.ip = some b ∧ e.extIp = b.publicIp ∧
      b.portStart.toNat ≤ e.extPort.toNat ∧ e.extPort.toNat ≤ b.portEnd.toNat
  wf : ∀ ip b, AMap.lookup m.subNat ip = some b → BlockWF b

/-- operations of the combined system -/
inductive Op where
  | alloc (ip : UInt32) (b : SubNat)
  | dealloc (ip : UInt32)
  | egress (clk : UInt64) (f : Frame)
  | ingress (clk : UInt64) (f : Frame)
  | deallocFail (ip : UInt32)

def step (m : Maps) : Op → Maps
  | .alloc ip b => install m ip b
  | .dealloc ip => if (AMap.lookup m.subNat ip).isSome then release m ip else m
  | .egress clk f => match Nat44.egress m clk f with | .ok o => o.maps | .error _ => m
  | .ingress clk f => match Nat44.ingress m clk f with | .ok o => o.maps | .error _ => m
  | .deallocFail _ => m

def run (m : Maps) (ops : List Op) : Maps := ops.foldl step m

/-- the same with the manager as it was before the fix -/
def stepOld (m : Maps) : Op → Maps
  | .dealloc ip => if (AMap.lookup m.subNat ip).isSome then releaseOld m ip else m
  | op => step m op

def runOld (m : Maps) (ops : List Op) : Maps := ops.foldl stepOld m

/-- the manager before the fix of the failing Delete -/
def stepOldDel (m : Maps) : Op → Maps
  | .deallocFail ip => if (AMap.lookup m.subNat ip).isSome then purgeKeepBlock m ip else m
  | op => step m op

def runOldDel (m : Maps) (ops : List Op) : Maps := ops.foldl stepOldDel m

/-- two blocks that translate to overlapping ports of one public address -/
def blocksOverlap (a b : SubNat) : Bool :=
  a.publicIp == b.publicIp && decide (a.portStart.toNat ≤ b.portEnd.toNat) && decide (b.portStart.toNat ≤ a.portEnd.toNat)

end Bng.NatKern
