import Bng.Map
/-
  Model of pkg/pppoe/teardown.go (SessionTeardown) together with the parts of SessionManager and IPPool
  it touches.  A session OBJECT (what a Go caller holds a pointer to) is identified by `name`; it may be
  terminated again after it has left the session table ("ending a session twice").
  RADIUS accounting is a counter of Accounting-Stop records per session, PADT a counter of frames.
  The eBPF-map callback (`updateEBPFMaps(session, true)`) can FAIL (`fault ebpf on|off|once`): a successful call removes
  the session's fast-path entry (`fp`) and is counted in `ebpf`, a failed one is counted in `efail` and leaves the
  entry; cleanup goes on either way ("Continue cleanup even if eBPF update fails") and, the session being marked
  torn down BEFORE the call, nothing ever calls the callback for that session again.  Core Lean only.
-/
namespace Bng.Teardown
open Bng

structure Obj where
  id : Nat
  mac : Nat
  user : Nat
  authed : Bool
  hasIp : Bool        -- Session.ClientIP != nil
  tornDown : Bool
  claimed : Bool      -- Session.terminating: a TerminateSession call has taken the session on (fix 58cbf8f)
  deriving Repr, DecidableEq

/-- what the eBPF-map callback does when it is called next -/
inductive Fault where
  | off      -- it removes the entry
  | on       -- it fails, every time
  | once     -- it fails the next time it is called, then works again
  deriving Repr, DecidableEq

structure TD where
  radius : Bool
  objs : AMap Nat Obj        -- by harness name
  live : AMap Nat Nat        -- SessionManager.sessions: id → name
  byMac : AMap Nat Nat       -- SessionManager.macToSession: mac → id
  nextID : Nat
  held : List Nat            -- names whose RADIUS session id has an entry in IPPool.allocated
  stops : AMap Nat Nat
  ebpf : AMap Nat Nat
  padt : AMap Nat Nat
  parked : AMap Nat Nat      -- TerminateSession calls held inside their PADT callback: tag → name
  fault : Fault := .off      -- the eBPF-map callback's next answer
  efail : AMap Nat Nat := [] -- calls of the eBPF-map callback that returned an error, per session
  fp : List Nat := []        -- names whose fast-path (eBPF map) entry is present
  deriving Repr

def init (radius : Bool) : TD :=
  { radius := radius, objs := [], live := [], byMac := [], nextID := 1, held := [], stops := [], ebpf := [], padt := [],
    parked := [] }

def bump (m : AMap Nat Nat) (k : Nat) : AMap Nat Nat :=
  AMap.insert m k ((AMap.lookup m k).getD 0 + 1)

def count (m : AMap Nat Nat) (k : Nat) : Nat := (AMap.lookup m k).getD 0

/-- id search of CreateSession (ids stay far below the 16-bit wrap in the sequences considered) -/
def freeId (live : AMap Nat Nat) : Nat → Nat → Nat
  | id, 0 => id
  | id, fuel + 1 => if (AMap.lookup live id).isSome then freeId live (id + 1) fuel else id

/-- CreateSession + the fields the harness sets + IPPool.Allocate when an address is wanted -/
def mk (s : TD) (name mac : Nat) (authed hasIp : Bool) : TD × Nat :=
  if (AMap.lookup s.objs name).isSome then (s, 0) else     -- names are fresh (the harness refuses reuse)
  let id := freeId s.live s.nextID (s.live.length + 1)
  let o : Obj := { id := id, mac := mac, user := mac, authed := authed, hasIp := hasIp, tornDown := false, claimed := false }
  ({ s with objs := AMap.insert s.objs name o, live := AMap.insert s.live id name,
            byMac := AMap.insert s.byMac mac id, nextID := id + 1,
            held := if hasIp then name :: s.held else s.held,
            fp := name :: s.fp }, id)

/-- SessionManager.RemoveSession -/
def removeSession (s : TD) (id : Nat) : TD :=
  match AMap.lookup s.live id with
  | none => s
  | some n =>
    let mac := match AMap.lookup s.objs n with
      | some o => o.mac
      | none => 0
    { s with byMac := if AMap.lookup s.byMac mac = some id then AMap.erase s.byMac mac else s.byMac,
             live := AMap.erase s.live id }

/-- the callback's answer after it was called once -/
def Fault.next : Fault → Fault
  | .on => .on
  | _ => .off

/-- SessionTeardown.cleanup: tornDown is set first; then the eBPF-map callback (its failure is logged and the cleanup
    goes on), Accounting-Stop, pool release, RemoveSession -/
def cleanup (s : TD) (name : Nat) : TD :=
  match AMap.lookup s.objs name with
  | none => s
  | some o =>
    if o.tornDown then s
    else
      let s1 := { s with objs := AMap.insert s.objs name { o with tornDown := true },
                         ebpf := if s.fault == .off then bump s.ebpf name else s.ebpf,
                         efail := if s.fault == .off then s.efail else bump s.efail name,
                         fp := if s.fault == .off then s.fp.filter (fun n => !(n == name)) else s.fp,
                         fault := s.fault.next,
                         stops := if s.radius && o.authed then bump s.stops name else s.stops,
                         held := if o.hasIp then s.held.filter (fun n => !(n == name)) else s.held }
      removeSession s1 o.id

/-- the first half of TerminateSession: the session is claimed (check and mark under the session lock) and the PADT sent -/
def claimPadt (s : TD) (name : Nat) (o : Obj) : TD :=
  { s with padt := bump s.padt name, objs := AMap.insert s.objs name { o with claimed := true } }

/-- SessionTeardown.TerminateSession (no LCP callback, PADTRetries = 0: exactly one PADT).  A session that is torn
    down, or that another TerminateSession call is at work on, is left alone. -/
def terminate (s : TD) (name : Nat) : TD :=
  match AMap.lookup s.objs name with
  | some o => if o.tornDown || o.claimed then s else cleanup (claimPadt s name o) name
  | none => s

inductive Op where
  | mk (name mac : Nat) (authed hasIp : Bool)
  | padt (name mac : Nat)          -- HandleClientPADT with the given source MAC
  | term (name : Nat)              -- TerminateSession on a held pointer
  | termId (id : Nat)
  | termMac (mac : Nat)
  | termUser (user : Nat)
  | termAll
  | authFail (name : Nat)          -- what the server does on a rejected PAP: Authenticated := false, state Closed
  | tpark (tag name : Nat)         -- a TerminateSession call run up to (and held inside) its PADT callback
  | tresume (tag : Nat)            -- the held call goes on: cleanup
  | fault (m : Fault)              -- what the eBPF-map callback answers from now on
  deriving Repr, DecidableEq

def step (s : TD) : Op → TD
  | .mk n m a i => (mk s n m a i).1
  | .padt n m =>
    match AMap.lookup s.objs n with
    | some o => if o.mac = m then cleanup s n else s
    | none => s
  | .term n => if (AMap.lookup s.objs n).isSome then terminate s n else s
  | .termId id =>
    match AMap.lookup s.live id with
    | some n => terminate s n
    | none => s
  | .termMac m =>
    match AMap.lookup s.byMac m with
    | some id => match AMap.lookup s.live id with
      | some n => terminate s n
      | none => s
    | none => s
  | .termUser u =>
    -- every live session of that user (the effects of terminating different sessions commute)
    (s.live.filter (fun p => match AMap.lookup s.objs p.2 with
        | some o => o.user == u
        | none => false)).foldl (fun st p => terminate st p.2) s
  | .termAll => s.live.foldl (fun st p => terminate st p.2) s
  | .authFail n =>
    match AMap.lookup s.objs n with
    | some o =>
      -- on a session that is already torn down the flag is never read again
      if o.tornDown then s else { s with objs := AMap.insert s.objs n { o with authed := false } }
    | none => s

  | .tpark tag n =>
    if (AMap.lookup s.parked tag).isSome then s else
    match AMap.lookup s.objs n with
    | some o =>
      if o.tornDown || o.claimed then s
      else { claimPadt s n o with parked := AMap.insert s.parked tag n }
    | none => s
  | .tresume tag =>
    match AMap.lookup s.parked tag with
    | some n => cleanup { s with parked := AMap.erase s.parked tag } n
    | none => s
  | .fault m => { s with fault := m }

def run (s : TD) (ops : List Op) : TD := ops.foldl step s

end Bng.Teardown
