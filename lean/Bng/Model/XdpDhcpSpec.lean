import Bng.Model.XdpDhcp
import Bng.Model.CacheEnc
/-
  The executable side of C03: what "a well-formed reply to this request" and "the same answer as userspace"
  mean, as decidable predicates over frame BYTES.  `bngdrv` evaluates them on the natively compiled program's
  output and on the real slow path's reply; the theorems of Bng/Spec/C03.lean are about the same predicates.
  Core Lean only.
-/
namespace Bng.XdpDhcpSpec
open Bng Bng.C Bng.XdpDhcp

/-- big-endian 16-bit field at `o` -/
def be16At (f : Frame) (o : Nat) : Nat :=
  match bytesAt f o 2 with
  | [a, b] => a.toNat * 256 + b.toNat
  | _ => 0

/-- sum of the big-endian 16-bit words of a byte string (an odd trailing byte counts as the high byte) -/
def sumBE : List UInt8 → Nat
  | a :: b :: rest => a.toNat * 256 + b.toNat + sumBE rest
  | [a] => a.toNat * 256
  | [] => 0

/-- end-around-carry fold to 16 bits -/
def fold16 (n : Nat) : Nat :=
  let a := n % 65536 + n / 65536
  a % 65536 + a / 65536

/-- the Internet checksum test a receiver applies to an IP header: the one's-complement sum of all its
    16-bit words (checksum field included) is 0xFFFF -/
def headerSumOk (hdr : List UInt8) : Bool := fold16 (sumBE hdr) == 0xFFFF

/-- DHCP option walk (RFC 2132): value of the first option `code`; `fuel` bounds the walk -/
def tlvGet (code : UInt8) : (fuel : Nat) → List UInt8 → Option (List UInt8)
  | 0, _ => none
  | _, [] => none
  | fuel + 1, c :: rest =>
    if c == 0 then tlvGet code fuel rest
    else if c == 255 then none
    else match rest with
      | [] => none
      | l :: val =>
        if c == code then some (val.take l.toNat) else tlvGet code fuel (val.drop l.toNat)

/-- offset just past the END option, if the walk reaches one without running out of bytes -/
def tlvEnd : (fuel : Nat) → List UInt8 → Option Nat
  | 0, _ => none
  | _, [] => none
  | fuel + 1, c :: rest =>
    if c == 0 then (tlvEnd fuel rest).map (· + 1)
    else if c == 255 then some 1
    else match rest with
      | [] => none
      | l :: val => if l.toNat ≤ val.length then (tlvEnd fuel (val.drop l.toNat)).map (· + 2 + l.toNat) else none

def opt (code : UInt8) (opts : List UInt8) : Option (List UInt8) := tlvGet code opts.length opts

/-- the message type a DHCP parser reads (first option 53 with a one-byte value) -/
def trueMsgType (opts : List UInt8) : Option UInt8 :=
  match opt 53 opts with
  | some [t] => some t
  | _ => none

/-- the circuit-id a DHCP parser reads: sub-option 1 of option 82 (last occurrence wins, as in the server) -/
def subOpt1 : (fuel : Nat) → List UInt8 → Option (List UInt8) → Option (List UInt8)
  | 0, _, acc => acc
  | fuel + 1, t :: l :: rest, acc =>
    if l.toNat ≤ rest.length then
      subOpt1 fuel (rest.drop l.toNat) (if t == 1 then some (rest.take l.toNat) else acc)
    else acc
  | _, _, acc => acc

def trueCircuitId (opts : List UInt8) : Option (List UInt8) :=
  match opt 82 opts with
  | some v => if v.isEmpty then none else subOpt1 v.length v none
  | none => none

/-- the fields C03 compares between the fast-path reply and the slow-path reply -/
structure View where
  msgType : Option (List UInt8)
  yiaddr : List UInt8
  serverId : Option (List UInt8)   -- option 54
  leaseTime : Option (List UInt8)  -- option 51
  mask : Option (List UInt8)       -- option 1
  router : Option (List UInt8)     -- option 3
  dns : List UInt8                 -- option 6 (absent = no servers)
  deriving DecidableEq, Repr

/-- view of a BOOTP message (the UDP payload) -/
def viewOf (bootp : List UInt8) : View :=
  let opts := bootp.drop 240
  { msgType := opt 53 opts, yiaddr := bytesAt bootp 16 4, serverId := opt 54 opts, leaseTime := opt 51 opts,
    mask := opt 1 opts, router := opt 3 opts, dns := (opt 6 opts).getD [] }

/-- reverse every 4-byte group -/
def rev4 : List UInt8 → List UInt8
  | a :: b :: c :: d :: rest => d :: c :: b :: a :: rev4 rest
  | xs => xs

/-- the view with every IPv4 ADDRESS field byte-reversed (what D10 does to a reply); lease time and mask stay -/
def View.rev (v : View) : View :=
  { v with yiaddr := rev4 v.yiaddr, serverId := v.serverId.map rev4, router := v.router.map rev4, dns := rev4 v.dns }

/-- the checks `malformed-reply` makes on a transmitted frame `g` for the request `f` parsed as `p`, given the
    server MAC (`server_config.server_mac`) and the server address bytes as the cache holds them
    (`none` = well-formed; otherwise the name of the first failing check):
    * L2: destination = the relay's MAC (the request's source) when relayed, else broadcast if the BROADCAST flag is
      set or ciaddr is 0, else chaddr; source = the server MAC; EtherType and VLAN tags as received;
    * IP: version/IHL/TOS and protocol as received (a request the program accepts has IHL 5 and protocol 17; the version
      nibble and the id/fragment field are copied unchecked); TTL 64; source = the server address, destination =
      giaddr when relayed, else 255.255.255.255; frame length = L2 header + `tot_len`; the header passes the receiver's
      checksum test;
    * UDP: source port 67, destination port 68 (67 when relayed), `udp.len + 20 = tot_len`, checksum 0 (none);
    * BOOTP: op = BOOTREPLY; htype/hlen, xid/secs/flags/ciaddr, giaddr/chaddr and the magic cookie as received; hops 0;
      siaddr = the server address; sname and file zeroed;
    * options: a TLV sequence whose END option is the last byte of the frame; `tot_len` = 20 + 8 + 240 + options. -/
def replyDefect (f g : Frame) (p : Pkt) (srvMac sip : List UInt8) : Option String :=
  let ipLen := be16At g (p.ipOff + 2)
  let optsArea := g.drop (p.dhcpOff + 240)
  let giaddr := bytesAt f (p.dhcpOff + 24) 4
  let relayed := giaddr != [0, 0, 0, 0]
  if g.length != 14 + p.vlanOff + ipLen then some "frame-length-vs-tot_len"
  else if be16At g (p.udpOff + 4) + 20 != ipLen then some "udp-len-vs-tot_len"
  else if bytesAt g 0 6 != (if relayed then bytesAt f 6 6 else l2Dest f p) then some "eth-dst"
  else if bytesAt g 6 6 != srvMac then some "eth-src"
  else if bytesAt g 12 (p.ipOff - 12) != bytesAt f 12 (p.ipOff - 12) then some "ethertype-or-tags-changed"
  else if bytesAt g p.ipOff 2 != bytesAt f p.ipOff 2 then some "ip-version-ihl-tos"
  else if bytesAt g (p.ipOff + 8) 1 != [64] then some "ip-ttl"
  else if bytesAt g (p.ipOff + 9) 1 != bytesAt f (p.ipOff + 9) 1 then some "ip-protocol"
  else if bytesAt g (p.ipOff + 12) 4 != sip then some "ip-saddr"
  else if bytesAt g (p.ipOff + 16) 4 != (if relayed then giaddr else [255, 255, 255, 255]) then some "ip-daddr"
  else if !headerSumOk (bytesAt g p.ipOff 20) then some "ip-checksum"
  else if be16At g p.udpOff != 67 then some "udp-sport"
  else if be16At g (p.udpOff + 2) != (if relayed then 67 else 68) then some "udp-dport"
  else if bytesAt g (p.udpOff + 6) 2 != [0, 0] then some "udp-checksum"
  else if bytesAt g p.dhcpOff 1 != [2] then some "bootp-op"
  else if bytesAt g (p.dhcpOff + 1) 2 != bytesAt f (p.dhcpOff + 1) 2 then some "htype-hlen"
  else if bytesAt g (p.dhcpOff + 3) 1 != [0] then some "hops"
  else if bytesAt g (p.dhcpOff + 4) 12 != bytesAt f (p.dhcpOff + 4) 12 then some "xid-secs-flags-ciaddr"
  else if bytesAt g (p.dhcpOff + 20) 4 != sip then some "siaddr"
  else if bytesAt g (p.dhcpOff + 24) 20 != bytesAt f (p.dhcpOff + 24) 20 then some "giaddr-chaddr"
  else if bytesAt g (p.dhcpOff + 44) 64 != List.replicate 64 0 then some "sname-not-zeroed"
  else if bytesAt g (p.dhcpOff + 108) 128 != List.replicate 128 0 then some "file-not-zeroed"
  else if bytesAt g (p.dhcpOff + 236) 4 != bytesAt f (p.dhcpOff + 236) 4 then some "magic"
  else if tlvEnd optsArea.length optsArea != some optsArea.length then some "options-do-not-end-at-frame-end"
  else if ipLen != 268 + optsArea.length then some "tot_len-vs-options"
  else none

/-- the reply type that answers request type `t` -/
def wantedReply (t : Option UInt8) : Option (List UInt8) :=
  match t with
  | some 1 => some [2]
  | some 3 => some [5]
  | _ => none


/-! ### what the userspace server sends (the fields C03 compares), from the cache-relevant server state -/

/-- the CIDR mask of a prefix length, on the wire -/
def maskWire (plen : Nat) : List UInt8 :=
  let v := 4294967296 - 2 ^ (32 - plen)
  [UInt8.ofNat (v / 16777216 % 256), UInt8.ofNat (v / 65536 % 256), UInt8.ofNat (v / 256 % 256), UInt8.ofNat (v % 256)]

/-- the reply fields of `handleDiscover` / `handleRequest`: `WithYourIP(ip)`, `OptServerIdentifier(serverIP)`,
    `OptIPAddressLeaseTime(pool.LeaseTime)`, `OptSubnetMask(pool.SubnetMask)`, `OptRouter(pool.Gateway)`,
    `OptDNS(pool.DNSServers...)` -/
def slowView (replyType : UInt8) (yiaddr serverIp : UInt32) (P : CacheEnc.PoolCfg) : View :=
  { msgType := some [replyType], yiaddr := CacheEnc.ipWire yiaddr, serverId := some (CacheEnc.ipWire serverIp),
    leaseTime := some (CacheEnc.ipWire P.leaseSecs), mask := some (maskWire P.prefixLen.toNat),
    router := some (CacheEnc.ipWire P.gateway), dns := P.dns.flatMap CacheEnc.ipWire }

/-- canonical print of a view (the harness prints the same from the real reply) -/
def View.fields (v : View) : List (Option (List UInt8)) :=
  [v.msgType, some v.yiaddr, v.serverId, v.leaseTime, v.mask, v.router, some v.dns]

end Bng.XdpDhcpSpec
