import Bng.Model.TokenBucket
/-
  pkg/qos/manager.go: SetSubscriberQoS and RemoveSubscriberQoS as the sequences of separate writes they are, two of them
  at once, and writes that fail (r-gaps A1, C2/C3 for the QoS maps).

    SetSubscriberQoS      Put qos_egress[key], Put qos_ingress[key], m.subscribers[key] = qos
    RemoveSubscriberQoS   Delete qos_egress[key], Delete qos_ingress[key], delete(m.subscribers, key)

  `Call.write call k` is the k-th write; `Call.run` the whole call (`run_set`, `run_remove`: it is `Ctl.setQoS` /
  `Ctl.remove` of Bng.TokenBucket).  `Race.step locked a b r who` lets call `who` make its next write; with
  `locked = true` a call takes the manager's lock before its first write and gives it back after its last one (the code
  since fix 01bf152: both methods hold subscribersMu throughout), a call that finds the lock taken does not move.
  `locked = false` is the code as it was: no common lock, every interleaving of the six writes is a history.
  `raceRun` replays a schedule (a word over the two calls) and then runs both calls to completion, as the harness does.

  Failing writes (`wfault e|i`: every write through the manager's handle of that map fails): `setQoSF` / `removeF`.
  SetSubscriberQoS returns at the first failing Put (what was written before stays: the egress bucket of a failed
  install); RemoveSubscriberQoS drops the result of its Deletes and forgets the subscriber all the same.
  Core Lean only.
-/
namespace Bng.QosRace
open Bng Bng.TokenBucket

inductive Call where
  | set (q : QoS)
  | remove (ip : Bytes)
  deriving DecidableEq, Repr

def Call.ip : Call → Bytes
  | .set q => q.ip
  | .remove ip => ip

/-- the k-th write of a call (k = 0, 1, anything else: the table) -/
def Call.write (call : Call) (k : Nat) (c : Ctl) : Ctl :=
  match call, k with
  | .set q, 0 => { c with maps := { c.maps with egress := AMap.insert c.maps.egress (keyBytes q.ip) (egressBucket q).encode } }
  | .set q, 1 => { c with maps := { c.maps with ingress := AMap.insert c.maps.ingress (keyBytes q.ip) (ingressBucket q).encode } }
  | .set q, _ => { c with subs := AMap.insert c.subs (keyBytes q.ip) q }
  | .remove ip, 0 => { c with maps := { c.maps with egress := AMap.erase c.maps.egress (keyBytes ip) } }
  | .remove ip, 1 => { c with maps := { c.maps with ingress := AMap.erase c.maps.ingress (keyBytes ip) } }
  | .remove ip, _ => { c with subs := AMap.erase c.subs (keyBytes ip) }

/-- the whole call: its three writes in program order -/
def Call.run (call : Call) (c : Ctl) : Ctl := call.write 2 (call.write 1 (call.write 0 c))

/-- the first k writes of a call -/
def pre (call : Call) (k : Nat) (c : Ctl) : Ctl :=
  match k with
  | 0 => c
  | 1 => call.write 0 c
  | 2 => call.write 1 (call.write 0 c)
  | _ => call.run c

/-- two calls in progress: `true` names call A, `false` call B -/
structure Race where
  ctl : Ctl
  pcA : Nat := 0
  pcB : Nat := 0
  /-- the call that holds the manager's lock -/
  holder : Option Bool := none
  /-- a call was seen waiting for the lock -/
  blocked : Bool := false

def Race.pc (r : Race) (who : Bool) : Nat := if who then r.pcA else r.pcB

/-- call `who` makes its next write, if it can -/
def Race.step (locked : Bool) (a b : Call) (r : Race) (who : Bool) : Race :=
  if r.pc who ≥ 3 then r
  else if locked && r.holder == some (!who) then { r with blocked := true }
  else
    let ctl' := (if who then a else b).write (r.pc who) r.ctl
    let h : Option Bool := if locked && r.pc who + 1 < 3 then some who else none
    if who then { r with ctl := ctl', pcA := r.pcA + 1, holder := h }
    else { r with ctl := ctl', pcB := r.pcB + 1, holder := h }

def Race.steps (locked : Bool) (a b : Call) (r : Race) (sched : List Bool) : Race :=
  sched.foldl (Race.step locked a b) r

/-- what the harness appends to every schedule: A, then B, then A again run to completion -/
def drain : List Bool := [true, true, true, false, false, false, true, true, true]

def raceRun (locked : Bool) (c : Ctl) (a b : Call) (sched : List Bool) : Race :=
  Race.steps locked a b (Race.steps locked a b { ctl := c } sched) drain

/-! ### writes that fail -/

/-- the manager's handle of the egress / ingress map is write-protected -/
structure Ro where
  e : Bool := false
  i : Bool := false
  deriving DecidableEq, Repr

/-- SetSubscriberQoS with failing Puts: it returns at the first error (`false`), what it wrote before stays -/
def setQoSF (ro : Ro) (c : Ctl) (q : QoS) : Ctl × Bool :=
  if ro.e then (c, false)
  else
    let c1 := (Call.set q).write 0 c
    if ro.i then (c1, false) else ((Call.set q).write 2 ((Call.set q).write 1 c1), true)

/-- RemoveSubscriberQoS with failing Deletes: their results are dropped, the subscriber is forgotten all the same -/
def removeF (ro : Ro) (c : Ctl) (ip : Bytes) : Ctl :=
  let c1 := if ro.e then c else (Call.remove ip).write 0 c
  let c2 := if ro.i then c1 else (Call.remove ip).write 1 c1
  (Call.remove ip).write 2 c2

end Bng.QosRace
