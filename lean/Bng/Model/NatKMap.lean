import Bng.Model.Nat
/-
  nat.Manager's writes to the kernel `subscriber_nat` map, next to the manager model `Bng.Cgnat` (core Lean only).

    AllocateNAT   a NEW allocation is Put under the private address (public address, first and last port,
                  subscriber id) before it is entered into the table; a re-ask writes nothing;
    DeallocateNAT the entry of an allocated address is Deleted; an address without allocation returns before any
                  kernel write;
    `commitFail` / `allocFail` / `deallocFail` (the Put / Delete returned an error): the map is unchanged.

  `kstepOld` is DeallocateNAT as it was before the fix of finding C10-delete-failure-frees-block: the table entry was
  removed, the slot counted free and the release logged although the Delete had failed.  Witness theorem only.
-/
namespace Bng.Cgnat
open Bng

/-- the fields of `struct port_block` the manager fills in -/
structure KBlk where
  pub : Nat
  lo  : UInt16
  hi  : UInt16
  sub : Nat
  deriving Repr, DecidableEq

def kblkOf (a : Alloc) : KBlk := { pub := a.pub, lo := a.portStart, hi := a.portEnd, sub := a.subId }

structure KState where
  s    : State
  kern : AMap Nat KBlk := []      -- subscriber_nat: private address ↦ block
  deriving Repr

def kinit (c : Cfg) : KState := { s := init c }

/-- the kernel map after one call -/
def kernAfter (kern : AMap Nat KBlk) (before after : State) : Op → AMap Nat KBlk
  | .allocCommit k | .alloc k =>
    match AMap.lookup before.allocs k, AMap.lookup after.allocs k with
    | none, some a => AMap.insert kern k (kblkOf a)
    | _, _ => kern
  | .dealloc k =>
    match AMap.lookup before.allocs k with
    | some _ => AMap.erase kern k
    | none => kern
  | _ => kern

def kstep (x : KState) (op : Op) : KState × Obs :=
  let r := step x.s op
  ({ s := r.1, kern := kernAfter x.kern x.s r.1 op }, r.2)

def krun (x : KState) (ops : List Op) : KState := ops.foldl (fun st op => (kstep st op).1) x

/-- DeallocateNAT before the fix: a failing Delete was only logged, the release went on -/
def kstepOld (x : KState) : Op → KState × Obs
  | .deallocFail k => ({ s := (dealloc x.s k).1, kern := x.kern }, .ok)
  | op => kstep x op

def krunOld (x : KState) (ops : List Op) : KState := ops.foldl (fun st op => (kstepOld st op).1) x

/-- two kernel entries that translate to overlapping ports of one public address -/
def kOverlap (a b : KBlk) : Bool :=
  a.pub == b.pub && decide (a.lo.toNat ≤ b.hi.toNat) && decide (b.lo.toNat ≤ a.hi.toNat)

end Bng.Cgnat
