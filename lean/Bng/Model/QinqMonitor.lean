import Bng.Model.Qinq
import Bng.Model.KeySpec
/-
  C20 / qinq: how the key monitor (`KeySpec`) is fed from one operation of the QinQ mapper and its observation, as a
  TYPED function (the driver only parses the implementation's answer into `Obs` and calls `eventOf`), and the run of
  model and monitor side by side.  `Proof/QinqMonitor.lean` proves that the monitor never fires on a model history.
  Core Lean only.
-/
namespace Bng.Qinq
open Bng

/-- a VLAN pair as one number (both tags are uint16 in the code) -/
def keyOf (p : Pair) : Nat := p.1 * 65536 + p.2

/-- the monitor event of one operation and the answer it got -/
def eventOf (c : Cfg) (op : Op) (o : Obs) : KeySpec.Ev :=
  match op, o with
  | .register p k, .ok => .gave k (keyOf p) (valid c p) false
  | .register p k, .conflict => .refused k (keyOf p)
  | .register _ _, _ => .failed
  | .unregister p, .ok => .releasedKey (keyOf p)
  | .unregisterSub k, .ok => .released k
  | .getSubscriber p, .none => .rev (keyOf p) none
  | .getSubscriber p, .sub k => .rev (keyOf p) (some k)
  | .getVLAN k, .none => .fwd k none
  | .getVLAN k, .pair s c => .fwd k (some (keyOf (s, c)))
  | _, _ => .nop

/-- the verdicts the monitor raises along a history when it is fed the MODEL's own observations -/
def monRun (st : State) (m : KeySpec.Mon) : List Op → List KeySpec.Verdict
  | [] => []
  | op :: rest =>
    let r := step st op
    let c := KeySpec.check m (eventOf st.cfg op r.2)
    c.2 ++ monRun r.1 c.1 rest

end Bng.Qinq
