import Bng.Map
/-
  Model of the termination path of pkg/subscriber/manager.go (Manager.CreateSession / AssignAddress /
  TerminateSession) against an address allocator.  AssignAddress likewise drops the lock around the allocator
  call: `abegin tag n … aresume tag` is one call with other callers' operations in the window.  TerminateSession releases the manager lock between
  marking the session as terminating (a flag of its own since fix ac0cfa4; before, Session.State, which
  five other calls overwrite) and releasing its addresses, so it is split into `begin` (check + mark),
  the allocator call, and `finish` (drop indexes, delete, emit event): every interleaving of callers at
  those points is an ordinary history of `tbegin`/`tresume` operations.
  Sessions are identified by harness names (standing for the UUIDs).  Core Lean only.
-/
namespace Bng.SubMgr
open Bng

structure Sess where
  mac : Nat
  ip : Option Nat
  terminating : Bool
  deriving Repr, DecidableEq

structure M where
  sessions : AMap Nat Sess     -- name → session
  byMac : AMap Nat Nat         -- MAC → name
  byIp : AMap Nat Nat          -- address → name
  owner : AMap Nat Nat         -- allocator: address → name it was handed to
  rel : AMap Nat Nat           -- ReleaseIPv4 calls per address
  allocs : AMap Nat Nat        -- ghost: successful AllocateIPv4 results per address
  ended : AMap Nat Nat         -- terminate events per name
  calls : AMap Nat (Nat × Nat) -- parked TerminateSession calls: tag → (name, address being released)
  acalls : AMap Nat Nat        -- AssignAddress calls held inside the allocator call: tag → name
  relFails : Bool              -- the allocator's ReleaseIPv4 / ReleaseIPv6 fails (fault switch of the harness stub)
  relf : AMap Nat Nat          -- failed release calls per address
  deriving Repr

def init : M :=
  { sessions := [], byMac := [], byIp := [], owner := [], rel := [], allocs := [], ended := [], calls := [],
    acalls := [], relFails := false, relf := [] }

def bump (m : AMap Nat Nat) (k : Nat) : AMap Nat Nat := AMap.insert m k ((AMap.lookup m k).getD 0 + 1)
def count (m : AMap Nat Nat) (k : Nat) : Nat := (AMap.lookup m k).getD 0

inductive Res where | ok | exists_ | notfound | exhausted | busy | parked | badop | gone
  deriving Repr, DecidableEq

/-- lowest free address of the allocator stub (10.9.0.2 … .4) -/
def firstFree (owner : AMap Nat Nat) : Option Nat :=
  [2, 3, 4].find? (fun a => (AMap.lookup owner a).isNone)

def create (s : M) (n mac : Nat) : M × Res :=
  -- names stand for fresh UUIDs: the harness refuses to reuse one
  if (AMap.lookup s.sessions n).isSome || decide (count s.ended n > 0) then (s, .badop)
  else if (AMap.lookup s.byMac mac).isSome then (s, .exists_)
  else ({ s with sessions := AMap.insert s.sessions n { mac := mac, ip := none, terminating := false },
                 byMac := AMap.insert s.byMac mac n }, .ok)

/-- the allocator handed out `a`, the manager found the session gone or terminating and handed it straight back
    (fix 'AssignAddress re-validates the session after the allocator call') -/
def bounce (s : M) (a : Nat) : M := { s with allocs := bump s.allocs a, rel := bump s.rel a }

/-- the same hand-back when the allocator's release FAILS: the manager logs a warning and reports the same error, the
    allocator keeps the address as handed to that session (it was never told otherwise) — code as it is, finding
    KF-submgr-release-failed -/
def bounceFailed (s : M) (a n : Nat) : M :=
  { s with allocs := bump s.allocs a, owner := AMap.insert s.owner a n, relf := bump s.relf a }

def bounceCall (s : M) (a n : Nat) : M := if s.relFails then bounceFailed s a n else bounce s a

/-- AssignAddress from the allocator call on.  The first critical section found the session; the allocator call runs
    without the manager lock; the second critical section looks the session up AGAIN: it writes the address only to a
    session that is still there and not terminating, otherwise it gives the address back and reports failure. -/
def assignLate (s : M) (n : Nat) : M × Res :=
  match firstFree s.owner with
  | none => (s, .exhausted)
  | some a =>
    match AMap.lookup s.sessions n with
    | none => (bounceCall s a n, .gone)
    | some x =>
      if x.terminating then (bounceCall s a n, .gone)
      else
        ({ s with owner := AMap.insert s.owner a n, allocs := bump s.allocs a,
                  sessions := AMap.insert s.sessions n { x with ip := some a },
                  byIp := AMap.insert s.byIp a n }, .ok)

def assign (s : M) (n : Nat) : M × Res :=
  match AMap.lookup s.sessions n with
  | none => (s, .notfound)
  | some _ => assignLate s n

/-- first critical section of TerminateSession: find, refuse if already terminating, mark -/
def tBegin (s : M) (n : Nat) : Except Res (M × Sess) :=
  match AMap.lookup s.sessions n with
  | none => .error .notfound
  | some x =>
    if x.terminating then .error .busy
    else .ok ({ s with sessions := AMap.insert s.sessions n { x with terminating := true } }, x)

/-- the allocator's ReleaseIPv4 -/
def release (s : M) (a : Nat) : M := { s with rel := bump s.rel a, owner := AMap.erase s.owner a }

/-- ReleaseIPv4 / ReleaseIPv6 as TerminateSession calls it: an error is logged and otherwise IGNORED (the allocator,
    like allocator.PoolAllocator and DistributedAllocator when their store fails, has changed nothing: the address
    stays handed out) — code as it is, finding KF-submgr-release-failed -/
def releaseCall (s : M) (a : Nat) : M := if s.relFails then { s with relf := bump s.relf a } else release s a

/-- second critical section: drop the indexes, delete the session, emit the terminate event -/
def tFinish (s : M) (n : Nat) (x : Sess) : M :=
  { s with byMac := AMap.erase s.byMac x.mac,
           byIp := match x.ip with
             | some a => AMap.erase s.byIp a
             | none => s.byIp,
           ended := bump s.ended n,
           sessions := AMap.erase s.sessions n }

inductive Op where
  | create (n mac : Nat)
  | assign (n : Nat)
  | term (n : Nat)                 -- a whole TerminateSession call
  | tbegin (tag n : Nat)           -- a TerminateSession call run up to the allocator call
  | tresume (tag : Nat)            -- the parked call runs to completion
  | abegin (tag n : Nat)           -- an AssignAddress call run up to (into) the allocator call
  | aresume (tag : Nat)            -- the allocator call returns and the held AssignAddress runs to its end
  | touch (n : Nat)                -- ActivateSession / SetWalledGarden / ClearWalledGarden: they write Session.State only
  | fault (on : Bool)              -- the allocator's release calls fail from now on / work again
  deriving Repr, DecidableEq

def step (s : M) : Op → M × Res
  | .create n mac => create s n mac
  | .assign n => assign s n
  | .term n =>
    if !s.calls.isEmpty then (s, .badop) else
    match tBegin s n with
    | .error r => (s, r)
    | .ok (s1, x) =>
      let s2 := match x.ip with
        | some a => releaseCall s1 a
        | none => s1
      (tFinish s2 n x, .ok)
  | .tbegin tag n =>
    if (AMap.lookup s.calls tag).isSome then (s, .badop) else
    match tBegin s n with
    | .error r => (s, r)
    | .ok (s1, x) =>
      match x.ip with
      | some a => ({ s1 with calls := AMap.insert s1.calls tag (n, a) }, .parked)
      | none => (tFinish s1 n x, .ok)
  | .touch n =>
    -- the termination mark is a flag of its own (fix ac0cfa4): nothing these calls write is part of this model
    if (AMap.lookup s.sessions n).isSome then (s, .ok) else (s, .notfound)
  | .fault on => ({ s with relFails := on }, .ok)
  | .abegin tag n =>
    if (AMap.lookup s.acalls tag).isSome then (s, .badop) else
    match AMap.lookup s.sessions n with
    | none => (s, .notfound)
    | some _ => ({ s with acalls := AMap.insert s.acalls tag n }, .parked)
  | .aresume tag =>
    match AMap.lookup s.acalls tag with
    | none => (s, .badop)
    | some n => assignLate { s with acalls := AMap.erase s.acalls tag } n
  | .tresume tag =>
    match AMap.lookup s.calls tag with
    | none => (s, .badop)
    | some (n, a) =>
      let s1 := releaseCall { s with calls := AMap.erase s.calls tag } a
      -- the call continues with the session object it looked up in `begin`
      match AMap.lookup s1.sessions n with
      | some x => (tFinish s1 n x, .ok)
      | none =>
        -- the object was already deleted by another caller: indexes are dropped again by value
        (tFinish s1 n { mac := 0, ip := some a, terminating := true }, .ok)

def run (s : M) (ops : List Op) : M := ops.foldl (fun st op => (step st op).1) s

/-- the session already holds an address (AssignAddress would hand it a second one) -/
def hasAddr (s : M) (n : Nat) : Bool :=
  match AMap.lookup s.sessions n with
  | some x => x.ip.isSome
  | none => false

/-- AssignAddress would hand a second address to a live session that already holds one (on a terminating
    session the new address is given straight back) -/
def reassigns (s : M) (n : Nat) : Bool :=
  match AMap.lookup s.sessions n with
  | some x => x.ip.isSome && !x.terminating
  | none => false

/-- the allocator call of AssignAddress returns for session `n`: does the manager hand the address straight back
    (a release call)? -/
def bounces (s : M) (n : Nat) : Bool :=
  (firstFree s.owner).isSome &&
    (match AMap.lookup s.sessions n with
      | none => true
      | some x => x.terminating)

/-- does the operation make the manager call the allocator's ReleaseIPv4 / ReleaseIPv6 in state `s`? -/
def relCalled (s : M) : Op → Bool
  | .term n =>
    s.calls.isEmpty &&
      (match tBegin s n with
        | .ok (_, x) => x.ip.isSome
        | .error _ => false)
  | .tresume tag => (AMap.lookup s.calls tag).isSome
  | .assign n => (AMap.lookup s.sessions n).isSome && bounces s n
  | .aresume tag =>
    (match AMap.lookup s.acalls tag with
      | some n => bounces s n
      | none => false)
  | _ => false

/-- the side condition of `Valid` for one operation -/
def okOp (s : M) (op : Op) : Prop :=
  (match op with
   | .assign n => reassigns s n = false
   | .aresume tag =>
     (match AMap.lookup s.acalls tag with
       | some n => reassigns s n = false
       | none => True)
   | _ => True) ∧
  (relCalled s op = true → s.relFails = false)

instance (s : M) (op : Op) : Decidable (okOp s op) := by
  unfold okOp
  cases op <;> simp only <;> try infer_instance
  all_goals (split <;> infer_instance)

/-- Histories in which (1) AssignAddress never hands a second address to a session that holds one: judged at the
    moment the allocator call returns (`assign`, `aresume`) — outside lies the recorded finding KF-submgr-reassign-leak
    (the first address is never released) — and (2) no release call the manager makes to the allocator FAILS — outside
    lies the recorded finding KF-submgr-release-failed (the manager forgets the address all the same).  Assignments
    racing a termination — in either order, at either unlock window — are INSIDE the set since the fix of
    KF-submgr-assign-race; so is a fault switch that is on while no release call is made. -/
def Valid : M → List Op → Prop
  | _, [] => True
  | s, op :: ops => okOp s op ∧ Valid (step s op).1 ops

instance decValid : (s : M) → (ops : List Op) → Decidable (Valid s ops)
  | _, [] => isTrue trivial
  | s, op :: ops =>
    have := decValid (step s op).1 ops
    by unfold Valid; infer_instance

end Bng.SubMgr
