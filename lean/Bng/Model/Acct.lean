import Bng.Map
import Bng.Model.AcctWire
/-
  Model of pkg/radius/accounting.go (AccountingManager) as a small-step machine.

  State = volatile {sessions, pending retry map, queue channel, program counter of the call in progress}
        + durable  {sessions/<id>.json files, pending.json, "sessions directory exists"}
        + radiusLog (the records the RADIUS server ACCEPTED, in order)
        + environment (the traffic counters the CounterFetcher returns, the record-id clock).

  Every API call of the manager is a `call` operation that performs the part of the Go function
  up to its first `verifCrashPoint` marker and leaves a `Frame` (program counter) in the volatile
  state; every following `tick ans` executes exactly the code between two consecutive markers, in
  the order of the Go source.  `ans` is the RADIUS server's answer (true = Accounting-Response,
  false = no answer/unreachable) and is consumed only by frames that transmit.  `crash` drops the
  volatile state at any point, i.e. between any two micro-steps of any call; `restart` is the
  recovery procedure of `Start()` (recoverOrphanedSessions), itself split at its markers.

  The frames carry the number of the marker that precedes them in accounting.go (`markerOf`), so the
  correspondence run checks that model micro-steps and code markers line up one to one.

  Mirrors the code AS IT IS after the fix commits for D23 (StopSession keeps the persisted session
  when the Stop was only queued; a queued Stop that is acknowledged removes it), D25
  (processPendingRecord skips a record that is no longer in the retry map) and the graceful-restart
  duplicate (drain removes the persisted session of an acknowledged Stop; recovery does not load a
  pending Stop of a session it just recovered from its file).  NOT fixed and modelled as they are:
  a queued Start can be overtaken by a Stop (D24); records queued by the recovery procedure are
  volatile again (KF-acct-recovery-volatile).

  Three threads: the API thread (`pc`, advanced by `tick`), the background processor (`ppc`, advanced by
  `ptick`) and the interim goroutine (`ipc`, advanced by `itick`); `deq`/`retry` start a processor step and
  `interim` puts an interim update in flight whenever the worker goroutines are alive (not during the
  recovery in Start(), not after Stop() has cancelled the workers), independently of the API call in
  progress, so every interleaving of the workers' micro-steps with those of an API call is a history: in
  particular StopSession can run to completion between an interim update's send and its acknowledgement.
  The server's answer to a request is three-valued (`Ans`): `up` = accepted and acknowledged, `down` = not
  received (the client sees an error), `lost` = accepted by the server but the client sees an error (reply
  lost or late).  `crashTorn` = a crash in the middle of the file write of a persist step (after the fix:
  temporary file + rename, the previous content survives).

  Not modelled: the retry *schedule* (NextRetry/back-off: `retry` retries every record of the map, as the
  code does once they are due), the interim ticker (an `interim` op is one due session), Acct-Session-Time,
  packet counters, queue-full logging, API calls overlapping each other.
  Ghost fields (history variables that no transition reads) are marked as such.
  Core Lean only.
-/
namespace Bng.Acct
open Bng

inductive Kind | start | interim | stop
  deriving DecidableEq, Repr

/-- the RADIUS server's answer to one request, as the two sides see it -/
inductive Ans
  | up      -- accepted, acknowledged to the client
  | down    -- never received; the client gets an error
  | lost    -- accepted by the server; the client gets an error (reply lost or late)
  deriving DecidableEq, Repr

/-- an Accounting-Request as the server sees it -/
structure Rec where
  kind   : Kind
  sid    : Nat
  ident  : Nat        -- stands for User-Name, Calling-Station-Id, Framed-IP-Address, NAS-Port, Class
  cause  : Nat        -- Acct-Terminate-Cause (0 = attribute absent)
  inOct  : UInt64
  outOct : UInt64
  deriving DecidableEq, Repr

/-- PendingAcctRecord -/
structure PRec where
  id      : Nat
  req     : Rec
  retries : Nat
  /-- ghost: queued or loaded by the recovery procedure -/
  viaRecovery : Bool
  deriving DecidableEq, Repr

/-- AccountingSession (the fields that reach the wire or the disk) -/
structure Sess where
  ident       : Nat
  stopPending : Bool
  stopCause   : Nat
  lastIn      : UInt64
  lastOut     : UInt64
  deriving DecidableEq, Repr

structure Cfg where
  maxRetries : Nat
  queueCap   : Nat
  deriving DecidableEq, Repr

/-- program counter of the call in progress; the comment is the marker that precedes the step -/
inductive Frame
  | startSend (s : Nat)                                   -- 1
  | startPersist (s : Nat)                                -- 2
  | stopPersist (s : Nat)                                 -- 3
  | stopSend (s : Nat)                                    -- 4
  | stopDelete (s : Nat) (acked : Bool)                   -- 5
  | stopRemove (s : Nat) (acked : Bool)                   -- 6
  | intSend (s ident : Nat) (i o : UInt64)                -- 17 (the session's identifiers and the counters are
                                                          --     captured before the marker)
  | procSend (id : Nat) (rest : List Nat)                 -- 7
  | procRemove (s : Nat) (rest : List Nat)                -- 8
  | drainSend (s : Nat) (rest : List Nat)                 -- 9
  | drainRemove (s : Nat) (rest : List Nat)               -- 19
  | persistPending                                        -- 11
  | recSend (s : Nat) (rest recd order : List Nat)        -- 13
  | recRemove (s : Nat) (rest recd order : List Nat)      -- 14
  | recLoad (recd order : List Nat)                       -- 15
  | recPendRemove                                         -- 16
  deriving DecidableEq, Repr

def markerOf : Frame → Nat
  | .startSend _ => 1 | .startPersist _ => 2 | .stopPersist _ => 3 | .stopSend _ => 4
  | .stopDelete _ _ => 5 | .stopRemove _ _ => 6 | .intSend _ _ _ _ => 17 | .procSend _ _ => 7
  | .procRemove _ _ => 8 | .drainSend _ _ => 9 | .drainRemove _ _ => 19 | .persistPending => 11
  | .recSend _ _ _ _ => 13 | .recRemove _ _ _ _ => 14 | .recLoad _ _ => 15 | .recPendRemove => 16

/-- frames whose step transmits a request (and therefore consumes a server answer) -/
def Frame.sends : Frame → Bool
  | .startSend _ | .stopSend _ | .intSend _ _ _ _ | .procSend _ _ | .drainSend _ _ | .recSend _ _ _ _ => true
  | _ => false

structure Vol where
  sessions : AMap Nat Sess := []
  pending  : List PRec := []        -- pendingRecords (keyed by PRec.id)
  queue    : List Nat := []         -- pendingQueue channel: record ids, head first
  pc       : Option Frame := none     -- the API call in progress
  ppc      : Option Frame := none     -- the processor step in progress (procSend / procRemove frames)
  ipc      : Option Frame := none     -- the interim update in flight (intSend frame; the interimLoop goroutine)
  deriving Repr

structure Dur where
  files   : AMap Nat Sess := []            -- sessions/<id>.json
  pfile   : Option (List PRec) := none     -- pending.json
  dirMade : Bool := false                  -- the sessions directory exists
  deriving Repr

/-- results of API calls -/
inductive Res | none | ok | exists_ | notfound | skip | empty | done | alive | dead | busy
  deriving DecidableEq, Repr

structure State where
  cfg   : Cfg
  up    : Bool := true              -- a manager instance is running
  vol   : Vol := {}
  dur   : Dur := {}
  log   : List Rec := []            -- accepted by the RADIUS server, oldest first
  clock : Nat := 0                  -- source of record ids (time.Now().UnixNano() in the code)
  ctr   : AMap Nat (UInt64 × UInt64) := []   -- environment: what the CounterFetcher returns
  res   : Res := .none              -- result of the last API call
  pres  : Res := .none              -- result of the last processor step
  ires  : Res := .none              -- result of the last interim step
  /-- ghost: what the current call processed at its transmit steps, in order -/
  ord   : List Nat := []
  /-- ghost: the records the current processor step transmitted, in order -/
  pord  : List Nat := []
  /-- ghost: for every entry of `log`, whether the client got the acknowledgement -/
  logAck : List Bool := []
  /-- ghost: sessions a Stop of which was acknowledged to the client -/
  ackedStops : List Nat := []
  /-- ghost: sessions for which the server accepted a Stop AFTER one had been acknowledged to the client -/
  dup : List Nat := []
  /-- ghost: every (session id, identifiers) StartSession registered -/
  registered : List (Nat × Nat) := []
  /-- ghost: sessions whose StartSession ran to completion -/
  started : List Nat := []
  /-- ghost: sessions whose Start could not be delivered by StartSession itself (clause of D24) -/
  startQueued : List Nat := []
  /-- ghost: sessions whose Stop was queued (send failed) or loaded by the recovery procedure
      (clause of KF-acct-recovery-volatile) -/
  recVol : List Nat := []
  /-- ghost: sessions one of whose Stop records was abandoned after MaxRetries failures -/
  abandoned : List Nat := []
  /-- ghost: sessions registered before the latest crash -/
  tainted : List Nat := []
  deriving Repr

def init (c : Cfg) : State := { cfg := c }

/-! ## helpers -/

def counters (σ : State) (s : Nat) : UInt64 × UInt64 :=
  match AMap.lookup σ.ctr s with
  | some v => v
  | none => (0, 0)

def findP (ps : List PRec) (id : Nat) : Option PRec := ps.find? (fun p => p.id == id)
def eraseP (ps : List PRec) (id : Nat) : List PRec := ps.filter (fun p => p.id != id)

def isStopOf (s : Nat) (r : Rec) : Bool := r.kind == .stop && r.sid == s
def isStartOf (s : Nat) (r : Rec) : Bool := r.kind == .start && r.sid == s

/-- the server accepted (and acknowledged) the request -/
def accept (σ : State) (r : Rec) (acked : Bool) : State :=
  { σ with
    log := σ.log ++ [r]
    logAck := σ.logAck ++ [acked]
    dup := if r.kind == .stop && σ.ackedStops.contains r.sid then r.sid :: σ.dup else σ.dup
    ackedStops := if acked && r.kind == .stop then r.sid :: σ.ackedStops else σ.ackedStops }

/-- queuePendingRecord: the record goes into the retry map and, if there is room, into the channel -/
def enqueue (σ : State) (r : Rec) (viaRec : Bool) : State :=
  let id := σ.clock + 1
  let p : PRec := { id := id, req := r, retries := 0, viaRecovery := viaRec }
  { σ with
    clock := id
    vol := { σ.vol with
      pending := p :: σ.vol.pending
      queue := if σ.vol.queue.length < σ.cfg.queueCap then σ.vol.queue ++ [id] else σ.vol.queue }
    startQueued := if r.kind == .start then r.sid :: σ.startQueued else σ.startQueued
    recVol := if viaRec && r.kind == .stop then r.sid :: σ.recVol else σ.recVol }

/-- `if err := SendAccounting(req); err != nil { queuePendingRecord(req) }` -/
def send (σ : State) (r : Rec) (ans : Ans) (viaRec : Bool) : State :=
  match ans with
  | .up => accept σ r true
  | .down => enqueue σ r viaRec
  | .lost => enqueue (accept σ r false) r viaRec

def setPc (σ : State) (pc : Option Frame) : State := { σ with vol := { σ.vol with pc := pc } }
def setPpc (σ : State) (pc : Option Frame) : State := { σ with vol := { σ.vol with ppc := pc } }
def setIpc (σ : State) (pc : Option Frame) : State := { σ with vol := { σ.vol with ipc := pc } }
def noteOrd (σ : State) (x : Nat) : State := { σ with ord := σ.ord ++ [x] }
def notePOrd (σ : State) (x : Nat) : State := { σ with pord := σ.pord ++ [x] }

/-- the first record of `ids` that is still in the retry map (the check at the top of processPendingRecord) -/
def nextProc (ps : List PRec) : List Nat → Option Frame
  | [] => none
  | id :: rest => if (findP ps id).isSome then some (.procSend id rest) else nextProc ps rest

def nextDrain : List Nat → Frame
  | [] => .persistPending
  | s :: rest => .drainSend s rest

def nextRec (recd order : List Nat) : List Nat → Frame
  | [] => .recLoad recd order
  | s :: rest => .recSend s rest recd order

def insertNat (x : Nat) : List Nat → List Nat
  | [] => [x]
  | y :: ys => if x ≤ y then x :: y :: ys else y :: insertNat x ys

def sortNat (xs : List Nat) : List Nat := xs.foldr insertNat []

/-- drop repeated entries (the first occurrence stays) -/
def dedupNat : List Nat → List Nat
  | [] => []
  | x :: xs => x :: (dedupNat xs).filter (fun y => y != x)

/-- `order` restricted to `keys`, followed by the keys it does not mention: the iteration order of a Go
    map is a parameter; a partial or wrong order is completed deterministically -/
def normalize (order keys : List Nat) : List Nat :=
  dedupNat (order.filter (fun k => keys.contains k) ++ keys)

/-- the loop at the end of recoverOrphanedSessions over the decoded pending.json -/
def loadPending (σ : State) (recd : List Nat) : List PRec → State
  | [] => σ
  | p :: ps =>
    if p.req.kind == .stop && recd.contains p.req.sid then loadPending σ recd ps
    else
      let σ' := { σ with
        vol := { σ.vol with
          pending := { p with viaRecovery := true } :: σ.vol.pending
          queue := if σ.vol.queue.length < σ.cfg.queueCap then σ.vol.queue ++ [p.id] else σ.vol.queue }
        recVol := if p.req.kind == .stop then p.req.sid :: σ.recVol else σ.recVol }
      loadPending σ' recd ps

def recOfIds (ps : List PRec) (ids : List Nat) : List PRec :=
  ids.filterMap (findP ps)

/-! ## micro-steps, one per marker -/

def tickStartSend (σ : State) (s : Nat) (ans : Ans) : State :=
  match AMap.lookup σ.vol.sessions s with
  | none => setPc σ none
  | some x =>
    let r : Rec := { kind := .start, sid := s, ident := x.ident, cause := 0, inOct := 0, outOct := 0 }
    setPc (send σ r ans false) (some (.startPersist s))

def persistSession (σ : State) (s : Nat) : State :=
  match AMap.lookup σ.vol.sessions s with
  | none => σ
  | some x => { σ with dur := { σ.dur with files := AMap.insert σ.dur.files s x, dirMade := true } }

/-- the last step of StartSession; `started` (ghost) records that the call ran to completion -/
def tickStartPersist (σ : State) (s : Nat) : State :=
  match AMap.lookup σ.vol.sessions s with
  | none => setPc σ none
  | some _ =>
    let σ := persistSession σ s
    setPc { σ with started := s :: σ.started } none

def tickStopPersist (σ : State) (s : Nat) : State :=
  setPc (persistSession σ s) (some (.stopSend s))

def stopRec (s : Nat) (x : Sess) (cause : Nat) (c : UInt64 × UInt64) : Rec :=
  { kind := .stop, sid := s, ident := x.ident, cause := cause, inOct := c.1, outOct := c.2 }

def tickStopSend (σ : State) (s : Nat) (ans : Ans) : State :=
  match AMap.lookup σ.vol.sessions s with
  | none => setPc σ none
  | some x =>
    setPc (send σ (stopRec s x x.stopCause (counters σ s)) ans false) (some (.stopDelete s (ans == .up)))

def tickStopDelete (σ : State) (s : Nat) (acked : Bool) : State :=
  setPc { σ with vol := { σ.vol with sessions := AMap.erase σ.vol.sessions s } } (some (.stopRemove s acked))

def removeFile (σ : State) (s : Nat) : State :=
  { σ with dur := { σ.dur with files := AMap.erase σ.dur.files s } }

def tickStopRemove (σ : State) (s : Nat) (acked : Bool) : State :=
  setPc (if acked then removeFile σ s else σ) none

/-- sendInterimUpdate from its marker on: the request was built from the session object and the counters the
    goroutine captured BEFORE the marker; it is sent whether or not the session is still registered (StopSession
    may have completed meanwhile); the acknowledged counters are written to the session object, which matters
    only while the session is still in the map -/
def tickIntSend (σ : State) (s ident : Nat) (i o : UInt64) (ans : Ans) : State :=
  let r : Rec := { kind := .interim, sid := s, ident := ident, cause := 0, inOct := i, outOct := o }
  match ans with
  | .up =>
    let σ := accept σ r true
    match AMap.lookup σ.vol.sessions s with
    | none => setIpc σ none
    | some x =>
      setIpc { σ with vol := { σ.vol with
        sessions := AMap.insert σ.vol.sessions s { x with lastIn := i, lastOut := o } } } none
  | .down => setIpc (enqueue σ r false) none
  | .lost => setIpc (enqueue (accept σ r false) r false) none

/-- the part of processPendingRecord after a send the client saw fail -/
def procFail (σ : State) (p : PRec) (id : Nat) (rest : List Nat) : State :=
  if p.retries + 1 ≥ σ.cfg.maxRetries then
    let σ := { σ with
      vol := { σ.vol with pending := eraseP σ.vol.pending id }
      abandoned := if p.req.kind == .stop then p.req.sid :: σ.abandoned else σ.abandoned }
    setPpc σ (nextProc σ.vol.pending rest)
  else
    let σ := { σ with vol := { σ.vol with
      pending := σ.vol.pending.map (fun q => if q.id == id then { q with retries := p.retries + 1 } else q) } }
    setPpc σ (nextProc σ.vol.pending rest)

def tickProcSend (σ : State) (id : Nat) (rest : List Nat) (ans : Ans) : State :=
  match findP σ.vol.pending id with
  | none => setPpc σ (nextProc σ.vol.pending rest)
  | some p =>
    let σ := notePOrd σ id
    match ans with
    | .up =>
      let σ := accept σ p.req true
      let σ := { σ with vol := { σ.vol with pending := eraseP σ.vol.pending id } }
      if p.req.kind == .stop then setPpc σ (some (.procRemove p.req.sid rest))
      else setPpc σ (nextProc σ.vol.pending rest)
    | .down => procFail σ p id rest
    | .lost => procFail (accept σ p.req false) p id rest

/-- the queued Stop was acknowledged: the persisted session is dropped -/
def tickProcRemove (σ : State) (s : Nat) (rest : List Nat) : State :=
  setPpc (removeFile σ s) (nextProc σ.vol.pending rest)

def tickDrainSend (σ : State) (s : Nat) (rest : List Nat) (ans : Ans) : State :=
  match AMap.lookup σ.vol.sessions s with
  | none => setPc σ (some (nextDrain rest))
  | some x =>
    let σ := noteOrd σ s
    let r := stopRec s x 11 (counters σ s)
    match ans with
    | .up => setPc (accept σ r true) (some (.drainRemove s rest))
    | .down => setPc (enqueue σ r false) (some (nextDrain rest))
    | .lost => setPc (enqueue (accept σ r false) r false) (some (nextDrain rest))

def tickDrainRemove (σ : State) (s : Nat) (rest : List Nat) : State :=
  setPc (removeFile σ s) (some (nextDrain rest))

/-- Stop() after the drain: the workers have been cancelled and are waited for (the step is blocked while a
    processor step or an interim update is in progress), then persistPendingRecords, then the process exits -/
def tickPersistPending (σ : State) : State :=
  if σ.vol.ppc.isSome || σ.vol.ipc.isSome then σ else
  let d := if σ.vol.pending.isEmpty then σ.dur else { σ.dur with pfile := some σ.vol.pending }
  { σ with dur := d, up := false, vol := {} }

def tickRecSend (σ : State) (s : Nat) (rest recd order : List Nat) (ans : Ans) : State :=
  match AMap.lookup σ.dur.files s with
  | none => setPc σ (some (nextRec recd order rest))
  | some x =>
    let cause := if x.stopCause = 0 then 11 else x.stopCause
    setPc (send σ (stopRec s x cause (x.lastIn, x.lastOut)) ans true) (some (.recRemove s rest recd order))

def tickRecRemove (σ : State) (s : Nat) (rest recd order : List Nat) : State :=
  setPc (removeFile σ s) (some (nextRec (s :: recd) order rest))

def tickRecLoad (σ : State) (recd order : List Nat) : State :=
  match σ.dur.pfile with
  | none => setPc σ none
  | some ps =>
    let ids := normalize order (ps.map (·.id))
    setPc (loadPending σ recd (recOfIds ps ids)) (some .recPendRemove)

def tickRecPendRemove (σ : State) : State :=
  setPc { σ with dur := { σ.dur with pfile := none } } none

/-- one micro-step of the API call in progress -/
def tick (σ : State) (ans : Ans) : State :=
  match σ.vol.pc with
  | none => σ
  | some (.startSend s) => tickStartSend σ s ans
  | some (.startPersist s) => tickStartPersist σ s
  | some (.stopPersist s) => tickStopPersist σ s
  | some (.stopSend s) => tickStopSend σ s ans
  | some (.stopDelete s a) => tickStopDelete σ s a
  | some (.stopRemove s a) => tickStopRemove σ s a
  | some (.intSend _ _ _ _) => σ
  | some (.procSend _ _) => σ
  | some (.procRemove _ _) => σ
  | some (.drainSend s rest) => tickDrainSend σ s rest ans
  | some (.drainRemove s rest) => tickDrainRemove σ s rest
  | some .persistPending => tickPersistPending σ
  | some (.recSend s rest recd order) => tickRecSend σ s rest recd order ans
  | some (.recRemove s rest recd order) => tickRecRemove σ s rest recd order
  | some (.recLoad recd order) => tickRecLoad σ recd order
  | some .recPendRemove => tickRecPendRemove σ

/-- one micro-step of the processor step in progress -/
def ptick (σ : State) (ans : Ans) : State :=
  match σ.vol.ppc with
  | some (.procSend id rest) => tickProcSend σ id rest ans
  | some (.procRemove s rest) => tickProcRemove σ s rest
  | _ => σ

/-- the interim update in flight -/
def itick (σ : State) (ans : Ans) : State :=
  match σ.vol.ipc with
  | some (.intSend s ident i o) => tickIntSend σ s ident i o ans
  | _ => σ

/-! ## calls: the part of each API function before its first marker -/

inductive Op
  | start (s ident : Nat)
  | ctr (s : Nat) (i o : UInt64)       -- environment: the traffic counters change
  | interim (s : Nat)
  | stop (s cause : Nat)
  | deq                                -- processor: `case record := <-am.pendingQueue`
  | retry (order : List Nat)           -- processor: retry ticker; `order` = map iteration order
  | shutdown (order : List Nat)        -- Stop(); `order` = order in which the drain goroutines send
  | crash
  | restart (order : List Nat)         -- new manager + Start(); `order` = iteration order of pending.json
  | crashTorn                          -- crash in the middle of the file write of a persist step
  | tick (ans : Ans)                   -- one micro-step of the API call in progress
  | ptick (ans : Ans)                  -- one micro-step of the processor step in progress
  | itick (ans : Ans)                  -- the interim update in flight is sent and answered
  deriving Repr

/-- a call can begin only on a running instance with no call in progress -/
def ready (σ : State) : Bool := σ.up && σ.vol.pc.isNone

def begin (σ : State) (r : Res) : State := { σ with res := r, ord := [] }
def pbegin (σ : State) (r : Res) : State := { σ with pres := r, pord := [] }
def ibegin (σ : State) (r : Res) : State := { σ with ires := r }

/-- the processor goroutine exists: Start() has finished the recovery, Stop() has not yet cancelled it -/
def procAlive : Option Frame → Bool
  | some (.recSend _ _ _ _) | some (.recRemove _ _ _ _) | some (.recLoad _ _) | some .recPendRemove => false
  | some .persistPending => false
  | _ => true

def callStart (σ : State) (s ident : Nat) : State :=
  if (AMap.lookup σ.vol.sessions s).isSome then begin σ .exists_
  else
    let x : Sess := { ident := ident, stopPending := false, stopCause := 0, lastIn := 0, lastOut := 0 }
    let σ := begin σ .ok
    setPc { σ with
      vol := { σ.vol with sessions := AMap.insert σ.vol.sessions s x }
      registered := (s, ident) :: σ.registered } (some (.startSend s))

def callStop (σ : State) (s cause : Nat) : State :=
  match AMap.lookup σ.vol.sessions s with
  | none => begin σ .notfound
  | some x =>
    let σ := begin σ .ok
    setPc { σ with vol := { σ.vol with
      sessions := AMap.insert σ.vol.sessions s { x with stopPending := true, stopCause := cause } } }
      (some (.stopPersist s))

/-- the interim goroutine picks a due session that is not being stopped, fetches its counters and reaches the
    marker in front of the send -/
def callInterim (σ : State) (s : Nat) : State :=
  match AMap.lookup σ.vol.sessions s with
  | none => ibegin σ .skip
  | some x =>
    if x.stopPending then ibegin σ .skip
    else setIpc (ibegin σ .ok) (some (.intSend s x.ident (counters σ s).1 (counters σ s).2))

def callDeq (σ : State) : State :=
  match σ.vol.queue with
  | [] => pbegin σ .empty
  | id :: q =>
    let σ := pbegin σ .done
    setPpc { σ with vol := { σ.vol with queue := q } } (nextProc σ.vol.pending [id])

def callRetry (σ : State) (order : List Nat) : State :=
  let ids := normalize order (σ.vol.pending.map (·.id))
  setPpc (pbegin σ .done) (nextProc σ.vol.pending ids)

def callShutdown (σ : State) (order : List Nat) : State :=
  let ss := normalize order (AMap.keys σ.vol.sessions)
  setPc (begin σ .ok) (some (nextDrain ss))

def crash (σ : State) : State :=
  { σ with up := false, vol := {}, tainted := σ.registered.map (·.1) ++ σ.tainted }

/-- what a crash in the middle of a persist step's file write leaves behind: the sessions directory exists;
    the file itself keeps its previous content (temporary file + rename) -/
def tornEffect (σ : State) : State :=
  match σ.vol.pc with
  | some (.startPersist s) | some (.stopPersist s) =>
    if (AMap.lookup σ.vol.sessions s).isSome then { σ with dur := { σ.dur with dirMade := true } } else σ
  | _ => σ

def callRestart (σ : State) (order : List Nat) : State :=
  let σ := begin { σ with up := true, vol := {} } .ok
  if σ.dur.dirMade then setPc σ (some (nextRec [] order (sortNat (AMap.keys σ.dur.files))))
  else σ

def step (σ : State) : Op → State
  | .tick ans => tick σ ans
  | .ptick ans => ptick σ ans
  | .itick ans => itick σ ans
  | .crash => crash σ
  | .crashTorn => crash (tornEffect σ)
  | .ctr s i o => { σ with ctr := AMap.insert σ.ctr s (i, o) }
  | .restart order => if σ.up then { σ with res := .alive } else callRestart σ order
  | .deq =>
    if !σ.up || !procAlive σ.vol.pc then { σ with pres := .dead }
    else if σ.vol.ppc.isSome then { σ with pres := .busy }
    else callDeq σ
  | .retry order =>
    if !σ.up || !procAlive σ.vol.pc then { σ with pres := .dead }
    else if σ.vol.ppc.isSome then { σ with pres := .busy }
    else callRetry σ order
  | .interim s =>
    if !σ.up || !procAlive σ.vol.pc then { σ with ires := .dead }
    else if σ.vol.ipc.isSome then { σ with ires := .busy }
    else callInterim σ s
  | op =>
    if !σ.up then { σ with res := .dead }
    else if σ.vol.pc.isSome then { σ with res := .busy }
    else match op with
      | .start s ident => callStart σ s ident
      | .stop s cause => callStop σ s cause
      | .shutdown order => callShutdown σ order
      | _ => σ

def run (σ : State) : List Op → State
  | [] => σ
  | op :: ops => run (step σ op) ops

end Bng.Acct
