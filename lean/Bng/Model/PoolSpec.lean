import Bng.Map
/-
  The abstract specification every address/prefix pool is judged against (C01, C05):
  a partial map  subscriber ↦ value  reconstructed from API observations only.

  `check` consumes one observed event and reports which clause of the property it breaks.
  The same definition is (a) run by `bngdrv` on the IMPLEMENTATION's observations and
  (b) the subject of the refinement theorems in Bng/Spec (it never fires on a model trace).
  Core Lean only.
-/
namespace Bng.PoolSpec
open Bng

structure Geo where
  lo    : Nat          -- numeric value of the first unit
  step  : Nat          -- distance between units
  units : Nat          -- number of usable units
  totalReported : Nat  -- what Stats() must report as total
  deriving Repr

abbrev Mon := AMap Nat Nat   -- subscriber ↦ value

inductive Ev where
  | got (k a : Nat)                  -- the pool told k that it holds a (allocate / renew / re-ask)
  | forced (k a : Nat)               -- a replayed/forced assignment was accepted
  | released (k : Nat)               -- k's holding was released
  | releasedVal (a : Nat)            -- whoever holds a was released
  | notHeld (k : Nat)                -- the pool claims k holds nothing
  | exhausted                        -- an allocation failed with "pool exhausted"
  | looked (k : Nat) (r : Option Nat)   -- forward lookup result
  | owner (a : Nat) (r : Option Nat)    -- reverse lookup result
  | stats (alloc total : Nat)
  | listing (l : List (Nat × Nat))      -- all (subscriber, value), sorted by subscriber
  | nop
  deriving Repr

def holderOf (m : Mon) (a : Nat) : Option Nat :=
  match m.find? (fun p => p.2 == a) with
  | some p => some p.1
  | none => none

def inRange (g : Geo) (a : Nat) : Bool :=
  decide (g.lo ≤ a) && (g.step == 0 || ((a - g.lo) % g.step == 0 && decide ((a - g.lo) / g.step < g.units)))

def insertSorted (p : Nat × Nat) : List (Nat × Nat) → List (Nat × Nat)
  | [] => [p]
  | q :: rest => if p.1 ≤ q.1 then p :: q :: rest else q :: insertSorted p rest

def sorted (m : Mon) : List (Nat × Nat) := m.foldl (fun acc p => insertSorted p acc) []

/-- one verdict = (clause name, detail) -/
abbrev Verdict := String × String

def checkGot (g : Geo) (m : Mon) (k a : Nat) (strictIdem : Bool) : List Verdict :=
  (if inRange g a then [] else [("range", s!"value {a} outside pool")]) ++
  (match m.lookup k with
    | some a' => if strictIdem && a' ≠ a then [("idempotent", s!"s{k} held {a'} and was given {a}")] else []
    | none => []) ++
  (match holderOf (m.erase k) a with
    | some k' => [("unique", s!"value {a} given to s{k} while held by s{k'}")]
    | none => [])

def check (g : Geo) (m : Mon) : Ev → Mon × List Verdict
  | .got k a => (m.insert k a, checkGot g m k a true)
  | .forced k a => (m.insert k a, checkGot g m k a false)
  | .released k => (m.erase k, [])
  | .releasedVal a =>
    (match holderOf m a with
      | some k => m.erase k
      | none => m, [])
  | .notHeld k =>
    (m, match m.lookup k with
      | some a => [("lost", s!"s{k} was given {a}, never released, and is now unknown")]
      | none => [])
  | .exhausted =>
    (m, if m.length < g.units then
          [("exhaustion", s!"exhausted reported with {m.length} of {g.units} units held")] else [])
  | .looked k r =>
    (m, if m.lookup k = r then [] else [("agree", s!"lookup of s{k} disagrees with what was handed out")])
  | .owner a r =>
    (m, if holderOf m a = r then [] else [("agree", s!"reverse lookup of {a} disagrees with what was handed out")])
  | .stats al tot =>
    (m, (if al = m.length then [] else [("count", s!"reported allocated={al}, true={m.length}")]) ++
        (if tot = g.totalReported then [] else [("total", s!"reported total={tot}, true={g.totalReported}")]))
  | .listing l =>
    -- `l` comes out of a map (distinct subscribers): equal as sets iff same size and every entry agrees
    (m, if l.length = m.length ∧ l.all (fun p => m.lookup p.1 == some p.2) then []
        else [("agree", "listing disagrees with what was handed out")])
  | .nop => (m, [])

end Bng.PoolSpec
