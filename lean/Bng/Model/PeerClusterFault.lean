import Bng.Model.PeerCluster
/-
  The PeerPool cluster when the RESPONSE of a forwarded request can be lost (review r-gaps C7).

  pkg/pool/peer.go forwardAllocation / forwardRelease: `httpClient.Do`, the status check and the JSON decode can each
  fail AFTER the peer's handler ran (handleAllocate → allocateLocal, handleRelease → releaseLocal).  The peer's
  local pool has changed; the requester returns an error and knows nothing.  For a release that is harmless (the
  address is free, a retry is the identity).  For an allocation the peer now holds an address for a subscriber that
  was never told — LocalPool has no expiry, so it stays until somebody asks again for the same subscriber (the
  repeated request is idempotent at the peer and heals it) or releases it: recorded finding KF-peerpool-lost-response.

  This layer keeps, next to the cluster state, the fault that is armed (`fault resp|status|body on|once`; `body` =
  a truncated JSON body, which only an allocation decodes), what requesters have been TOLD (`told`: (node, subscriber)
  ↦ address, the monitor's book), and `pending`: the (node, subscriber) pairs for which the node allocated in a
  request whose answer was lost and nobody has been told or has released since.  The cluster state itself always moves
  by `PeerCluster.step` (the peer handled the request), so every theorem about cluster histories carries over
  (`Spec.C05ClusterFault.fault_projects`).  Core Lean only.
-/
namespace Bng.PeerClusterFault
open Bng Bng.PeerCluster

inductive Kind where | resp | status | body
  deriving Repr, DecidableEq

structure Fault where
  kind : Kind
  once : Bool
  deriving Repr, DecidableEq

structure FState where
  s : State
  fault : Option Fault
  told : AMap (Nat × Nat) Nat
  pending : List (Nat × Nat)
  deriving Repr

inductive FOp where
  | plain (op : Op)
  | setFault (f : Option Fault)
  /-- k concurrent Allocate calls of one subscriber: one allocate (`burst_equals_single_allocate`); the harness
      suspends the response fault for the burst -/
  | burst (i k : Nat) (ranked : List Nat)
  deriving Repr, DecidableEq

inductive FObs where
  | plain (o : Obs)
  /-- the peer j handled the request, the requester got an error -/
  | lost (j : Nat)
  | ok
  deriving Repr, DecidableEq

def init (c : FreeList.Cfg) (n : Nat) : FState :=
  { s := PeerCluster.init c n, fault := none, told := [], pending := [] }

/-- does the armed fault break this kind of forwarded request? -/
def hits (f : Option Fault) (isAlloc : Bool) : Bool :=
  match f with
  | none => false
  | some f => f.kind != .body || isAlloc

def spent (f : Option Fault) : Option Fault :=
  match f with
  | some f => if f.once then none else some f
  | none => none

/-- the books after node j answered an allocation for k with `o` -/
def bookAlloc (fs : FState) (k : Nat) (o : Obs) (delivered : Bool) : AMap (Nat × Nat) Nat × List (Nat × Nat) :=
  match o with
  | .served j (.okAddr a) =>
    if delivered then (AMap.insert fs.told (j, k) a, fs.pending.filter (· ≠ (j, k)))
    else if AMap.lookup fs.told (j, k) = some a then (fs.told, fs.pending)   -- a repeated request: the subscriber knows
    else if fs.pending.contains (j, k) then (fs.told, fs.pending)
    else (fs.told, (j, k) :: fs.pending)
  | _ => (fs.told, fs.pending)

/-- the books after node j handled a release of k (whether or not the answer arrived: the address is free there) -/
def bookRelease (fs : FState) (k : Nat) (o : Obs) : AMap (Nat × Nat) Nat × List (Nat × Nat) :=
  match o with
  | .served j _ => (AMap.erase fs.told (j, k), fs.pending.filter (· ≠ (j, k)))
  | _ => (fs.told, fs.pending)

def stepF (fs : FState) : FOp → FState × FObs
  | .setFault f => ({ fs with fault := f }, .ok)
  | .burst i k ranked =>
    let r := step fs.s (.alloc i k ranked)
    let b := bookAlloc fs k r.2 true
    ({ fs with s := r.1, told := b.1, pending := b.2 }, .plain r.2)
  | .plain (.alloc i k ranked) =>
    let r := step fs.s (.alloc i k ranked)
    let j := healthyOwner fs.s i ranked
    if j ≠ i ∧ hits fs.fault true = true then
      let b := bookAlloc fs k r.2 false
      ({ s := r.1, fault := spent fs.fault, told := b.1, pending := b.2 }, .lost j)
    else
      let b := bookAlloc fs k r.2 true
      ({ fs with s := r.1, told := b.1, pending := b.2 }, .plain r.2)
  | .plain (.release i k ranked) =>
    let r := step fs.s (.release i k ranked)
    let j := healthyOwner fs.s i ranked
    let b := bookRelease fs k r.2
    if j ≠ i ∧ hits fs.fault false = true then
      ({ s := r.1, fault := spent fs.fault, told := b.1, pending := b.2 }, .lost j)
    else
      ({ fs with s := r.1, told := b.1, pending := b.2 }, .plain r.2)
  | .plain op =>
    let r := step fs.s op
    ({ fs with s := r.1 }, .plain r.2)

def runF (fs : FState) (fops : List FOp) : FState := fops.foldl (fun st op => (stepF st op).1) fs

/-- the cluster operation the peer(s) executed for a line of this layer -/
def baseOp : FOp → Option Op
  | .plain op => some op
  | .setFault _ => none
  | .burst i k ranked => some (.alloc i k ranked)

def project (fops : List FOp) : List Op := fops.filterMap baseOp

/-- the books agree with the nodes: outside `pending`, a subscriber holds at a node exactly what its requester was told -/
def Agree (fs : FState) : Prop :=
  ∀ j k, (j, k) ∉ fs.pending → heldAt fs.s j k = AMap.lookup fs.told (j, k)

end Bng.PeerClusterFault
