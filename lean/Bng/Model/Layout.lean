/-
  C06 — vocabulary of the layout tables (`Bng/Gen/Layout.lean`, regenerated from /repo on every run by
  harness/cmd/extractlayout) and the executable meaning of "the Go image and the C record agree".

  Core Lean only (linked into `bngdrv-layout`).

  A `Struct` is a FLATTENED record: nested records are expanded, every leaf field carries its byte offset
  from the start of the outermost record, its total width and its kind.
    C side : what `clang -fdump-record-layouts` printed (x86-64: same integer widths and alignment
             rules as the BPF target for the types used; little-endian).
    Go side: what `encoding/binary` / cilium's `sysenc.Marshal` writes: fields in declaration order,
             blank fields included as zero bytes, NO implicit padding, little-endian.
-/
namespace Bng.Layout

/-- signedness-free kind of a leaf field -/
inductive Kind where
  /-- one integer occupying the whole field (`width` ∈ {1,2,4,8}) -/
  | int
  /-- a byte array of `width` bytes -/
  | bytes
  /-- an array of `elem`-byte integers, `width / elem` of them -/
  | arr (elem : Nat)
deriving DecidableEq, Repr, Inhabited

structure Field where
  /-- dotted path of the leaf (`block.public_ip`, `Block.PublicIP`) -/
  name : String
  /-- leaf name, lower-cased, underscores removed; `_` for blank / `_pad*` fields -/
  norm : String
  off : Nat
  width : Nat
  kind : Kind
deriving DecidableEq, Repr, Inhabited

structure Struct where
  name : String
  size : Nat
  fields : List Field
deriving DecidableEq, Repr, Inhabited

/-- a kernel map declared in bpf/*.c / maps.h -/
structure CMap where
  name : String
  /-- `BPF_MAP_TYPE_` suffix: HASH, ARRAY, PERCPU_ARRAY, LRU_HASH, LPM_TRIE, RINGBUF, PERF_EVENT_ARRAY -/
  type : String
  typeNum : Nat
  keySize : Nat
  valSize : Nat
  keyType : String
  valType : String
  /-- number of `&name` references in the C sources (0 = no kernel program touches the map) -/
  refs : Nat
deriving DecidableEq, Repr, Inhabited

/-- one `Put/Update/Lookup/Delete/LookupAndDelete/Next` call on a `*ebpf.Map` in the Go code -/
structure MapUse where
  /-- kernel map name the handle is bound to by `coll.Maps["…"]` -/
  map : String
  mapType : String
  /-- key/value sizes of the C declaration (what the kernel map is created with) -/
  cKeySize : Nat
  cValSize : Nat
  op : String
  site : String
  /-- the Go map handle (`pkg.Type.field`) the call is made on -/
  handle : String
  goKey : Struct
  /-- static Go type of the value argument (`none` for Delete) -/
  goVal : Option Struct
  /-- the value argument is a (pointer to a) slice of that type — required for per-CPU maps -/
  goValSlice : Bool
  cKey : Struct
  cVal : Struct
deriving Repr, Inhabited

structure EventPair where
  goName : String
  cName : String
  via : String
  map : String
  go : Struct
  c : Struct
deriving Repr, Inhabited

/-! ## agreement -/

/-- kinds are compatible when equal, or when Go holds a BYTE ARRAY where C declares an integer of the same
    width: the image of a byte array is its memory order whatever the endianness, which is how the Go side
    writes a field that the C program uses as raw network-order bytes (every such leaf is pinned by
    `Spec.C06.byte_array_for_integer_leaves`; its byte order is judged by the byte-level check) -/
def kindCompat (g c : Kind) : Bool :=
  g == c || (g == .bytes && c == .int)

def fieldAgrees (g c : Field) : Bool :=
  g.off == c.off && g.width == c.width && kindCompat g.kind c.kind

/-- the data leaves where Go uses a byte array for a C integer -/
def bytesForInt : List Field → List Field → List (String × String)
  | g :: gs, c :: cs => (if g.kind == .bytes && c.kind == .int then [(g.name, c.name)] else []) ++ bytesForInt gs cs
  | _, _ => []

/-- pairwise agreement of two field lists of the same length -/
def fieldsAgree : List Field → List Field → Bool
  | [], [] => true
  | g :: gs, c :: cs => fieldAgrees g c && fieldsAgree gs cs
  | _, _ => false

/-- the leaves that carry data: blank Go fields (`_`) and C `_pad*` members are padding -/
def named (fs : List Field) : List Field := fs.filter fun f => f.norm != "_"

/-- same total size, same number of data leaves, pairwise equal offset, width and kind.
    Padding is compared through the total size and the offsets of the data leaves only: a C record that
    is not `packed` has IMPLICIT padding which the Go mirror must spell out as blank fields, so the two
    sides legitimately differ in the number of padding members. -/
def agrees (g c : Struct) : Bool :=
  g.size == c.size && fieldsAgree (named g.fields) (named c.fields)

def overlaps (a b : Field) : Bool :=
  decide (a.off < b.off + b.width) && decide (b.off < a.off + a.width)

/-- a leaf that is dropped from the comparison as padding on one side is padding on the other side as well:
    it overlaps no DATA leaf there (it lies over explicit or implicit padding) -/
def padsClear (g c : Struct) : Bool :=
  (g.fields.filter fun f => f.norm == "_").all (fun p => (named c.fields).all fun d => !overlaps p d) &&
  (c.fields.filter fun f => f.norm == "_").all (fun p => (named g.fields).all fun d => !overlaps p d)

def padsClearOpt (g : Option Struct) (c : Struct) : Bool :=
  match g with
  | none => true
  | some g => padsClear g c

/-- a value argument agrees (a Delete has none) -/
def agreesOpt (g : Option Struct) (c : Struct) : Bool :=
  match g with
  | none => true
  | some g => agrees g c

/-- pairwise equal normalised leaf names (guards against two same-width fields being swapped) -/
def namesAgree : List Field → List Field → Bool
  | [], [] => true
  | g :: gs, c :: cs => (g.norm == c.norm || g.norm == "*" || c.norm == "*") && namesAgree gs cs
  | _, _ => false

/-- agreement of an event record: every Go field is where the C program writes it; the C record may
    be longer only by trailing padding (the reader takes a prefix of the sample) -/
def agreesPrefix (g c : Struct) : Bool :=
  decide (g.size ≤ c.size) && fieldsAgree (named g.fields) (named c.fields) &&
  (named c.fields).all (fun f => decide (f.off + f.width ≤ g.size))

/-- first leaf at which the two records differ: (index, go field, c field, what) -/
def firstDisagreement : Nat → List Field → List Field → Option (Nat × String × String × String)
  | _, [], [] => none
  | i, g :: gs, c :: cs =>
    if g.off != c.off then some (i, g.name, c.name, "offset")
    else if g.width != c.width then some (i, g.name, c.name, "width")
    else if !kindCompat g.kind c.kind then some (i, g.name, c.name, "kind")
    else firstDisagreement (i + 1) gs cs
  | i, g :: _, [] => some (i, g.name, "-", "count")
  | i, [], c :: _ => some (i, "-", c.name, "count")

/-! ## byte images -/

/-- overwrite `bs` from offset `off` with `v` (bytes that fall outside `bs` are dropped) -/
def writeAt : List UInt8 → Nat → List UInt8 → List UInt8
  | bs, _, [] => bs
  | [], _, _ => []
  | _ :: bs, 0, v :: vs => v :: writeAt bs 0 vs
  | b :: bs, off + 1, vs => b :: writeAt bs off vs

/-- `w` bytes of `n`, least significant first -/
def leBytes : Nat → Nat → List UInt8
  | 0, _ => []
  | w + 1, n => UInt8.ofNat (n % 256) :: leBytes w (n / 256)

/-- value of `w` little-endian bytes -/
def leVal : List UInt8 → Nat
  | [] => 0
  | b :: bs => b.toNat + 256 * leVal bs

/-- force a byte string to exactly `w` bytes (truncate / zero-extend) -/
def fit (w : Nat) (v : List UInt8) : List UInt8 :=
  (v ++ List.replicate w 0).take w

/-- lay field contents out according to (offset, width) pairs into a zeroed record of `size` bytes;
    `vals[i]` is the content of field `i` as raw bytes -/
def imageOf (size : Nat) : List (Nat × Nat) → List (List UInt8) → List UInt8
  | [], _ => List.replicate size 0
  | _, [] => List.replicate size 0
  | (off, w) :: fs, v :: vs => writeAt (imageOf size fs vs) off (fit w v)

/-- (offset, width) of the data leaves -/
def Struct.places (s : Struct) : List (Nat × Nat) := (named s.fields).map fun f => (f.off, f.width)

/-- the bytes of a record of type `s` whose `i`-th DATA leaf holds `vals[i]`; padding is zero (Go writes
    blank fields as zero bytes; the C programs zero-initialise) -/
def image (s : Struct) (vals : List (List UInt8)) : List UInt8 :=
  imageOf s.size s.places vals

/-- bytes `[off, off+w)` of `bs` -/
def slice (bs : List UInt8) (off w : Nat) : List UInt8 := (bs.drop off).take w

/-- what a reader using layout `s` finds in data leaf `i` of the byte string `bs` -/
def readField (s : Struct) (i : Nat) (bs : List UInt8) : List UInt8 :=
  match (named s.fields)[i]? with
  | some f => slice bs f.off f.width
  | none => []

/-- leaves lie inside the record, in increasing order, without overlap -/
def wellFormedFrom : Nat → Nat → List Field → Bool
  | lo, size, [] => decide (lo ≤ size)
  | lo, size, f :: fs => decide (lo ≤ f.off) && wellFormedFrom (f.off + f.width) size fs

def Struct.wellFormed (s : Struct) : Bool := wellFormedFrom 0 s.size s.fields

end Bng.Layout
