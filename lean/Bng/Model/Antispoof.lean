import Bng.Map
import Bng.Model.TokenBucket
/-
  Model of source-address validation (C18):

  * `run`       — `antispoof_ingress` of bpf/antispoof.c, byte level: the frame is a byte list, every load is
                  preceded by the length test the C makes, the maps are byte tables
                  (`subscriber_bindings`: 8 key bytes ↦ 24 value bytes, `antispoof_config`: the 8 bytes of slot 0,
                  `allowed_ranges_v4`: LPM trie with the kernel's longest-prefix semantics).
  * `newManager`, `setMode`, `addBinding`, `addBindingV6`, `removeBinding`, `addAllowedRange`
                — pkg/antispoof/manager.go as writers of map BYTES (cilium marshals integers little-endian).

  Core Lean only (linked into bngdrv).  Little-endian host, as on the target.
-/
namespace Bng.Antispoof
open Bng
open Bng.TokenBucket (Bytes leBytes leNat)

/-- big-endian value of a byte string -/
def beNat (bs : Bytes) : Nat := bs.foldl (fun acc b => acc * 256 + b.toNat) 0

def zeros (n : Nat) : Bytes := List.replicate n 0

/-! ## map contents -/

/-- `struct subscriber_binding` as it lies in memory (24 bytes) -/
structure Binding where
  /-- the four bytes of `ipv4_addr` in memory order (the `__u32` is their little-endian value) -/
  addr4 : Bytes := zeros 4
  addr6 : Bytes := zeros 16
  valid4 : UInt8 := 0
  valid6 : UInt8 := 0
  mode : UInt8 := 0
  pad : UInt8 := 0
deriving DecidableEq, Repr

def fit (n : Nat) (bs : Bytes) : Bytes := (bs ++ zeros n).take n

def Binding.encode (b : Binding) : Bytes :=
  fit 4 b.addr4 ++ fit 16 b.addr6 ++ [b.valid4, b.valid6, b.mode, b.pad]

def Binding.decode (v : Bytes) : Option Binding :=
  if v.length = 24 then
    some { addr4 := v.take 4, addr6 := (v.drop 4).take 16, valid4 := (v.drop 20).headD 0,
           valid6 := (v.drop 21).headD 0, mode := (v.drop 22).headD 0, pad := (v.drop 23).headD 0 }
  else none

structure Maps where
  bindings : AMap Bytes Bytes := []
  /-- slot 0 of `antispoof_config` (arrays are zero-filled): default_mode, log_violations, 6 pad bytes -/
  config : Bytes := zeros 8
  /-- `allowed_ranges_v4`: key = prefixlen (4 bytes LE) ++ 4 address bytes, value = 1 byte -/
  ranges : AMap Bytes Bytes := []

/-! ## LPM trie (kernel/bpf/lpm_trie.c semantics for 32 data bits) -/

/-- the first `n ≤ 32` bits of two 4-byte strings agree (bits counted from the most significant bit of byte 0) -/
def prefixMatch (n : Nat) (a b : Bytes) : Bool :=
  decide (n ≤ 32) && decide (beNat (fit 4 a) / 2 ^ (32 - n) = beNat (fit 4 b) / 2 ^ (32 - n))

def prefixLen (key : Bytes) : Nat := leNat (key.take 4)

/-- the same trie node: equal prefix length and equal bits under it -/
def sameNode (k1 k2 : Bytes) : Bool :=
  decide (prefixLen k1 = prefixLen k2) && prefixMatch (prefixLen k1) (k1.drop 4) (k2.drop 4)

/-- entries that match `data` with a prefix length of at most `want`: the longest wins -/
def lpmBest (want : Nat) (data : Bytes) : AMap Bytes Bytes → Option (Nat × Bytes)
  | [] => none
  | (k, v) :: rest =>
    let r := lpmBest want data rest
    if prefixLen k ≤ want ∧ prefixMatch (prefixLen k) (k.drop 4) data = true then
      match r with
      | some (bp, bv) => if bp ≥ prefixLen k then some (bp, bv) else some (prefixLen k, v)
      | none => some (prefixLen k, v)
    else r

/-- `bpf_map_lookup_elem(&allowed_ranges_v4, &key)` -/
def lpmLookup (ranges : AMap Bytes Bytes) (key : Bytes) : Option Bytes :=
  if prefixLen key > 32 then none else (lpmBest (prefixLen key) (key.drop 4) ranges).map (·.2)

/-- update of the trie: a node with the same prefix is replaced -/
def lpmInsert (ranges : AMap Bytes Bytes) (k v : Bytes) : AMap Bytes Bytes :=
  (k, v) :: ranges.filter (fun e => !sameNode e.1 k)

/-! ## `antispoof_ingress` -/

def TC_ACT_OK : Nat := 0
def TC_ACT_SHOT : Nat := 2

def DISABLED : UInt8 := 0
def STRICT : UInt8 := 1
def LOOSE : UInt8 := 2
def LOG_ONLY : UInt8 := 3

/-- key of `subscriber_bindings` for the frame's source MAC: `mac_to_u64(eth->h_source)` stored as `__u64` -/
def macKeyOfFrame (frame : Bytes) : Bytes := leBytes 8 (beNat ((frame.drop 6).take 6))

/-- `ip_in_allowed_range(src_ip)` : key `{prefixlen = 32, ip = src_ip}` (the source address in wire order) -/
def inAllowedRange (m : Maps) (src : Bytes) : Bool :=
  (lpmLookup m.ranges (leBytes 4 32 ++ src)).isSome

structure Res where
  ret : Nat
  /-- perf events emitted (violation log) -/
  events : Nat := 0
deriving DecidableEq, Repr

/-- `antispoof_ingress` after the Ethernet bounds check, given the binding found for the source MAC and the
    mode in force (`binding ? binding->mode : default_mode`) -/
def runBody (m : Maps) (frame : Bytes) (binding : Option Binding) (mode : UInt8) : Res :=
  let logViolations := (m.config.drop 1).headD 0
  if mode = DISABLED then { ret := TC_ACT_OK } else
  let ethertype := (frame.drop 12).take 2
  if ethertype = [0x08, 0x00] then
    if frame.length < 34 then { ret := TC_ACT_OK } else            -- (ip + 1) > data_end
    let src := (frame.drop 26).take 4                              -- ip->saddr, wire order
    let allowed : Bool :=
      if mode = LOOSE then inAllowedRange m src
      else match binding with
        | some b =>
          if b.valid4 ≠ 0 then
            if mode = STRICT ∨ mode = LOG_ONLY then
              -- bpf_ntohl(src_ip) == binding->ipv4_addr  (both as 32-bit integers)
              decide (leNat src.reverse = leNat b.addr4)
            else false
          else false
        | none => false
    if !allowed then
      let ev := if logViolations ≠ 0 then 1 else 0
      if mode = LOG_ONLY then { ret := TC_ACT_OK, events := ev } else { ret := TC_ACT_SHOT, events := ev }
    else { ret := TC_ACT_OK }
  else if ethertype = [0x86, 0xdd] then
    if frame.length < 54 then { ret := TC_ACT_OK } else            -- (ip6 + 1) > data_end
    let src := (frame.drop 22).take 16                             -- ip6->saddr
    let allowed : Bool :=
      match binding with
      | some b => if b.valid6 ≠ 0 then decide (src = b.addr6) else decide (mode = LOOSE)
      | none => decide (mode = LOOSE)
    if !allowed ∧ mode ≠ LOG_ONLY then
      { ret := TC_ACT_SHOT, events := if logViolations ≠ 0 then 1 else 0 }
    else { ret := TC_ACT_OK }
  else { ret := TC_ACT_OK }                                          -- non-IP traffic

/-- one run of `antispoof_ingress` on `frame` -/
def run (m : Maps) (frame : Bytes) : Res :=
  if frame.length < 14 then { ret := TC_ACT_OK } else              -- (eth + 1) > data_end
  let defaultMode := m.config.headD 0
  let binding := (AMap.lookup m.bindings (macKeyOfFrame frame)).bind Binding.decode
  let mode := match binding with | some b => b.mode | none => defaultMode
  runBody m frame binding mode

/-! ## pkg/antispoof/manager.go -/

structure Mgr where
  /-- `m.mode` -/
  mode : UInt8
deriving DecidableEq, Repr

/-- `NewManager`: a DefaultMode of 0 becomes strict -/
def newManager (defaultMode : UInt8) : Mgr := { mode := if defaultMode = 0 then STRICT else defaultMode }

/-- a binding record with its mode byte replaced (what `SetMode` re-Puts for every existing binding) -/
def withMode (v : Bytes) (mode : UInt8) : Bytes :=
  match Binding.decode v with
  | some b => { b with mode := mode }.encode
  | none => v

/-- `SetMode` (also what `Start` publishes): `Config{DefaultMode: mode, LogViolations: 1}` into slot 0, and the
    new mode into every existing binding (the program prefers the binding's mode to the default) -/
def setMode (_g : Mgr) (m : Maps) (mode : UInt8) : Mgr × Maps :=
  ({ mode := mode },
   { m with config := [mode, 1, 0, 0, 0, 0, 0, 0],
            bindings := m.bindings.map fun e => (e.1, withMode e.2 mode) })

/-- `macToUint64(mac)` marshalled as a Go `uint64` (little-endian) -/
def macKey (mac : Bytes) : Bytes := leBytes 8 (beNat mac)

/-- `AddBinding(mac, ipv4)`: read-modify-write of the record (a zero record if there is none): the IPv4 part and
    the mode are set, an IPv6 part is kept; the address is `binary.BigEndian.Uint32(ip4)` marshalled
    little-endian, i.e. the address bytes reversed -/
def addBinding (g : Mgr) (m : Maps) (mac : Bytes) (ip : Option Bytes) : Maps :=
  let existing : Binding := ((AMap.lookup m.bindings (macKey mac)).bind Binding.decode).getD {}
  let b : Binding := match ip with
    | some a => { existing with addr4 := leBytes 4 (beNat a), valid4 := 1, mode := g.mode }
    | none => { existing with addr4 := zeros 4, valid4 := 0, mode := g.mode }
  { m with bindings := AMap.insert m.bindings (macKey mac) b.encode }

/-- `AddBindingV6(mac, ipv6)`: read-modify-write of the record (a zero record if there is none) -/
def addBindingV6 (g : Mgr) (m : Maps) (mac : Bytes) (ip : Option Bytes) : Maps :=
  let existing : Binding := ((AMap.lookup m.bindings (macKey mac)).bind Binding.decode).getD {}
  let b : Binding := match ip with
    | some a => { existing with addr6 := a, valid6 := 1, mode := g.mode }
    | none => { existing with mode := g.mode }
  { m with bindings := AMap.insert m.bindings (macKey mac) b.encode }

/-- `RemoveBinding(mac)` -/
def removeBinding (m : Maps) (mac : Bytes) : Maps :=
  { m with bindings := AMap.erase m.bindings (macKey mac) }

/-- `AddAllowedRange(ip/len)`: key `{Prefixlen: len, IP: the four address bytes}`, value 1 -/
def addAllowedRange (m : Maps) (ip : Bytes) (len : Nat) : Maps :=
  { m with ranges := lpmInsert m.ranges (leBytes 4 len ++ fit 4 ip) [1] }

/-- `net.IPMask.Size()` for a 4-byte mask: the prefix length if the mask is ones followed by zeros -/
def maskLen (mask : Bytes) : Option Nat :=
  let v := beNat (fit 4 mask)
  (List.range 33).find? fun n => v = 2 ^ 32 - 2 ^ (32 - n)

/-- `AddAllowedRange(&net.IPNet{IP, Mask})`: refused (`none`) unless the mask is a prefix mask -/
def addAllowedRangeMask (m : Maps) (ip mask : Bytes) : Option Maps :=
  (maskLen mask).map fun n => addAllowedRange m ip n

/-! ## what the property talks about -/

/-- the program's view of the binding of a MAC -/
def bindingOf (m : Maps) (mac : Bytes) : Option Binding :=
  (AMap.lookup m.bindings (macKey mac)).bind Binding.decode

/-- the mode in force for a MAC: its binding's, else the default -/
def modeInForce (m : Maps) (mac : Bytes) : UInt8 :=
  match bindingOf m mac with
  | some b => b.mode
  | none => m.config.headD 0

/-- `a.b.c.d` lies in the network `net/len` -/
def inNet (src net : Bytes) (len : Nat) : Bool := prefixMatch len net src

/-- the source lies in one of the ranges stored in the trie -/
def inRanges (m : Maps) (src : Bytes) : Prop :=
  ∃ k v, (k, v) ∈ m.ranges ∧ prefixLen k ≤ 32 ∧ prefixMatch (prefixLen k) (k.drop 4) src = true

end Bng.Antispoof
