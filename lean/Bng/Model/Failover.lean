/-
  Model of the HA failover controller (pkg/ha/failover.go) and the part of the health monitor it uses
  (pkg/ha/health_monitor.go: the Healthy flag and the partner_down / partner_up transitions) — property C14.

  Time is a virtual `Nat` (milliseconds).  Arming a timer creates a timer INSTANCE; `fire i` delivers instance `i`
  (runs the function given to time.AfterFunc).  `Stop()` only prevents the delivery of an instance whose deadline
  has not passed: an instance that was due when it was stopped stays deliverable, at any later time — this is the
  callback that had already fired and was waiting for the controller's mutex.  `executeFailover` / `executeFailback`
  are split at their unlock points: `fire` is the first critical section (check, enter), the grace sleep is an
  in-flight execution (`Exec`, stage sleeping), `check j ok dur` is the critical section after the sleep
  (re-validation) followed by the invocation of the role-change callback, which then runs WITHOUT the lock for `dur`
  (stage calling) and answers `ok`, and `commit j` is the last critical section (commit or failure path).  `advance` only moves the clock: nothing forces a due timer or sleeper to run promptly, so
  every delayed or stale delivery is an ordinary history.

  The model follows the code AS REPAIRED (D44 ForceFailover executes; D45 timer generations; health re-validation
  after the grace period on both paths; compensation at commit when the partner's health changed during the callback;
  retry after a failed callback; superseded failback commit guard; health transitions delivered in order).
  Assumptions: every change of the monitor's Healthy flag is delivered to the controller as partner_down /
  partner_up, in order (health_monitor.go serialises them since bd43000; SetPartner announces its reset);
  the goroutine started by ForceFailover enters executeFailover before anything else happens (nothing can interleave
  observably: every other entry point ignores or refuses while the state is in_progress).
  Core Lean only.
-/
namespace Bng.Failover

inductive Role where
  | standby | active
  deriving DecidableEq, Repr

inductive FState where
  | normal | pending | inProgress | complete | failbackPending
  deriving DecidableEq, Repr

inductive TKind where
  | failover | failback
  deriving DecidableEq, Repr

structure Cfg where
  delay    : Nat          -- FailoverDelay
  fbDelay  : Nat          -- FailbackDelay
  grace    : Nat          -- GracePeriod
  failbackEnabled : Bool
  original : Role
  deriving DecidableEq, Repr

structure Timer where
  kind      : TKind
  gen       : Nat
  deadline  : Nat
  stopped   : Bool := false     -- Stop() was called before the deadline: never delivered
  delivered : Bool := false
  deriving DecidableEq, Repr

inductive Stage where
  | sleeping      -- in the grace sleep
  | calling       -- the role-change callback is running (without the lock)
  deriving DecidableEq, Repr

structure Exec where
  kind    : TKind
  gen     : Nat
  due     : Nat                 -- end of the grace sleep / of the callback
  forced  : Bool
  oldRole : Role
  stage   : Stage := .sleeping
  cbOk    : Bool := true        -- what the callback answers (known when it is invoked)
  epoch   : Nat := 0            -- roleEpoch when the callback was invoked
  -- history: when the execution was entered and since when the partner had then been down
  firedAt : Nat
  downSinceAtFire : Option Nat
  deriving DecidableEq, Repr

/-- what the controller emits: FailoverEvents to the handlers, and role-change callback invocations -/
inductive Emit where
  | initiated | completed (forced : Bool) | canceled | failbackInitiated | failbackCompleted
  | roleChanged (old new : Role)
  | callback (r : Role) (ok : Bool)      -- the callback is invoked (its answer is known to the script)
  | callbackFailed (r : Role)            -- the callback has returned an error
  deriving DecidableEq, Repr

structure State where
  cfg     : Cfg
  now     : Nat := 0
  role    : Role
  state   : FState := .normal
  healthy : Bool := true
  gen     : Nat := 0
  roleEpoch : Nat := 0                -- committed role changes
  timers  : List Timer := []
  execs   : List Exec := []
  initiated : Nat := 0
  completed : Nat := 0
  canceled  : Nat := 0
  failbacks : Nat := 0
  -- history variables
  downSince : Option Nat := none      -- start of the current uninterrupted partner-down period
  promotions : Nat := 0               -- role changes standby → active
  completedEvents : Nat := 0          -- `completed` events emitted
  autoLog : List (Nat × Option Nat) := []   -- (firedAt, downSinceAtFire) of every promotion by the automatic path
  forcedHold : Bool := false          -- the last promotion was operator-forced and no recovery was reported since
  deriving Repr

def init (c : Cfg) : State := { cfg := c, role := c.original }

/-- `t.Stop()` on the timers of one kind: effective only before the deadline -/
def stopAll (k : TKind) (now : Nat) (ts : List Timer) : List Timer :=
  ts.map fun t => if t.kind = k ∧ ¬ t.delivered ∧ now < t.deadline then { t with stopped := true } else t

def markDelivered : List Timer → Nat → List Timer
  | [], _ => []
  | t :: rest, 0 => { t with delivered := true } :: rest
  | t :: rest, i + 1 => t :: markDelivered rest i

def setExec : List Exec → Nat → Exec → List Exec
  | [], _, _ => []
  | _ :: rest, 0, e => e :: rest
  | x :: rest, i + 1, e => x :: setExec rest i e

/-- scheduleFailoverLocked -/
def scheduleFailover (s : State) : State :=
  if s.role = .standby ∧ s.state = .normal then
    { s with state := .pending, gen := s.gen + 1,
             timers := stopAll .failover s.now s.timers ++
               [{ kind := .failover, gen := s.gen + 1, deadline := s.now + s.cfg.delay }] }
  else s

/-- cancelFailoverLocked -/
def cancelFailover (s : State) : State × List Emit :=
  ({ s with state := .normal, gen := s.gen + 1, timers := stopAll .failover s.now s.timers,
            canceled := s.canceled + 1 }, [.canceled])

/-- scheduleFailbackLocked -/
def scheduleFailback (s : State) : State :=
  if s.state = .complete ∧ s.cfg.failbackEnabled then
    { s with state := .failbackPending, gen := s.gen + 1,
             timers := stopAll .failback s.now s.timers ++
               [{ kind := .failback, gen := s.gen + 1, deadline := s.now + s.cfg.fbDelay }] }
  else s

/-- handleHealthEvent(partner_up) -/
def handleUp (s : State) : State × List Emit :=
  if s.state = .pending then cancelFailover s else (scheduleFailback s, [])

/-- the health monitor reports a transition to unhealthy (flag change and partner_down, serialised) -/
def down (s : State) : State × List Emit :=
  if s.healthy then (scheduleFailover { s with healthy := false, downSince := some s.now }, []) else (s, [])

/-- the health monitor reports a recovery (also: SetPartner resetting an unhealthy partner) -/
def up (s : State) : State × List Emit :=
  if s.healthy then (s, []) else handleUp { s with healthy := true, downSince := none, forcedHold := false }

/-- evaluateState (the 1 s control loop) -/
def tick (s : State) : State × List Emit :=
  if s.state = .failbackPending ∧ s.healthy = false then
    ({ s with state := .complete, gen := s.gen + 1, timers := stopAll .failback s.now s.timers }, [])
  else (s, [])

/-- first critical section of executeFailover / executeFailback, entered from a timer -/
def fire (s : State) (i : Nat) : State × List Emit :=
  match s.timers[i]? with
  | none => (s, [])
  | some t =>
    if t.delivered ∨ t.stopped ∨ s.now < t.deadline then (s, []) else
    let s := { s with timers := markDelivered s.timers i }
    match t.kind with
    | .failover =>
      if s.state = .pending ∧ t.gen = s.gen then
        if s.healthy then cancelFailover s
        else
          ({ s with state := .inProgress, initiated := s.initiated + 1,
                    execs := s.execs ++ [{ kind := .failover, gen := t.gen, due := s.now + s.cfg.grace, forced := false,
                                           oldRole := s.role, firedAt := s.now, downSinceAtFire := s.downSince }] }, [])
      else (s, [])
    | .failback =>
      if s.state = .failbackPending ∧ t.gen = s.gen then
        if s.healthy = false then ({ s with state := .complete }, [])
        else
          ({ s with execs := s.execs ++ [{ kind := .failback, gen := t.gen, due := s.now + s.cfg.grace, forced := false,
                                           oldRole := s.role, firedAt := s.now, downSinceAtFire := s.downSince }] }, [])
      else (s, [])

/-- after the grace sleep: re-validation under the lock, then the role-change callback is invoked (it answers
    `ok` after `dur`, running without the lock) -/
def callCheck (s : State) (j : Nat) (ok : Bool) (dur : Nat) : State × List Emit :=
  match s.execs[j]? with
  | none => (s, [])
  | some e =>
    if e.stage ≠ .sleeping ∨ s.now < e.due then (s, []) else
    match e.kind with
    | .failover =>
      if e.forced = false ∧ s.healthy = true then cancelFailover { s with execs := s.execs.eraseIdx j }
      else
        ({ s with execs := setExec s.execs j { e with stage := .calling, due := s.now + dur, cbOk := ok } },
         [.callback .active ok])
    | .failback =>
      if s.state ≠ .failbackPending ∨ e.gen ≠ s.gen then ({ s with execs := s.execs.eraseIdx j }, [])
      else if s.healthy = false then ({ s with execs := s.execs.eraseIdx j, state := .complete }, [])
      else
        ({ s with execs := setExec s.execs j { e with stage := .calling, due := s.now + dur, cbOk := ok, epoch := s.roleEpoch } },
         [.callback s.cfg.original ok])

/-- the callback has returned: commit (or the failure path) under the lock -/
def commit (s : State) (j : Nat) : State × List Emit :=
  match s.execs[j]? with
  | none => (s, [])
  | some e =>
    if e.stage ≠ .calling ∨ s.now < e.due then (s, []) else
    let s := { s with execs := s.execs.eraseIdx j }
    match e.kind with
    | .failover =>
      if e.cbOk then
        let s1 := { s with role := .active, roleEpoch := s.roleEpoch + 1, state := .complete, completed := s.completed + 1, promotions := s.promotions + (if s.role = .standby then 1 else 0), completedEvents := s.completedEvents + 1, autoLog := if e.forced then s.autoLog else s.autoLog ++ [(e.firedAt, e.downSinceAtFire)], forcedHold := e.forced }
        (if e.forced = false ∧ s1.healthy = true then scheduleFailback s1 else s1,
         [.completed e.forced, .roleChanged e.oldRole .active])
      else
        let s1 := { s with state := .normal }
        (if s1.healthy = false then scheduleFailover s1 else s1, [.callbackFailed .active])
    | .failback =>
      if e.cbOk then
        if e.epoch ≠ s.roleEpoch then (s, [])
        else
          let s1 := { s with role := s.cfg.original, roleEpoch := s.roleEpoch + 1, state := .normal, failbacks := s.failbacks + 1 }
          (if s1.healthy = false then scheduleFailover s1 else s1,
           [.failbackCompleted, .roleChanged e.oldRole s.cfg.original])
      else if s.state = .failbackPending ∧ e.gen = s.gen then
        let s1 := { s with state := .complete }
        (if s1.healthy = true then scheduleFailback s1 else s1, [.callbackFailed s.cfg.original])
      else (s, [.callbackFailed s.cfg.original])

/-- ForceFailover: initiateFailover, then the execution is started -/
def forceFailover (s : State) : State × Bool × List Emit :=
  if s.role = .active then (s, false, [])
  else if s.state = .inProgress then (s, false, [])
  else
    ({ s with state := .inProgress, gen := s.gen + 1, timers := stopAll .failover s.now s.timers,
              initiated := s.initiated + 1,
              execs := s.execs ++ [{ kind := .failover, gen := s.gen + 1, due := s.now + s.cfg.grace, forced := true,
                                     oldRole := s.role, firedAt := s.now, downSinceAtFire := s.downSince }] },
     true, [.initiated])

/-- ForceFailback: initiateFailback only announces -/
def forceFailback (s : State) : State × Bool × List Emit :=
  if s.role = s.cfg.original then (s, false, []) else (s, true, [.failbackInitiated])

inductive Op where
  | down | up | tick
  | advance (dt : Nat)
  | fire (i : Nat)
  | check (j : Nat) (ok : Bool) (dur : Nat)
  | commit (j : Nat)
  | forceFailover | forceFailback
  deriving DecidableEq, Repr

def step (s : State) : Op → State × List Emit
  | .down => down s
  | .up => up s
  | .tick => tick s
  | .advance dt => ({ s with now := s.now + dt }, [])
  | .fire i => fire s i
  | .check j ok dur => callCheck s j ok dur
  | .commit j => commit s j
  | .forceFailover => ((forceFailover s).1, (forceFailover s).2.2)
  | .forceFailback => ((forceFailback s).1, (forceFailback s).2.2)

def run (s : State) (ops : List Op) : State := ops.foldl (fun st op => (step st op).1) s

/-! ## The monitor: the property judged on observations only

  Per operation the harness reports the scripted clock, the controller's role, state, counters and the stamped list
  of what it emitted (events and callback invocations, in order; a health change made from inside a callback is
  listed where it happened).  The monitor knows the operations issued (health changes, clock advances, operator
  commands) and the configuration. -/

inductive EvKind where
  | cbOk (role : String) | cbFail (role : String) | cbFailed
  | roleChange (old new : String)
  | completedAuto | completedForced | canceled
  | health (up : Bool)
  | other
  deriving Repr, DecidableEq

structure ObsEv where
  kind : EvKind
  t : Nat
  deriving Repr, DecidableEq

structure Snap where
  t     : Nat            -- the scripted clock after the operation
  role  : String
  state : String
  completed : Nat
  evs   : List ObsEv
  deriving Repr

inductive MOp where
  | new | down | up | advance | forceFailover (ok : Bool) | forceFailback | other
  deriving Repr

structure Mon where
  delay : Nat := 0
  fbDelay : Nat := 0
  grace : Nat := 0
  failbackEnabled : Bool := true
  now   : Nat := 0
  healthy : Bool := true
  /-- start of the current uninterrupted down period -/
  downSince : Option Nat := none
  /-- the down period as it stood when the state was first seen in_progress (the operation in which the
      execution was entered); operations are the unit of ordering between events of one instant -/
  ipDownSince : Option (Option Nat) := none
  role  : String := ""
  state : String := ""
  completed : Nat := 0
  forcedOutstanding : Nat := 0
  ipSince : Option Nat := none      -- in_progress observed continuously since (only clock advances in between)
  cbs : List String := []           -- successful role-change callbacks not yet followed by their role change
  cbActiveAt : Nat := 0             -- when the last callback(active) was invoked (= entry + grace period)
  cbActiveDownSince : Option Nat := none   -- the down period as it stood when that execution was entered
  lastExit : Option Nat := none     -- this operation: the last moment at which the state was certainly not in_progress
  lastCbActive : Option Nat := none -- this operation: when callback(active) was last invoked
  fbSince : Option Nat := none      -- failback_pending next to a healthy partner, with no sign of life of the failback
                                    -- (callback invoked or returned, role or health change, operator/script action) since
  lastFbSign : Option Nat := none   -- this operation: the last such sign of life
  slack : Nat := 0                  -- the longest callback duration the script has configured so far
  cbActiveHealthy : Bool := false   -- was the partner reported healthy when the last callback(active) was invoked
  cbStandbyHealthy : Bool := true   -- … when the last callback(standby) was invoked
  forcedHold : Bool := false        -- the last promotion was operator-forced and no recovery was reported since
  -- per operation
  promos : Nat := 0
  compl  : Nat := 0
  deriving Repr

abbrev Verdict := String × String

/-- had the partner been reported down for the whole failover delay when the execution was entered at `tf`? -/
def sustainedDown (m : Mon) (tf : Nat) : Bool :=
  match m.cbActiveDownSince with
  | some s => decide (s + m.delay ≤ tf)
  | none => false

def setHealth (m : Mon) (up : Bool) (t : Nat) : Mon :=
  if up then (if m.healthy then m else { m with healthy := true, downSince := none, forcedHold := false })
  else (if m.healthy then { m with healthy := false, downSince := some t } else m)

def checkEvent (m : Mon) (e : ObsEv) : Mon × List Verdict :=
  match e.kind with
  | .cbOk r =>
    ({ m with cbs := r :: m.cbs,
              lastCbActive := if r == "active" then some e.t else m.lastCbActive,
              lastExit := if r == "active" then m.lastExit else some e.t,
              cbActiveHealthy := if r == "active" then m.healthy else m.cbActiveHealthy,
              cbActiveAt := if r == "active" then e.t else m.cbActiveAt,
              -- entered in an earlier operation: the picture recorded then; entered in this one: no operation
              -- (hence no health report) lies between entry and now
              cbActiveDownSince := if r == "active" then m.ipDownSince.getD m.downSince else m.cbActiveDownSince,
              cbStandbyHealthy := if r == "standby" then m.healthy else m.cbStandbyHealthy }, [])
  | .cbFail r => ({ m with lastCbActive := if r == "active" then some e.t else m.lastCbActive }, [])
  | .cbFailed => ({ m with lastExit := some e.t, ipDownSince := none, lastCbActive := none }, [])
  | .canceled => ({ m with lastExit := some e.t, ipDownSince := none, lastCbActive := none }, [])
  | .health up => (setHealth m up e.t, [])
  | .roleChange _ new =>
    let v1 := if m.cbs.contains new then [] else
      [("role-before-callback", s!"role became {new} at {e.t} without a successful role-change callback before it")]
    let v2 := if new == "standby" && !m.cbStandbyHealthy then
      [("failback-unhealthy", s!"failed back to standby at {e.t} although the partner was reported down when the role-change callback was invoked")] else []
    ({ m with role := new, cbs := m.cbs.erase new, lastExit := some e.t, lastCbActive := none,
              promos := if m.role == "standby" && new == "active" then m.promos + 1 else m.promos }, v1 ++ v2)
  | .completedAuto =>
    let tf := m.cbActiveAt - m.grace
    let v1 := if decide (m.grace ≤ m.cbActiveAt) && sustainedDown m tf then [] else
      [("early-promotion", s!"automatic promotion completed at {e.t} but the partner had not been reported down for the {m.delay} ms before the execution was entered")]
    let v2 := if m.cbActiveHealthy then
      [("early-promotion", s!"automatic promotion completed at {e.t} although the partner was reported healthy when the role-change callback was invoked")] else []
    ({ m with compl := m.compl + 1, forcedHold := false, lastExit := some e.t, ipDownSince := none }, v1 ++ v2)
  | .completedForced =>
    let v1 := if 0 < m.forcedOutstanding then [] else
      [("early-promotion", s!"promotion at {e.t} claims to be operator-forced but no accepted ForceFailover is outstanding")]
    ({ m with compl := m.compl + 1, forcedOutstanding := m.forcedOutstanding - 1, forcedHold := true,
              lastExit := some e.t, ipDownSince := none }, v1)
  | .other => (m, [])

def checkEvents (m : Mon) : List ObsEv → Mon × List Verdict
  | [] => (m, [])
  | e :: rest =>
    let (m1, v1) := checkEvent m e
    let m1 := match e.kind with
      | .other => m1
      | _ => { m1 with lastFbSign := some e.t }
    let (m2, v2) := checkEvents m1 rest
    (m2, v1 ++ v2)

def check (m : Mon) (op : MOp) (o : Snap) : Mon × List Verdict :=
  match op with
  | .new => ({ m with role := o.role, state := o.state, completed := o.completed }, [])
  | _ =>
  let prevState := m.state
  let prevCompleted := m.completed
  let prevRole := m.role
  -- the clock and the health picture as of this operation
  let m := { m with now := o.t, promos := 0, compl := 0, lastExit := none, lastCbActive := none, lastFbSign := none }
  let m := match op with
    | .down => setHealth m false o.t
    | .up => setHealth m true o.t
    | .forceFailover true => { m with forcedOutstanding := m.forcedOutstanding + 1 }
    | _ => m
  let (m, vs) := checkEvents m o.evs
  let vs := vs ++
    (if m.role == o.role then [] else
      [("role-before-callback", s!"reported role is {o.role} but the emitted role changes lead to {m.role}")]) ++
    (let promos := if m.role == o.role then m.promos else
        (if prevRole == "standby" && o.role == "active" && m.promos == 0 then 1 else m.promos)
     if promos == m.compl && o.completed == prevCompleted + m.compl then [] else
      [("completed-events", s!"{promos} promotion(s) but {m.compl} completed event(s), counter moved by {o.completed - prevCompleted}")]) ++
    (match op with
      | .up => if prevState == "pending" && o.state != "normal" then
          [("not-cancelled", s!"partner recovered while the failover was pending but the state is {o.state}")] else []
      | _ => []) ++
    (if o.state == "complete" && o.role == "active" && m.healthy && m.failbackEnabled && !m.forcedHold then
      [("dual-active", s!"active and complete at {o.t} with the partner reported healthy and no failback scheduled")] else []) ++
    (if o.state == "normal" && o.role == "standby" && !m.healthy then
      [("stranded", s!"standby and normal at {o.t} with the partner reported down and no failover scheduled")] else [])
  -- stuck: in_progress across clock advances for longer than the grace period
  let ipSince := if o.state != "in_progress" then none else
    match op, m.ipSince, m.lastExit, m.lastCbActive with
    -- was certainly not in_progress at x during this operation and is in it now:
    --   a callback(active) invoked after x dates the entry exactly (entry + grace = invocation);
    --   otherwise only a timer armed at or after x can have entered it
    | _, _, _, some c => some (c - m.grace)
    | _, _, some x, none => some (min m.now (x + m.delay))
    | .advance, some t, none, _ => some t
    | _, _, none, _ => some m.now
  let vs := vs ++ (match ipSince with
    | some t => if m.grace + m.slack < m.now - t then
        [("stuck", s!"state in_progress since {t}, still in_progress at {m.now} (grace period {m.grace}, callback up to {m.slack}) with nothing happening")] else []
    | none => [])
  -- stuck in failback_pending: next to a healthy partner the armed failback timer fires within the failback delay
  -- and the callback is invoked one grace period later (and answers within the scripted duration)
  let fbSince := if o.state != "failback_pending" || !m.healthy then none else
    match op, m.fbSince, m.lastFbSign with
    | _, _, some x => some x
    | .advance, some t, none => some t
    | _, _, none => some m.now
  let vs := vs ++ (match fbSince with
    | some t => if m.fbDelay + m.grace + m.slack < m.now - t then
        [("stuck", s!"state failback_pending next to a healthy partner since {t}, still at {m.now} (failback delay {m.fbDelay}, grace period {m.grace}, callback up to {m.slack}) and the failback has not shown a sign of life")] else []
    | none => [])
  ({ m with role := o.role, state := o.state, completed := o.completed, ipSince := ipSince, fbSince := fbSince,
            ipDownSince := if o.state != "in_progress" then none else
              match m.ipDownSince with
              | some d => some d
              | none => some m.downSince }, vs)

end Bng.Failover
