/-
  Model of the HA failover controller (pkg/ha/failover.go) and the part of the health monitor it uses
  (pkg/ha/health_monitor.go: the Healthy flag and the partner_down / partner_up transitions) — property C14.

  Time is a virtual `Nat` (milliseconds).  Arming a timer creates a timer INSTANCE; `fire i` delivers instance `i`
  (runs the function given to time.AfterFunc).  `Stop()` only prevents the delivery of an instance whose deadline
  has not passed: an instance that was due when it was stopped stays deliverable, at any later time — this is the
  callback that had already fired and was waiting for the controller's mutex.  `executeFailover` / `executeFailback`
  are split at their unlock points: `fire` is the first critical section (check, enter), the grace sleep is an
  in-flight execution (`Exec`) and `wake j ok` is what follows the sleep (re-validation, role-change callback with
  outcome `ok`, commit).  `advance` only moves the clock: nothing forces a due timer or sleeper to run promptly, so
  every delayed or stale delivery is an ordinary history.

  The model follows the code AS REPAIRED for D44 (ForceFailover executes, refuses while a failover is in progress),
  D45 (timer generation: a callback of a cancelled or superseded timer does nothing) and the failback re-validation
  after the grace period.  Assumptions: the role-change callback is instantaneous (callback and commit are one step);
  the goroutine started by ForceFailover enters executeFailover before anything else happens (nothing can interleave
  observably: every other entry point ignores or refuses while the state is in_progress).
  Core Lean only.
-/
namespace Bng.Failover

inductive Role where
  | standby | active
  deriving DecidableEq, Repr

inductive FState where
  | normal | pending | inProgress | complete | failbackPending
  deriving DecidableEq, Repr

inductive TKind where
  | failover | failback
  deriving DecidableEq, Repr

structure Cfg where
  delay    : Nat          -- FailoverDelay
  fbDelay  : Nat          -- FailbackDelay
  grace    : Nat          -- GracePeriod
  failbackEnabled : Bool
  original : Role
  deriving DecidableEq, Repr

structure Timer where
  kind      : TKind
  gen       : Nat
  deadline  : Nat
  stopped   : Bool := false     -- Stop() was called before the deadline: never delivered
  delivered : Bool := false
  deriving DecidableEq, Repr

structure Exec where
  kind    : TKind
  gen     : Nat
  wake    : Nat                 -- end of the grace sleep
  forced  : Bool
  oldRole : Role
  -- history: when the execution was entered and since when the partner had then been down
  firedAt : Nat
  downSinceAtFire : Option Nat
  deriving DecidableEq, Repr

/-- what the controller emits: FailoverEvents to the handlers, and role-change callback invocations -/
inductive Emit where
  | initiated | completed (forced : Bool) | canceled | failbackInitiated | failbackCompleted
  | roleChanged (old new : Role)
  | callback (r : Role) (ok : Bool)
  deriving DecidableEq, Repr

structure State where
  cfg     : Cfg
  now     : Nat := 0
  role    : Role
  state   : FState := .normal
  healthy : Bool := true
  gen     : Nat := 0
  timers  : List Timer := []
  execs   : List Exec := []
  initiated : Nat := 0
  completed : Nat := 0
  canceled  : Nat := 0
  failbacks : Nat := 0
  -- history variables
  downSince : Option Nat := none      -- start of the current uninterrupted partner-down period
  promotions : Nat := 0               -- role changes standby → active
  completedEvents : Nat := 0          -- `completed` events emitted
  autoLog : List (Nat × Option Nat) := []   -- (firedAt, downSinceAtFire) of every promotion by the automatic path
  deriving Repr

def init (c : Cfg) : State := { cfg := c, role := c.original }

/-- `t.Stop()` on the timers of one kind: effective only before the deadline -/
def stopAll (k : TKind) (now : Nat) (ts : List Timer) : List Timer :=
  ts.map fun t => if t.kind = k ∧ ¬ t.delivered ∧ now < t.deadline then { t with stopped := true } else t

def markDelivered : List Timer → Nat → List Timer
  | [], _ => []
  | t :: rest, 0 => { t with delivered := true } :: rest
  | t :: rest, i + 1 => t :: markDelivered rest i

/-- handleHealthEvent(partner_down) -/
def handleDown (s : State) : State :=
  if s.role = .standby ∧ s.state = .normal then
    { s with state := .pending, gen := s.gen + 1,
             timers := stopAll .failover s.now s.timers ++
               [{ kind := .failover, gen := s.gen + 1, deadline := s.now + s.cfg.delay }] }
  else s

/-- handleHealthEvent(partner_up) -/
def handleUp (s : State) : State × List Emit :=
  if s.state = .pending then
    ({ s with state := .normal, gen := s.gen + 1, timers := stopAll .failover s.now s.timers,
              canceled := s.canceled + 1 }, [.canceled])
  else if s.state = .complete ∧ s.cfg.failbackEnabled then
    ({ s with state := .failbackPending, gen := s.gen + 1,
              timers := stopAll .failback s.now s.timers ++
                [{ kind := .failback, gen := s.gen + 1, deadline := s.now + s.cfg.fbDelay }] }, [])
  else (s, [])

/-- the health monitor reports a transition to unhealthy -/
def down (s : State) : State × List Emit :=
  if s.healthy then (handleDown { s with healthy := false, downSince := some s.now }, []) else (s, [])

/-- the health monitor reports a recovery -/
def up (s : State) : State × List Emit :=
  if s.healthy then (s, []) else handleUp { s with healthy := true, downSince := none }

/-- evaluateState (the 1 s control loop) -/
def tick (s : State) : State × List Emit :=
  if s.state = .failbackPending ∧ s.healthy = false then
    ({ s with state := .complete, gen := s.gen + 1, timers := stopAll .failback s.now s.timers }, [])
  else (s, [])

/-- first critical section of executeFailover / executeFailback, entered from a timer -/
def fire (s : State) (i : Nat) : State × List Emit :=
  match s.timers[i]? with
  | none => (s, [])
  | some t =>
    if t.delivered ∨ t.stopped ∨ s.now < t.deadline then (s, []) else
    let s := { s with timers := markDelivered s.timers i }
    match t.kind with
    | .failover =>
      if s.state = .pending ∧ t.gen = s.gen then
        ({ s with state := .inProgress, initiated := s.initiated + 1,
                  execs := s.execs ++ [{ kind := .failover, gen := t.gen, wake := s.now + s.cfg.grace, forced := false,
                                         oldRole := s.role, firedAt := s.now, downSinceAtFire := s.downSince }] }, [])
      else (s, [])
    | .failback =>
      if s.state = .failbackPending ∧ t.gen = s.gen then
        if s.healthy = false then ({ s with state := .complete }, [])
        else
          ({ s with execs := s.execs ++ [{ kind := .failback, gen := t.gen, wake := s.now + s.cfg.grace, forced := false,
                                           oldRole := s.role, firedAt := s.now, downSinceAtFire := s.downSince }] }, [])
      else (s, [])

/-- after the grace sleep: callback and commit -/
def wake (s : State) (j : Nat) (ok : Bool) : State × List Emit :=
  match s.execs[j]? with
  | none => (s, [])
  | some e =>
    if s.now < e.wake then (s, []) else
    let s := { s with execs := s.execs.eraseIdx j }
    match e.kind with
    | .failover =>
      if ok then
        ({ s with role := .active, state := .complete, completed := s.completed + 1,
                  promotions := s.promotions + (if s.role = .standby then 1 else 0),
                  completedEvents := s.completedEvents + 1,
                  autoLog := if e.forced then s.autoLog else s.autoLog ++ [(e.firedAt, e.downSinceAtFire)] },
         [.callback .active true, .completed e.forced, .roleChanged e.oldRole .active])
      else ({ s with state := .normal }, [.callback .active false])
    | .failback =>
      if s.state ≠ .failbackPending ∨ e.gen ≠ s.gen then (s, [])
      else if s.healthy = false then ({ s with state := .complete }, [])
      else if ok then
        ({ s with role := s.cfg.original, state := .normal, failbacks := s.failbacks + 1 },
         [.callback s.cfg.original true, .failbackCompleted, .roleChanged e.oldRole s.cfg.original])
      else ({ s with state := .complete }, [.callback s.cfg.original false])

/-- ForceFailover: initiateFailover, then the execution is started -/
def forceFailover (s : State) : State × Bool × List Emit :=
  if s.role = .active then (s, false, [])
  else if s.state = .inProgress then (s, false, [])
  else
    ({ s with state := .inProgress, gen := s.gen + 1, timers := stopAll .failover s.now s.timers,
              initiated := s.initiated + 1,
              execs := s.execs ++ [{ kind := .failover, gen := s.gen + 1, wake := s.now + s.cfg.grace, forced := true,
                                     oldRole := s.role, firedAt := s.now, downSinceAtFire := s.downSince }] },
     true, [.initiated])

/-- ForceFailback: initiateFailback only announces -/
def forceFailback (s : State) : State × Bool × List Emit :=
  if s.role = s.cfg.original then (s, false, []) else (s, true, [.failbackInitiated])

inductive Op where
  | down | up | tick
  | advance (dt : Nat)
  | fire (i : Nat)
  | wake (j : Nat) (ok : Bool)
  | forceFailover | forceFailback
  deriving DecidableEq, Repr

def step (s : State) : Op → State × List Emit
  | .down => down s
  | .up => up s
  | .tick => tick s
  | .advance dt => ({ s with now := s.now + dt }, [])
  | .fire i => fire s i
  | .wake j ok => wake s j ok
  | .forceFailover => ((forceFailover s).1, (forceFailover s).2.2)
  | .forceFailback => ((forceFailback s).1, (forceFailback s).2.2)

def run (s : State) (ops : List Op) : State := ops.foldl (fun st op => (step st op).1) s

/-! ## The monitor: the property judged on observations only

  Per operation the harness reports the controller's role, state, counters and the stamped list of what it emitted
  (events and callback invocations, in order).  The monitor knows the operations issued (health changes, clock
  advances, operator commands) and the configuration. -/

inductive EvKind where
  | cbOk (role : String) | cbFail
  | roleChange (old new : String)
  | completedAuto | completedForced
  | other
  deriving Repr, DecidableEq

structure ObsEv where
  kind : EvKind
  t : Nat
  deriving Repr, DecidableEq

structure Snap where
  t     : Nat            -- the scripted clock after the operation
  role  : String
  state : String
  completed : Nat
  evs   : List ObsEv
  deriving Repr

inductive MOp where
  | new | down | up | advance | forceFailover (ok : Bool) | forceFailback | other
  deriving Repr

structure Mon where
  delay : Nat := 0
  grace : Nat := 0
  now   : Nat := 0
  healthy : Bool := true
  /-- start of the current uninterrupted down period -/
  downSince : Option Nat := none
  /-- the down period as it stood when the state was first seen in_progress (the operation in which the
      execution was entered); operations are the unit of ordering between events of one instant -/
  ipDownSince : Option (Option Nat) := none
  role  : String := ""
  state : String := ""
  completed : Nat := 0
  forcedOutstanding : Nat := 0
  ipSince : Option Nat := none      -- in_progress observed continuously since (only clock advances in between)
  deriving Repr

abbrev Verdict := String × String

/-- had the partner been reported down for the whole failover delay when the execution was entered at `tf`? -/
def sustainedDown (m : Mon) (tf : Nat) : Bool :=
  match m.ipDownSince.getD m.downSince with
  | some s => decide (s + m.delay ≤ tf)
  | none => false

def checkEvents (m : Mon) (role : String) : List ObsEv → List String → Nat → Nat → Nat → List Verdict → (String × Nat × Nat × Nat × List Verdict)
  -- returns (role, promotions, completedEvents, forcedUsed, verdicts); `cbs` = successful callbacks not yet consumed
  | [], _, p, c, f, vs => (role, p, c, f, vs)
  | e :: rest, cbs, p, c, f, vs =>
    match e.kind with
    | .cbOk r => checkEvents m role rest (r :: cbs) p c f vs
    | .cbFail => checkEvents m role rest cbs p c f vs
    | .roleChange _ new =>
      let vs1 := if cbs.contains new then vs else
        vs ++ [("role-before-callback", s!"role became {new} at {e.t} without a successful role-change callback before it")]
      let vs2 := if new == "standby" && !m.healthy then
        vs1 ++ [("failback-unhealthy", s!"failed back to standby at {e.t} while the partner was reported down")] else vs1
      checkEvents m new rest (cbs.erase new) (if role == "standby" && new == "active" then p + 1 else p) c f vs2
    | .completedAuto =>
      let tf := e.t - m.grace
      let vs1 := if decide (m.grace ≤ e.t) && sustainedDown m tf then vs else
        vs ++ [("early-promotion", s!"automatic promotion completed at {e.t} (entered at {tf}) but the partner was not reported down throughout the {m.delay} ms before")]
      checkEvents m role rest cbs p (c + 1) f vs1
    | .completedForced =>
      let vs1 := if f < m.forcedOutstanding then vs else
        vs ++ [("early-promotion", s!"promotion at {e.t} claims to be operator-forced but no accepted ForceFailover is outstanding")]
      checkEvents m role rest cbs p (c + 1) (f + 1) vs1
    | .other => checkEvents m role rest cbs p c f vs

def check (m : Mon) (op : MOp) (o : Snap) : Mon × List Verdict :=
  match op with
  | .new => ({ m with role := o.role, state := o.state, completed := o.completed }, [])
  | _ =>
  -- the clock and the health picture as of this operation
  let m := { m with now := o.t }
  let m := match op with
    | .down => if m.healthy then { m with healthy := false, downSince := some m.now } else m
    | .up => if m.healthy then m else
        { m with healthy := true, downSince := none }
    | .forceFailover true => { m with forcedOutstanding := m.forcedOutstanding + 1 }
    | _ => m
  let (role', promos, compl, fUsed, vs) := checkEvents m m.role o.evs [] 0 0 0 []
  let vs := vs ++
    (if role' == o.role then [] else
      [("role-before-callback", s!"reported role is {o.role} but the emitted role changes lead to {role'}")]) ++
    (let promos' := if role' == o.role then promos else
        (if m.role == "standby" && o.role == "active" && promos == 0 then 1 else promos)
     if promos' == compl && o.completed == m.completed + compl then [] else
      [("completed-events", s!"{promos'} promotion(s) but {compl} completed event(s), counter moved by {o.completed - m.completed}")]) ++
    (match op with
      | .up => if m.state == "pending" && o.state != "normal" then
          [("not-cancelled", s!"partner recovered while the failover was pending but the state is {o.state}")] else []
      | _ => [])
  -- stuck: in_progress across clock advances for longer than the grace period
  let ipSince := if o.state != "in_progress" then none else
    match op, m.ipSince with
    | .advance, some t => some t
    | _, _ => some m.now
  let vs := vs ++ (match ipSince with
    | some t => if m.grace < m.now - t then
        [("stuck", s!"state in_progress since {t}, still in_progress at {m.now} (grace period {m.grace}) with nothing happening")] else []
    | none => [])
  ({ m with role := o.role, state := o.state, completed := o.completed,
            forcedOutstanding := m.forcedOutstanding - fUsed, ipSince := ipSince,
            ipDownSince := if o.state != "in_progress" then none else
              match m.ipDownSince with
              | some d => some d
              | none => some m.downSince }, vs)

end Bng.Failover
