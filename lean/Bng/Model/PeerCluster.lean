import Bng.Model.FreeList
/-
  Model of a cluster of pool.PeerPool nodes (pkg/pool/peer.go) that were all configured with the same
  peer list and — as cmd/bng does from one set of flags — the same pool network.

  Every node owns a LocalPool (the generic free list `Bng.FreeList`, variant `localCfg`).  A request
  entering node i is routed by `getHealthyOwner`: the first node of the subscriber's rendezvous ranking
  that is i itself or that i considers healthy (i itself if there is none); `Get` is routed by
  `GetOwner` (the top of the ranking, health ignored) and only answers for local allocations.
  The ranking is an INPUT of every operation (the hash is not modelled here: theorems hold for every
  ranking, the harness supplies the one it observed).
  Core Lean only.
-/
namespace Bng.PeerCluster
open Bng

structure State where
  nodes : AMap Nat FreeList.State
  /-- (viewer, peer): viewer considers peer unhealthy -/
  unhealthy : List (Nat × Nat)
  deriving Repr

def mkNodes (c : FreeList.Cfg) : Nat → AMap Nat FreeList.State
  | 0 => []
  | n + 1 => (n + 1, FreeList.init c) :: mkNodes c n

/-- nodes 1 … n, every one with a local pool built from the same configuration -/
def init (c : FreeList.Cfg) (n : Nat) : State := { nodes := mkNodes c n, unhealthy := [] }

/-- getHealthyOwner as node i computes it -/
def healthyOwner (s : State) (i : Nat) (ranked : List Nat) : Nat :=
  match ranked.find? (fun j => j == i || !(s.unhealthy.contains (i, j))) with
  | some j => j
  | none => i

inductive Obs where
  | served (j : Nat) (o : FreeList.Obs)
  | noNode (j : Nat)
  | got (owner : Nat) (o : FreeList.Obs)
  | ok
  | stats (o : FreeList.Obs)
  | bad
  deriving Repr, DecidableEq

/-- run a local-pool operation on node j -/
def onNode (s : State) (j : Nat) (f : FreeList.State → FreeList.State × FreeList.Obs) : State × Obs :=
  match AMap.lookup s.nodes j with
  | some st => ({ s with nodes := AMap.insert s.nodes j (f st).1 }, .served j (f st).2)
  | none => (s, .noNode j)

inductive Op where
  | alloc (i k : Nat) (ranked : List Nat)
  | release (i k : Nat) (ranked : List Nat)
  | get (i k : Nat) (owner : Nat)
  | health (i j : Nat) (healthy : Bool)
  | stats (i : Nat)
  deriving Repr, DecidableEq

def step (s : State) : Op → State × Obs
  | .alloc i k ranked => onNode s (healthyOwner s i ranked) (fun st => FreeList.alloc st k)
  | .release i k ranked => onNode s (healthyOwner s i ranked) (fun st => FreeList.release st k)
  | .get i k owner =>
    if owner = i then
      match AMap.lookup s.nodes i with
      | some st => (s, .got owner (FreeList.get st k))
      | none => (s, .bad)
    else (s, .got owner .none)
  | .health i j healthy =>
    ({ s with unhealthy := if healthy then s.unhealthy.filter (fun p => !(p == (i, j)))
                           else if s.unhealthy.contains (i, j) then s.unhealthy else (i, j) :: s.unhealthy }, .ok)
  | .stats i =>
    match AMap.lookup s.nodes i with
    | some st => (s, .stats (FreeList.stats st))
    | none => (s, .bad)

def run (s : State) (ops : List Op) : State := ops.foldl (fun st op => (step st op).1) s

/-- what subscriber k holds at node j -/
def heldAt (s : State) (j k : Nat) : Option Nat :=
  match AMap.lookup s.nodes j with
  | some st => AMap.lookup st.held k
  | none => none

end Bng.PeerCluster
