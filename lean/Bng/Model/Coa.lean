import Bng.Go
/-
  C15 / C09 — pkg/radius/coa.go: what the CoA/Disconnect listener does with ONE datagram
  (the body of `receiveLoop`, `verifyRequestAuthenticator`, `parseAttributes`, the dispatch, and
  `sendResponse`), as the code is after the D30 fix.  The hash is a parameter `H` (MD5 in the code).
  Core Lean only.
-/
namespace Bng.Coa
open Bng.Go

structure Attr where
  typ : UInt8
  value : Bytes
  deriving Repr, DecidableEq

/-- the loop of `parseAttributes` -/
def parseAttributesLoop (data : Bytes) (off : Nat) (acc : List Attr) (n : Nat) :
    G (Option (List Attr) × Nat) :=
  if h : off + 2 ≤ data.length then do
    let t ← index data off
    let l8 ← index data (off + 1)
    if h2 : l8.toNat < 2 ∨ off + l8.toNat > data.length then pure (none, n + 1)
    else do
      let v ← slice data (off + 2) (off + l8.toNat)
      parseAttributesLoop data (off + l8.toNat) (⟨t, v⟩ :: acc) (n + 1)
  else if off ≠ data.length then pure (none, n)          -- fix KF-coa-trailing-byte: a dangling byte is malformed
  else pure (some acc.reverse, n)
termination_by data.length - off
decreasing_by omega

/-- `parseAttributes` -/
def parseAttributes (data : Bytes) : G (Option (List Attr) × Nat) := parseAttributesLoop data 0 [] 1

inductive Kind where
  | coa | dm
  deriving Repr, DecidableEq

/-- a request that reached `handleCoARequest` / `handleDisconnectRequest` -/
structure Request where
  kind : Kind
  id : UInt8
  /-- the Request Authenticator, `buf[4:20]` -/
  auth : Bytes
  attrs : List Attr
  deriving Repr, DecidableEq

def zeros16 : Bytes := List.replicate 16 0

/-- `for i := range authenticator { if authenticator[i] != expected[i] { return false } }; return true` -/
def cmpLoop (auth expected : Bytes) : Nat → Nat → G Bool
  | _, 0 => pure true
  | i, k + 1 => do
    let a ← index auth i
    let e ← index expected i
    if a ≠ e then pure false else cmpLoop auth expected (i + 1) k

/-- `verifyRequestAuthenticator(packet, authenticator)` -/
def verifyAuth (H : Bytes → Bytes) (secret packet auth : Bytes) : G Bool := do
  let hdr ← sliceTo packet 4
  let body ← sliceFrom packet 20
  cmpLoop auth (H (hdr ++ zeros16 ++ body ++ secret)) 0 auth.length

/-- the body of `receiveLoop` for one datagram `buf[:n]` (here `buf` IS the datagram):
    `some req` = a handler is invoked (and a response sent), `none` = dropped -/
def receive (H : Bytes → Bytes) (secret buf : Bytes) : G (Option Request × Nat) :=
  if buf.length < 20 then pure (none, 1) else do
    let code ← index buf 0
    let id ← index buf 1
    let length ← be16At buf 2
    let auth ← slice buf 4 20
    if length < 20 ∨ length > buf.length then pure (none, 1)          -- fix D30 (`length < 20`)
    else do
      let pkt ← sliceTo buf length
      let ok ← verifyAuth H secret pkt auth
      if ok = false then pure (none, 17)
      else do
        let (attrs?, n2) ← parseAttributes (← slice buf 20 length)
        match attrs? with
        | none => pure (none, 17 + n2)
        | some attrs =>
          if code = 43 then pure (some ⟨.coa, id, auth, attrs⟩, 17 + n2)
          else if code = 40 then pure (some ⟨.dm, id, auth, attrs⟩, 17 + n2)
          else pure (none, 17 + n2)

/-- what a handler answers -/
structure Reply where
  success : Bool
  errorCause : Nat
  message : Bytes
  deriving Repr

/-- `copy(packet[4:20], responseAuth)` into 16 zero bytes -/
def copy16 (src : Bytes) : Bytes := (src ++ zeros16).take 16

/-- the attribute bytes `sendResponse` builds; the Reply-Message is cut to the 253 octets an attribute
    value can hold (fix KF-coa-long-reply; before, `uint8(2+len(message))` wrapped) -/
def respAttrs (errorCause : Nat) (message : Bytes) : Bytes :=
  let message := message.take 253
  (if errorCause ≠ 0 then [101, 6] ++ putBE 4 (errorCause % 4294967296) else []) ++
  (if message ≠ [] then [18, UInt8.ofNat ((2 + message.length) % 256)] ++ message else [])

/-- `sendResponse` : the datagram written back -/
def sendResponse (H : Bytes → Bytes) (secret : Bytes) (code id : UInt8) (reqAuth : Bytes)
    (errorCause : Nat) (message : Bytes) : Bytes :=
  let attrs := respAttrs errorCause message
  let hdr : Bytes := [code, id] ++ putBE 2 ((20 + attrs.length) % 65536)
  hdr ++ copy16 (H (hdr ++ reqAuth ++ attrs ++ secret)) ++ attrs

/-- `sendCoAResponse` / `sendDisconnectResponse` : the response code -/
def respCode : Kind → Bool → UInt8
  | .coa, true => 44
  | .coa, false => 45
  | .dm, true => 41
  | .dm, false => 42

/-- the response to an accepted request -/
def respond (H : Bytes → Bytes) (secret : Bytes) (req : Request) (r : Reply) : Bytes :=
  sendResponse H secret (respCode req.kind r.success) req.id req.auth r.errorCause r.message

/-! ### `parseCoARequest` / `parseDisconnectRequest` : the fields handed to the handlers -/

structure Fields where
  username : Bytes := []
  nasIP : Bytes := []
  framedIP : Bytes := []
  calling : Bytes := []
  sessionID : Bytes := []
  sessionTimeout : Nat := 0
  idleTimeout : Nat := 0
  filterID : Bytes := []
  deriving Repr

/-- one iteration of the `for _, attr := range attrs { switch attr.Type … }` loops; the uint32 reads are
    behind `len(attr.Value) == 4` -/
def applyAttr (k : Kind) (f : Fields) (a : Attr) : G Fields :=
  if a.typ = 1 then pure { f with username := a.value }
  else if a.typ = 4 then pure (if a.value.length = 4 then { f with nasIP := a.value } else f)
  else if a.typ = 8 then pure (if a.value.length = 4 then { f with framedIP := a.value } else f)
  else if a.typ = 31 then pure { f with calling := a.value }
  else if a.typ = 44 then pure { f with sessionID := a.value }
  else if k = .coa ∧ a.typ = 27 then
    if a.value.length = 4 then do let v ← be32 a.value; pure { f with sessionTimeout := v } else pure f
  else if k = .coa ∧ a.typ = 28 then
    if a.value.length = 4 then do let v ← be32 a.value; pure { f with idleTimeout := v } else pure f
  else if k = .coa ∧ a.typ = 11 then pure { f with filterID := a.value }
  else pure f

def parseFields (k : Kind) : List Attr → Fields → G Fields
  | [], f => pure f
  | a :: rest, f => do
    let f' ← applyAttr k f a
    parseFields k rest f'

/-! ### the specification side: what "an authentic, complete RADIUS request" means (RFC 5176 §2.3) -/

/-- well-formed attribute area in the sense of RFC 2865 §5, defined on the bytes (independently of the
    parser's offsets): a sequence of TLVs, each with 2 ≤ length ≤ remaining bytes, that fills the area
    EXACTLY — no byte may be left over -/
def attrsWF_strict : Bytes → Bool
  | [] => true
  | [_] => false
  | _ :: l :: rest =>
    decide (2 ≤ l.toNat) && decide (l.toNat - 2 ≤ rest.length) && attrsWF_strict (rest.drop (l.toNat - 2))
termination_by bs => bs.length
decreasing_by simp; omega

/-- what `parseAttributes` accepted BEFORE the fix of KF-coa-trailing-byte: the same, but a single byte left
    over after the last attribute was tolerated.  Kept only to state the recorded deviation
    (`Spec.C15.KF_coa_trailing_byte_witness`); no theorem about the current code mentions it. -/
def attrsWF_lenient : Bytes → Bool
  | _ :: l :: rest =>
    decide (2 ≤ l.toNat) && decide (l.toNat - 2 ≤ rest.length) && attrsWF_lenient (rest.drop (l.toNat - 2))
  | _ => true
termination_by bs => bs.length
decreasing_by simp; omega

/-- the RADIUS length field -/
def lengthField (buf : Bytes) : Nat := beNat ((buf.take 4).drop 2)

/-- the packet proper: the first `lengthField` bytes of the datagram -/
def packetOf (buf : Bytes) : Bytes := buf.take (lengthField buf)

/-- THE authenticity predicate of C15: the datagram is a complete RADIUS packet (20 ≤ length field ≤
    datagram size), it is a CoA-Request or Disconnect-Request, its attribute area is well formed (strictly: the
    TLVs fill `d[20:L]` exactly), and its
    Request Authenticator equals H(code ‖ id ‖ length ‖ 16 zero bytes ‖ attributes ‖ secret) -/
def authentic (H : Bytes → Bytes) (secret buf : Bytes) : Bool :=
  decide (20 ≤ buf.length) &&
  decide (20 ≤ lengthField buf) && decide (lengthField buf ≤ buf.length) &&
  (buf.head? == some 40 || buf.head? == some 43) &&
  attrsWF_strict ((packetOf buf).drop 20) &&
  decide (H (buf.take 4 ++ zeros16 ++ (packetOf buf).drop 20 ++ secret) = (buf.take 20).drop 4)

end Bng.Coa
