import Bng.Map
/-
  Model of pkg/allocator/epoch_bitmap.go (EpochBitmapAllocator), lease-mode pools.

  One Lean function per Go method.  The packed 2-bit generation array is a sparse map
  slot ↦ generation (absent = 0, the zero value of `make([]byte, n)`); `subscribers` and
  `ipToSubscriber` are `AMap`s; the epoch is a `Nat` (the code's uint64 would wrap after 2^64
  advances, consistently with `% 4`); `byte(gracePeriod)` truncation is explicit (`graceB`).
  `indexToIP`/`ipToIndex` are modelled byte-wise exactly as written (add/subtract per octet
  without carry).  Subscriber ids are `Nat`.  IPv4 only (the constructor rejects other families).
  Core Lean only.
-/
namespace Bng.Epoch
open Bng

structure Cfg where
  base  : Nat      -- numeric value of the masked IPv4 base address
  ones  : Nat      -- prefix length of the base network
  plen  : Nat      -- configured PrefixLength
  grace : Nat      -- gracePeriod after the constructor's default (0 ↦ 1)
  deriving Repr, DecidableEq

/-- `uint64(1) << (PrefixLength - ones)` -/
def Cfg.total (c : Cfg) : Nat := 2 ^ (c.plen - c.ones)
/-- NewEpochBitmapAllocator's validation (IPv4: bits = 32) -/
def Cfg.valid (c : Cfg) : Bool := c.ones ≤ c.plen && c.plen ≤ 32
/-- `byte(a.gracePeriod)` -/
def Cfg.graceB (c : Cfg) : Nat := c.grace % 256
/-- `a.totalIPs - 2` in uint64 -/
def Cfg.usable (c : Cfg) : Nat := (c.total + 2 ^ 64 - 2) % 2 ^ 64

structure State where
  cfg    : Cfg
  gens   : AMap Nat Nat     -- slot → generation (0..3), absent = 0
  subs   : AMap Nat Nat     -- subscriber → slot
  ip2sub : AMap Nat Nat     -- slot → subscriber
  epoch  : Nat
  hint   : Nat
  deriving Repr

def init (c : Cfg) : State :=
  { cfg := c, gens := [], subs := [], ip2sub := [], epoch := 2, hint := 1 }

/-- currentGeneration -/
def curGen (s : State) : Nat := s.epoch % 4

def genAt (gens : AMap Nat Nat) (i : Nat) : Nat := (AMap.lookup gens i).getD 0

/-- getGeneration -/
def genOf (s : State) (i : Nat) : Nat := genAt s.gens i

/-- isGenerationFree at epoch `epoch` with `byte(gracePeriod) = graceB`: the generation is more than
    the grace period behind the current one (mod 4) -/
def freeGen (epoch graceB g : Nat) : Bool := decide ((epoch % 4 + 4 - g) % 4 > graceB)

def isFree (s : State) (g : Nat) : Bool := freeGen s.epoch s.cfg.graceB g

/-- slotFree: nobody holds the slot -/
def slotFree (s : State) (i : Nat) : Bool := (AMap.lookup s.ip2sub i).isNone

def byteOf (x j : Nat) : Nat := x / 2 ^ (8 * j) % 256

/-- indexToIP: the offset is added octet by octet, without carry -/
def indexToIP (c : Cfg) (idx : Nat) : Nat :=
  let off := idx % 2 ^ 32
  (byteOf c.base 3 + byteOf off 3) % 256 * 2 ^ 24 + (byteOf c.base 2 + byteOf off 2) % 256 * 2 ^ 16 +
    (byteOf c.base 1 + byteOf off 1) % 256 * 2 ^ 8 + (byteOf c.base 0 + byteOf off 0) % 256

/-- ipToIndex: octet-wise subtraction (wrapping), then the range check -/
def ipToIndex (c : Cfg) (ip : Nat) : Option Nat :=
  let d := fun j => (byteOf ip j + 256 - byteOf c.base j) % 256
  let off := d 3 * 2 ^ 24 + d 2 * 2 ^ 16 + d 1 * 2 ^ 8 + d 0
  if off ≥ c.total then none else some off

inductive Obs where
  | okAddr (a : Nat)
  | ok
  | exhausted
  | notfound
  | none
  | addr (a : Nat)
  | sub (k : Nat)
  | stats (alloc total : Nat)
  | num (n : Nat)
  deriving Repr, DecidableEq

/-- the allocation loop: `i` is the loop counter, the second argument the remaining iterations -/
def scan (s : State) : Nat → Nat → Option Nat
  | _, 0 => none
  | i, n + 1 =>
    let idx := (s.hint + i) % s.cfg.total
    if idx = 0 ∨ idx = s.cfg.total - 1 then scan s (i + 1) n
    else if slotFree s idx then some idx
    else scan s (i + 1) n

def findFree (s : State) : Option Nat := scan s 0 s.cfg.total

def alloc (s : State) (k : Nat) : State × Obs :=
  match AMap.lookup s.subs k with
  | some i => ({ s with gens := AMap.insert s.gens i (curGen s) }, .okAddr (indexToIP s.cfg i))
  | none =>
    match findFree s with
    | none => (s, .exhausted)
    | some i =>
      ({ s with gens := AMap.insert s.gens i (curGen s), subs := AMap.insert s.subs k i,
                ip2sub := AMap.insert s.ip2sub i k, hint := (i + 1) % s.cfg.total },
       .okAddr (indexToIP s.cfg i))

def renew (s : State) (k : Nat) : State × Obs :=
  match AMap.lookup s.subs k with
  | none => (s, .notfound)
  | some i => ({ s with gens := AMap.insert s.gens i (curGen s) }, .ok)

def release (s : State) (k : Nat) : State × Obs :=
  match AMap.lookup s.subs k with
  | none => (s, .ok)
  | some i =>
    ({ s with gens := AMap.insert s.gens i ((curGen s + 2) % 4), subs := AMap.erase s.subs k,
              ip2sub := AMap.erase s.ip2sub i, hint := if i < s.hint then i else s.hint }, .ok)

def lookup (s : State) (k : Nat) : Obs :=
  match AMap.lookup s.subs k with
  | none => .none
  | some i => if isFree s (genOf s i) then .none else .addr (indexToIP s.cfg i)

def lookupByIP (s : State) (ip : Nat) : Obs :=
  match ipToIndex s.cfg ip with
  | none => .none
  | some i =>
    match AMap.lookup s.ip2sub i with
    | none => .none
    | some k => if isFree s (genOf s i) then .none else .sub k

/-- the sweep of AdvanceEpoch over (a snapshot of) `subscribers`: lapsed holders (`lapsed slot`) are
    dropped and the allocation hint is lowered to the lowest slot that became free -/
def expire (lapsed : Nat → Bool) (subs ip2sub : AMap Nat Nat) (hint : Nat) :
    List (Nat × Nat) → AMap Nat Nat × AMap Nat Nat × Nat
  | [] => (subs, ip2sub, hint)
  | (k, i) :: rest =>
    if lapsed i then
      expire lapsed (AMap.erase subs k) (AMap.erase ip2sub i) (if i < hint then i else hint) rest
    else expire lapsed subs ip2sub hint rest

def advance (s : State) : State × Obs :=
  let e := s.epoch + 1
  let r := expire (fun i => freeGen e s.cfg.graceB (genAt s.gens i)) s.subs s.ip2sub s.hint s.subs
  ({ s with epoch := e, subs := r.1, ip2sub := r.2.1, hint := r.2.2 }, .num e)

def stats (s : State) : Obs := .stats s.subs.length s.cfg.usable

/-- the third result of Stats(), classified: 0 when nothing is held or nothing is usable, otherwise the
    fraction allocated/usable -/
def utilKind (s : State) : String :=
  if s.cfg.usable = 0 ∨ s.subs.length = 0 then "zero" else "ratio"

/-- UnmarshalJSON ∘ MarshalJSON into a zero-valued allocator: everything is restored except the hint -/
def roundtrip (s : State) : State := { s with hint := 0 }

inductive Op where
  | alloc (k : Nat)
  | renew (k : Nat)
  | release (k : Nat)
  | advance
  | lookup (k : Nat)
  | owner (ip : Nat)
  | stats
  | epoch
  | roundtrip
  deriving Repr, DecidableEq

def step (s : State) : Op → State × Obs
  | .alloc k => alloc s k
  | .renew k => renew s k
  | .release k => release s k
  | .advance => advance s
  | .lookup k => (s, lookup s k)
  | .owner ip => (s, lookupByIP s ip)
  | .stats => (s, stats s)
  | .epoch => (s, .num s.epoch)
  | .roundtrip => (roundtrip s, .ok)

def run (s : State) (ops : List Op) : State := ops.foldl (fun st op => (step st op).1) s

end Bng.Epoch
