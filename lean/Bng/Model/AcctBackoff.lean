/-
  The retry schedule of radius.AccountingManager (pkg/radius/accounting.go), with time:

    queuePendingRecord:     NextRetry = now + RetryBaseDelay
    retryPendingRecords:    a record is retried iff now.After(NextRetry)          (strictly later)
    processPendingRecord:   RetryCount++ ; abandoned iff RetryCount >= MaxRetries ; otherwise
                            delay := min(RetryBaseDelay * 2^RetryCount, RetryMaxDelay)  (exact; the code compares
                            RetryBaseDelay <= RetryMaxDelay>>RetryCount before shifting) ; NextRetry = now + delay
    the queue channel delivers a record regardless of NextRetry (and skips one no longer in the map).

  Times are nanoseconds (Int), 0 < base, 0 < max.
  Core Lean only.
-/
namespace Bng.AcctBackoff

/-- two's-complement wrap of an integer into int64 (what the code computed before fix C08-backoff-overflow:
`RetryBaseDelay * time.Duration(1<<uint(n))`; kept for the witness theorem) -/
def wrap64 (x : Int) : Int := (x + 2 ^ 63) % 2 ^ 64 - 2 ^ 63

/-- the delay the unrepaired code computed -/
def delayWrapped (base max : Int) (n : Nat) : Int :=
  let d := wrap64 (base * wrap64 (2 ^ n))
  if d > max then max else d

/-- the back-off: `min (base * 2^n) max`, exactly (no wrap-around) -/
def delay (base max : Int) (n : Nat) : Int :=
  if base * 2 ^ n > max then max else base * 2 ^ n

structure BRec where
  id : Nat
  retries : Nat
  next : Int
  deriving Repr

structure State where
  maxRetries : Nat
  base : Int
  max : Int
  now : Int := 0
  recs : List BRec := []       -- the retry map, in creation order
  queue : List Nat := []
  nextId : Nat := 0
  sessions : List Nat := []
  deriving Repr

def process (σ : State) (id : Nat) (up : Bool) : State :=
  match σ.recs.find? (fun r => r.id == id) with
  | none => σ
  | some r =>
    if up then { σ with recs := σ.recs.filter (fun q => q.id != id) }
    else if r.retries + 1 ≥ σ.maxRetries then { σ with recs := σ.recs.filter (fun q => q.id != id) }
    else { σ with recs := σ.recs.map (fun q =>
      if q.id == id then { q with retries := r.retries + 1, next := σ.now + delay σ.base σ.max (r.retries + 1) } else q) }

/-- the records retryPendingRecords picks: `now.After(NextRetry)` -/
def due (σ : State) : List Nat := (σ.recs.filter (fun r => decide (σ.now > r.next))).map (·.id)

def retry (σ : State) (up : Bool) : State × List Nat :=
  let ids := due σ
  (ids.foldl (fun s id => process s id up) σ, ids)

def deq (σ : State) (up : Bool) : State × Option (List Nat) :=
  match σ.queue with
  | [] => (σ, none)
  | id :: q =>
    let σ := { σ with queue := q }
    if (σ.recs.any (fun r => r.id == id)) then (process σ id up, some [id]) else (σ, some [])

def stop (σ : State) (s : Nat) (up : Bool) : State :=
  if !σ.sessions.contains s then σ else
  let σ := { σ with sessions := σ.sessions.filter (· != s) }
  if up then σ else
  let id := σ.nextId + 1
  { σ with nextId := id, recs := σ.recs ++ [{ id := id, retries := 0, next := σ.now + σ.base }],
           queue := σ.queue ++ [id] }

end Bng.AcctBackoff
