import Bng.Map
/-
  Model of pkg/qinq/qinq.go (Mapper): Register / Unregister / UnregisterSubscriber / GetSubscriber / GetVLAN / Stats.

  `vlanToSubscriber` is `v2s : (s, c) ↦ subscriber`, `subscriberToVLAN` is `s2v : subscriber ↦ (s, c)`.
  Tag 0 means "tag absent" (single-tagged / untagged) and is exempt from the range validation, exactly as in the code.
  Subscriber ids are `Nat` (harness: s0, s1, …).  Core Lean only.
-/
namespace Bng.Qinq
open Bng

abbrev Pair := Nat × Nat

structure Cfg where
  sRanges : List (Nat × Nat)     -- STagRanges (start, end)
  cS : Nat
  cE : Nat
  deriving Repr, DecidableEq

structure State where
  cfg : Cfg
  v2s : AMap Pair Nat
  s2v : AMap Nat Pair
  deriving Repr

def init (c : Cfg) : State := { cfg := c, v2s := [], s2v := [] }

/-- the validation at the head of Register -/
def valid (c : Cfg) (p : Pair) : Bool :=
  (p.1 == 0 || c.sRanges.any (fun r => decide (r.1 ≤ p.1) && decide (p.1 ≤ r.2))) &&
  (p.2 == 0 || (decide (c.cS ≤ p.2) && decide (p.2 ≤ c.cE)))

inductive Obs where
  | ok
  | range
  | conflict
  | none
  | sub (k : Nat)
  | pair (s c : Nat)
  | count (n : Nat)
  deriving Repr, DecidableEq

/-- the part of Register after validation and the conflict check -/
def bind (st : State) (p : Pair) (k : Nat) : State :=
  let v := match AMap.lookup st.s2v k with
    | some old => AMap.erase st.v2s old
    | none => st.v2s
  { st with v2s := AMap.insert v p k, s2v := AMap.insert st.s2v k p }

def register (st : State) (p : Pair) (k : Nat) : State × Obs :=
  if !valid st.cfg p then (st, .range)
  else
    match AMap.lookup st.v2s p with
    | some k' => if k' ≠ k then (st, .conflict) else (bind st p k, .ok)
    | none => (bind st p k, .ok)

def unregister (st : State) (p : Pair) : State × Obs :=
  match AMap.lookup st.v2s p with
  | some k => ({ st with v2s := AMap.erase st.v2s p, s2v := AMap.erase st.s2v k }, .ok)
  | none => (st, .ok)

def unregisterSub (st : State) (k : Nat) : State × Obs :=
  match AMap.lookup st.s2v k with
  | some p => ({ st with v2s := AMap.erase st.v2s p, s2v := AMap.erase st.s2v k }, .ok)
  | none => (st, .ok)

def getSubscriber (st : State) (p : Pair) : Obs :=
  match AMap.lookup st.v2s p with
  | some k => .sub k
  | none => .none

def getVLAN (st : State) (k : Nat) : Obs :=
  match AMap.lookup st.s2v k with
  | some p => .pair p.1 p.2
  | none => .none

inductive Op where
  | register (p : Pair) (k : Nat)
  | unregister (p : Pair)
  | unregisterSub (k : Nat)
  | getSubscriber (p : Pair)
  | getVLAN (k : Nat)
  | stats
  deriving Repr, DecidableEq

def step (st : State) : Op → State × Obs
  | .register p k => register st p k
  | .unregister p => unregister st p
  | .unregisterSub k => unregisterSub st k
  | .getSubscriber p => (st, getSubscriber st p)
  | .getVLAN k => (st, getVLAN st k)
  | .stats => (st, .count st.v2s.length)

def run (st : State) (ops : List Op) : State := ops.foldl (fun s op => (step s op).1) st

end Bng.Qinq
