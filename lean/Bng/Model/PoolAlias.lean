import Bng.Map
/-
  dhcp.Pool (pkg/dhcp/pool.go) as it was BEFORE fix 7ce824d, with the sharing of address slices made explicit.

  A Go slice is modelled as a CELL (a number); `mem` says which address the bytes of a cell spell now.  The
  allocation table `allocated[mac]` and the free list `available` hold cells.  Before the fix
    * Allocate returned the table's own cell,
    * Release(ip) searched the table BY VALUE and appended the CALLER's cell to the free list.
  A caller that writes through a cell it holds (`write`) therefore rewrote a table entry or a free-list entry.
  Since the fix Allocate returns a fresh copy and Release re-queues the pool's own cell: the cells a caller can
  write never occur in `alloc` or `free`, which is why the model of the code as it is (Bng.FreeList) has no
  cells at all and the harness's `scribble` is no operation.  Core Lean only.
-/
namespace Bng.PoolAlias
open Bng

structure State where
  mem   : AMap Nat Nat       -- cell ↦ the address its bytes spell
  alloc : AMap Nat Nat       -- MAC ↦ cell
  free  : List Nat           -- cells
  next  : Nat                -- the next fresh cell (slices the callers bring)
  deriving Repr

/-- NewPool: one cell per usable address -/
def init (addrs : List Nat) : State :=
  { mem := (List.range addrs.length).zip addrs, alloc := [], free := List.range addrs.length,
    next := addrs.length }

def addrOf (s : State) (c : Nat) : Nat := (AMap.lookup s.mem c).getD 0

/-- Allocate: the cell of the table entry is what the caller gets -/
def allocate (s : State) (m : Nat) : State × Option Nat :=
  match AMap.lookup s.alloc m with
  | some c => (s, some c)
  | none =>
    match s.free with
    | [] => (s, none)
    | c :: rest => ({ s with alloc := AMap.insert s.alloc m c, free := rest }, some c)

/-- a caller builds a slice of its own that spells address `a` (a parsed packet field, a lease field) -/
def callerCell (s : State) (a : Nat) : State × Nat :=
  ({ s with mem := AMap.insert s.mem s.next a, next := s.next + 1 }, s.next)

/-- Release(ip): the first table entry that spells the same address is deleted and the CALLER's cell is queued -/
def release (s : State) (c : Nat) : State :=
  match s.alloc.find? (fun p => addrOf s p.2 == addrOf s c) with
  | some p => { s with alloc := AMap.erase s.alloc p.1, free := s.free ++ [c] }
  | none => s

/-- the caller overwrites the bytes of a cell it holds -/
def write (s : State) (c a : Nat) : State := { s with mem := AMap.insert s.mem c a }

/-- the address a MAC is bound to -/
def bound (s : State) (m : Nat) : Option Nat := (AMap.lookup s.alloc m).map (addrOf s)

end Bng.PoolAlias
