import Bng.Model.PoolSpec
/-
  Lemmas about the abstract pool specification (the monitor): when it stays silent.
-/
namespace Bng.PoolSpec
open Bng AMap

theorem holderOf_some {m : Mon} (hn : NodupKeys m) {a k : Nat} (h : holderOf m a = some k) :
    AMap.lookup m k = some a := by
  unfold holderOf at h
  split at h
  · rename_i p hp
    simp only [Option.some.injEq] at h
    subst h
    have hm := List.mem_of_find?_eq_some hp
    have hv := List.find?_some hp
    simp only [beq_iff_eq] at hv
    have : (p.1, p.2) ∈ m := hm
    rw [← hv]
    exact lookup_of_mem hn this
  · simp at h

theorem holderOf_none {m : Mon} {a : Nat} (h : holderOf m a = none) (k : Nat) :
    AMap.lookup m k ≠ some a := by
  intro hk
  unfold holderOf at h
  split at h
  · simp at h
  · rename_i hf
    have := List.find?_eq_none.mp hf (k, a) (mem_of_lookup hk)
    simp at this

theorem holderOf_eq_none {m : Mon} (hn : NodupKeys m) {a : Nat}
    (h : ∀ k, AMap.lookup m k ≠ some a) : holderOf m a = none := by
  cases e : holderOf m a with
  | none => rfl
  | some k => exact absurd (holderOf_some hn e) (h k)

theorem holderOf_eq_some {m : Mon} (hn : NodupKeys m) {a k : Nat} (hk : AMap.lookup m k = some a)
    (huniq : ∀ k', AMap.lookup m k' = some a → k' = k) : holderOf m a = some k := by
  cases e : holderOf m a with
  | none => exact absurd hk (holderOf_none e k)
  | some k' => rw [huniq k' (holderOf_some hn e)]

/-- `got`/`forced` are accepted silently when the value is in range, is what the subscriber already
    holds (strict case) and nobody else holds it -/
theorem checkGot_nil (g : Geo) {m : Mon} (hn : NodupKeys m) {k a : Nat} (strict : Bool)
    (hr : inRange g a = true)
    (hidem : strict = true → AMap.lookup m k = none ∨ AMap.lookup m k = some a)
    (huniq : ∀ k', k' ≠ k → AMap.lookup m k' ≠ some a) :
    checkGot g m k a strict = [] := by
  unfold checkGot
  have h3 : holderOf (AMap.erase m k) a = none := by
    apply holderOf_eq_none (nodupKeys_erase hn k)
    intro k' hk'
    rw [lookup_erase] at hk'
    by_cases e : k' = k
    · simp [e] at hk'
    · simp only [e, if_false] at hk'; exact huniq k' e hk'
  simp only [hr, if_true, h3, List.nil_append, List.append_nil]
  cases hk : AMap.lookup m k with
  | none => rfl
  | some a' =>
    cases strict with
    | false => simp
    | true =>
      rcases hidem rfl with h | h
      · rw [hk] at h; simp at h
      · rw [hk] at h; simp only [Option.some.injEq] at h; simp [h]

theorem length_insert_of_none {m : Mon} {k a : Nat} (h : AMap.lookup m k = none) :
    (AMap.insert m k a).length = m.length + 1 := by
  unfold AMap.insert
  rw [List.length_cons, length_erase_of_none h]

theorem length_insert_of_some {m : Mon} (hn : NodupKeys m) {k a a' : Nat}
    (h : AMap.lookup m k = some a') : (AMap.insert m k a).length = m.length := by
  unfold AMap.insert
  rw [List.length_cons]
  exact length_erase_of_lookup hn h

end Bng.PoolSpec
