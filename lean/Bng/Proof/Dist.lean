import Bng.Model.Dist
import Bng.Proof.Bitmap
import Bng.Proof.Epoch
/-
  Lemmas for C12: the session-mode distributed allocator keeps memory and store in agreement under every
  failure vector, restart from the store reproduces the allocation table for every enumeration order,
  remote puts are applied; the restored epoch allocator is observationally equal to the original.
-/
namespace Bng.Bitmap
open Bng AMap

/-! ## facts about the bitmap allocator used by the distributed wrapper -/

theorem step_pos (c : Cfg) : 0 < c.step := Nat.pow_pos (by omega)

theorem prefixOf_inj (c : Cfg) {i j : Nat} (h : prefixOf c i = prefixOf c j) : i = j := by
  unfold prefixOf at h
  have : i * c.step = j * c.step := by omega
  exact Nat.eq_of_mul_eq_mul_right (step_pos c) this

/-- the prefix of unit `i` is recognised as unit `i` -/
theorem indexOf_prefixOf (c : Cfg) (hc : c.plen - c.poolPrefix < 64) {i : Nat} (hi : i < c.total) :
    indexOf c (prefixOf c i) c.plen = some i := by
  rw [total_eq hc] at hi
  unfold indexOf prefixOf
  have h1 : c.base + i * c.step - c.base = i * c.step := by omega
  have h2 : i * c.step / c.step = i := Nat.mul_div_cancel i (step_pos c)
  have h64 : c.totalBig ≤ 2 ^ 64 := by
    unfold Cfg.totalBig
    exact Nat.pow_le_pow_right (by omega) (by omega)
  have hmod : i % 2 ^ 64 = i := Nat.mod_eq_of_lt (by omega)
  simp only [ne_eq, not_true_eq_false, if_false, h1, h2, hmod]
  have : ¬ (c.base + i * c.step < c.base) := by omega
  have h3 : ¬ (i ≥ c.totalBig) := by omega
  simp [this, h3]

/-- what an index lookup that succeeds tells about the request -/
theorem indexOf_some_plen {c : Cfg} {a o i : Nat} (h : indexOf c a o = some i) : o = c.plen := by
  unfold indexOf at h
  split at h
  · simp at h
  · rename_i hne; simpa using hne

/-- a SetAllocation for a unit that is free or already the subscriber's succeeds:
    the subscriber holds exactly that unit afterwards and nobody else is touched -/
theorem setAllocation_ok {a : State} {k addr plen i : Nat} (hidx : indexOf a.cfg addr plen = some i)
    (hfree : a.idx2sub.lookup i = none ∨ a.idx2sub.lookup i = some k) :
    (setAllocation a k addr plen).1.cfg = a.cfg ∧
      ∀ k', (setAllocation a k addr plen).1.allocated.lookup k' =
        if k' = k then some i else a.allocated.lookup k' := by
  have hset : (setAllocation a k addr plen) = setAllocation.setIt a k i := by
    unfold setAllocation
    rw [hidx]
    simp only
    rcases hfree with h | h
    · rw [h]
    · rw [h]; simp
  rw [hset]
  unfold setAllocation.setIt
  cases hk : a.allocated.lookup k with
  | none =>
    simp only
    refine ⟨rfl, ?_⟩
    intro k'
    show AMap.lookup (AMap.insert a.allocated k i) k' = _
    rw [lookup_insert]
  | some old =>
    simp only
    by_cases e : old = i
    · subst e
      simp only [ne_eq, not_true_eq_false, if_false]
      refine ⟨by first | rfl | trivial, ?_⟩
      intro k'
      by_cases e2 : k' = k
      · subst e2; simp [hk]
      · simp [e2]
    · simp only [ne_eq, e, not_false_eq_true, if_true]
      refine ⟨by first | rfl | trivial, ?_⟩
      intro k'
      show AMap.lookup (AMap.insert (AMap.erase a.allocated k) k i) k' = _
      rw [lookup_insert]
      by_cases e2 : k' = k
      · simp [e2]
      · simp only [e2, if_false]
        exact lookup_erase_ne _ e2

/-- a SetAllocation that cannot be honoured changes nothing -/
theorem setAllocation_fail_cfg (a : State) (k addr plen : Nat) :
    (setAllocation a k addr plen).1.cfg = a.cfg := by
  have := step_cfg a (.setAllocation k addr plen)
  simpa [step] using this

theorem release_lookup (a : State) (k k' : Nat) :
    (release a k).1.allocated.lookup k' = if k' = k then none else a.allocated.lookup k' := by
  unfold release
  cases hk : a.allocated.lookup k with
  | none =>
    simp only
    by_cases e : k' = k
    · subst e; simp [hk]
    · simp [e]
  | some i =>
    simp only
    show AMap.lookup (AMap.erase a.allocated k) k' = _
    rw [lookup_erase]

theorem release_cfg (a : State) (k : Nat) : (release a k).1.cfg = a.cfg := by
  have := step_cfg a (.release k)
  simpa [step] using this

end Bng.Bitmap

namespace Bng.Dist.Session
open Bng AMap Bng.Bitmap

/-! ## session mode: memory and store agree -/

/-- k has a record in the store exactly when it holds a unit in memory, and the record is that unit's prefix -/
def Agree (s : State) : Prop :=
  ∀ k, (AMap.lookup s.store k).map (fun r => (r.addr, r.plen)) =
       (AMap.lookup s.a.allocated k).map (fun i => (prefixOf s.a.cfg i, s.a.cfg.plen))

structure SInv (s : State) : Prop where
  inv : Bitmap.Inv s.a
  agree : Agree s

/-- a remote announcement this node can honour: a prefix of the pool that is free or already the subscriber's -/
def applicable (s : State) (k : Nat) (r : Rec) : Bool :=
  match indexOf s.a.cfg r.addr r.plen with
  | some i =>
    prefixOf s.a.cfg i == r.addr &&
      (match AMap.lookup s.a.idx2sub i with
        | none => true
        | some k' => k' == k)
  | none => false

/-- every announcement of a sequence of remote changes is honourable at the moment it arrives -/
def okRemotes : State → List Remote → Bool
  | _, [] => true
  | s, .put k r :: rest => applicable s k r && okRemotes (remotePut s k r) rest
  | s, .del k :: rest => okRemotes (remoteDel s k) rest

/-- the guard under which an operation is an admissible event of a history: remote announcements are
    honourable, and a Query enumerates every key of the store (in any order, possibly with repetitions) -/
def okOp (s : State) : Op → Bool
  | .remotePut k r => applicable s k r
  | .restart order => (AMap.keys s.store).all fun k => order.contains k
  | .restartGap order w =>
    ((AMap.keys s.store).all fun k => order.contains k) && okRemotes (restart s order) w
  | _ => true

def Valid : State → List Op → Prop
  | _, [] => True
  | s, op :: ops => okOp s op = true ∧ Valid (step s op).1 ops

theorem sinv_init (c : Cfg) (hc : c.plen - c.poolPrefix < 64) : SInv (init c) :=
  ⟨inv_init c hc, fun k => by simp [init, Bitmap.init]⟩

theorem agree_store_none {s : State} (h : Agree s) {k : Nat} (hk : AMap.lookup s.a.allocated k = none) :
    AMap.lookup s.store k = none := by
  have := h k
  rw [hk] at this
  cases e : AMap.lookup s.store k with
  | none => rfl
  | some r => rw [e] at this; simp at this

theorem sinv_alloc {s : State} (hI : SInv s) (k : Nat) (f : Bool) : SInv (alloc s k f).1 := by
  unfold alloc holds
  cases hk : AMap.lookup s.a.allocated k with
  | some i =>
    have ha : Bitmap.alloc s.a k = (s.a, .okAddr (prefixOf s.a.cfg i)) := by
      unfold Bitmap.alloc; rw [hk]
    rw [ha]
    simp only [Option.isSome_some, if_true]
    cases f with
    | true => exact ⟨hI.inv, hI.agree⟩
    | false =>
      refine ⟨hI.inv, ?_⟩
      intro k'
      show (AMap.lookup (AMap.insert s.store k _) k').map _ = _
      rw [lookup_insert]
      by_cases e : k' = k
      · subst e; simp [hk]
      · simp only [e, if_false]; exact hI.agree k'
  | none =>
    cases hf : findFree s.a with
    | none =>
      have ha : Bitmap.alloc s.a k = (s.a, .exhausted) := by
        unfold Bitmap.alloc; rw [hk]; simp only; rw [hf]
      rw [ha]
      exact hI
    | some i =>
      have ha : Bitmap.alloc s.a k = (give s.a k i ((i + 1) % 2 ^ 64), .okAddr (prefixOf s.a.cfg i)) := by
        unfold Bitmap.alloc; rw [hk]; simp only; rw [hf]
      have hI' : Bitmap.Inv (give s.a k i ((i + 1) % 2 ^ 64)) := by
        have := inv_alloc hI.inv k
        rw [ha] at this; exact this
      rw [ha]
      simp only [Option.isSome_none, Bool.false_eq_true, if_false]
      cases f with
      | true =>
        simp only [if_true]
        refine ⟨inv_release hI' k, ?_⟩
        intro k'
        show _ = (AMap.lookup (Bitmap.release (give s.a k i ((i + 1) % 2 ^ 64)) k).1.allocated k').map _
        rw [release_lookup, release_cfg]
        by_cases e : k' = k
        · subst e
          simp only [if_true, Option.map_none]
          rw [agree_store_none hI.agree hk]; rfl
        · simp only [e, if_false]
          show _ = (AMap.lookup (AMap.insert s.a.allocated k i) k').map _
          rw [lookup_insert_ne _ _ e]
          exact hI.agree k'
      | false =>
        simp only [Bool.false_eq_true, if_false]
        refine ⟨hI', ?_⟩
        intro k'
        show (AMap.lookup (AMap.insert s.store k _) k').map _ =
          (AMap.lookup (AMap.insert s.a.allocated k i) k').map _
        rw [lookup_insert, lookup_insert]
        by_cases e : k' = k
        · simp [e, give]
        · simp only [e, if_false]; exact hI.agree k'

theorem sinv_release {s : State} (hI : SInv s) (k : Nat) (f : Bool) : SInv (release s k f).1 := by
  unfold release
  split
  · exact hI
  · split
    · exact hI
    · refine ⟨inv_release hI.inv k, ?_⟩
      intro k'
      show (AMap.lookup (AMap.erase s.store k) k').map _ = (AMap.lookup (Bitmap.release s.a k).1.allocated k').map _
      rw [release_lookup, release_cfg, lookup_erase]
      by_cases e : k' = k
      · simp [e]
      · simp only [e, if_false]; exact hI.agree k'

theorem sinv_remoteDel {s : State} (hI : SInv s) (k : Nat) : SInv (remoteDel s k) := by
  refine ⟨inv_release hI.inv k, ?_⟩
  intro k'
  have hc : (remoteDel s k).a.cfg = s.a.cfg := release_cfg _ _
  show (AMap.lookup (AMap.erase s.store k) k').map _ = (AMap.lookup (Bitmap.release s.a k).1.allocated k').map _
  rw [release_lookup, hc, lookup_erase]
  by_cases e : k' = k
  · simp [e]
  · simp only [e, if_false]; exact hI.agree k'

/-- what `applicable` gives -/
theorem applicable_spec {s : State} {k : Nat} {r : Rec} (h : applicable s k r = true) :
    ∃ i, indexOf s.a.cfg r.addr r.plen = some i ∧ prefixOf s.a.cfg i = r.addr ∧ r.plen = s.a.cfg.plen ∧
      (AMap.lookup s.a.idx2sub i = none ∨ AMap.lookup s.a.idx2sub i = some k) := by
  unfold applicable at h
  cases hi : indexOf s.a.cfg r.addr r.plen with
  | none => rw [hi] at h; simp at h
  | some i =>
    rw [hi] at h
    simp only [Bool.and_eq_true, beq_iff_eq] at h
    refine ⟨i, rfl, h.1, indexOf_some_plen hi, ?_⟩
    cases hx : AMap.lookup s.a.idx2sub i with
    | none => exact Or.inl rfl
    | some k' =>
      rw [hx] at h
      have := h.2
      simp only [beq_iff_eq] at this
      rw [this]; exact Or.inr rfl

/-- after an applicable remote put, memory holds exactly the announced unit for k, nobody else changes -/
theorem applyPut_spec {s : State} (hI : SInv s) {k : Nat} {r : Rec} (h : applicable s k r = true) :
    ∃ i, prefixOf s.a.cfg i = r.addr ∧ r.plen = s.a.cfg.plen ∧ (applyPut s.a k r).cfg = s.a.cfg ∧
      Bitmap.Inv (applyPut s.a k r) ∧
      ∀ k', AMap.lookup (applyPut s.a k r).allocated k' = if k' = k then some i else AMap.lookup s.a.allocated k' := by
  obtain ⟨i, hidx, hpre, hpl, hfree⟩ := applicable_spec h
  obtain ⟨hcfg, hlk⟩ := setAllocation_ok hidx hfree
  have hinv := inv_setAllocation hI.inv k r.addr r.plen
  refine ⟨i, hpre, hpl, ?_⟩
  unfold applyPut Bitmap.lookup
  cases hk : AMap.lookup s.a.allocated k with
  | none => exact ⟨hcfg, hinv, hlk⟩
  | some i0 =>
    simp only
    by_cases e : prefixOf s.a.cfg i0 = r.addr ∧ s.a.cfg.plen = r.plen
    · rw [if_pos e]
      have : i0 = i := prefixOf_inj s.a.cfg (by rw [e.1, hpre])
      subst this
      refine ⟨rfl, hI.inv, ?_⟩
      intro k'
      by_cases e2 : k' = k
      · subst e2; simp [hk]
      · simp [e2]
    · rw [if_neg e]
      exact ⟨hcfg, hinv, hlk⟩

theorem sinv_remotePut {s : State} (hI : SInv s) {k : Nat} {r : Rec} (h : applicable s k r = true) :
    SInv (remotePut s k r) := by
  obtain ⟨i, hpre, hpl, hcfg, hinv, hlk⟩ := applyPut_spec hI h
  refine ⟨hinv, ?_⟩
  intro k'
  have hc : (remotePut s k r).a.cfg = s.a.cfg := hcfg
  show (AMap.lookup (AMap.insert s.store k r) k').map _ = (AMap.lookup (applyPut s.a k r).allocated k').map _
  rw [hlk, hc, lookup_insert]
  by_cases e : k' = k
  · simp [e, hpre, hpl]
  · simp only [e, if_false]; exact hI.agree k'

/-! ### restart: replaying the store into a fresh allocator -/

/-- the replay loop, started from any allocator whose holdings are a part of the store's records, ends with
    exactly the records it was given on top -/
theorem load_spec (c : Cfg) (hc : c.plen - c.poolPrefix < 64) (store : Store)
    (hrec : ∀ k r, AMap.lookup store k = some r → ∃ i, i < c.total ∧ prefixOf c i = r.addr ∧ r.plen = c.plen)
    (hinj : ∀ k k' r r', AMap.lookup store k = some r → AMap.lookup store k' = some r' → r.addr = r'.addr → k = k') :
    ∀ (l : List (Nat × Rec)) (a : Bitmap.State), Bitmap.Inv a → a.cfg = c →
      (∀ p ∈ l, AMap.lookup store p.1 = some p.2) →
      (∀ k i, AMap.lookup a.allocated k = some i → ∃ r, AMap.lookup store k = some r ∧ r.addr = prefixOf c i) →
      Bitmap.Inv (load a l) ∧ (load a l).cfg = c ∧
      (∀ k i, AMap.lookup (load a l).allocated k = some i →
          ∃ r, AMap.lookup store k = some r ∧ r.addr = prefixOf c i) ∧
      (∀ k i, AMap.lookup a.allocated k = some i → AMap.lookup (load a l).allocated k = some i) ∧
      (∀ p ∈ l, ∃ i, AMap.lookup (load a l).allocated p.1 = some i ∧ prefixOf c i = p.2.addr) := by
  intro l
  induction l with
  | nil =>
    intro a hI hcfg _ hsub
    exact ⟨hI, hcfg, hsub, fun _ _ h => h, fun p hp => by simp at hp⟩
  | cons hd rest ih =>
    obtain ⟨k, r⟩ := hd
    intro a hI hcfg hmem hsub
    have hk : AMap.lookup store k = some r := hmem (k, r) (by simp)
    obtain ⟨i, hi, hpre, hpl⟩ := hrec k r hk
    have hidx : indexOf a.cfg r.addr r.plen = some i := by
      rw [hcfg, ← hpre, hpl]; exact indexOf_prefixOf c hc hi
    have hfree : AMap.lookup a.idx2sub i = none ∨ AMap.lookup a.idx2sub i = some k := by
      cases hx : AMap.lookup a.idx2sub i with
      | none => exact Or.inl rfl
      | some k' =>
        have h1 := hI.bwd k' i hx
        obtain ⟨r', hr', haddr⟩ := hsub k' i h1
        have : k' = k := hinj k' k r' r hr' hk (by rw [haddr, hpre])
        rw [this]; exact Or.inr rfl
    obtain ⟨hcfg', hlk⟩ := setAllocation_ok hidx hfree
    have hI' := inv_setAllocation hI k r.addr r.plen
    have hsub' : ∀ k0 i0, AMap.lookup (setAllocation a k r.addr r.plen).1.allocated k0 = some i0 →
        ∃ r0, AMap.lookup store k0 = some r0 ∧ r0.addr = prefixOf c i0 := by
      intro k0 i0 h0
      rw [hlk] at h0
      by_cases e : k0 = k
      · subst e
        simp only [if_true, Option.some.injEq] at h0
        subst h0
        exact ⟨r, hk, hpre.symm⟩
      · simp only [e, if_false] at h0
        exact hsub k0 i0 h0
    obtain ⟨a1, a2, a3, a4, a5⟩ := ih (setAllocation a k r.addr r.plen).1 hI' (by rw [hcfg', hcfg])
      (fun p hp => hmem p (List.mem_cons_of_mem _ hp)) hsub'
    have hkept : ∀ k0 i0, AMap.lookup a.allocated k0 = some i0 →
        AMap.lookup (setAllocation a k r.addr r.plen).1.allocated k0 = some i0 := by
      intro k0 i0 h0
      rw [hlk]
      by_cases e : k0 = k
      · subst e
        simp only [if_true]
        obtain ⟨r0, hr0, haddr⟩ := hsub k0 i0 h0
        rw [hk] at hr0
        simp only [Option.some.injEq] at hr0
        subst hr0
        have : i0 = i := prefixOf_inj c (by rw [← haddr, hpre])
        rw [this]
      · simp only [e, if_false]; exact h0
    refine ⟨a1, a2, a3, ?_, ?_⟩
    · intro k0 i0 h0
      exact a4 k0 i0 (hkept k0 i0 h0)
    · intro p hp
      rcases List.mem_cons.mp hp with hp | hp
      · subst hp
        refine ⟨i, ?_, hpre⟩
        apply a4
        rw [hlk]; simp
      · exact a5 p hp

theorem mem_snapshot {st : Store} {order : List Nat} {p : Nat × Rec} (h : p ∈ snapshot st order) :
    AMap.lookup st p.1 = some p.2 := by
  unfold snapshot at h
  simp only [List.mem_filterMap] at h
  obtain ⟨k, _, hk⟩ := h
  cases e : AMap.lookup st k with
  | none => rw [e] at hk; simp at hk
  | some r =>
    rw [e] at hk
    simp only [Option.map_some, Option.some.injEq] at hk
    subst hk
    exact e

theorem snapshot_covers {st : Store} {order : List Nat} {k : Nat} {r : Rec} (hk : AMap.lookup st k = some r)
    (ho : k ∈ order) : (k, r) ∈ snapshot st order := by
  unfold snapshot
  simp only [List.mem_filterMap]
  exact ⟨k, ho, by rw [hk]; rfl⟩

/-- a state that agrees: its store records are prefixes of distinct units of the pool -/
theorem store_facts {s : State} (hI : SInv s) :
    (∀ k r, AMap.lookup s.store k = some r →
        ∃ i, i < s.a.cfg.total ∧ prefixOf s.a.cfg i = r.addr ∧ r.plen = s.a.cfg.plen) ∧
    (∀ k k' r r', AMap.lookup s.store k = some r → AMap.lookup s.store k' = some r' → r.addr = r'.addr → k = k') := by
  have key : ∀ k r, AMap.lookup s.store k = some r →
      ∃ i, AMap.lookup s.a.allocated k = some i ∧ prefixOf s.a.cfg i = r.addr ∧ r.plen = s.a.cfg.plen := by
    intro k r hk
    have := hI.agree k
    rw [hk] at this
    cases e : AMap.lookup s.a.allocated k with
    | none => rw [e] at this; simp at this
    | some i =>
      rw [e] at this
      simp only [Option.map_some, Option.some.injEq, Prod.mk.injEq] at this
      exact ⟨i, rfl, this.1.symm, this.2⟩
  constructor
  · intro k r hk
    obtain ⟨i, hi, h1, h2⟩ := key k r hk
    exact ⟨i, hI.inv.lt k i hi, h1, h2⟩
  · intro k k' r r' hk hk' haddr
    obtain ⟨i, hi, h1, _⟩ := key k r hk
    obtain ⟨i', hi', h1', _⟩ := key k' r' hk'
    have : i = i' := prefixOf_inj s.a.cfg (by rw [h1, h1', haddr])
    subst this
    have a := hI.inv.fwd k i hi
    have b := hI.inv.fwd k' i hi'
    rw [a] at b; simpa using b

theorem sinv_restart {s : State} (hI : SInv s) (hc : s.a.cfg.plen - s.a.cfg.poolPrefix < 64) (order : List Nat)
    (hcov : ∀ k r, AMap.lookup s.store k = some r → k ∈ order) : SInv (restart s order) := by
  obtain ⟨hrec, hinj⟩ := store_facts hI
  obtain ⟨a1, a2, a3, _, a5⟩ := load_spec s.a.cfg hc s.store hrec hinj (snapshot s.store order)
    (Bitmap.init s.a.cfg) (inv_init _ hc) rfl (fun p hp => mem_snapshot hp)
    (fun k i h => by simp [Bitmap.init] at h)
  refine ⟨a1, ?_⟩
  intro k
  have hcr : (restart s order).a.cfg = s.a.cfg := a2
  show (AMap.lookup s.store k).map _ =
    (AMap.lookup (load (Bitmap.init s.a.cfg) (snapshot s.store order)).allocated k).map _
  rw [hcr]
  cases hk : AMap.lookup s.store k with
  | some r =>
    obtain ⟨i, hi, hpre⟩ := a5 (k, r) (snapshot_covers hk (hcov k r hk))
    obtain ⟨_, _, _, hpl⟩ := hrec k r hk
    rw [hi]
    simp [hpre, hpl]
  | none =>
    cases hm : AMap.lookup (load (Bitmap.init s.a.cfg) (snapshot s.store order)).allocated k with
    | none => rfl
    | some i =>
      obtain ⟨r, hr, _⟩ := a3 k i hm
      rw [hk] at hr; simp at hr

theorem step_cfg (s : State) (op : Op) : (step s op).1.a.cfg = s.a.cfg := by
  cases op with
  | alloc k f =>
    simp only [step]
    unfold alloc
    have h1 := Bitmap.step_cfg s.a (.alloc k)
    simp only [Bitmap.step] at h1
    generalize Bitmap.alloc s.a k = res at *
    obtain ⟨a', o⟩ := res
    cases o <;> simp only <;> try rfl
    split
    · split
      · exact h1
      · rw [release_cfg]; exact h1
    · exact h1
  | release k f =>
    simp only [step]
    unfold release
    split
    · rfl
    · split
      · rfl
      · exact release_cfg _ _
  | renew _ => rfl
  | get _ => rfl
  | owner _ _ => rfl
  | stats => rfl
  | restart order =>
    simp only [step, restart]
    have : ∀ (l : List (Nat × Rec)) (a : Bitmap.State), (load a l).cfg = a.cfg := by
      intro l
      induction l with
      | nil => intro a; rfl
      | cons hd rest ih =>
        intro a
        obtain ⟨k, r⟩ := hd
        simp only [load]
        rw [ih, setAllocation_fail_cfg]
    rw [this]; rfl
  | remotePut k r =>
    simp only [step, remotePut, applyPut]
    split
    · split
      · rfl
      · exact setAllocation_fail_cfg _ _ _ _
    · exact setAllocation_fail_cfg _ _ _ _
  | remoteDel k => exact release_cfg _ _
  | restartGap order w =>
    simp only [step, startGap]
    have hl : ∀ (l : List (Nat × Rec)) (a : Bitmap.State), (load a l).cfg = a.cfg := by
      intro l
      induction l with
      | nil => intro a; rfl
      | cons hd rest ih =>
        intro a
        obtain ⟨k, r⟩ := hd
        simp only [load]
        rw [ih, setAllocation_fail_cfg]
    have hw : ∀ (w : List Remote) (a : Bitmap.State), (w.foldl Remote.onMem a).cfg = a.cfg := by
      intro w
      induction w with
      | nil => intro a; rfl
      | cons ev rest ih =>
        intro a
        simp only [List.foldl_cons]
        rw [ih]
        cases ev with
        | put k r =>
          simp only [Remote.onMem, applyPut]
          split
          · split
            · rfl
            · exact setAllocation_fail_cfg _ _ _ _
          · exact setAllocation_fail_cfg _ _ _ _
        | del k => exact release_cfg _ _
    rw [hw, hl]; rfl

/-- Start with a window of remote changes = the restart, then those changes delivered in order: a change that
    reaches the store while Start is reading it is applied after the load — it is never lost -/
theorem startGap_eq (s : State) (order : List Nat) (w : List Remote) :
    startGap s order w = w.foldl applyRemote (restart s order) := by
  have h : ∀ (w : List Remote) (a : Bitmap.State) (st : Store),
      ({ a := w.foldl Remote.onMem a, store := w.foldl Remote.onStore st } : State) =
        w.foldl applyRemote { a := a, store := st } := by
    intro w
    induction w with
    | nil => intro a st; rfl
    | cons ev rest ih =>
      intro a st
      simp only [List.foldl_cons]
      rw [ih]
      cases ev <;> rfl
  exact h w _ _

theorem okOp_restart {s : State} {order : List Nat} (h : okOp s (.restart order) = true) :
    ∀ k r, AMap.lookup s.store k = some r → k ∈ order := by
  intro k r hk
  simp only [okOp, List.all_eq_true] at h
  have := h k (mem_keys_of_lookup hk)
  simpa using this

theorem sinv_remotes : ∀ (w : List Remote) (s : State), SInv s → okRemotes s w = true →
    SInv (w.foldl applyRemote s) := by
  intro w
  induction w with
  | nil => intro s h _; exact h
  | cons ev rest ih =>
    intro s hI hok
    cases ev with
    | put k r =>
      simp only [okRemotes, Bool.and_eq_true] at hok
      exact ih _ (sinv_remotePut hI hok.1) hok.2
    | del k =>
      simp only [okRemotes] at hok
      exact ih _ (sinv_remoteDel hI k) hok

theorem sinv_step {s : State} (hI : SInv s) (hc : s.a.cfg.plen - s.a.cfg.poolPrefix < 64) (op : Op)
    (hok : okOp s op = true) : SInv (step s op).1 := by
  cases op with
  | alloc k f => exact sinv_alloc hI k f
  | release k f => exact sinv_release hI k f
  | renew _ => exact hI
  | get _ => exact hI
  | owner _ _ => exact hI
  | stats => exact hI
  | restart order => exact sinv_restart hI hc order (okOp_restart hok)
  | remotePut k r => exact sinv_remotePut hI hok
  | remoteDel k => exact sinv_remoteDel hI k
  | restartGap order w =>
    simp only [okOp, Bool.and_eq_true] at hok
    have hR : SInv (restart s order) := sinv_restart hI hc order (okOp_restart (by simpa [okOp] using hok.1))
    show SInv (startGap s order w)
    rw [startGap_eq]
    exact sinv_remotes w _ hR hok.2

theorem run_cons (s : State) (op : Op) (ops : List Op) : run s (op :: ops) = run (step s op).1 ops := rfl

theorem sinv_run : ∀ (ops : List Op) (s : State), SInv s → s.a.cfg.plen - s.a.cfg.poolPrefix < 64 →
    Valid s ops → SInv (run s ops) ∧ (run s ops).a.cfg = s.a.cfg := by
  intro ops
  induction ops with
  | nil => intro s hI _ _; exact ⟨hI, rfl⟩
  | cons op ops ih =>
    intro s hI hc hv
    rw [run_cons]
    have hcfg := step_cfg s op
    obtain ⟨h1, h2⟩ := ih (step s op).1 (sinv_step hI hc op hv.1) (by rw [hcfg]; exact hc) hv.2
    exact ⟨h1, by rw [h2, hcfg]⟩

/-- an Allocate that reports a store error leaves every subscriber's holding exactly as it was -/
theorem alloc_error_keeps {s : State} (k : Nat) (f : Bool) (herr : (alloc s k f).2 = .error) :
    ∀ k', AMap.lookup (alloc s k f).1.a.allocated k' = AMap.lookup s.a.allocated k' := by
  unfold alloc holds at herr ⊢
  cases hk : AMap.lookup s.a.allocated k with
  | some i =>
    have ha : Bitmap.alloc s.a k = (s.a, .okAddr (prefixOf s.a.cfg i)) := by
      unfold Bitmap.alloc; rw [hk]
    rw [ha] at herr ⊢
    simp only [hk, Option.isSome_some, if_true] at herr ⊢
    cases f with
    | true => intro k'; rfl
    | false => simp at herr
  | none =>
    cases hf : findFree s.a with
    | none =>
      have ha : Bitmap.alloc s.a k = (s.a, .exhausted) := by
        unfold Bitmap.alloc; rw [hk]; simp only; rw [hf]
      rw [ha] at herr
      simp at herr
    | some i =>
      have ha : Bitmap.alloc s.a k = (give s.a k i ((i + 1) % 2 ^ 64), .okAddr (prefixOf s.a.cfg i)) := by
        unfold Bitmap.alloc; rw [hk]; simp only; rw [hf]
      rw [ha] at herr ⊢
      simp only [hk, Option.isSome_none, Bool.false_eq_true, if_false] at herr ⊢
      cases f with
      | false => simp at herr
      | true =>
        simp only [if_true]
        intro k'
        show AMap.lookup (Bitmap.release (give s.a k i ((i + 1) % 2 ^ 64)) k).1.allocated k' = _
        rw [release_lookup]
        by_cases e : k' = k
        · subst e; simp [hk]
        · simp only [e, if_false]
          show AMap.lookup (AMap.insert s.a.allocated k i) k' = _
          rw [lookup_insert_ne _ _ e]

end Bng.Dist.Session

namespace Bng.Dist.Session

/-- what Allocate does to the store: nothing, or (only when the write was not made to fail) the record of the
    prefix the bitmap allocator answered -/
theorem alloc_store (s : State) (k : Nat) (f : Bool) :
    (alloc s k f).1.store = s.store ∨
    (f = false ∧ ∃ a, (Bitmap.alloc s.a k).2 = .okAddr a ∧
      (alloc s k f).1.store = AMap.insert s.store k { addr := a, plen := s.a.cfg.plen, epoch := 0 }) := by
  unfold alloc
  generalize Bitmap.alloc s.a k = r
  obtain ⟨a', o⟩ := r
  cases o with
  | okAddr a =>
    cases f with
    | true => left; rfl
    | false => right; exact ⟨rfl, a, rfl, rfl⟩
  | _ => left; rfl

/-- Release only ever deletes the subscriber's own record -/
theorem release_store (s : State) (k : Nat) (f : Bool) :
    (release s k f).1.store = s.store ∨ (release s k f).1.store = AMap.erase s.store k := by
  unfold release
  split
  · left; rfl
  · split
    · left; rfl
    · right; rfl

end Bng.Dist.Session

namespace Bng.Dist.Pool
open Bng AMap Bng.Dist.Session

theorem pinv_step {st : State} (hI : SInv st.s) (op : Op) : SInv (step st op).1.s := by
  cases op with
  | alloc k f => exact sinv_alloc hI k _
  | release k f => exact sinv_release hI k f
  | lookup _ => exact hI
  | stats => exact hI
  | foreign a =>
    simp only [step, foreign]
    split <;> exact hI
  | unforeign a => exact hI
  | rtstore => exact hI
  | qalloc k f => exact hI
  | qrelease k f => exact hI
  | qlookup _ => exact hI
  | scribble => exact hI

theorem pinv_run : ∀ (ops : List Op) (st : State), SInv st.s → SInv (run st ops).s := by
  intro ops
  induction ops with
  | nil => intro st h; exact h
  | cons op ops ih => intro st h; exact ih _ (pinv_step h op)

/-- the same for the second pool over the shared store -/
theorem qinv_step {st : State} (hI : SInv st.q) (op : Op) : SInv (step st op).1.q := by
  cases op with
  | qalloc k f => exact sinv_alloc hI k _
  | qrelease k f => exact sinv_release hI k f
  | foreign a =>
    simp only [step, foreign]
    split <;> exact hI
  | _ => exact hI

theorem qinv_run : ∀ (ops : List Op) (st : State), SInv st.q → SInv (run st ops).q := by
  intro ops
  induction ops with
  | nil => intro st h; exact h
  | cons op ops ih => intro st h; exact ih _ (qinv_step h op)

/-! ### one address, one owner in the shared by-IP index -/

/-- no address is recorded by both pools, and none by a pool and the third one -/
structure Disj (st : State) : Prop where
  pq : ∀ k r k' r', AMap.lookup st.s.store k = some r → AMap.lookup st.q.store k' = some r' → r.addr ≠ r'.addr
  pf : ∀ k r, AMap.lookup st.s.store k = some r → st.foreign.contains r.addr = false
  qf : ∀ k r, AMap.lookup st.q.store k = some r → st.foreign.contains r.addr = false

theorem any_false_of_lookup {store : Store} {a : Nat} (h : store.any (fun p => p.2.addr == a) = false)
    {k : Nat} {r : Rec} (hk : AMap.lookup store k = some r) : r.addr ≠ a := by
  intro e
  have hm := mem_of_lookup hk
  rw [List.any_eq_false] at h
  have := h (k, r) hm
  simp [e] at this

theorem taken_false {foreign : List Nat} {other : Session.State} {a : Nat} (h : taken foreign other a = false) :
    foreign.contains a = false ∧ other.store.any (fun p => p.2.addr == a) = false := by
  unfold taken at h
  simpa [Bool.or_eq_false_iff] using h

theorem disj_init (c : Bitmap.Cfg) : Disj (init c) :=
  ⟨fun k r k' r' h => by simp [init, Session.init] at h,
   fun k r h => by simp [init, Session.init] at h,
   fun k r h => by simp [init, Session.init] at h⟩

theorem lookup_erase_some {m : Store} {k k' : Nat} {r : Rec} (h : AMap.lookup (AMap.erase m k) k' = some r) :
    AMap.lookup m k' = some r := by
  rw [lookup_erase] at h
  by_cases e : k' = k
  · simp [e] at h
  · simpa [e] using h

theorem disj_step {st : State} (hD : Disj st) (op : Op) : Disj (step st op).1 := by
  cases op with
  | alloc k f =>
    show Disj { st with s := (Session.alloc st.s k (f || conflictFor st k)).1 }
    rcases Session.alloc_store st.s k (f || conflictFor st k) with h | ⟨hf, a, ha, h⟩
    · exact ⟨fun k1 r k' r' h1 h2 => hD.pq k1 r k' r' (by rw [← h]; exact h1) h2,
             fun k1 r h1 => hD.pf k1 r (by rw [← h]; exact h1), hD.qf⟩
    · have hc : conflictFor st k = false := by
        cases hcf : conflictFor st k with
        | false => rfl
        | true => rw [hcf] at hf; simp at hf
      have ht : taken st.foreign st.q a = false := by
        unfold conflictFor at hc
        revert hc ha
        generalize Bitmap.alloc st.s.a k = r
        obtain ⟨a', o⟩ := r
        intro ha hc
        simp only at ha
        subst ha
        exact hc
      obtain ⟨hfo, hq⟩ := taken_false ht
      refine ⟨?_, ?_, hD.qf⟩
      · intro k1 r k' r' h1 h2
        simp only at h1 h2
        rw [h, lookup_insert] at h1
        by_cases e : k1 = k
        · simp only [e, if_true, Option.some.injEq] at h1
          subst h1
          exact fun e' => any_false_of_lookup hq h2 e'.symm
        · simp only [e, if_false] at h1
          exact hD.pq k1 r k' r' h1 h2
      · intro k1 r h1
        simp only at h1
        rw [h, lookup_insert] at h1
        by_cases e : k1 = k
        · simp only [e, if_true, Option.some.injEq] at h1
          subst h1
          exact hfo
        · simp only [e, if_false] at h1
          exact hD.pf k1 r h1
  | qalloc k f =>
    show Disj { st with q := (Session.alloc st.q k (f || qconflictFor st k)).1 }
    rcases Session.alloc_store st.q k (f || qconflictFor st k) with h | ⟨hf, a, ha, h⟩
    · exact ⟨fun k1 r k' r' h1 h2 => hD.pq k1 r k' r' h1 (by rw [← h]; exact h2), hD.pf,
             fun k1 r h1 => hD.qf k1 r (by rw [← h]; exact h1)⟩
    · have hc : qconflictFor st k = false := by
        cases hcf : qconflictFor st k with
        | false => rfl
        | true => rw [hcf] at hf; simp at hf
      have ht : taken st.foreign st.s a = false := by
        unfold qconflictFor at hc
        revert hc ha
        generalize Bitmap.alloc st.q.a k = r
        obtain ⟨a', o⟩ := r
        intro ha hc
        simp only at ha
        subst ha
        exact hc
      obtain ⟨hfo, hp⟩ := taken_false ht
      refine ⟨?_, hD.pf, ?_⟩
      · intro k1 r k' r' h1 h2
        simp only at h1 h2
        rw [h, lookup_insert] at h2
        by_cases e : k' = k
        · simp only [e, if_true, Option.some.injEq] at h2
          subst h2
          exact any_false_of_lookup hp h1
        · simp only [e, if_false] at h2
          exact hD.pq k1 r k' r' h1 h2
      · intro k1 r h1
        simp only at h1
        rw [h, lookup_insert] at h1
        by_cases e : k1 = k
        · simp only [e, if_true, Option.some.injEq] at h1
          subst h1
          exact hfo
        · simp only [e, if_false] at h1
          exact hD.qf k1 r h1
  | release k f =>
    show Disj { st with s := (Session.release st.s k f).1 }
    rcases Session.release_store st.s k f with h | h
    · exact ⟨fun k1 r k' r' h1 h2 => hD.pq k1 r k' r' (by rw [← h]; exact h1) h2,
             fun k1 r h1 => hD.pf k1 r (by rw [← h]; exact h1), hD.qf⟩
    · exact ⟨fun k1 r k' r' h1 h2 => hD.pq k1 r k' r' (lookup_erase_some (by rw [← h]; exact h1)) h2,
             fun k1 r h1 => hD.pf k1 r (lookup_erase_some (by rw [← h]; exact h1)), hD.qf⟩
  | qrelease k f =>
    show Disj { st with q := (Session.release st.q k f).1 }
    rcases Session.release_store st.q k f with h | h
    · exact ⟨fun k1 r k' r' h1 h2 => hD.pq k1 r k' r' h1 (by rw [← h]; exact h2), hD.pf,
             fun k1 r h1 => hD.qf k1 r (by rw [← h]; exact h1)⟩
    · exact ⟨fun k1 r k' r' h1 h2 => hD.pq k1 r k' r' h1 (lookup_erase_some (by rw [← h]; exact h2)), hD.pf,
             fun k1 r h1 => hD.qf k1 r (lookup_erase_some (by rw [← h]; exact h1))⟩
  | foreign a =>
    simp only [step, foreign]
    split
    · exact hD
    · rename_i hno
      simp only [Bool.or_eq_true, not_or, Bool.not_eq_true] at hno
      refine ⟨hD.pq, ?_, ?_⟩
      · intro k1 r h1
        simp only at h1 ⊢
        split
        · exact hD.pf k1 r h1
        · have hne := any_false_of_lookup hno.1 h1
          have := hD.pf k1 r h1
          simp only [List.contains_cons, Bool.or_eq_false_iff]
          exact ⟨by simpa using hne, this⟩
      · intro k1 r h1
        simp only at h1 ⊢
        split
        · exact hD.qf k1 r h1
        · have hne := any_false_of_lookup hno.2 h1
          have := hD.qf k1 r h1
          simp only [List.contains_cons, Bool.or_eq_false_iff]
          exact ⟨by simpa using hne, this⟩
  | unforeign a =>
    refine ⟨hD.pq, ?_, ?_⟩
    · intro k1 r h1
      have := hD.pf k1 r h1
      simp only [step, unforeign] at h1 ⊢
      rw [List.contains_eq_any_beq] at this ⊢
      rw [List.any_eq_false] at this ⊢
      intro x hx
      exact this x (List.mem_filter.mp hx).1
    · intro k1 r h1
      have := hD.qf k1 r h1
      simp only [step, unforeign] at h1 ⊢
      rw [List.contains_eq_any_beq] at this ⊢
      rw [List.any_eq_false] at this ⊢
      intro x hx
      exact this x (List.mem_filter.mp hx).1
  | lookup _ => exact hD
  | stats => exact hD
  | rtstore => exact hD
  | qlookup _ => exact hD
  | scribble => exact hD

theorem disj_run : ∀ (ops : List Op) (st : State), Disj st → Disj (run st ops) := by
  intro ops
  induction ops with
  | nil => intro st h; exact h
  | cons op ops ih => intro st h; exact ih _ (disj_step h op)

/-! ### writes through the caller's pointers are no operation of the store -/

def notScribble : Op → Bool
  | .scribble => false
  | _ => true

theorem run_drop_scribble : ∀ (ops : List Op) (st : State), run st (ops.filter notScribble) = run st ops := by
  intro ops
  induction ops with
  | nil => intro st; rfl
  | cons op ops ih =>
    intro st
    cases op with
    | scribble => exact ih st
    | _ => exact ih _

theorem answers_drop_scribble : ∀ (ops : List Op) (st : State),
    answers st (ops.filter notScribble) = ((answers st ops).zip ops).filterMap
      (fun p => if notScribble p.2 then some p.1 else none) := by
  intro ops
  induction ops with
  | nil => intro st; rfl
  | cons op ops ih =>
    intro st
    cases op with
    | scribble =>
      simp only [List.filter, notScribble, answers, List.zip_cons_cons, List.filterMap_cons, Bool.false_eq_true, if_false]
      exact ih st
    | _ =>
      simp only [List.filter, notScribble, answers, List.zip_cons_cons, List.filterMap_cons, if_true]
      congr 1
      exact ih _

end Bng.Dist.Pool

namespace Bng.Epoch
open Bng AMap

/-! ## serialise/restore of the epoch allocator: only the hint is lost, and the hint is unobservable -/

/-- equal except for the allocation hint -/
def Eqv (s t : State) : Prop :=
  s.cfg = t.cfg ∧ s.gens = t.gens ∧ s.subs = t.subs ∧ s.ip2sub = t.ip2sub ∧ s.epoch = t.epoch

theorem findFree_eqv {s t : State} (hs : Inv s) (ht : Inv t) (h : Eqv s t) : findFree s = findFree t := by
  obtain ⟨hc, _, _, hip, _⟩ := h
  cases ha : findFree s with
  | none =>
    cases hb : findFree t with
    | none => rfl
    | some b =>
      obtain ⟨b1, b2, b3, _⟩ := findFree_some ht.p hb
      have := findFree_none ha b b1 (by rw [hc]; exact b2)
      rw [hip, b3] at this; simp at this
  | some a =>
    obtain ⟨a1, a2, a3, a4⟩ := findFree_some hs.p ha
    cases hb : findFree t with
    | none =>
      have := findFree_none hb a a1 (by rw [← hc]; exact a2)
      rw [← hip, a3] at this; simp at this
    | some b =>
      obtain ⟨b1, b2, b3, b4⟩ := findFree_some ht.p hb
      by_cases e : a = b
      · rw [e]
      · by_cases lt : a < b
        · have := b4 a a1 lt
          rw [← hip, a3] at this; simp at this
        · have := a4 b b1 (by omega)
          rw [hip, b3] at this; simp at this

theorem expire_hint (lapsed : Nat → Bool) : ∀ (l : List (Nat × Nat)) (subs ip : AMap Nat Nat) (h1 h2 : Nat),
    (expire lapsed subs ip h1 l).1 = (expire lapsed subs ip h2 l).1 ∧
    (expire lapsed subs ip h1 l).2.1 = (expire lapsed subs ip h2 l).2.1 := by
  intro l
  induction l with
  | nil => intro subs ip h1 h2; exact ⟨rfl, rfl⟩
  | cons hd rest ih =>
    intro subs ip h1 h2
    obtain ⟨k, i⟩ := hd
    simp only [expire]
    split
    · exact ih _ _ _ _
    · exact ih _ _ _ _

/-- two allocators that differ only in the hint answer every operation identically and keep differing
    only in the hint -/
theorem step_eqv {s t : State} (hs : Inv s) (ht : Inv t) (h : Eqv s t) (op : Op) :
    (step s op).2 = (step t op).2 ∧ Eqv (step s op).1 (step t op).1 := by
  have hff := findFree_eqv hs ht h
  obtain ⟨hc, hg, hsu, hip, he⟩ := h
  obtain ⟨c1, g1, su1, ip1, e1, h1⟩ := s
  obtain ⟨c2, g2, su2, ip2, e2, h2⟩ := t
  simp only at hc hg hsu hip he
  subst hc; subst hg; subst hsu; subst hip; subst he
  cases op with
  | alloc k =>
    simp only [step]
    unfold alloc
    simp only
    cases hk : AMap.lookup su1 k with
    | some i => exact ⟨rfl, rfl, rfl, rfl, rfl, rfl⟩
    | none =>
      simp only
      rw [hff]
      cases findFree { cfg := c1, gens := g1, subs := su1, ip2sub := ip1, epoch := e1, hint := h2 } with
      | none => exact ⟨rfl, rfl, rfl, rfl, rfl, rfl⟩
      | some i => exact ⟨rfl, rfl, rfl, rfl, rfl, rfl⟩
  | renew k =>
    simp only [step]
    unfold renew
    simp only
    cases hk : AMap.lookup su1 k with
    | some i => exact ⟨rfl, rfl, rfl, rfl, rfl, rfl⟩
    | none => exact ⟨rfl, rfl, rfl, rfl, rfl, rfl⟩
  | release k =>
    simp only [step]
    unfold release
    simp only
    cases hk : AMap.lookup su1 k with
    | some i => exact ⟨rfl, rfl, rfl, rfl, rfl, rfl⟩
    | none => exact ⟨rfl, rfl, rfl, rfl, rfl, rfl⟩
  | advance =>
    simp only [step]
    unfold advance
    simp only
    obtain ⟨x1, x2⟩ := expire_hint (fun i => freeGen (e1 + 1) c1.graceB (genAt g1 i)) su1 su1 ip1 h1 h2
    refine ⟨?_, ?_, ?_, x1, x2, ?_⟩ <;> first | rfl | trivial
  | lookup k => exact ⟨rfl, rfl, rfl, rfl, rfl, rfl⟩
  | owner ip => exact ⟨rfl, rfl, rfl, rfl, rfl, rfl⟩
  | stats => exact ⟨rfl, rfl, rfl, rfl, rfl, rfl⟩
  | epoch => exact ⟨rfl, rfl, rfl, rfl, rfl, rfl⟩
  | roundtrip => exact ⟨rfl, rfl, rfl, rfl, rfl, rfl⟩

/-- the answers along a run -/
def answers : State → List Op → List Obs
  | _, [] => []
  | s, op :: ops => (step s op).2 :: answers (step s op).1 ops

theorem answers_eqv : ∀ (ops : List Op) (s t : State), Inv s → Inv t → Eqv s t → answers s ops = answers t ops := by
  intro ops
  induction ops with
  | nil => intro s t _ _ _; rfl
  | cons op ops ih =>
    intro s t hs ht h
    obtain ⟨h1, h2⟩ := step_eqv hs ht h op
    simp only [answers]
    rw [h1, ih _ _ (inv_step hs op) (inv_step ht op) h2]

end Bng.Epoch

namespace Bng.Bitmap
open Bng AMap

/-! ## serialise/restore of the bitmap allocator: every read-only query is answered identically -/

def isQuery : Op → Bool
  | .lookup _ | .lookupByPrefix _ _ | .isAllocated _ _ | .stats | .list => true
  | _ => false

theorem roundtrip_query {a : State} (hI : Inv a) (q : Op) (hq : isQuery q = true) :
    (step (roundtrip a) q).2 = (step a q).2 := by
  have hinj : ∀ k k' i, a.allocated.lookup k = some i → a.allocated.lookup k' = some i → k = k' := by
    intro k k' i h1 h2
    have x := hI.fwd k i h1
    have y := hI.fwd k' i h2
    rw [x] at y; simpa using y
  have hrb := rebuild_lookup a.allocated hI.nd hinj
  cases q with
  | lookup k => rfl
  | lookupByPrefix x l =>
    simp only [step, lookupByPrefix]
    show (match indexOf a.cfg x l with
      | none => Obs.none
      | some i => match AMap.lookup (rebuildFrom [] a.allocated) i with
        | some k => Obs.sub k
        | none => Obs.none) = _
    cases indexOf a.cfg x l with
    | none => rfl
    | some i =>
      simp only
      have : AMap.lookup (rebuildFrom [] a.allocated) i = AMap.lookup a.idx2sub i := by
        cases e1 : AMap.lookup (rebuildFrom [] a.allocated) i with
        | some k => exact (hI.fwd k i ((hrb i k).mp e1)).symm
        | none =>
          cases e2 : AMap.lookup a.idx2sub i with
          | none => rfl
          | some k =>
            have := (hrb i k).mpr (hI.bwd k i e2)
            rw [e1] at this; simp at this
      rw [this]
      rfl
  | isAllocated x l => rfl
  | stats =>
    simp only [step, stats]
    show Obs.stats (uint64OfInt ((a.allocated.length : Nat) : Int)) a.cfg.total = _
    rw [hI.cnt]
  | list => rfl
  | alloc _ => simp [isQuery] at hq
  | allocSpecific _ _ _ => simp [isQuery] at hq
  | release _ => simp [isQuery] at hq
  | releasePrefix _ _ => simp [isQuery] at hq
  | setAllocation _ _ _ => simp [isQuery] at hq
  | roundtrip => simp [isQuery] at hq

end Bng.Bitmap

namespace Bng.Dist.Lease
open Bng AMap Bng.Epoch

/-! ## lease mode: what does hold — allocate/renew/release keep memory and store in agreement under
    every failure vector (epoch ticks, restarts and remote puts do not: findings D38, D39,
    KF-lease-store-epoch) -/

def Agree (s : State) : Prop :=
  ∀ k, (AMap.lookup s.store k).map (fun r => (r.addr, r.plen)) =
       (AMap.lookup s.a.subs k).map (fun i => (indexToIP s.a.cfg i, 32))

structure LInv (s : State) : Prop where
  inv : Epoch.Inv s.a
  agree : Agree s

def isLocal : Op → Bool
  | .alloc _ _ | .release _ _ | .renew _ _ _ | .get _ | .owner _ | .stats | .remoteDel _ => true
  | _ => false

theorem linv_init (c : Epoch.Cfg) : LInv (init c) :=
  ⟨Epoch.inv_init c, fun k => by simp [init, Epoch.init]⟩

theorem holds_iff {a : Epoch.State} (hI : Epoch.Inv a) (k : Nat) :
    holds a k = (AMap.lookup a.subs k).isSome := by
  unfold holds Epoch.lookup
  cases hk : AMap.lookup a.subs k with
  | none => rfl
  | some i =>
    have := hI.live k i hk
    simp only [isFree, genOf, this]
    rfl

theorem epoch_release_lookup (a : Epoch.State) (k k' : Nat) :
    AMap.lookup (Epoch.release a k).1.subs k' = if k' = k then none else AMap.lookup a.subs k' := by
  unfold Epoch.release
  cases hk : AMap.lookup a.subs k with
  | none =>
    simp only
    by_cases e : k' = k
    · subst e; simp [hk]
    · simp [e]
  | some i =>
    simp only
    show AMap.lookup (AMap.erase a.subs k) k' = _
    rw [lookup_erase]

theorem epoch_release_cfg (a : Epoch.State) (k : Nat) : (Epoch.release a k).1.cfg = a.cfg := by
  have := Epoch.step_cfg a (.release k)
  simpa [Epoch.step] using this

theorem agree_store_none {s : State} (h : Agree s) {k : Nat} (hk : AMap.lookup s.a.subs k = none) :
    AMap.lookup s.store k = none := by
  have := h k
  rw [hk] at this
  cases e : AMap.lookup s.store k with
  | none => rfl
  | some r => rw [e] at this; simp at this

theorem linv_alloc {s : State} (hI : LInv s) (k : Nat) (f : Bool) : LInv (alloc s k f).1 := by
  unfold alloc
  rw [holds_iff hI.inv]
  cases hk : AMap.lookup s.a.subs k with
  | some i =>
    have ha : Epoch.alloc s.a k =
        ({ s.a with gens := AMap.insert s.a.gens i (curGen s.a) }, .okAddr (indexToIP s.a.cfg i)) := by
      unfold Epoch.alloc; rw [hk]
    have hI' : Epoch.Inv { s.a with gens := AMap.insert s.a.gens i (curGen s.a) } := by
      have := Epoch.inv_alloc hI.inv k
      rw [ha] at this; exact this
    rw [ha]
    simp only [Option.isSome_some, if_true]
    cases f with
    | true => exact ⟨hI', hI.agree⟩
    | false =>
      refine ⟨hI', ?_⟩
      intro k'
      show (AMap.lookup (AMap.insert s.store k _) k').map _ = (AMap.lookup s.a.subs k').map _
      rw [lookup_insert]
      by_cases e : k' = k
      · subst e; simp [hk]
      · simp only [e, if_false]; exact hI.agree k'
  | none =>
    cases hf : findFree s.a with
    | none =>
      have ha : Epoch.alloc s.a k = (s.a, .exhausted) := by
        unfold Epoch.alloc; rw [hk]; simp only; rw [hf]
      rw [ha]
      exact hI
    | some i =>
      have hsubs : (Epoch.alloc s.a k).1.subs = AMap.insert s.a.subs k i := by
        unfold Epoch.alloc; rw [hk]; simp only; rw [hf]
      have hcfg : (Epoch.alloc s.a k).1.cfg = s.a.cfg := by
        have := Epoch.step_cfg s.a (.alloc k); simpa [Epoch.step] using this
      have hobs : (Epoch.alloc s.a k).2 = .okAddr (indexToIP s.a.cfg i) := by
        unfold Epoch.alloc; rw [hk]; simp only; rw [hf]
      have hI' := Epoch.inv_alloc hI.inv k
      generalize hres : Epoch.alloc s.a k = res at *
      obtain ⟨a', o⟩ := res
      simp only at hsubs hcfg hobs hI'
      subst hobs
      simp only [Option.isSome_none, Bool.false_eq_true, if_false]
      cases f with
      | true =>
        simp only [if_true]
        refine ⟨Epoch.inv_release hI' k, ?_⟩
        intro k'
        show (AMap.lookup s.store k').map _ = (AMap.lookup (Epoch.release a' k).1.subs k').map
          (fun i => (indexToIP (Epoch.release a' k).1.cfg i, 32))
        rw [epoch_release_lookup, epoch_release_cfg, hcfg, hsubs]
        by_cases e : k' = k
        · subst e
          simp only [if_true, Option.map_none]
          rw [agree_store_none hI.agree hk]; rfl
        · simp only [e, if_false]
          rw [lookup_insert_ne _ _ e]
          exact hI.agree k'
      | false =>
        simp only [Bool.false_eq_true, if_false]
        refine ⟨hI', ?_⟩
        intro k'
        show (AMap.lookup (AMap.insert s.store k _) k').map _ =
          (AMap.lookup a'.subs k').map (fun i => (indexToIP a'.cfg i, 32))
        rw [hsubs, hcfg, lookup_insert, lookup_insert]
        by_cases e : k' = k
        · simp [e]
        · simp only [e, if_false]; exact hI.agree k'

theorem linv_release {s : State} (hI : LInv s) (k : Nat) (f : Bool) : LInv (release s k f).1 := by
  unfold release
  split
  · exact hI
  · refine ⟨Epoch.inv_release hI.inv k, ?_⟩
    intro k'
    show (AMap.lookup (AMap.erase s.store k) k').map _ = (AMap.lookup (Epoch.release s.a k).1.subs k').map
      (fun i => (indexToIP (Epoch.release s.a k).1.cfg i, 32))
    rw [epoch_release_lookup, epoch_release_cfg, lookup_erase]
    by_cases e : k' = k
    · simp [e]
    · simp only [e, if_false]; exact hI.agree k'

theorem linv_renew {s : State} (hI : LInv s) (k : Nat) (g p : Bool) : LInv (renew s k g p).1 := by
  unfold renew
  cases hk : AMap.lookup s.a.subs k with
  | none =>
    have hr : Epoch.renew s.a k = (s.a, .notfound) := by unfold Epoch.renew; rw [hk]
    rw [hr]; exact hI
  | some i =>
    have hr : Epoch.renew s.a k = ({ s.a with gens := AMap.insert s.a.gens i (curGen s.a) }, .ok) := by
      unfold Epoch.renew; rw [hk]
    have hI' : Epoch.Inv { s.a with gens := AMap.insert s.a.gens i (curGen s.a) } := by
      have := Epoch.inv_renew hI.inv k
      rw [hr] at this; exact this
    rw [hr]
    simp only
    split
    · exact ⟨hI', hI.agree⟩
    · rename_i r hr'
      split
      · exact ⟨hI', hI.agree⟩
      · refine ⟨hI', ?_⟩
        have hst : AMap.lookup s.store k = some r := by
          cases g <;> simp at hr' ; exact hr'
        intro k'
        show (AMap.lookup (AMap.insert s.store k { r with epoch := _ }) k').map _ = (AMap.lookup s.a.subs k').map _
        rw [lookup_insert]
        by_cases e : k' = k
        · subst e
          have := hI.agree k'
          rw [hst] at this
          simpa using this
        · simp only [e, if_false]; exact hI.agree k'

theorem linv_step {s : State} (hI : LInv s) (op : Op) (hl : isLocal op = true) : LInv (step s op).1 := by
  cases op with
  | alloc k f => exact linv_alloc hI k f
  | release k f => exact linv_release hI k f
  | renew k g p => exact linv_renew hI k g p
  | get _ => exact hI
  | owner _ => exact hI
  | stats => exact hI
  | restart _ => simp [isLocal] at hl
  | tick _ _ => simp [isLocal] at hl
  | remotePut _ _ => simp [isLocal] at hl
  | remoteDel k =>
    -- a remote delete is a release whose store delete already happened
    have h : remoteDel s k = (release s k false).1 := by simp [remoteDel, release]
    show LInv (remoteDel s k)
    rw [h]; exact linv_release hI k false

theorem linv_run : ∀ (ops : List Op) (s : State), LInv s → (∀ op ∈ ops, isLocal op = true) → LInv (run s ops) := by
  intro ops
  induction ops with
  | nil => intro s hI _; exact hI
  | cons op ops ih =>
    intro s hI hl
    exact ih _ (linv_step hI op (hl op (by simp))) (fun o ho => hl o (List.mem_cons_of_mem _ ho))

theorem load_inv : ∀ (l : List (Nat × Rec)) (a : Epoch.State) (st : Store), Epoch.Inv a →
    Epoch.Inv (load a st l).1 := by
  intro l
  induction l with
  | nil => intro a st h; exact h
  | cons hd rest ih =>
    intro a st h
    obtain ⟨k, r⟩ := hd
    simp only [load]
    split
    · exact ih _ _ h
    · exact ih _ _ (Epoch.inv_alloc h k)

/-- lease mode: Start with a window of remote changes = the restart, then those changes delivered in order -/
theorem startGap_eq (s : State) (order : List Nat) (w : List Session.Remote) :
    startGap s order w = w.foldl applyRemote (restart s order) := by
  have h : ∀ (w : List Session.Remote) (a : Epoch.State) (st : Store),
      ({ a := w.foldl (fun a ev => match ev with
            | .put k rec => applyPut a k rec
            | .del k => (Epoch.release a k).1) a,
         store := w.foldl Session.Remote.onStore st } : State) =
        w.foldl applyRemote { a := a, store := st } := by
    intro w
    induction w with
    | nil => intro a st; rfl
    | cons ev rest ih =>
      intro a st
      simp only [List.foldl_cons]
      rw [ih]
      cases ev <;> rfl
  exact h w _ _

end Bng.Dist.Lease
