import Bng.Model.Epoch
import Bng.Proof.EpochArith
/-
  Invariant of the epoch (lease) allocator model and its preservation by every operation;
  the address arithmetic of indexToIP; frame lemmas used by the lease theorems.
-/
namespace Bng.Epoch
open Bng AMap

/-! ## generations -/

theorem genAt_insert (gens : AMap Nat Nat) (i g j : Nat) :
    genAt (AMap.insert gens i g) j = if j = i then g else genAt gens j := by
  unfold genAt
  rw [lookup_insert]
  split <;> rfl

theorem freeGen_cur (e gb : Nat) : freeGen e gb (e % 4) = false := by
  unfold freeGen
  have : (e % 4 + 4 - e % 4) % 4 = 0 := by omega
  simp [this]

/-- how far generation `g` is behind the generation of epoch `e` (mod 4) -/
def dist (e g : Nat) : Nat := (e % 4 + 4 - g) % 4

theorem freeGen_iff (e gb g : Nat) : freeGen e gb g = true ↔ dist e g > gb := by
  simp [freeGen, dist]

theorem freeGen_false_iff (e gb g : Nat) : freeGen e gb g = false ↔ dist e g ≤ gb := by
  simp [freeGen, dist]

theorem dist_succ (e g : Nat) (hg : g < 4) : dist (e + 1) g = (dist e g + 1) % 4 := by
  unfold dist; omega

theorem dist_lt (e g : Nat) : dist e g < 4 := by unfold dist; omega

theorem total_pos (c : Cfg) : 0 < c.total := Nat.pow_pos (by omega)

/-! ## the invariant -/

/-- the part of the invariant that does not mention epochs or generations -/
structure PInv (c : Cfg) (subs ip2sub : AMap Nat Nat) (hint : Nat) : Prop where
  /-- forward and reverse maps are mutually inverse -/
  fwd : ∀ k i, AMap.lookup subs k = some i → AMap.lookup ip2sub i = some k
  bwd : ∀ k i, AMap.lookup ip2sub i = some k → AMap.lookup subs k = some i
  /-- held slots are usable: neither the network (0) nor the broadcast (total-1) slot -/
  slot : ∀ k i, AMap.lookup subs k = some i → 1 ≤ i ∧ i + 1 < c.total
  nd : NodupKeys subs
  /-- every usable slot below the hint is held (so the scan returns the lowest free slot) -/
  below : ∀ j, 1 ≤ j → j < hint → j + 1 < c.total → (AMap.lookup ip2sub j).isSome
  hintLe : hint ≤ c.total

structure Inv (s : State) : Prop where
  p : PInv s.cfg s.subs s.ip2sub s.hint
  /-- a holder's generation is within the grace period (lapsed holders are swept at the epoch change) -/
  live : ∀ k i, AMap.lookup s.subs k = some i → freeGen s.epoch s.cfg.graceB (genAt s.gens i) = false
  genLt : ∀ i, genAt s.gens i < 4

theorem inv_init (c : Cfg) : Inv (init c) := by
  refine ⟨⟨?_, ?_, ?_, nodupKeys_nil, ?_, ?_⟩, ?_, ?_⟩ <;> simp [init, genAt]
  · intro j h1 h2; omega
  · exact total_pos c

theorem pinv_unique {c : Cfg} {subs ip2sub : AMap Nat Nat} {hint : Nat} (hp : PInv c subs ip2sub hint)
    {k k' i : Nat} (h1 : AMap.lookup subs k = some i) (h2 : AMap.lookup subs k' = some i) : k = k' := by
  have a := hp.fwd k i h1
  have b := hp.fwd k' i h2
  rw [a] at b; simpa using b

/-- slot `i` is handed to `k` -/
theorem pinv_give {c : Cfg} {subs ip2sub : AMap Nat Nat} {hint : Nat} (hp : PInv c subs ip2sub hint)
    {k i : Nat} (hk : AMap.lookup subs k = none) (hi : AMap.lookup ip2sub i = none)
    (hs1 : 1 ≤ i) (hs2 : i + 1 < c.total)
    (hlow : ∀ j, 1 ≤ j → j < i → (AMap.lookup ip2sub j).isSome) :
    PInv c (AMap.insert subs k i) (AMap.insert ip2sub i k) ((i + 1) % c.total) := by
  have hmod : (i + 1) % c.total = i + 1 := Nat.mod_eq_of_lt hs2
  refine ⟨?_, ?_, ?_, nodupKeys_insert hp.nd _ _, ?_, ?_⟩
  · intro k' i' h
    simp only [lookup_insert] at h ⊢
    by_cases e : k' = k
    · subst e
      simp only [if_true, Option.some.injEq] at h
      subst h; simp
    · simp only [e, if_false] at h
      have h2 := hp.fwd k' i' h
      by_cases e2 : i' = i
      · subst e2; rw [hi] at h2; simp at h2
      · simp only [e2, if_false]; exact h2
  · intro k' i' h
    simp only [lookup_insert] at h ⊢
    by_cases e2 : i' = i
    · subst e2
      simp only [if_true, Option.some.injEq] at h
      subst h; simp
    · simp only [e2, if_false] at h
      have h2 := hp.bwd k' i' h
      by_cases e : k' = k
      · subst e; rw [hk] at h2; simp at h2
      · simp only [e, if_false]; exact h2
  · intro k' i' h
    simp only [lookup_insert] at h
    by_cases e : k' = k
    · subst e
      simp only [if_true, Option.some.injEq] at h
      subst h; exact ⟨hs1, hs2⟩
    · simp only [e, if_false] at h; exact hp.slot k' i' h
  · intro j hj1 hj2 _
    rw [hmod] at hj2
    simp only [lookup_insert]
    by_cases e : j = i
    · simp [e]
    · simp only [e, if_false]; exact hlow j hj1 (by omega)
  · rw [hmod]; omega

/-- `k` gives slot `i` back (release or lapse) -/
theorem pinv_drop {c : Cfg} {subs ip2sub : AMap Nat Nat} {hint : Nat} (hp : PInv c subs ip2sub hint)
    {k i : Nat} (hk : AMap.lookup subs k = some i) :
    PInv c (AMap.erase subs k) (AMap.erase ip2sub i) (if i < hint then i else hint) := by
  have hik := hp.fwd k i hk
  refine ⟨?_, ?_, ?_, nodupKeys_erase hp.nd _, ?_, ?_⟩
  · intro k' i' h
    simp only [lookup_erase] at h ⊢
    by_cases e : k' = k
    · simp [e] at h
    · simp only [e, if_false] at h
      have h2 := hp.fwd k' i' h
      by_cases e2 : i' = i
      · subst e2; rw [hik] at h2; simp at h2; exact absurd h2.symm e
      · simp only [e2, if_false]; exact h2
  · intro k' i' h
    simp only [lookup_erase] at h ⊢
    by_cases e2 : i' = i
    · simp [e2] at h
    · simp only [e2, if_false] at h
      have h2 := hp.bwd k' i' h
      by_cases e : k' = k
      · subst e; rw [hk] at h2; simp at h2; exact absurd h2.symm e2
      · simp only [e, if_false]; exact h2
  · intro k' i' h
    simp only [lookup_erase] at h
    by_cases e : k' = k
    · simp [e] at h
    · simp only [e, if_false] at h; exact hp.slot k' i' h
  · intro j hj1 hj2 hj3
    have hne : j ≠ i := by split at hj2 <;> omega
    have hlt : j < hint := by split at hj2 <;> omega
    rw [lookup_erase_ne _ hne]
    exact hp.below j hj1 hlt hj3
  · have := hp.hintLe
    split <;> omega

/-! ## the allocation scan -/

theorem scan_some {s : State} {i n idx : Nat} (h : scan s i n = some idx) :
    ∃ j, i ≤ j ∧ j < i + n ∧ idx = (s.hint + j) % s.cfg.total ∧ idx ≠ 0 ∧ idx ≠ s.cfg.total - 1 ∧
      slotFree s idx = true ∧
      ∀ j', i ≤ j' → j' < j →
        ((s.hint + j') % s.cfg.total = 0 ∨ (s.hint + j') % s.cfg.total = s.cfg.total - 1 ∨
          slotFree s ((s.hint + j') % s.cfg.total) = false) := by
  induction n generalizing i with
  | zero => simp [scan] at h
  | succ n ih =>
    simp only [scan] at h
    by_cases hb : (s.hint + i) % s.cfg.total = 0 ∨ (s.hint + i) % s.cfg.total = s.cfg.total - 1
    · rw [if_pos hb] at h
      obtain ⟨j, h1, h2, h3, h4, h5, h6, h7⟩ := ih h
      refine ⟨j, by omega, by omega, h3, h4, h5, h6, ?_⟩
      intro j' a b
      by_cases e : j' = i
      · subst e
        rcases hb with hb | hb
        · exact Or.inl hb
        · exact Or.inr (Or.inl hb)
      · exact h7 j' (by omega) b
    · rw [if_neg hb] at h
      by_cases hf : slotFree s ((s.hint + i) % s.cfg.total) = true
      · rw [if_pos hf] at h
        simp only [Option.some.injEq] at h
        subst h
        refine ⟨i, Nat.le_refl _, by omega, rfl, ?_, ?_, hf, fun j' a b => by omega⟩
        · intro e; exact hb (Or.inl e)
        · intro e; exact hb (Or.inr e)
      · rw [if_neg hf] at h
        obtain ⟨j, h1, h2, h3, h4, h5, h6, h7⟩ := ih h
        refine ⟨j, by omega, by omega, h3, h4, h5, h6, ?_⟩
        intro j' a b
        by_cases e : j' = i
        · subst e
          exact Or.inr (Or.inr (by simpa using hf))
        · exact h7 j' (by omega) b

theorem scan_none {s : State} {i n : Nat} (h : scan s i n = none) :
    ∀ j, i ≤ j → j < i + n →
      ((s.hint + j) % s.cfg.total = 0 ∨ (s.hint + j) % s.cfg.total = s.cfg.total - 1 ∨
        slotFree s ((s.hint + j) % s.cfg.total) = false) := by
  induction n generalizing i with
  | zero => intro j h1 h2; omega
  | succ n ih =>
    simp only [scan] at h
    by_cases hb : (s.hint + i) % s.cfg.total = 0 ∨ (s.hint + i) % s.cfg.total = s.cfg.total - 1
    · rw [if_pos hb] at h
      intro j h1 h2
      by_cases e : j = i
      · subst e
        rcases hb with hb | hb
        · exact Or.inl hb
        · exact Or.inr (Or.inl hb)
      · exact ih h j (by omega) (by omega)
    · rw [if_neg hb] at h
      by_cases hf : slotFree s ((s.hint + i) % s.cfg.total) = true
      · rw [if_pos hf] at h; simp at h
      · rw [if_neg hf] at h
        intro j h1 h2
        by_cases e : j = i
        · subst e
          exact Or.inr (Or.inr (by simpa using hf))
        · exact ih h j (by omega) (by omega)

theorem slotFree_false {s : State} {i : Nat} (h : slotFree s i = false) :
    (AMap.lookup s.ip2sub i).isSome := by
  unfold slotFree at h
  cases e : AMap.lookup s.ip2sub i <;> simp [e] at h ⊢

theorem slotFree_true {s : State} {i : Nat} (h : slotFree s i = true) :
    AMap.lookup s.ip2sub i = none := by
  unfold slotFree at h
  cases e : AMap.lookup s.ip2sub i <;> simp [e] at h ⊢

/-- the scan returns the LOWEST free usable slot, wherever the hint stands -/
theorem findFree_some {s : State} (hp : PInv s.cfg s.subs s.ip2sub s.hint) {idx : Nat}
    (h : findFree s = some idx) :
    1 ≤ idx ∧ idx + 1 < s.cfg.total ∧ AMap.lookup s.ip2sub idx = none ∧
      ∀ j, 1 ≤ j → j < idx → (AMap.lookup s.ip2sub j).isSome := by
  unfold findFree at h
  obtain ⟨j, _, hj, hidx, hne0, hneT, hfree, hprev⟩ := scan_some h
  have hT := total_pos s.cfg
  have hlt : idx < s.cfg.total := by rw [hidx]; exact Nat.mod_lt _ hT
  have hnone := slotFree_true hfree
  have h1 : 1 ≤ idx := by omega
  have h2 : idx + 1 < s.cfg.total := by omega
  have hge : s.hint ≤ idx := by
    apply Nat.le_of_not_lt
    intro hlt'
    have := hp.below idx h1 hlt' h2
    rw [hnone] at this; simp at this
  have hHL := hp.hintLe
  have hsum : s.hint + j < s.cfg.total := by
    apply Nat.lt_of_not_le
    intro hge'
    have e : (s.hint + j) % s.cfg.total = s.hint + j - s.cfg.total := by
      rw [Nat.mod_eq_sub_mod hge']
      exact Nat.mod_eq_of_lt (by omega)
    omega
  have hidx' : idx = s.hint + j := by rw [hidx]; exact Nat.mod_eq_of_lt hsum
  refine ⟨h1, h2, hnone, ?_⟩
  intro j' hj1 hj2
  by_cases c : j' < s.hint
  · exact hp.below j' hj1 c (by omega)
  · have hpos : (s.hint + (j' - s.hint)) % s.cfg.total = j' := by
      have : s.hint + (j' - s.hint) = j' := by omega
      rw [this]; exact Nat.mod_eq_of_lt (by omega)
    have := hprev (j' - s.hint) (Nat.zero_le _) (by omega)
    rw [hpos] at this
    rcases this with e | e | e
    · omega
    · omega
    · exact slotFree_false e

/-- exhaustion is reported only when every usable slot is held -/
theorem findFree_none {s : State} (h : findFree s = none) :
    ∀ idx, 1 ≤ idx → idx + 1 < s.cfg.total → (AMap.lookup s.ip2sub idx).isSome := by
  intro idx h1 h2
  unfold findFree at h
  have hT := total_pos s.cfg
  have hm : s.hint % s.cfg.total < s.cfg.total := Nat.mod_lt _ hT
  -- the loop counter at which the scan looks at `idx`
  have key : ∀ j, j < s.cfg.total → (s.hint % s.cfg.total + j = idx ∨ s.hint % s.cfg.total + j = idx + s.cfg.total) →
      (AMap.lookup s.ip2sub idx).isSome := by
    intro j hj hsum
    have hpos : (s.hint + j) % s.cfg.total = idx := by
      rw [Nat.add_mod, Nat.mod_eq_of_lt hj]
      rcases hsum with e | e
      · rw [e]; exact Nat.mod_eq_of_lt (by omega)
      · rw [e, Nat.add_mod_right]; exact Nat.mod_eq_of_lt (by omega)
    have := scan_none h j (Nat.zero_le _) (by omega)
    rw [hpos] at this
    rcases this with e | e | e
    · omega
    · omega
    · exact slotFree_false e
  by_cases c : s.hint % s.cfg.total ≤ idx
  · exact key (idx - s.hint % s.cfg.total) (by omega) (Or.inl (by omega))
  · exact key (idx + s.cfg.total - s.hint % s.cfg.total) (by omega) (Or.inr (by omega))

/-! ## the expiry sweep -/

theorem expire_spec (c : Cfg) (lapsed : Nat → Bool) :
    ∀ (l : List (Nat × Nat)) (subs ip2sub : AMap Nat Nat) (hint : Nat),
      PInv c subs ip2sub hint → (∀ p ∈ l, AMap.lookup subs p.1 = some p.2) → (l.map (·.1)).Nodup →
      PInv c (expire lapsed subs ip2sub hint l).1 (expire lapsed subs ip2sub hint l).2.1
          (expire lapsed subs ip2sub hint l).2.2 ∧
      (∀ k i, AMap.lookup (expire lapsed subs ip2sub hint l).1 k = some i →
          AMap.lookup subs k = some i ∧ ((k, i) ∈ l → lapsed i = false)) ∧
      (∀ k i, AMap.lookup subs k = some i → ((k, i) ∈ l → lapsed i = false) →
          AMap.lookup (expire lapsed subs ip2sub hint l).1 k = some i) ∧
      (∀ k i, (k, i) ∈ l → lapsed i = true → AMap.lookup (expire lapsed subs ip2sub hint l).1 k = none) := by
  intro l
  induction l with
  | nil =>
    intro subs ip2sub hint hp _ _
    simp only [expire]
    refine ⟨hp, ?_, ?_, ?_⟩
    · intro k i h; exact ⟨h, fun hm => by simp at hm⟩
    · intro k i h _; exact h
    · intro k i hm; simp at hm
  | cons hd rest ih =>
    obtain ⟨k0, i0⟩ := hd
    intro subs ip2sub hint hp hmem hnd
    have hhead : AMap.lookup subs k0 = some i0 := hmem (k0, i0) (by simp)
    have hnd' : (rest.map (·.1)).Nodup := by
      simp only [List.map_cons, List.nodup_cons] at hnd; exact hnd.2
    have hk0 : ∀ p ∈ rest, p.1 ≠ k0 := by
      intro p hp' e
      simp only [List.map_cons, List.nodup_cons] at hnd
      exact hnd.1 (by rw [← e]; exact List.mem_map_of_mem hp')
    simp only [expire]
    by_cases hl : lapsed i0 = true
    · rw [if_pos hl]
      have hp' := pinv_drop hp hhead
      have hmem' : ∀ p ∈ rest, AMap.lookup (AMap.erase subs k0) p.1 = some p.2 := by
        intro p hpm
        rw [lookup_erase_ne _ (hk0 p hpm)]
        exact hmem p (List.mem_cons_of_mem _ hpm)
      obtain ⟨a, b, c', d⟩ := ih _ _ _ hp' hmem' hnd'
      refine ⟨a, ?_, ?_, ?_⟩
      · intro k i h
        obtain ⟨h1, h2⟩ := b k i h
        rw [lookup_erase] at h1
        by_cases e : k = k0
        · simp [e] at h1
        · simp only [e, if_false] at h1
          refine ⟨h1, ?_⟩
          intro hm
          rcases List.mem_cons.mp hm with hm | hm
          · simp only [Prod.mk.injEq] at hm; exact absurd hm.1 e
          · exact h2 hm
      · intro k i h hnl
        by_cases e : k = k0
        · subst e
          rw [hhead] at h
          simp only [Option.some.injEq] at h
          subst h
          have := hnl (by simp)
          rw [hl] at this; simp at this
        · apply c' k i
          · rw [lookup_erase_ne _ e]; exact h
          · intro hm; exact hnl (List.mem_cons_of_mem _ hm)
      · intro k i hm hlk
        rcases List.mem_cons.mp hm with hm | hm
        · simp only [Prod.mk.injEq] at hm
          obtain ⟨e1, e2⟩ := hm
          subst e1; subst e2
          cases e : AMap.lookup (expire lapsed (AMap.erase subs k) (AMap.erase ip2sub i)
              (if i < hint then i else hint) rest).1 k with
          | none => rfl
          | some x =>
            have := (b k x e).1
            simp at this
        · exact d k i hm hlk
    · rw [if_neg hl]
      have hl' : lapsed i0 = false := by simpa using hl
      have hmem' : ∀ p ∈ rest, AMap.lookup subs p.1 = some p.2 :=
        fun p hpm => hmem p (List.mem_cons_of_mem _ hpm)
      obtain ⟨a, b, c', d⟩ := ih _ _ _ hp hmem' hnd'
      refine ⟨a, ?_, ?_, ?_⟩
      · intro k i h
        obtain ⟨h1, h2⟩ := b k i h
        refine ⟨h1, ?_⟩
        intro hm
        rcases List.mem_cons.mp hm with hm | hm
        · simp only [Prod.mk.injEq] at hm
          rw [hm.2]; exact hl'
        · exact h2 hm
      · intro k i h hnl
        exact c' k i h (fun hm => hnl (List.mem_cons_of_mem _ hm))
      · intro k i hm hlk
        rcases List.mem_cons.mp hm with hm | hm
        · simp only [Prod.mk.injEq] at hm
          rw [hm.2, hl'] at hlk; simp at hlk
        · exact d k i hm hlk

/-! ## preservation of the invariant -/

theorem genLt_insert {gens : AMap Nat Nat} (h : ∀ j, genAt gens j < 4) (i g : Nat) (hg : g < 4) :
    ∀ j, genAt (AMap.insert gens i g) j < 4 := by
  intro j
  rw [genAt_insert]
  split
  · exact hg
  · exact h j

theorem curGen_lt (s : State) : curGen s < 4 := by unfold curGen; omega

/-- refreshing the generation of one slot keeps every holder live -/
theorem live_refresh {s : State} (hI : Inv s) (i : Nat) :
    ∀ k i', AMap.lookup s.subs k = some i' →
      freeGen s.epoch s.cfg.graceB (genAt (AMap.insert s.gens i (curGen s)) i') = false := by
  intro k i' h
  rw [genAt_insert]
  split
  · exact freeGen_cur _ _
  · exact hI.live k i' h

theorem inv_alloc {s : State} (hI : Inv s) (k : Nat) : Inv (alloc s k).1 := by
  unfold alloc
  split
  · rename_i i hk
    exact ⟨hI.p, live_refresh hI i, genLt_insert hI.genLt i _ (curGen_lt s)⟩
  · rename_i hk
    split
    · exact hI
    · rename_i i hf
      obtain ⟨h1, h2, h3, h4⟩ := findFree_some hI.p hf
      refine ⟨pinv_give hI.p hk h3 h1 h2 h4, ?_, genLt_insert hI.genLt i _ (curGen_lt s)⟩
      intro k' i' h
      have h' : AMap.lookup (AMap.insert s.subs k i) k' = some i' := h
      show freeGen s.epoch s.cfg.graceB (genAt (AMap.insert s.gens i (curGen s)) i') = false
      rw [lookup_insert] at h'
      by_cases e : k' = k
      · simp only [e, if_true, Option.some.injEq] at h'
        rw [genAt_insert, if_pos h'.symm]
        exact freeGen_cur _ _
      · simp only [e, if_false] at h'
        exact live_refresh hI i k' i' h'

theorem inv_renew {s : State} (hI : Inv s) (k : Nat) : Inv (renew s k).1 := by
  unfold renew
  split
  · exact hI
  · rename_i i hk
    exact ⟨hI.p, live_refresh hI i, genLt_insert hI.genLt i _ (curGen_lt s)⟩

theorem inv_release {s : State} (hI : Inv s) (k : Nat) : Inv (release s k).1 := by
  unfold release
  split
  · exact hI
  · rename_i i hk
    refine ⟨pinv_drop hI.p hk, ?_, genLt_insert hI.genLt i _ (by omega)⟩
    intro k' i' h
    have h' : AMap.lookup (AMap.erase s.subs k) k' = some i' := h
    show freeGen s.epoch s.cfg.graceB (genAt (AMap.insert s.gens i ((curGen s + 2) % 4)) i') = false
    rw [lookup_erase] at h'
    by_cases e : k' = k
    · simp [e] at h'
    · simp only [e, if_false] at h'
      have hne : i' ≠ i := by
        intro e2; rw [e2] at h'; exact e (pinv_unique hI.p h' hk)
      rw [genAt_insert, if_neg hne]
      exact hI.live k' i' h'

theorem inv_advance {s : State} (hI : Inv s) : Inv (advance s).1 := by
  have hmem : ∀ p ∈ s.subs, AMap.lookup s.subs p.1 = some p.2 := fun p hp => lookup_of_mem hI.p.nd hp
  obtain ⟨a, b, _, _⟩ := expire_spec s.cfg (fun i => freeGen (s.epoch + 1) s.cfg.graceB (genAt s.gens i))
    s.subs s.subs s.ip2sub s.hint hI.p hmem hI.p.nd
  refine ⟨a, ?_, hI.genLt⟩
  intro k i h
  exact (b k i h).2 (mem_of_lookup (b k i h).1)

theorem inv_roundtrip {s : State} (hI : Inv s) : Inv (roundtrip s) :=
  ⟨⟨hI.p.fwd, hI.p.bwd, hI.p.slot, hI.p.nd, fun j _ h2 _ => by simp [roundtrip] at h2, Nat.zero_le _⟩,
   hI.live, hI.genLt⟩

theorem inv_step {s : State} (hI : Inv s) (op : Op) : Inv (step s op).1 := by
  cases op <;> simp only [step]
  · exact inv_alloc hI _
  · exact inv_renew hI _
  · exact inv_release hI _
  · exact inv_advance hI
  · exact hI
  · exact hI
  · exact hI
  · exact hI
  · exact inv_roundtrip hI

theorem inv_run {s : State} (hI : Inv s) (ops : List Op) : Inv (run s ops) := by
  induction ops generalizing s with
  | nil => exact hI
  | cons op ops ih =>
    simp only [run, List.foldl_cons]
    exact ih (inv_step hI op)

theorem run_cons (s : State) (op : Op) (ops : List Op) : run s (op :: ops) = run (step s op).1 ops := rfl

theorem run_append (s : State) (a b : List Op) : run s (a ++ b) = run (run s a) b := by
  simp [run, List.foldl_append]

theorem step_cfg (s : State) (op : Op) : (step s op).1.cfg = s.cfg := by
  cases op <;> simp only [step]
  · unfold alloc; split <;> try rfl
    split <;> rfl
  · unfold renew; split <;> rfl
  · unfold release; split <;> rfl
  · rfl
  · rfl

theorem run_cfg (s : State) (ops : List Op) : (run s ops).cfg = s.cfg := by
  induction ops generalizing s with
  | nil => rfl
  | cons op ops ih => rw [run_cons, ih, step_cfg]

/-! ## frame: what an operation does to somebody else's lease -/

/-- an operation other than `release k` and `advance` leaves k's lease where it is, does not move the
    epoch, and touches the generation of k's slot only when it is k's own allocate/renew -/
theorem step_keeps {s : State} (hI : Inv s) {k i : Nat} (hk : AMap.lookup s.subs k = some i) (op : Op)
    (h1 : op ≠ .release k) (h2 : op ≠ .advance) :
    AMap.lookup (step s op).1.subs k = some i ∧ (step s op).1.epoch = s.epoch ∧
      genAt (step s op).1.gens i =
        (if op = .alloc k ∨ op = .renew k then s.epoch % 4 else genAt s.gens i) := by
  have hik := hI.p.fwd k i hk
  cases op with
  | alloc k' =>
    simp only [step]
    unfold alloc
    by_cases e : k' = k
    · subst e
      rw [if_pos (Or.inl rfl)]
      split
      · rename_i i' hk'
        rw [hk] at hk'; simp only [Option.some.injEq] at hk'; subst hk'
        refine ⟨hk, rfl, ?_⟩
        show genAt (AMap.insert s.gens i (curGen s)) i = _
        rw [genAt_insert]; simp [curGen]
      · rename_i hk'; rw [hk] at hk'; simp at hk'
    · have hc : ¬ (Op.alloc k' = Op.alloc k ∨ Op.alloc k' = Op.renew k) := by
        intro h; rcases h with h | h
        · exact e (by injection h)
        · cases h
      rw [if_neg hc]
      split
      · rename_i i' hk'
        have hne : i ≠ i' := by
          intro e2; rw [← e2] at hk'; exact e (pinv_unique hI.p hk' hk)
        refine ⟨hk, rfl, ?_⟩
        show genAt (AMap.insert s.gens i' (curGen s)) i = _
        rw [genAt_insert, if_neg hne]
      · split
        · exact ⟨hk, rfl, rfl⟩
        · rename_i i' hf
          obtain ⟨_, _, h3, _⟩ := findFree_some hI.p hf
          have hne : i ≠ i' := by
            intro e2; rw [← e2, hik] at h3; simp at h3
          refine ⟨?_, rfl, ?_⟩
          · show AMap.lookup (AMap.insert s.subs k' i') k = some i
            rw [lookup_insert_ne _ _ (fun e2 => e e2.symm)]; exact hk
          · show genAt (AMap.insert s.gens i' (curGen s)) i = _
            rw [genAt_insert, if_neg hne]
  | renew k' =>
    simp only [step]
    unfold renew
    by_cases e : k' = k
    · subst e
      rw [if_pos (Or.inr rfl)]
      split
      · rename_i hk'; rw [hk] at hk'; simp at hk'
      · rename_i i' hk'
        rw [hk] at hk'; simp only [Option.some.injEq] at hk'; subst hk'
        refine ⟨hk, rfl, ?_⟩
        show genAt (AMap.insert s.gens i (curGen s)) i = _
        rw [genAt_insert]; simp [curGen]
    · have hc : ¬ (Op.renew k' = Op.alloc k ∨ Op.renew k' = Op.renew k) := by
        intro h; rcases h with h | h
        · cases h
        · exact e (by injection h)
      rw [if_neg hc]
      split
      · exact ⟨hk, rfl, rfl⟩
      · rename_i i' hk'
        have hne : i ≠ i' := by
          intro e2; rw [← e2] at hk'; exact e (pinv_unique hI.p hk' hk)
        refine ⟨hk, rfl, ?_⟩
        show genAt (AMap.insert s.gens i' (curGen s)) i = _
        rw [genAt_insert, if_neg hne]
  | release k' =>
    have e : k' ≠ k := fun e => h1 (by rw [e])
    have hc : ¬ (Op.release k' = Op.alloc k ∨ Op.release k' = Op.renew k) := by
      intro h; rcases h with h | h <;> cases h
    rw [if_neg hc]
    simp only [step]
    unfold release
    split
    · exact ⟨hk, rfl, rfl⟩
    · rename_i i' hk'
      have hne : i ≠ i' := by
        intro e2; rw [← e2] at hk'; exact e (pinv_unique hI.p hk' hk)
      refine ⟨?_, rfl, ?_⟩
      · show AMap.lookup (AMap.erase s.subs k') k = some i
        rw [lookup_erase_ne _ (fun e2 => e e2.symm)]; exact hk
      · show genAt (AMap.insert s.gens i' ((curGen s + 2) % 4)) i = _
        rw [genAt_insert, if_neg hne]
  | advance => exact absurd rfl h2
  | lookup _ => exact ⟨hk, rfl, by simp [step]⟩
  | owner _ => exact ⟨hk, rfl, by simp [step]⟩
  | stats => exact ⟨hk, rfl, by simp [step]⟩
  | epoch => exact ⟨hk, rfl, by simp [step]⟩
  | roundtrip => exact ⟨hk, rfl, by simp [step, roundtrip]⟩

/-- without `alloc k` nobody becomes a holder -/
theorem step_stays_none {s : State} {k : Nat} (hk : AMap.lookup s.subs k = none) (op : Op)
    (h1 : op ≠ .alloc k) (hI : Inv s) : AMap.lookup (step s op).1.subs k = none := by
  cases op with
  | alloc k' =>
    have e : k' ≠ k := fun e => h1 (by rw [e])
    simp only [step]
    unfold alloc
    split
    · exact hk
    · split
      · exact hk
      · show AMap.lookup (AMap.insert s.subs k' _) k = none
        rw [lookup_insert_ne _ _ (fun e2 => e e2.symm)]; exact hk
  | renew k' =>
    simp only [step]; unfold renew; split <;> exact hk
  | release k' =>
    simp only [step]; unfold release
    split
    · exact hk
    · show AMap.lookup (AMap.erase s.subs k') k = none
      rw [lookup_erase]; split
      · rfl
      · exact hk
  | advance =>
    simp only [step]
    have hmem : ∀ p ∈ s.subs, AMap.lookup s.subs p.1 = some p.2 := fun p hp => lookup_of_mem hI.p.nd hp
    obtain ⟨_, b, _, _⟩ := expire_spec s.cfg (fun i => freeGen (s.epoch + 1) s.cfg.graceB (genAt s.gens i))
      s.subs s.subs s.ip2sub s.hint hI.p hmem hI.p.nd
    cases e : AMap.lookup (advance s).1.subs k with
    | none => rfl
    | some x =>
      have := (b k x e).1
      rw [hk] at this; simp at this
  | lookup _ => exact hk
  | owner _ => exact hk
  | stats => exact hk
  | epoch => exact hk
  | roundtrip => exact hk

/-- what AdvanceEpoch does to one lease -/
theorem advance_lease {s : State} (hI : Inv s) {k i : Nat} (hk : AMap.lookup s.subs k = some i) :
    (advance s).1.epoch = s.epoch + 1 ∧ (advance s).1.gens = s.gens ∧
    (freeGen (s.epoch + 1) s.cfg.graceB (genAt s.gens i) = false → AMap.lookup (advance s).1.subs k = some i) ∧
    (freeGen (s.epoch + 1) s.cfg.graceB (genAt s.gens i) = true →
        AMap.lookup (advance s).1.subs k = none ∧ AMap.lookup (advance s).1.ip2sub i = none) := by
  have hmem : ∀ p ∈ s.subs, AMap.lookup s.subs p.1 = some p.2 := fun p hp => lookup_of_mem hI.p.nd hp
  obtain ⟨a, _, c, d⟩ := expire_spec s.cfg (fun i => freeGen (s.epoch + 1) s.cfg.graceB (genAt s.gens i))
    s.subs s.subs s.ip2sub s.hint hI.p hmem hI.p.nd
  refine ⟨rfl, rfl, ?_, ?_⟩
  · intro hf
    exact c k i hk (fun _ => hf)
  · intro hf
    have hnone := d k i (mem_of_lookup hk) hf
    refine ⟨hnone, ?_⟩
    cases e : AMap.lookup (advance s).1.ip2sub i with
    | none => rfl
    | some k' =>
      have h1 := a.bwd k' i e
      have h2 : AMap.lookup (advance s).1.subs k' = some i := h1
      -- k' held slot i before the sweep as well, so k' = k, which was dropped
      have : AMap.lookup s.subs k' = some i := by
        obtain ⟨_, b, _, _⟩ := expire_spec s.cfg (fun i => freeGen (s.epoch + 1) s.cfg.graceB (genAt s.gens i))
          s.subs s.subs s.ip2sub s.hint hI.p hmem hI.p.nd
        exact (b k' i h2).1
      have := pinv_unique hI.p this hk
      subst this
      rw [hnone] at h1; simp at h1

/-! ## leases across epochs -/

/-- number of epoch advances in an operation sequence -/
def advCount : List Op → Nat
  | [] => 0
  | op :: rest => (if op = .advance then 1 else 0) + advCount rest

theorem release_self_none (s : State) (k : Nat) : AMap.lookup (release s k).1.subs k = none := by
  unfold release
  split
  · rename_i h; exact h
  · show AMap.lookup (AMap.erase s.subs k) k = none
    simp

/-- A lease whose generation is at most `n` epochs old survives any continuation that does not release it
    and advances the epoch at most `grace - n` times. -/
theorem lease_kept (k i : Nat) : ∀ (ops : List Op) (s : State) (n : Nat), Inv s →
    AMap.lookup s.subs k = some i → dist s.epoch (genAt s.gens i) ≤ n → n + advCount ops ≤ s.cfg.graceB →
    (∀ op ∈ ops, op ≠ .release k) → AMap.lookup (run s ops).subs k = some i := by
  intro ops
  induction ops with
  | nil => intro s n _ hk _ _ _; exact hk
  | cons op ops ih =>
    intro s n hI hk hd hn hno
    rw [run_cons]
    have hno' : ∀ op ∈ ops, op ≠ .release k := fun o ho => hno o (List.mem_cons_of_mem _ ho)
    by_cases ha : op = .advance
    · subst ha
      simp only [advCount, if_true] at hn
      obtain ⟨he, hg, hkeep, _⟩ := advance_lease hI hk
      have hds := dist_succ s.epoch (genAt s.gens i) (hI.genLt i)
      have hlt := dist_lt s.epoch (genAt s.gens i)
      have hfree : freeGen (s.epoch + 1) s.cfg.graceB (genAt s.gens i) = false := by
        rw [freeGen_false_iff]; omega
      have hk' := hkeep hfree
      apply ih (step s .advance).1 (n + 1) (inv_step hI _) hk'
      · show dist (advance s).1.epoch (genAt (advance s).1.gens i) ≤ n + 1
        rw [he, hg]; omega
      · rw [step_cfg]; omega
      · exact hno'
    · simp only [advCount, ha, if_false, Nat.zero_add] at hn
      obtain ⟨hk', he, hg⟩ := step_keeps hI hk op (hno op (by simp)) ha
      apply ih (step s op).1 n (inv_step hI _) hk'
      · rw [he, hg]
        split
        · unfold dist; omega
        · exact hd
      · rw [step_cfg]; exact hn
      · exact hno'

theorem freeGen_false_of_ge3 (e gb g : Nat) (h : 3 ≤ gb) : freeGen e gb g = false := by
  rw [freeGen_false_iff]
  have := dist_lt e g
  omega

/-- with byte(gracePeriod) ≥ 3 no generation is ever "more than grace behind": a lease that is not
    released is held forever -/
theorem lease_immortal (k i : Nat) : ∀ (ops : List Op) (s : State), Inv s → 3 ≤ s.cfg.graceB →
    AMap.lookup s.subs k = some i → (∀ op ∈ ops, op ≠ .release k) →
    AMap.lookup (run s ops).subs k = some i := by
  intro ops
  induction ops with
  | nil => intro s _ _ hk _; exact hk
  | cons op ops ih =>
    intro s hI hg hk hno
    rw [run_cons]
    have hno' : ∀ op ∈ ops, op ≠ .release k := fun o ho => hno o (List.mem_cons_of_mem _ ho)
    by_cases ha : op = .advance
    · subst ha
      obtain ⟨_, _, hkeep, _⟩ := advance_lease hI hk
      exact ih _ (inv_step hI _) (by rw [step_cfg]; exact hg) (hkeep (freeGen_false_of_ge3 _ _ _ hg)) hno'
    · obtain ⟨hk', _, _⟩ := step_keeps hI hk op (hno op (by simp)) ha
      exact ih _ (inv_step hI _) (by rw [step_cfg]; exact hg) hk' hno'

/-- With a representable grace period (byte(grace) ≤ 2), a lease that is neither renewed nor re-requested
    is gone once the epoch has advanced far enough. -/
theorem lease_lapses (k : Nat) : ∀ (ops : List Op) (s : State), Inv s → s.cfg.graceB ≤ 2 →
    (∀ op ∈ ops, op ≠ .alloc k ∧ op ≠ .renew k) →
    (AMap.lookup s.subs k = none ∨
      ∃ i, AMap.lookup s.subs k = some i ∧ s.cfg.graceB + 1 ≤ dist s.epoch (genAt s.gens i) + advCount ops) →
    AMap.lookup (run s ops).subs k = none := by
  intro ops
  induction ops with
  | nil =>
    intro s hI _ _ h
    rcases h with h | ⟨i, hk, hd⟩
    · exact h
    · have := (freeGen_false_iff _ _ _).mp (hI.live k i hk)
      simp only [advCount] at hd
      omega
  | cons op ops ih =>
    intro s hI hg hno h
    rw [run_cons]
    have hno' : ∀ op ∈ ops, op ≠ .alloc k ∧ op ≠ .renew k := fun o ho => hno o (List.mem_cons_of_mem _ ho)
    have hop := hno op (by simp)
    have hg' : (step s op).1.cfg.graceB ≤ 2 := by rw [step_cfg]; exact hg
    rcases h with h | ⟨i, hk, hd⟩
    · exact ih _ (inv_step hI _) hg' hno' (Or.inl (step_stays_none h op hop.1 hI))
    · by_cases ha : op = .advance
      · subst ha
        simp only [advCount, if_true] at hd
        obtain ⟨he, hgn, hkeep, hdrop⟩ := advance_lease hI hk
        cases hf : freeGen (s.epoch + 1) s.cfg.graceB (genAt s.gens i) with
        | true => exact ih _ (inv_step hI _) hg' hno' (Or.inl (hdrop hf).1)
        | false =>
          apply ih _ (inv_step hI _) hg' hno'
          refine Or.inr ⟨i, hkeep hf, ?_⟩
          show s.cfg.graceB + 1 ≤ dist (advance s).1.epoch (genAt (advance s).1.gens i) + advCount ops
          rw [he, hgn]
          have hlive := (freeGen_false_iff _ _ _).mp (hI.live k i hk)
          have hds := dist_succ s.epoch (genAt s.gens i) (hI.genLt i)
          omega
      · by_cases hr : op = .release k
        · subst hr
          exact ih _ (inv_step hI _) hg' hno' (Or.inl (release_self_none s k))
        · obtain ⟨hk', he, hgn⟩ := step_keeps hI hk op hr ha
          apply ih _ (inv_step hI _) hg' hno'
          refine Or.inr ⟨i, hk', ?_⟩
          have hc : ¬ (op = .alloc k ∨ op = .renew k) := fun h => h.elim hop.1 hop.2
          rw [he, hgn, if_neg hc, step_cfg]
          simp only [advCount, ha, if_false, Nat.zero_add] at hd
          exact hd

end Bng.Epoch
