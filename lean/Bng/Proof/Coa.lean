import Bng.Model.Coa
import Bng.Proof.Decoders
/-
  Lemmas about the CoA listener model: the byte-compare loop decides equality, `parseAttributes`
  accepts exactly the well-formed attribute areas, and `receive` never panics.
-/
namespace Bng.Coa
open Bng.Go Bng.Decoders

theorem cmpLoop_spec (auth expected : Bytes) (hlen : auth.length ≤ expected.length) :
    ∀ (k i : Nat), i + k = auth.length →
      cmpLoop auth expected i k = .ok (decide (auth.drop i = (expected.take auth.length).drop i)) := by
  intro k
  induction k with
  | zero =>
    intro i hi
    have e1 : auth.drop i = [] := List.drop_eq_nil_of_le (by omega)
    have e2 : (expected.take auth.length).drop i = [] := List.drop_eq_nil_of_le (by simp; omega)
    simp [cmpLoop, e1, e2]
  | succ k ih =>
    intro i hi
    have hi1 : i < auth.length := by omega
    have hi2 : i < expected.length := by omega
    have hi3 : i < (expected.take auth.length).length := by simp; omega
    unfold cmpLoop
    rw [index_ok hi1, ok_bind, index_ok hi2, ok_bind]
    have e3 : (expected.take auth.length)[i] = expected[i] := by simp
    have d1 : auth.drop i = auth[i] :: auth.drop (i + 1) := List.drop_eq_getElem_cons hi1
    have d2 : (expected.take auth.length).drop i = expected[i] :: (expected.take auth.length).drop (i + 1) := by
      rw [List.drop_eq_getElem_cons hi3, e3]
    by_cases hne : auth[i] ≠ expected[i]
    · rw [if_pos hne]
      have hn : ¬ (auth.drop i = (expected.take auth.length).drop i) := by
        rw [d1, d2]; intro h; injection h with h1 _; exact hne h1
      rw [decide_eq_false hn]; rfl
    · rw [if_neg hne, ih (i + 1) (by omega)]
      have heq : auth[i] = expected[i] := by simpa using hne
      have hiff : (auth.drop (i + 1) = (expected.take auth.length).drop (i + 1)) ↔
          (auth.drop i = (expected.take auth.length).drop i) := by
        rw [d1, d2, heq]
        constructor
        · intro h; rw [h]
        · intro h; injection h
      rw [decide_eq_decide.mpr hiff]

theorem verifyAuth_spec (H : Bytes → Bytes) (hH : ∀ x, (H x).length = 16)
    (secret packet auth : Bytes) (hp : 20 ≤ packet.length) (ha : auth.length = 16) :
    verifyAuth H secret packet auth =
      .ok (decide (auth = H (packet.take 4 ++ zeros16 ++ packet.drop 20 ++ secret))) := by
  unfold verifyAuth
  rw [sliceTo_ok (by omega), ok_bind, sliceFrom_ok (by omega), ok_bind]
  rw [cmpLoop_spec auth _ (by rw [hH]; omega) auth.length 0 (by omega)]
  simp only [List.drop_zero]
  rw [List.take_of_length_le (by rw [hH]; omega)]

/-- `parseAttributesLoop` never panics, is linear, and accepts iff the rest of the area is well formed -/
theorem parseAttributesLoop_spec (data : Bytes) : ∀ (k off : Nat) (acc : List Attr) (n : Nat),
    data.length - off ≤ k → off ≤ data.length →
    ∃ r m, parseAttributesLoop data off acc n = .ok (r, m) ∧ m ≤ n + (data.length - off) ∧
      (r.isSome = attrsWF_strict (data.drop off)) := by
  intro k
  induction k with
  | zero =>
    intro off acc n hk hoff
    rw [parseAttributesLoop, dif_neg (by omega), if_neg (by omega)]
    refine ⟨_, _, rfl, by omega, ?_⟩
    have : data.drop off = [] := List.drop_eq_nil_of_le (by omega)
    rw [this]; simp [attrsWF_strict]
  | succ k ih =>
    intro off acc n hk hoff
    rw [parseAttributesLoop]
    split
    · rename_i h
      have h0 : off < data.length := by omega
      have h1 : off + 1 < data.length := by omega
      simp (disch := omega) only [index_ok, ok_bind]
      have hd : data.drop off = data[off] :: data[off + 1] :: data.drop (off + 2) := by
        rw [List.drop_eq_getElem_cons h0, List.drop_eq_getElem_cons h1]
      split
      · rename_i hbad
        refine ⟨_, _, rfl, by omega, ?_⟩
        rw [hd, attrsWF_strict]
        simp only [List.length_drop, Option.isSome_none]
        rcases hbad with hb | hb
        · have : ¬ (2 ≤ data[off + 1].toNat) := by omega
          simp [this]
        · have : ¬ (data[off + 1].toNat - 2 ≤ data.length - (off + 2)) := by omega
          simp [this]
      · rename_i hgood
        rw [slice_ok (by omega) (by omega), ok_bind]
        obtain ⟨r, m, e, hm, hr⟩ := ih (off + data[off + 1].toNat) (⟨data[off], _⟩ :: acc) (n + 1)
          (by omega) (by omega)
        refine ⟨r, m, e, by omega, ?_⟩
        rw [hr, hd, attrsWF_strict]
        simp only [List.length_drop, List.drop_drop]
        have c1 : 2 ≤ data[off + 1].toNat := by omega
        have c2 : data[off + 1].toNat - 2 ≤ data.length - (off + 2) := by omega
        have c3 : off + 2 + (data[off + 1].toNat - 2) = off + data[off + 1].toNat := by omega
        simp [c1, c2, c3]
    · -- fewer than two bytes left
      rename_i h
      by_cases h0 : off < data.length
      · have hd : data.drop off = [data[off]] := by
          rw [List.drop_eq_getElem_cons h0, List.drop_eq_nil_of_le (by omega)]
        rw [if_pos (by omega)]
        refine ⟨_, _, rfl, by omega, ?_⟩
        rw [hd]; simp [attrsWF_strict]
      · have : data.drop off = [] := List.drop_eq_nil_of_le (by omega)
        rw [if_neg (by omega)]
        refine ⟨_, _, rfl, by omega, ?_⟩
        rw [this]; simp [attrsWF_strict]

theorem parseAttributes_spec (data : Bytes) :
    ∃ r m, parseAttributes data = .ok (r, m) ∧ m ≤ data.length + 1 ∧ r.isSome = attrsWF_strict data := by
  obtain ⟨r, m, e, hm, hr⟩ := parseAttributesLoop_spec data _ 0 [] 1 (Nat.le_refl _) (by omega)
  exact ⟨r, m, e, by omega, by simpa using hr⟩

theorem parseAttributes_within (data : Bytes) : Within (parseAttributes data) (data.length + 1) := by
  obtain ⟨r, m, e, hm, _⟩ := parseAttributes_spec data
  exact ⟨r, m, e, hm⟩

theorem lengthField_eq {buf : Bytes} (h : 4 ≤ buf.length) :
    be16At buf 2 = .ok (lengthField buf) := by
  rw [be16At_ok (by omega)]
  rfl

/-- everything about one datagram: `receive` returns normally, within a linear number of steps, it
    accepts exactly the authentic datagrams, and the accepted request carries the datagram's identifier
    and Request Authenticator -/
theorem receive_spec (H : Bytes → Bytes) (hH : ∀ x, (H x).length = 16) (secret buf : Bytes) :
    ∃ r m, receive H secret buf = .ok (r, m) ∧ m ≤ buf.length + 18 ∧
      r.isSome = authentic H secret buf ∧
      (∀ req, r = some req →
        req.auth = (buf.take 20).drop 4 ∧ buf[1]? = some req.id ∧
        (req.kind = .coa ∧ buf.head? = some 43 ∨ req.kind = .dm ∧ buf.head? = some 40)) := by
  unfold receive
  by_cases hshort : buf.length < 20
  · rw [if_pos hshort]
    refine ⟨none, 1, rfl, by omega, ?_, by intro req h; cases h⟩
    have : ¬ (20 ≤ buf.length) := by omega
    simp [authentic, this]
  · rw [if_neg hshort]
    have h20 : 20 ≤ buf.length := by omega
    rw [index_ok (by omega), ok_bind, index_ok (by omega), ok_bind, lengthField_eq (by omega), ok_bind,
      slice_ok (by omega) (by omega), ok_bind]
    by_cases hlen : lengthField buf < 20 ∨ lengthField buf > buf.length
    · rw [if_pos hlen]
      refine ⟨none, 1, rfl, by omega, ?_, by intro req h; cases h⟩
      rcases hlen with hl | hl
      · have : ¬ (20 ≤ lengthField buf) := by omega
        simp [authentic, this]
      · have : ¬ (lengthField buf ≤ buf.length) := by omega
        simp [authentic, this]
    · rw [if_neg hlen]
      have hl1 : 20 ≤ lengthField buf := by omega
      have hl2 : lengthField buf ≤ buf.length := by omega
      rw [sliceTo_ok hl2, ok_bind]
      rw [verifyAuth_spec H hH secret _ _ (by simp; omega) (by simp; omega), ok_bind]
      have htake : (buf.take (lengthField buf)).take 4 = buf.take 4 := by
        rw [List.take_take]; congr 1; omega
      rw [htake]
      have hhead : buf.head? = some buf[0] := by
        cases buf with
        | nil => simp at h20
        | cons b t => simp
      by_cases hv : (buf.take 20).drop 4 =
          H (buf.take 4 ++ zeros16 ++ (buf.take (lengthField buf)).drop 20 ++ secret)
      · have hv' : H (buf.take 4 ++ zeros16 ++ (packetOf buf).drop 20 ++ secret) = (buf.take 20).drop 4 := by
          unfold packetOf; exact hv.symm
        simp only [List.append_assoc] at hv'
        rw [decide_eq_true hv]
        simp only [Bool.true_eq_false, if_false]
        rw [slice_ok (by omega) hl2, ok_bind]
        obtain ⟨ra, ma, ea, hma, hra⟩ := parseAttributes_spec ((buf.take (lengthField buf)).drop 20)
        rw [ea, ok_bind]
        have hma' : ma ≤ buf.length + 1 := by
          simp only [length_take_drop] at hma; omega
        cases ra with
        | none =>
          refine ⟨none, _, rfl, by dsimp only; omega, ?_, by intro req h; cases h⟩
          have : attrsWF_strict ((packetOf buf).drop 20) = false := by
            unfold packetOf; rw [← hra]; rfl
          simp [authentic, this]
        | some attrs =>
          have hwf : attrsWF_strict ((packetOf buf).drop 20) = true := by
            unfold packetOf; rw [← hra]; rfl
          dsimp only
          by_cases h43 : buf[0] = 43
          · rw [if_pos h43]
            refine ⟨_, _, rfl, by omega, ?_, ?_⟩
            · simp [authentic, h20, hl1, hl2, hhead, h43, hwf, hv']
            · intro req hreq
              injection hreq with hreq; subst hreq
              refine ⟨rfl, by simp, Or.inl ⟨rfl, by rw [hhead, h43]⟩⟩
          · rw [if_neg h43]
            by_cases h40 : buf[0] = 40
            · rw [if_pos h40]
              refine ⟨_, _, rfl, by omega, ?_, ?_⟩
              · simp [authentic, h20, hl1, hl2, hhead, h40, hwf, hv']
              · intro req hreq
                injection hreq with hreq; subst hreq
                refine ⟨rfl, by simp, Or.inr ⟨rfl, by rw [hhead, h40]⟩⟩
            · rw [if_neg h40]
              refine ⟨none, _, rfl, by omega, ?_, by intro req h; cases h⟩
              simp [authentic, hhead, h40, h43]
      · rw [decide_eq_false hv]
        simp only [if_true]
        refine ⟨none, 17, rfl, by omega, ?_, by intro req h; cases h⟩
        have hv' : ¬ (H (buf.take 4 ++ zeros16 ++ (packetOf buf).drop 20 ++ secret) = (buf.take 20).drop 4) := by
          unfold packetOf; intro h; exact hv h.symm
        simp only [List.append_assoc] at hv'
        simp [authentic, hv']

/-! ### the response is a well-formed RADIUS packet -/

theorem putBE_length : ∀ (n v : Nat), (putBE n v).length = n := by
  intro n
  induction n with
  | zero => intro v; rfl
  | succ n ih => intro v; simp [putBE, ih]

theorem beNat_putBE2 (v : Nat) (hv : v < 65536) : beNat (putBE 2 v) = v := by
  simp [putBE, beNat]
  omega

/-- one TLV in front of a well-formed area -/
theorem attrsWF_strict_tlv (t l : UInt8) (v rest : Bytes) (h2 : 2 ≤ l.toNat) (hv : v.length = l.toNat - 2) :
    attrsWF_strict (t :: l :: (v ++ rest)) = attrsWF_strict rest := by
  rw [attrsWF_strict]
  have h3 : l.toNat - 2 ≤ (v ++ rest).length := by simp; omega
  have h4 : (v ++ rest).drop (l.toNat - 2) = rest := by
    rw [← hv]; simp
  simp [h2, h4]
  intro _; omega

theorem respAttrs_wf (errorCause : Nat) (message : Bytes) :
    attrsWF_strict (respAttrs errorCause message) = true ∧ (respAttrs errorCause message).length ≤ 261 := by
  unfold respAttrs
  dsimp only
  have hm : (message.take 253).length ≤ 253 := by simp; omega
  generalize message.take 253 = msg at hm
  have hmsg : attrsWF_strict (if msg ≠ [] then [18, UInt8.ofNat ((2 + msg.length) % 256)] ++ msg else []) = true := by
    split
    · have e : (UInt8.ofNat ((2 + msg.length) % 256)).toNat = 2 + msg.length := by
        simp [UInt8.toNat_ofNat]; omega
      have := attrsWF_strict_tlv 18 (UInt8.ofNat ((2 + msg.length) % 256)) msg [] (by omega) (by omega)
      simp only [List.append_nil] at this
      show attrsWF_strict (18 :: UInt8.ofNat ((2 + msg.length) % 256) :: msg) = true
      rw [this]; simp [attrsWF_strict]
    · simp [attrsWF_strict]
  have hlen : (if msg ≠ [] then [18, UInt8.ofNat ((2 + msg.length) % 256)] ++ msg else []).length ≤ 255 := by
    split <;> simp <;> omega
  generalize (if msg ≠ [] then [18, UInt8.ofNat ((2 + msg.length) % 256)] ++ msg else []) = tail at hmsg hlen
  split
  · have := attrsWF_strict_tlv 101 6 (putBE 4 (errorCause % 4294967296)) tail (by decide) (by rw [putBE_length]; decide)
    constructor
    · show attrsWF_strict (101 :: 6 :: (putBE 4 (errorCause % 4294967296) ++ tail)) = true
      rw [this]; exact hmsg
    · simp [putBE_length]; omega
  · constructor
    · simpa using hmsg
    · simp; omega

/-- `sendResponse` : identifier and Response Authenticator -/
theorem sendResponse_spec (H : Bytes → Bytes) (hH : ∀ x, (H x).length = 16) (secret : Bytes)
    (code id : UInt8) (reqAuth : Bytes) (errorCause : Nat) (message : Bytes)
    (r : Bytes) (hr : r = sendResponse H secret code id reqAuth errorCause message) :
    r[0]? = some code ∧ r[1]? = some id ∧
    (r.take 20).drop 4 = H (r.take 4 ++ reqAuth ++ r.drop 20 ++ secret) ∧
    lengthField r = r.length ∧ attrsWF_strict (r.drop 20) = true := by
  have hput : (putBE 2 ((20 + (respAttrs errorCause message).length) % 65536)).length = 2 := by
    simp [putBE]
  obtain ⟨hwf, hal⟩ := respAttrs_wf errorCause message
  have hbe : beNat (putBE 2 ((20 + (respAttrs errorCause message).length) % 65536)) =
      20 + (respAttrs errorCause message).length := by
    rw [Nat.mod_eq_of_lt (by omega)]; exact beNat_putBE2 _ (by omega)
  unfold sendResponse at hr
  dsimp only at hr
  generalize hp : putBE 2 ((20 + (respAttrs errorCause message).length) % 65536) = p at *
  generalize ha : respAttrs errorCause message = attrs at *
  generalize hd : H ([code, id] ++ p ++ reqAuth ++ attrs ++ secret) = dg at *
  have hc : dg.length = 16 := by rw [← hd]; exact hH _
  have hc' : copy16 dg = dg := by
    unfold copy16
    rw [List.take_append_of_le_length (by omega), List.take_of_length_le (by omega)]
  rw [hc'] at hr
  subst hr
  refine ⟨by simp, by simp, ?_⟩
  have l4 : ([code, id] ++ p).length = 4 := by simp [hput]
  have t2 : ((([code, id] ++ p) ++ dg ++ attrs).take 4).drop 2 = p := by
    rw [List.append_assoc, List.take_append_of_le_length (by omega), List.take_of_length_le (by omega)]
    simp
  have t4 : (([code, id] ++ p) ++ dg ++ attrs).take 4 = [code, id] ++ p := by
    rw [List.append_assoc, List.take_append_of_le_length (by omega), List.take_of_length_le (by omega)]
  have t20 : (([code, id] ++ p) ++ dg ++ attrs).take 20 = [code, id] ++ p ++ dg := by
    rw [List.take_append_of_le_length (by simp [hput, hc]), List.take_of_length_le (by simp [hput, hc])]
  have d20 : (([code, id] ++ p) ++ dg ++ attrs).drop 20 = attrs := by
    rw [List.drop_append_of_le_length (by simp [hput, hc]), List.drop_of_length_le (by simp [hput, hc])]
    simp
  have d4 : ([code, id] ++ p ++ dg).drop 4 = dg := by
    rw [List.drop_append_of_le_length (by omega), List.drop_of_length_le (by omega)]
    simp
  refine ⟨by rw [t4, t20, d20, d4, ← hd], ?_, by rw [d20]; exact hwf⟩
  unfold lengthField
  rw [t2, hbe]
  simp [hput, hc]
  omega

theorem applyAttr_ok (k : Kind) (f : Fields) (a : Attr) : ∃ f', applyAttr k f a = .ok f' := by
  unfold applyAttr
  repeat' split
  all_goals first
    | exact ⟨_, rfl⟩
    | (rw [be32_ok (by omega), ok_bind]; exact ⟨_, rfl⟩)

theorem parseFields_ok (k : Kind) : ∀ (attrs : List Attr) (f : Fields), ∃ f', parseFields k attrs f = .ok f' := by
  intro attrs
  induction attrs with
  | nil => intro f; exact ⟨f, rfl⟩
  | cons a rest ih =>
    intro f
    unfold parseFields
    obtain ⟨f', e⟩ := applyAttr_ok k f a
    rw [e, ok_bind]
    exact ih f'

end Bng.Coa
