import Bng.Model.Ncp
/-
  Helper lemmas for C11, generic in the transition tables `T : Tables`.

  Idea: the ghost/automaton part of the state, `abs s = (st, our, peer)`, evolves under `step0` exactly as the
  finite function `absHandler T` prescribes (lemma `abs_runHandler`).  Every property of the generated tables that
  the theorems need is then a decidable statement about `absHandler T` over finitely many cases
  (`GoodInv`, `GoodLeave`, `GoodTO`, `GoodDispatch`), closed by `decide` in Bng/Spec/C11.lean on the tables
  regenerated from the Go source.
-/
set_option linter.unusedSimpArgs false
set_option linter.unusedVariables false
namespace Bng.Ncp

/-! ## finite enumerations -/

def allSt : List St :=
  [.Initial, .Starting, .Closed, .Stopped, .Closing, .Stopping, .ReqSent, .AckRcvd, .AckSent, .Opened]
def allHandlers : List Handler := [.up, .down, .open, .close, .rcr, .rca, .rcn, .rcj, .rtr, .rta, .timeout]
def allBool : List Bool := [false, true]

theorem mem_allSt (s : St) : s ∈ allSt := by cases s <;> simp [allSt]
theorem mem_allHandlers (h : Handler) : h ∈ allHandlers := by cases h <;> simp [allHandlers]
theorem mem_allBool (b : Bool) : b ∈ allBool := by cases b <;> simp [allBool]

/-! ## the abstraction -/

structure Abs where
  st : St
  our : Bool
  peer : Bool
  deriving DecidableEq, Repr

def abs (s : State) : Abs := ⟨s.st, s.our, s.peer⟩

structure Flags where
  /-- the packet's identifier equals `lastIdentifier` -/
  matched : Bool
  /-- the option bytes do not parse -/
  bad : Bool
  /-- the reply to the packet's options is an Ack -/
  ack : Bool
  /-- `restartCount > 0` -/
  rcPos : Bool

structure ARun where
  a : Abs
  cont : Bool
  respAck : Bool

def absEff (a : Abs) : Eff → Abs
  | .setLastId => { a with our := false }
  | _ => a

def absAct (T : Tables) (a : Abs) : Action → Abs
  | .setState q => { a with st := q }
  | .scr => (T.effs .scr).foldl absEff a
  | .str => (T.effs .str).foldl absEff a
  | .sta => (T.effs .sta).foldl absEff a
  | _ => a

def absPre (f : Flags) (r : ARun) (p : Pre) : ARun :=
  if !r.cont then r else
  match p with
  | .guardId => if f.matched then r else { r with cont := false }
  | .parseAbort => if f.bad then { r with cont := false } else r
  | .reply => { r with respAck := f.ack, a := { r.a with peer := f.ack } }
  | _ => r

def absHandler (T : Tables) (h : Handler) (f : Flags) (a : Abs) : Abs :=
  let r1 := (T.pre h).foldl (absPre f) ⟨a, true, false⟩
  if !r1.cont then r1.a
  else (T.table h r1.a.st ⟨r1.respAck, f.rcPos⟩).foldl (absAct T) r1.a

def arun (r : Run) : ARun := ⟨abs r.s, r.cont, r.respAck⟩

/-- the fields of the state that option bookkeeping never touches -/
def core (s : State) : St × Int × UInt8 × UInt8 × Bool × Bool × Bool :=
  (s.st, s.rc, s.ident, s.lastId, s.armed, s.our, s.peer)

theorem core_applyNak (c : Cfg) (s : State) (o : Opt) : core (applyNak c s o) = core s := by
  unfold applyNak
  split
  · split <;> rfl
  · split <;> rfl
  · split
    · split
      · rfl
      · split <;> rfl
    · rfl

theorem core_applyRej (c : Cfg) (s : State) (o : Opt) : core (applyRej c s o) = core s := by
  unfold applyRej
  split
  · split
    · rfl
    · split <;> rfl
  · rfl

theorem core_foldl (g : State → Opt → State) (hg : ∀ s o, core (g s o) = core s) (l : List Opt) (s : State) :
    core (l.foldl g s) = core s := by
  induction l generalizing s with
  | nil => rfl
  | cons o os ih => simp only [List.foldl_cons]; rw [ih, hg]

theorem abs_of_core {s s' : State} (h : core s' = core s) : abs s' = abs s := by
  simp only [core, Prod.mk.injEq] at h
  simp [abs, h.1, h.2.2.2.2.2.1, h.2.2.2.2.2.2]

theorem replyTo_code (c : Cfg) (i j : UInt8) (o : List Opt) : (replyTo c i o).code = (replyTo c j o).code := by
  unfold replyTo
  simp only
  split
  · rfl
  · split <;> rfl

/-! ### effects and actions commute with the abstraction -/

theorem abs_doEff (k : Send) (c : Cfg) (x : Ctx) (r : Run) (e : Eff) :
    abs (doEff k c x r e).s = absEff (abs r.s) e ∧ (doEff k c x r e).cont = r.cont ∧
      (doEff k c x r e).respAck = r.respAck := by
  cases e <;> simp [doEff, abs, absEff]

theorem abs_foldEff (k : Send) (c : Cfg) (x : Ctx) (l : List Eff) (r : Run) :
    abs (l.foldl (doEff k c x) r).s = l.foldl absEff (abs r.s) := by
  induction l generalizing r with
  | nil => rfl
  | cons e es ih => simp only [List.foldl_cons]; rw [ih, (abs_doEff k c x r e).1]

theorem abs_doAct (T : Tables) (c : Cfg) (x : Ctx) (r : Run) (a : Action) :
    abs (doAct T c x r a).s = absAct T (abs r.s) a := by
  cases a with
  | irc => simp [doAct, abs, absAct]
  | zrc => simp [doAct, abs, absAct]
  | scr => simp only [doAct, doSend, absAct]; exact abs_foldEff _ _ _ _ _
  | str => simp only [doAct, doSend, absAct]; exact abs_foldEff _ _ _ _ _
  | sta => simp only [doAct, doSend, absAct]; exact abs_foldEff _ _ _ _ _
  | setState q => simp [doAct, abs, absAct]
  | stopTimer => simp [doAct, abs, absAct]

theorem abs_foldAct (T : Tables) (c : Cfg) (x : Ctx) (l : List Action) (r : Run) :
    abs (l.foldl (doAct T c x) r).s = l.foldl (absAct T) (abs r.s) := by
  induction l generalizing r with
  | nil => rfl
  | cons a as ih => simp only [List.foldl_cons]; rw [ih, abs_doAct]

/-! ### the statements before the switch -/

def flagsOf (c : Cfg) (x : Ctx) (s : State) : Flags :=
  ⟨x.id == s.lastId, x.bad, isAck c x.opts, decide (s.rc > 0)⟩

theorem doPre_spec (c : Cfg) (h : Handler) (x : Ctx) (s0 : State) (r : Run) (p : Pre)
    (hl : r.s.lastId = s0.lastId) (hr : r.s.rc = s0.rc) :
    arun (doPre c h x r p) = absPre (flagsOf c x s0) (arun r) p ∧
      (doPre c h x r p).s.lastId = s0.lastId ∧ (doPre c h x r p).s.rc = s0.rc := by
  unfold doPre absPre
  by_cases hc : r.cont = true
  · simp only [hc, Bool.not_true, Bool.false_eq_true, ↓reduceIte, arun]
    cases p with
    | guardId =>
      simp only [flagsOf, hl]
      by_cases hm : (x.id == s0.lastId) = true
      · simp [hm, hc, hl, hr]
      · simp [hm, hl, hr]
    | stopTimer => simp [abs, hc, hl, hr]
    | parseAbort =>
      simp only [flagsOf]
      by_cases hb : x.bad = true
      · simp [hb, hl, hr]
      · simp [hb, hc, hl, hr]
    | parseLax =>
      by_cases hb : x.bad = true
      · simp [hb, hc, hl, hr]
      · simp [hb, hc, hl, hr]
    | reply =>
      have hk : ((replyTo c x.id x.opts).code == cCA) = isAck c x.opts := by
        unfold isAck; rw [replyTo_code c x.id 0]
      simp [abs, flagsOf, hk, hc, hl, hr]
    | applyOpts =>
      cases h <;> simp only [hc, hl, hr, and_self, and_true]
      · have := core_foldl (applyNak c) (core_applyNak c) r.opts r.s
        have h2 := abs_of_core this
        simp only [core, Prod.mk.injEq] at this
        simp [h2, this.2.1, this.2.2.2.1, hl, hr]
      · have := core_foldl (applyRej c) (core_applyRej c) r.opts r.s
        have h2 := abs_of_core this
        simp only [core, Prod.mk.injEq] at this
        simp [h2, this.2.1, this.2.2.2.1, hl, hr]
    | incFailure => simp [hc, hl, hr]
    | allocPeer =>
      simp only
      split
      · split <;> simp [abs, hc, hl, hr]
      · simp [hc, hl, hr]
    | releasePeer =>
      simp only
      split
      · simp [abs, hc, hl, hr]
      · simp [hc, hl, hr]
  · simp only [Bool.not_eq_true] at hc
    simp [hc, arun, hl, hr]

theorem foldPre_spec (c : Cfg) (h : Handler) (x : Ctx) (s0 : State) (l : List Pre) (r : Run)
    (hl : r.s.lastId = s0.lastId) (hr : r.s.rc = s0.rc) :
    arun (l.foldl (doPre c h x) r) = l.foldl (absPre (flagsOf c x s0)) (arun r) ∧
      (l.foldl (doPre c h x) r).s.rc = s0.rc := by
  induction l generalizing r with
  | nil => exact ⟨rfl, hr⟩
  | cons p ps ih =>
    simp only [List.foldl_cons]
    have := doPre_spec c h x s0 r p hl hr
    rw [← this.1]
    exact ih _ this.2.1 this.2.2

/-- the automaton/ghost part of the state after a handler is the finite function `absHandler` of it before -/
theorem abs_runHandler (T : Tables) (c : Cfg) (h : Handler) (x : Ctx) (s : State) :
    abs (runHandler T c h x s).s = absHandler T h (flagsOf c x s) (abs s) := by
  unfold runHandler absHandler
  have hp := foldPre_spec c h x s (T.pre h) { s := s, opts := x.opts } rfl rfl
  simp only [arun] at hp
  have h1 := hp.1
  generalize (T.pre h).foldl (doPre c h x) { s := s, opts := x.opts } = r1 at *
  generalize (T.pre h).foldl (absPre (flagsOf c x s)) ⟨abs s, true, false⟩ = a1 at *
  have ha : a1.a = abs r1.s := by rw [← h1]
  have hc : a1.cont = r1.cont := by rw [← h1]
  have hk : a1.respAck = r1.respAck := by rw [← h1]
  simp only [hc]
  by_cases hcont : r1.cont = true
  · simp only [hcont, Bool.not_true, Bool.false_eq_true, ↓reduceIte]
    rw [abs_foldAct, ha, hk]
    simp only [flagsOf, hp.2, abs]
  · simp only [Bool.not_eq_true] at hcont
    simp [hcont, ha]

/-! ## opened ⇒ mutual agreement -/

def allFlags : List Flags :=
  allBool.flatMap fun a => allBool.flatMap fun b => allBool.flatMap fun c => allBool.map fun d => ⟨a, b, c, d⟩
def allAbs : List Abs :=
  allSt.flatMap fun s => allBool.flatMap fun a => allBool.map fun b => ⟨s, a, b⟩

theorem mem_allFlags (f : Flags) : f ∈ allFlags := by
  rcases f with ⟨a, b, c, d⟩
  simp only [allFlags, List.mem_flatMap, List.mem_map]
  exact ⟨a, mem_allBool a, b, mem_allBool b, c, mem_allBool c, d, mem_allBool d, rfl⟩

theorem mem_allAbs (a : Abs) : a ∈ allAbs := by
  rcases a with ⟨s, a, b⟩
  simp only [allAbs, List.mem_flatMap, List.mem_map]
  exact ⟨s, mem_allSt s, a, mem_allBool a, b, mem_allBool b, rfl⟩

/-- the invariant: Ack-Rcvd only with our request acknowledged, Ack-Sent only with the peer's request
    acknowledged, Opened only with both -/
def InvA (a : Abs) : Bool :=
  (a.st != .AckRcvd || a.our) && (a.st != .AckSent || a.peer) && (a.st != .Opened || (a.our && a.peer))

def resetA (a : Abs) : Abs := { a with our := false, peer := false }

/-- ghost update that accompanies a received packet of the given code -/
def ghostA (code : Nat) (f : Flags) (a : Abs) : Abs :=
  if code == cCA && f.matched then { a with our := true } else a

/-- decidable table property: every way a handler is entered preserves `InvA`:
    the administrative events and the timer directly, Down after the ghost reset, the receive handlers through
    the code dispatch of `ReceivePacket` (a Configure-Ack with the matching identifier sets the ghost first) -/
def GoodInv (T : Tables) : Bool :=
  allFlags.all fun f => allAbs.all fun a =>
    !InvA a || (([Handler.up, .open, .close, .timeout].all fun h => InvA (absHandler T h f a)) &&
      InvA (absHandler T .down f (resetA a)) &&
      T.dispatch.all fun kh => InvA (absHandler T kh.2 f (ghostA kh.1 f a)))

theorem goodInv_spec {T : Tables} (hT : GoodInv T = true) (f : Flags) (a : Abs) (ha : InvA a = true) :
    (∀ h ∈ [Handler.up, .open, .close, .timeout], InvA (absHandler T h f a) = true) ∧
      InvA (absHandler T .down f (resetA a)) = true ∧
      ∀ kh ∈ T.dispatch, InvA (absHandler T kh.2 f (ghostA kh.1 f a)) = true := by
  unfold GoodInv at hT
  have := List.all_eq_true.mp (List.all_eq_true.mp hT f (mem_allFlags f)) a (mem_allAbs a)
  simp only [ha, Bool.not_true, Bool.false_or, Bool.and_eq_true] at this
  exact ⟨List.all_eq_true.mp this.1.1, this.1.2, List.all_eq_true.mp this.2⟩

theorem goodInv_down {T : Tables} (hT : GoodInv T = true) (f : Flags) (a : Abs)
    (ha : InvA a = true) : InvA (absHandler T .down f (resetA a)) = true :=
  (goodInv_spec hT f a ha).2.1

theorem inv_runHandler {T : Tables} (hT : GoodInv T = true) (c : Cfg) (h : Handler) (x : Ctx) (s : State)
    (hh : h ∈ [Handler.up, .open, .close, .timeout])
    (hs : InvA (abs s) = true) : InvA (abs (runHandler T c h x s).s) = true := by
  rw [abs_runHandler]; exact (goodInv_spec hT _ _ hs).1 h hh

theorem mem_of_lookup {α β : Type} [BEq α] [LawfulBEq α] (l : List (α × β)) (k : α) (v : β)
    (h : l.lookup k = some v) : (k, v) ∈ l := by
  induction l with
  | nil => simp [List.lookup] at h
  | cons p ps ih =>
    rcases p with ⟨k', v'⟩
    simp only [List.lookup] at h
    split at h
    · rename_i heq
      have : k = k' := by simpa using heq
      cases h; subst this; simp
    · exact List.mem_cons_of_mem _ (ih h)

theorem invA_ident (s : State) (i : UInt8) : abs { s with ident := i } = abs s := rfl
theorem invA_armed (s : State) (b : Bool) : abs { s with armed := b } = abs s := rfl

theorem invA_our (a : Abs) (h : InvA a = true) : InvA { a with our := true } = true := by
  rcases a with ⟨s, o, p⟩
  cases s <;> cases o <;> cases p <;> simp_all [InvA]

def ghostS (code : Nat) (x : Ctx) (s : State) : State :=
  if code == cCA && x.id == s.lastId then { s with our := true } else s

theorem abs_ghostS (c : Cfg) (code : Nat) (x : Ctx) (s : State) :
    abs (ghostS code x s) = ghostA code (flagsOf c x (ghostS code x s)) (abs s) := by
  unfold ghostS ghostA
  by_cases hm : (code == cCA && x.id == s.lastId) = true
  · have h2 := hm
    simp only [Bool.and_eq_true] at h2
    simp [hm, flagsOf, abs, h2.1, h2.2]
  · simp only [hm, Bool.false_eq_true, ↓reduceIte, flagsOf]

theorem inv_recv {T : Tables} (hT : GoodInv T = true) (c : Cfg) (code : Nat) (x : Ctx) (s : State)
    (hs : InvA (abs s) = true) : InvA (abs (recv T c code x s).1) = true := by
  unfold recv
  simp only
  change InvA (abs (match T.dispatch.lookup code with
    | some h => fin (runHandler T c h x (ghostS code x s))
    | none => _).1) = true
  have hg : InvA (abs (ghostS code x s)) = true := by
    unfold ghostS
    split
    · exact invA_our _ hs
    · exact hs
  split
  · rename_i h hl
    simp only [fin]
    rw [abs_runHandler]
    have := (goodInv_spec hT (flagsOf c x (ghostS code x s)) (abs s) hs).2.2 (code, h) (mem_of_lookup _ _ _ hl)
    rw [← abs_ghostS] at this
    exact this
  · split
    · exact hg
    · split
      · exact hg
      · exact hg

theorem inv_step0 {T : Tables} (hT : GoodInv T = true) (c : Cfg) (s : State) (e : Ev)
    (hs : InvA (abs s) = true) : InvA (abs (step0 T c s e).1) = true := by
  cases e with
  | up => exact inv_runHandler hT c _ _ s (by simp) hs
  | down =>
    simp only [step0, fin]
    rw [abs_runHandler]
    exact goodInv_down hT _ _ hs
  | «open» => exact inv_runHandler hT c _ _ s (by simp) hs
  | close => exact inv_runHandler hT c _ _ s (by simp) hs
  | timeout =>
    simp only [step0]
    split
    · exact inv_runHandler hT c _ _ _ (by simp) hs
    · exact hs
  | stale => exact inv_runHandler hT c _ _ s (by simp) hs
  | rcr id opts bad => exact inv_recv hT c _ _ s hs
  | rca id => exact inv_recv hT c _ _ s hs
  | rcn id opts bad => exact inv_recv hT c _ _ s hs
  | rcj id opts bad => exact inv_recv hT c _ _ s hs
  | rtr id => exact inv_recv hT c _ _ s hs
  | rta id => exact inv_recv hT c _ _ s hs
  | codeRej id code =>
    simp only [step0]
    split
    · split
      · split
        · exact inv_runHandler hT c _ _ s (by simp) hs
        · exact hs
      · exact hs
    · exact inv_recv hT c _ _ s hs
  | protoRej id proto =>
    simp only [step0]
    split
    · split
      · split
        · exact inv_runHandler hT c _ _ s (by simp) hs
        · exact hs
      · exact hs
    · exact inv_recv hT c _ _ s hs
  | echoReq id data =>
    simp only [step0]
    split
    · split <;> exact hs
    · exact inv_recv hT c _ _ s hs
  | other code id => exact inv_recv hT c _ _ s hs
  | sendEcho =>
    simp only [step0]
    split <;> exact hs
  | sendProtoRej =>
    simp only [step0]
    split <;> exact hs
  | setPeer a =>
    simp only [step0]
    split <;> exact hs
  | poolNext a => exact hs

theorem inv_step {T : Tables} (hT : GoodInv T = true) (c : Cfg) (s : State) (e : Ev)
    (hs : InvA (abs s) = true) : InvA (abs (step T c s e).1) = true :=
  inv_step0 hT (effCfg c s) s e hs

theorem inv_run {T : Tables} (hT : GoodInv T = true) (c : Cfg) (evs : List Ev) (s : State)
    (hs : InvA (abs s) = true) : InvA (abs (run T c s evs)) = true := by
  induction evs generalizing s with
  | nil => exact hs
  | cons e es ih => exact ih _ (inv_step hT c s e hs)

theorem inv_init (c : Cfg) : InvA (abs (init c)) = true := by
  simp [init, abs, InvA]

/-! ## renegotiation, terminate, down leave Opened -/

def GoodDispatch (T : Tables) : Bool :=
  T.dispatch.lookup cCR == some .rcr && T.dispatch.lookup cCA == some .rca && T.dispatch.lookup cCN == some .rcn &&
  T.dispatch.lookup cCJ == some .rcj && T.dispatch.lookup cTR == some .rtr && T.dispatch.lookup cTA == some .rta

def leaveOk (T : Tables) (h : Handler) (f : Flags) (a : Abs) : Bool := (absHandler T h f a).st != .Opened

/-- the handler returns early when the option bytes do not parse -/
def aborts (T : Tables) (h : Handler) : Bool := (T.pre h).contains .parseAbort

def GoodLeave (T : Tables) : Bool :=
  allFlags.all fun f => allBool.all fun o => allBool.all fun p =>
    let a : Abs := ⟨.Opened, o, p⟩
    leaveOk T .close f a && leaveOk T .rtr f a && leaveOk T .rta f a && leaveOk T .down f (resetA a) &&
    ((f.bad && aborts T .rcr) || leaveOk T .rcr f a) && (!f.matched || leaveOk T .rca f { a with our := true }) &&
    (!f.matched || (f.bad && aborts T .rcn) || leaveOk T .rcn f a) &&
    (!f.matched || (f.bad && aborts T .rcj) || leaveOk T .rcj f a)

/-- the events the property lists as leaving Opened -/
def Leaving (T : Tables) (s : State) : Ev → Prop
  | .down | .close | .rtr _ | .rta _ => True
  | .rcr _ _ bad => bad = false ∨ aborts T .rcr = false
  | .rca id => id = s.lastId
  | .rcn id _ bad => id = s.lastId ∧ (bad = false ∨ aborts T .rcn = false)
  | .rcj id _ bad => id = s.lastId ∧ (bad = false ∨ aborts T .rcj = false)
  | .codeRej _ (some k) => T.extra.contains cXJ = true ∧ 1 ≤ k ∧ k ≤ 4
  | .protoRej _ (some p) => T.extra.contains cPJ = true ∧ p = 0xc021
  | _ => False

theorem goodLeave_spec {T : Tables} (hL : GoodLeave T = true) (f : Flags) (o p : Bool) :
    let a : Abs := ⟨.Opened, o, p⟩
    leaveOk T .close f a = true ∧ leaveOk T .rtr f a = true ∧ leaveOk T .rta f a = true ∧
      leaveOk T .down f (resetA a) = true ∧
      ((f.bad = false ∨ aborts T .rcr = false) → leaveOk T .rcr f a = true) ∧
      (f.matched = true → leaveOk T .rca f { a with our := true } = true) ∧
      (f.matched = true → (f.bad = false ∨ aborts T .rcn = false) → leaveOk T .rcn f a = true) ∧
      (f.matched = true → (f.bad = false ∨ aborts T .rcj = false) → leaveOk T .rcj f a = true) := by
  unfold GoodLeave at hL
  have := List.all_eq_true.mp (List.all_eq_true.mp (List.all_eq_true.mp hL f (mem_allFlags f)) o (mem_allBool o)) p (mem_allBool p)
  simp only [Bool.and_eq_true, Bool.or_eq_true, Bool.not_eq_true'] at this
  obtain ⟨⟨⟨⟨⟨⟨⟨h1, h2⟩, h3⟩, h4⟩, h5⟩, h6⟩, h7⟩, h8⟩ := this
  refine ⟨h1, h2, h3, h4, ?_, ?_, ?_, ?_⟩
  · intro hb
    rcases h5 with h | h
    · rcases hb with hb | hb
      · rw [hb] at h; cases h.1
      · rw [hb] at h; cases h.2
    · exact h
  · intro hm; rcases h6 with h | h
    · rw [hm] at h; cases h
    · exact h
  · intro hm hb; rcases h7 with (h | h) | h
    · rw [hm] at h; cases h
    · rcases hb with hb | hb
      · rw [hb] at h; cases h.1
      · rw [hb] at h; cases h.2
    · exact h
  · intro hm hb; rcases h8 with (h | h) | h
    · rw [hm] at h; cases h
    · rcases hb with hb | hb
      · rw [hb] at h; cases h.1
      · rw [hb] at h; cases h.2
    · exact h

theorem st_runHandler (T : Tables) (c : Cfg) (h : Handler) (x : Ctx) (s : State) :
    (runHandler T c h x s).s.st = (absHandler T h (flagsOf c x s) (abs s)).st := by
  rw [← abs_runHandler]; rfl

theorem ne_of_leaveOk {T : Tables} {h : Handler} {f : Flags} {a : Abs} (hk : leaveOk T h f a = true) :
    (absHandler T h f a).st ≠ .Opened := by
  simpa [leaveOk] using hk

theorem abs_opened {s : State} (h : s.st = .Opened) : abs s = ⟨.Opened, s.our, s.peer⟩ := by
  simp [abs, h]

theorem leaves_opened_of {T : Tables} (hD : GoodDispatch T = true) (hL : GoodLeave T = true) (c : Cfg)
    (s : State) (e : Ev) (hs : s.st = .Opened) (he : Leaving T s e) : (step0 T c s e).1.st ≠ .Opened := by
  simp only [GoodDispatch, Bool.and_eq_true, beq_iff_eq] at hD
  obtain ⟨⟨⟨⟨⟨d1, d2⟩, d3⟩, d4⟩, d5⟩, d6⟩ := hD
  have recvNoGhost : ∀ (code : Nat) (x : Ctx) (h : Handler), T.dispatch.lookup code = some h → code ≠ cCA →
      (recv T c code x s).1.st = (absHandler T h (flagsOf c x s) (abs s)).st := by
    intro code x h hl hne
    unfold recv
    have : (code == cCA) = false := by simpa using hne
    simp only [this, Bool.false_and, Bool.false_eq_true, ↓reduceIte, hl, fin]
    exact st_runHandler _ _ _ _ _
  cases e with
  | down =>
    simp only [step0, fin]
    rw [st_runHandler]
    have := (goodLeave_spec hL (flagsOf c {} { s with our := false, peer := false }) s.our s.peer).2.2.2.1
    have h2 : abs { s with our := false, peer := false } = resetA ⟨.Opened, s.our, s.peer⟩ := by simp [abs, resetA, hs]
    rw [h2]; exact ne_of_leaveOk this
  | close =>
    simp only [step0, fin]
    rw [st_runHandler, abs_opened hs]
    exact ne_of_leaveOk (goodLeave_spec hL _ s.our s.peer).1
  | rtr id =>
    simp only [step0]
    rw [recvNoGhost _ _ _ d5 (by decide), abs_opened hs]
    exact ne_of_leaveOk (goodLeave_spec hL _ s.our s.peer).2.1
  | rta id =>
    simp only [step0]
    rw [recvNoGhost _ _ _ d6 (by decide), abs_opened hs]
    exact ne_of_leaveOk (goodLeave_spec hL _ s.our s.peer).2.2.1
  | rcr id opts bad =>
    simp only [Leaving] at he
    simp only [step0]
    rw [recvNoGhost _ _ _ d1 (by decide), abs_opened hs]
    exact ne_of_leaveOk ((goodLeave_spec hL _ s.our s.peer).2.2.2.2.1 (by simpa [flagsOf] using he))
  | rcn id opts bad =>
    simp only [Leaving] at he
    simp only [step0]
    rw [recvNoGhost _ _ _ d3 (by decide), abs_opened hs]
    exact ne_of_leaveOk ((goodLeave_spec hL _ s.our s.peer).2.2.2.2.2.2.1 (by simp [flagsOf, he.1]) (by simpa [flagsOf] using he.2))
  | rcj id opts bad =>
    simp only [Leaving] at he
    simp only [step0]
    rw [recvNoGhost _ _ _ d4 (by decide), abs_opened hs]
    exact ne_of_leaveOk ((goodLeave_spec hL _ s.our s.peer).2.2.2.2.2.2.2 (by simp [flagsOf, he.1]) (by simpa [flagsOf] using he.2))
  | rca id =>
    simp only [Leaving] at he
    simp only [step0, recv, d2, fin]
    have hm : (cCA == cCA && id == s.lastId) = true := by simp [he]
    simp only [hm, ↓reduceIte]
    rw [st_runHandler]
    have h2 : abs { s with our := true } = { (⟨.Opened, s.our, s.peer⟩ : Abs) with our := true } := by simp [abs, hs]
    rw [h2]
    exact ne_of_leaveOk ((goodLeave_spec hL _ s.our s.peer).2.2.2.2.2.1 (by simp [flagsOf, he]))
  | codeRej id code =>
    cases code with
    | none => simp [Leaving] at he
    | some k =>
      simp only [Leaving] at he
      simp only [step0, he.1, ↓reduceIte, he.2.1, he.2.2, and_self, fin]
      rw [st_runHandler, abs_opened hs]
      exact ne_of_leaveOk (goodLeave_spec hL _ s.our s.peer).1
  | protoRej id proto =>
    cases proto with
    | none => simp [Leaving] at he
    | some k =>
      simp only [Leaving] at he
      simp only [step0, he.1, ↓reduceIte, he.2, fin]
      rw [st_runHandler, abs_opened hs]
      exact ne_of_leaveOk (goodLeave_spec hL _ s.our s.peer).1
  | up => simp [Leaving] at he
  | «open» => simp [Leaving] at he
  | timeout => simp [Leaving] at he
  | stale => simp [Leaving] at he
  | echoReq id data => simp [Leaving] at he
  | other code id => simp [Leaving] at he
  | sendEcho => simp [Leaving] at he
  | sendProtoRej => simp [Leaving] at he
  | setPeer a => simp [Leaving] at he
  | poolNext a => simp [Leaving] at he

/-! ## the restart counter bounds the retransmissions -/

/-- what a list of actions does to the timer and the restart counter -/
structure TA where
  /-- none: the actions leave the timer as it was; some b: they leave it armed (b = true) or stopped -/
  armed : Option Bool
  dec : Nat
  reset : Bool

def taEff (t : TA) : Eff → TA
  | .startTimer => { t with armed := some true }
  | .decRc => { t with dec := t.dec + 1 }
  | _ => t

def taAct (T : Tables) (t : TA) : Action → TA
  | .irc => { t with reset := true }
  | .zrc => { t with reset := true }
  | .scr => (T.effs .scr).foldl taEff t
  | .str => (T.effs .str).foldl taEff t
  | .sta => (T.effs .sta).foldl taEff t
  | .setState _ => t
  | .stopTimer => { t with armed := some false }

def taOf (T : Tables) (l : List Action) : TA := l.foldl (taAct T) ⟨none, 0, false⟩

/-- decidable table property: on expiry with `restartCount > 0` the handler never re-initialises the counter and
    re-arms the timer only together with a decrement; with `restartCount ≤ 0` it does not re-arm -/
def GoodTO (T : Tables) : Bool :=
  allSt.all fun st => allBool.all fun ra =>
    (let t := taOf T (T.table .timeout st ⟨ra, true⟩); !t.reset && (t.armed != some true || decide (t.dec ≥ 1))) &&
    (let t := taOf T (T.table .timeout st ⟨ra, false⟩); t.armed != some true)

def TRel (A : Bool) (R : Int) (r : Run) (t : TA) : Prop :=
  r.s.armed = t.armed.getD A ∧ (t.reset = false → r.s.rc = R - t.dec)

theorem trel_eff (A : Bool) (R : Int) (k : Send) (c : Cfg) (x : Ctx) (r : Run) (t : TA) (e : Eff)
    (h : TRel A R r t) : TRel A R (doEff k c x r e) (taEff t e) := by
  obtain ⟨h1, h2⟩ := h
  cases e with
  | incId => exact ⟨h1, h2⟩
  | setLastId => exact ⟨h1, h2⟩
  | send => exact ⟨h1, h2⟩
  | startTimer => exact ⟨by simp [doEff, taEff], h2⟩
  | decRc =>
    refine ⟨h1, ?_⟩
    intro hr
    have := h2 hr
    simp only [doEff, taEff, this]
    omega

theorem trel_foldEff (A : Bool) (R : Int) (k : Send) (c : Cfg) (x : Ctx) (l : List Eff) (r : Run) (t : TA)
    (h : TRel A R r t) : TRel A R (l.foldl (doEff k c x) r) (l.foldl taEff t) := by
  induction l generalizing r t with
  | nil => exact h
  | cons e es ih => exact ih _ _ (trel_eff A R k c x r t e h)

theorem trel_act (A : Bool) (R : Int) (T : Tables) (c : Cfg) (x : Ctx) (r : Run) (t : TA) (a : Action)
    (h : TRel A R r t) : TRel A R (doAct T c x r a) (taAct T t a) := by
  cases a with
  | irc => exact ⟨h.1, by intro hr; simp [taAct] at hr⟩
  | zrc => exact ⟨h.1, by intro hr; simp [taAct] at hr⟩
  | scr => exact trel_foldEff A R _ c x _ r t h
  | str => exact trel_foldEff A R _ c x _ r t h
  | sta => exact trel_foldEff A R _ c x _ r t h
  | setState q => exact ⟨h.1, h.2⟩
  | stopTimer => exact ⟨by simp [doAct, taAct], h.2⟩

theorem trel_foldAct (A : Bool) (R : Int) (T : Tables) (c : Cfg) (x : Ctx) (l : List Action) (r : Run) (t : TA)
    (h : TRel A R r t) : TRel A R (l.foldl (doAct T c x) r) (l.foldl (taAct T) t) := by
  induction l generalizing r t with
  | nil => exact h
  | cons a as ih => exact ih _ _ (trel_act A R T c x r t a h)

theorem doPre_armed (c : Cfg) (h : Handler) (x : Ctx) (r : Run) (p : Pre) (ha : r.s.armed = false) :
    (doPre c h x r p).s.armed = false := by
  unfold doPre
  split
  · exact ha
  · cases p with
    | guardId => simp only; split <;> exact ha
    | stopTimer => rfl
    | parseAbort => simp only; split <;> exact ha
    | parseLax => simp only; split <;> exact ha
    | reply => exact ha
    | applyOpts =>
      cases h <;> try exact ha
      · have := core_foldl (applyNak c) (core_applyNak c) r.opts r.s
        simp only [core, Prod.mk.injEq] at this
        simp only [this.2.2.2.2.1, ha]
      · have := core_foldl (applyRej c) (core_applyRej c) r.opts r.s
        simp only [core, Prod.mk.injEq] at this
        simp only [this.2.2.2.2.1, ha]
    | incFailure => exact ha
    | allocPeer =>
      simp only
      split
      · split <;> exact ha
      · exact ha
    | releasePeer =>
      simp only
      split <;> exact ha

theorem foldPre_armed (c : Cfg) (h : Handler) (x : Ctx) (l : List Pre) (r : Run) (ha : r.s.armed = false) :
    (l.foldl (doPre c h x) r).s.armed = false := by
  induction l generalizing r with
  | nil => exact ha
  | cons p ps ih => exact ih _ (doPre_armed c h x r p ha)

theorem goodTO_spec {T : Tables} (hT : GoodTO T = true) (st : St) (ra : Bool) :
    ((taOf T (T.table .timeout st ⟨ra, true⟩)).reset = false ∧
      ((taOf T (T.table .timeout st ⟨ra, true⟩)).armed = some true → (taOf T (T.table .timeout st ⟨ra, true⟩)).dec ≥ 1)) ∧
    (taOf T (T.table .timeout st ⟨ra, false⟩)).armed ≠ some true := by
  unfold GoodTO at hT
  have := List.all_eq_true.mp (List.all_eq_true.mp hT st (mem_allSt st)) ra (mem_allBool ra)
  simp only [Bool.and_eq_true, Bool.not_eq_true', Bool.or_eq_true, decide_eq_true_eq, bne_iff_ne, ne_eq] at this
  refine ⟨⟨this.1.1, ?_⟩, this.2⟩
  intro ha
  rcases this.1.2 with h | h
  · exact absurd ha h
  · exact h

/-- one expiry of the armed timer: if the timer is armed again afterwards, the restart counter was positive and
    is now strictly smaller -/
theorem timeout_progress {T : Tables} (hT : GoodTO T = true) (c : Cfg) (s : State) (ha : s.armed = true)
    (ha' : (step0 T c s .timeout).1.armed = true) : 0 < s.rc ∧ (step0 T c s .timeout).1.rc < s.rc := by
  simp only [step0, ha, ↓reduceIte, fin] at ha' ⊢
  unfold runHandler at ha' ⊢
  have hp := foldPre_spec c .timeout {} { s with armed := false } (T.pre .timeout)
    { s := { s with armed := false }, opts := [] } rfl rfl
  have hpa := foldPre_armed c .timeout {} (T.pre .timeout) { s := { s with armed := false }, opts := [] } rfl
  have hrc := hp.2
  simp only at hrc
  generalize (T.pre .timeout).foldl (doPre c .timeout {}) { s := { s with armed := false }, opts := [] } = r1 at *
  by_cases hc : r1.cont = true
  · simp only [hc, Bool.not_true, Bool.false_eq_true, ↓reduceIte] at ha' ⊢
    have hrel := trel_foldAct false s.rc T c {} (T.table .timeout r1.s.st ⟨r1.respAck, decide (r1.s.rc > 0)⟩) r1
      ⟨none, 0, false⟩ ⟨by simp [hpa], by intro _; simp [hrc]⟩
    obtain ⟨h1, h2⟩ := hrel
    rw [ha'] at h1
    have h1 : ((T.table .timeout r1.s.st ⟨r1.respAck, decide (r1.s.rc > 0)⟩).foldl (taAct T) ⟨none, 0, false⟩).armed = some true := by
      generalize ((T.table .timeout r1.s.st ⟨r1.respAck, decide (r1.s.rc > 0)⟩).foldl (taAct T) ⟨none, 0, false⟩).armed = oa at h1
      cases oa with
      | none => simp at h1
      | some b => simp at h1; rw [h1]
    by_cases hpos : s.rc > 0
    · have hd : decide (r1.s.rc > 0) = true := by simp [hrc, hpos]
      rw [hd] at h1 h2 ⊢
      have g := (goodTO_spec hT r1.s.st r1.respAck).1
      have hdec := g.2 h1
      have := h2 g.1
      simp only [taOf] at hdec
      constructor
      · exact hpos
      · rw [this]; omega
    · have hd : decide (r1.s.rc > 0) = false := by simp [hrc, hpos]
      rw [hd] at h1
      have g := (goodTO_spec hT r1.s.st r1.respAck).2
      simp only [taOf] at g
      exact absurd h1 g
  · simp only [Bool.not_eq_true] at hc
    simp only [hc, Bool.not_false, ↓reduceIte] at ha'
    rw [hpa] at ha'
    cases ha'

/-- `n` consecutive expiries of the restart timer and nothing else: the silent peer -/
def timeouts (T : Tables) (c : Cfg) (s : State) (n : Nat) : State := run T c s (List.replicate n .timeout)

theorem silent_stops_aux {T : Tables} (hT : GoodTO T = true) (c : Cfg) (k : Nat) :
    ∀ s : State, s.rc.toNat ≤ k → ∃ n, n ≤ k + 1 ∧ (timeouts T c s n).armed = false := by
  have timeout_progress : ∀ (hT : GoodTO T = true) (c : Cfg) (s : State), s.armed = true →
      (step T c s .timeout).1.armed = true → 0 < s.rc ∧ (step T c s .timeout).1.rc < s.rc :=
    fun hT c s ha ha' => timeout_progress hT (effCfg c s) s ha ha'
  induction k with
  | zero =>
    intro s hk
    by_cases ha : s.armed = true
    · by_cases ha' : (step T c s .timeout).1.armed = true
      · have := timeout_progress hT c s ha ha'
        omega
      · exact ⟨1, by omega, by simpa [timeouts, run] using ha'⟩
    · exact ⟨0, by omega, by simpa [timeouts, run] using ha⟩
  | succ k ih =>
    intro s hk
    by_cases ha : s.armed = true
    · by_cases ha' : (step T c s .timeout).1.armed = true
      · have hp := timeout_progress hT c s ha ha'
        obtain ⟨n, hn, hu⟩ := ih (step T c s .timeout).1 (by omega)
        exact ⟨n + 1, by omega, by simpa [timeouts, run, List.replicate_succ] using hu⟩
      · exact ⟨1, by omega, by simpa [timeouts, run] using ha'⟩
    · exact ⟨0, by omega, by simpa [timeouts, run] using ha⟩

/-- the restart counter never exceeds the configured maximum -/
def RcOk (c : Cfg) (s : State) : Prop := s.rc ≤ max (initRc c) 0

theorem rcOk_eff (k : Send) (c : Cfg) (x : Ctx) (r : Run) (e : Eff) (h : RcOk c r.s) : RcOk c (doEff k c x r e).s := by
  cases e <;> simp only [doEff, RcOk] at * <;> omega

theorem rcOk_foldEff (k : Send) (c : Cfg) (x : Ctx) (l : List Eff) (r : Run) (h : RcOk c r.s) :
    RcOk c (l.foldl (doEff k c x) r).s := by
  induction l generalizing r with
  | nil => exact h
  | cons e es ih => exact ih _ (rcOk_eff k c x r e h)

theorem rcOk_act (T : Tables) (c : Cfg) (x : Ctx) (r : Run) (a : Action) (h : RcOk c r.s) : RcOk c (doAct T c x r a).s := by
  cases a with
  | irc => simp only [doAct, RcOk]; omega
  | zrc => simp only [doAct, RcOk]; omega
  | scr => exact rcOk_foldEff _ c x _ r h
  | str => exact rcOk_foldEff _ c x _ r h
  | sta => exact rcOk_foldEff _ c x _ r h
  | setState q => exact h
  | stopTimer => exact h

theorem rcOk_foldAct (T : Tables) (c : Cfg) (x : Ctx) (l : List Action) (r : Run) (h : RcOk c r.s) :
    RcOk c (l.foldl (doAct T c x) r).s := by
  induction l generalizing r with
  | nil => exact h
  | cons a as ih => exact ih _ (rcOk_act T c x r a h)

theorem rcOk_runHandler (T : Tables) (c : Cfg) (h : Handler) (x : Ctx) (s : State) (hs : RcOk c s) :
    RcOk c (runHandler T c h x s).s := by
  unfold runHandler
  have hp := (foldPre_spec c h x s (T.pre h) { s := s, opts := x.opts } rfl rfl).2
  have h1 : RcOk c ((T.pre h).foldl (doPre c h x) { s := s, opts := x.opts }).s := by
    simp only [RcOk] at hs ⊢; rw [hp]; exact hs
  simp only
  split
  · exact h1
  · exact rcOk_foldAct T c x _ _ h1

theorem rcOk_recv (T : Tables) (c : Cfg) (code : Nat) (x : Ctx) (s : State) (hs : RcOk c s) :
    RcOk c (recv T c code x s).1 := by
  unfold recv
  simp only
  have hg : RcOk c (if (code == cCA && x.id == s.lastId) = true then { s with our := true } else s) := by
    split <;> exact hs
  split
  · exact rcOk_runHandler T c _ x _ hg
  · split
    · exact hg
    · split <;> exact hg

theorem rcOk_step0 (T : Tables) (c : Cfg) (s : State) (e : Ev) (hs : RcOk c s) : RcOk c (step0 T c s e).1 := by
  cases e with
  | up => exact rcOk_runHandler T c _ _ s hs
  | down => exact rcOk_runHandler T c _ _ _ hs
  | «open» => exact rcOk_runHandler T c _ _ s hs
  | close => exact rcOk_runHandler T c _ _ s hs
  | timeout =>
    simp only [step0]
    split
    · exact rcOk_runHandler T c _ _ _ hs
    · exact hs
  | stale => exact rcOk_runHandler T c _ _ s hs
  | rcr id opts bad => exact rcOk_recv T c _ _ s hs
  | rca id => exact rcOk_recv T c _ _ s hs
  | rcn id opts bad => exact rcOk_recv T c _ _ s hs
  | rcj id opts bad => exact rcOk_recv T c _ _ s hs
  | rtr id => exact rcOk_recv T c _ _ s hs
  | rta id => exact rcOk_recv T c _ _ s hs
  | codeRej id code =>
    simp only [step0]
    split
    · split
      · split
        · exact rcOk_runHandler T c _ _ s hs
        · exact hs
      · exact hs
    · exact rcOk_recv T c _ _ s hs
  | protoRej id proto =>
    simp only [step0]
    split
    · split
      · split
        · exact rcOk_runHandler T c _ _ s hs
        · exact hs
      · exact hs
    · exact rcOk_recv T c _ _ s hs
  | echoReq id data =>
    simp only [step0]
    split
    · split <;> exact hs
    · exact rcOk_recv T c _ _ s hs
  | other code id => exact rcOk_recv T c _ _ s hs
  | sendEcho =>
    simp only [step0]
    split <;> exact hs
  | sendProtoRej =>
    simp only [step0]
    split <;> exact hs
  | setPeer a =>
    simp only [step0]
    split <;> exact hs
  | poolNext a => exact hs

theorem rcOk_step (T : Tables) (c : Cfg) (s : State) (e : Ev) (hs : RcOk c s) : RcOk c (step T c s e).1 :=
  rcOk_step0 T (effCfg c s) s e hs

theorem rcOk_run (T : Tables) (c : Cfg) (evs : List Ev) (s : State) (hs : RcOk c s) : RcOk c (run T c s evs) := by
  induction evs generalizing s with
  | nil => exact hs
  | cons e es ih => exact ih _ (rcOk_step T c s e hs)

theorem rcOk_init (c : Cfg) : RcOk c (init c) := by
  simp only [RcOk, init]; omega

theorem silent_peer_stops_of {T : Tables} (hT : GoodTO T = true) (c : Cfg) (evs : List Ev) :
    ∃ n, n ≤ (max (initRc c) 0).toNat + 1 ∧ (timeouts T c (run T c (init c) evs) n).armed = false := by
  apply silent_stops_aux hT c
  have := rcOk_run T c evs (init c) (rcOk_init c)
  simp only [RcOk] at this
  omega

/-! ## packets: where they come from, and what the reply to a Configure-Request contains -/

theorem verdicts_length (c : Cfg) (col : Bool) (os : List Opt) : (verdicts c col os).length = os.length := by
  induction os generalizing col with
  | nil => rfl
  | cons o os ih => simp only [verdicts, List.length_cons, ih]

theorem acks_all (os : List Opt) (vs : List Verdict) (hl : vs.length = os.length)
    (hj : rejs os vs = []) (hn : naks vs = []) : acks os vs = os := by
  induction os generalizing vs with
  | nil => cases vs <;> rfl
  | cons o os ih =>
    cases vs with
    | nil => simp at hl
    | cons v vs =>
      cases v with
      | ack =>
        simp only [acks, rejs, naks, List.length_cons, Nat.add_right_cancel_iff] at *
        rw [ih vs hl hj hn]
      | nak n => simp [naks] at hn
      | rej => simp [rejs] at hj

theorem rejs_sublist (os : List Opt) (vs : List Verdict) : (rejs os vs).Sublist os := by
  induction os generalizing vs with
  | nil => cases vs <;> simp [rejs]
  | cons o os ih =>
    cases vs with
    | nil => simp [rejs]
    | cons v vs =>
      cases v with
      | ack => exact (ih vs).cons _
      | nak n => exact (ih vs).cons _
      | rej => exact (ih vs).cons_cons _

theorem rejs_mem (c : Cfg) (os : List Opt) (col : Bool) (o : Opt) (h : o ∈ rejs os (verdicts c col os)) :
    ∃ col', (class1 c col' o).1 = .rej := by
  induction os generalizing col with
  | nil => simp [rejs, verdicts] at h
  | cons o' os ih =>
    simp only [verdicts] at h
    cases hv : (class1 c col o').1 with
    | ack => simp only [rejs, hv] at h; exact ih _ h
    | nak n => simp only [rejs, hv] at h; exact ih _ h
    | rej =>
      simp only [rejs, hv, List.mem_cons] at h
      rcases h with h | h
      · exact ⟨col, by rw [h]; exact hv⟩
      · exact ih _ h

theorem naks_mem (c : Cfg) (os : List Opt) (col : Bool) (n : Opt) (h : n ∈ naks (verdicts c col os)) :
    ∃ o ∈ os, ∃ col', (class1 c col' o).1 = .nak n := by
  induction os generalizing col with
  | nil => simp [naks, verdicts] at h
  | cons o' os ih =>
    simp only [verdicts] at h
    cases hv : (class1 c col o').1 with
    | ack =>
      simp only [naks, hv] at h
      obtain ⟨o, ho, hc⟩ := ih _ h
      exact ⟨o, List.mem_cons_of_mem _ ho, hc⟩
    | rej =>
      simp only [naks, hv] at h
      obtain ⟨o, ho, hc⟩ := ih _ h
      exact ⟨o, List.mem_cons_of_mem _ ho, hc⟩
    | nak m =>
      simp only [naks, hv, List.mem_cons] at h
      rcases h with h | h
      · exact ⟨o', List.mem_cons_self, col, by rw [h]; exact hv⟩
      · obtain ⟨o, ho, hc⟩ := ih _ h
        exact ⟨o, List.mem_cons_of_mem _ ho, hc⟩

theorem all_ack_mem (c : Cfg) (os : List Opt) (col : Bool) (o : Opt) (ho : o ∈ os)
    (hj : rejs os (verdicts c col os) = []) (hn : naks (verdicts c col os) = []) :
    ∃ col', (class1 c col' o).1 = .ack := by
  induction os generalizing col with
  | nil => simp at ho
  | cons o' os ih =>
    simp only [verdicts] at hj hn
    cases hv : (class1 c col o').1 with
    | ack =>
      simp only [rejs, naks, hv] at hj hn
      rcases List.mem_cons.mp ho with h | h
      · exact ⟨col, by rw [h]; exact hv⟩
      · exact ih _ h hj hn
    | nak n => simp [naks, hv] at hn
    | rej => simp [rejs, hv] at hj

/-- the three shapes of the reply -/
theorem replyTo_cases (c : Cfg) (id : UInt8) (os : List Opt) :
    let vs := verdicts c false os
    ((replyTo c id os).id = id) ∧
    (((replyTo c id os).code = cCJ ∧ (replyTo c id os).opts = rejs os vs) ∨
     ((replyTo c id os).code = cCN ∧ (replyTo c id os).opts = naks vs) ∨
     ((replyTo c id os).code = cCA ∧ (replyTo c id os).opts = os ∧ rejs os vs = [] ∧ naks vs = [])) := by
  simp only
  unfold replyTo
  simp only
  by_cases hj : (rejs os (verdicts c false os)).isEmpty = true
  · by_cases hn : (naks (verdicts c false os)).isEmpty = true
    · simp only [hj, hn, Bool.not_true, Bool.false_eq_true, ↓reduceIte, true_and]
      have hj' := List.isEmpty_iff.mp hj
      have hn' := List.isEmpty_iff.mp hn
      right; right
      exact ⟨acks_all _ _ (verdicts_length _ _ _) hj' hn', hj', hn'⟩
    · simp only [hj, hn, Bool.not_true, Bool.false_eq_true, ↓reduceIte, true_and]
      simp only [Bool.not_eq_true] at hn
      simp [hn]
  · simp only [Bool.not_eq_true] at hj
    simp [hj]

/-- where a sent packet can come from -/
def Origin (c : Cfg) (x : Ctx) (p : Pkt) : Prop :=
  p = replyTo c x.id x.opts ∨ ∃ k s', p = mkPkt k c x s'

theorem origin_eff (k : Send) (c : Cfg) (x : Ctx) (r : Run) (e : Eff) (h : ∀ p ∈ r.out, Origin c x p) :
    ∀ p ∈ (doEff k c x r e).out, Origin c x p := by
  cases e with
  | send =>
    intro p hp
    simp only [doEff, List.mem_append, List.mem_singleton] at hp
    rcases hp with hp | hp
    · exact h p hp
    · exact Or.inr ⟨k, r.s, hp⟩
  | incId => exact h
  | setLastId => exact h
  | startTimer => exact h
  | decRc => exact h

theorem origin_foldEff (k : Send) (c : Cfg) (x : Ctx) (l : List Eff) (r : Run) (h : ∀ p ∈ r.out, Origin c x p) :
    ∀ p ∈ (l.foldl (doEff k c x) r).out, Origin c x p := by
  induction l generalizing r with
  | nil => exact h
  | cons e es ih => exact ih _ (origin_eff k c x r e h)

theorem origin_act (T : Tables) (c : Cfg) (x : Ctx) (r : Run) (a : Action) (h : ∀ p ∈ r.out, Origin c x p) :
    ∀ p ∈ (doAct T c x r a).out, Origin c x p := by
  cases a with
  | irc => exact h
  | zrc => exact h
  | scr => exact origin_foldEff _ c x _ r h
  | str => exact origin_foldEff _ c x _ r h
  | sta => exact origin_foldEff _ c x _ r h
  | setState q => exact h
  | stopTimer => exact h

theorem origin_foldAct (T : Tables) (c : Cfg) (x : Ctx) (l : List Action) (r : Run) (h : ∀ p ∈ r.out, Origin c x p) :
    ∀ p ∈ (l.foldl (doAct T c x) r).out, Origin c x p := by
  induction l generalizing r with
  | nil => exact h
  | cons a as ih => exact ih _ (origin_act T c x r a h)

theorem origin_pre (c : Cfg) (hh : Handler) (x : Ctx) (r : Run) (p : Pre) (h : ∀ q ∈ r.out, Origin c x q) :
    ∀ q ∈ (doPre c hh x r p).out, Origin c x q := by
  unfold doPre
  split
  · exact h
  · cases p with
    | guardId => simp only; split <;> exact h
    | stopTimer => exact h
    | parseAbort => simp only; split <;> exact h
    | parseLax => simp only; split <;> exact h
    | reply =>
      intro q hq
      simp only [List.mem_append, List.mem_singleton] at hq
      rcases hq with hq | hq
      · exact h q hq
      · exact Or.inl hq
    | applyOpts => cases hh <;> exact h
    | incFailure => exact h
    | allocPeer =>
      simp only
      split
      · split <;> exact h
      · exact h
    | releasePeer =>
      simp only
      split <;> exact h

theorem origin_foldPre (c : Cfg) (hh : Handler) (x : Ctx) (l : List Pre) (r : Run) (h : ∀ q ∈ r.out, Origin c x q) :
    ∀ q ∈ (l.foldl (doPre c hh x) r).out, Origin c x q := by
  induction l generalizing r with
  | nil => exact h
  | cons p ps ih => exact ih _ (origin_pre c hh x r p h)

theorem origin_runHandler (T : Tables) (c : Cfg) (h : Handler) (x : Ctx) (s : State) :
    ∀ p ∈ (runHandler T c h x s).out, Origin c x p := by
  unfold runHandler
  have h1 := origin_foldPre c h x (T.pre h) { s := s, opts := x.opts } (by intro q hq; simp at hq)
  simp only
  split
  · exact h1
  · exact origin_foldAct T c x _ _ h1

/-- the packet an event carries, as the handlers see it -/
def evCtx : Ev → Ctx
  | .rcr id opts bad => { id := id, opts := opts, bad := bad }
  | .rca id => { id := id }
  | .rcn id opts bad => { id := id, opts := opts, bad := bad }
  | .rcj id opts bad => { id := id, opts := opts, bad := bad }
  | .rtr id => { id := id }
  | .rta id => { id := id }
  | .codeRej id _ => { id := id }
  | .protoRej id _ => { id := id }
  | .echoReq id _ => { id := id }
  | .other _ id => { id := id }
  | _ => {}

/-- every packet a step0 sends is the reply to the event's options, or comes from one of the three send helpers,
    or is one of the LCP-only packets -/
def StepOrigin (c : Cfg) (e : Ev) (p : Pkt) : Prop :=
  Origin c (evCtx e) p ∨ ((p.code = cXJ ∨ p.code = cEQ ∨ p.code = cPJ) ∧ p.opts = []) ∨ (p.code = cER ∧ p.id = (evCtx e).id)

theorem origin_recv (T : Tables) (c : Cfg) (code : Nat) (x : Ctx) (s : State) :
    ∀ p ∈ (recv T c code x s).2.out, Origin c x p ∨ ((p.code = cXJ ∨ p.code = cEQ ∨ p.code = cPJ) ∧ p.opts = []) := by
  unfold recv
  simp only
  split
  · intro p hp; exact Or.inl (origin_runHandler T c _ x _ p hp)
  · split
    · intro p hp; simp at hp
    · split
      · intro p hp
        simp only [List.mem_singleton] at hp
        exact Or.inr ⟨Or.inl (by rw [hp]), by rw [hp]⟩
      · intro p hp; simp at hp

theorem step_origin (T : Tables) (c : Cfg) (s : State) (e : Ev) :
    ∀ p ∈ (step0 T c s e).2.out, StepOrigin c e p := by
  have lift : ∀ (code : Nat) (x : Ctx) (s : State), x = evCtx e → ∀ p ∈ (recv T c code x s).2.out, StepOrigin c e p := by
    intro code x s hx p hp
    rcases origin_recv T c code x s p hp with h | h
    · exact Or.inl (hx ▸ h)
    · exact Or.inr (Or.inl h)
  have liftH : ∀ (h : Handler) (x : Ctx) (s : State), x = evCtx e → ∀ p ∈ (fin (runHandler T c h x s)).2.out, StepOrigin c e p := by
    intro h x s hx p hp
    exact Or.inl (hx ▸ origin_runHandler T c h x s p hp)
  cases e with
  | up => exact liftH _ _ _ rfl
  | down => exact liftH _ _ _ rfl
  | «open» => exact liftH _ _ _ rfl
  | close => exact liftH _ _ _ rfl
  | timeout =>
    simp only [step0]
    split
    · exact liftH _ _ _ rfl
    · intro p hp; simp at hp
  | stale => exact liftH _ _ _ rfl
  | rcr id opts bad => exact lift _ _ _ rfl
  | rca id => exact lift _ _ _ rfl
  | rcn id opts bad => exact lift _ _ _ rfl
  | rcj id opts bad => exact lift _ _ _ rfl
  | rtr id => exact lift _ _ _ rfl
  | rta id => exact lift _ _ _ rfl
  | codeRej id code =>
    simp only [step0]
    split
    · split
      · split
        · exact liftH _ _ _ rfl
        · intro p hp; simp at hp
      · intro p hp; simp at hp
    · exact lift _ _ _ rfl
  | protoRej id proto =>
    simp only [step0]
    split
    · split
      · split
        · exact liftH _ _ _ rfl
        · intro p hp; simp at hp
      · intro p hp; simp at hp
    · exact lift _ _ _ rfl
  | echoReq id data =>
    simp only [step0]
    split
    · split
      · intro p hp
        simp only [List.mem_singleton] at hp
        exact Or.inr (Or.inr ⟨by rw [hp], by rw [hp]; rfl⟩)
      · intro p hp; simp at hp
    · exact lift _ _ _ rfl
  | other code id => exact lift _ _ _ rfl
  | sendEcho =>
    simp only [step0]
    split
    · intro p hp
      simp only [List.mem_singleton] at hp
      exact Or.inr (Or.inl ⟨Or.inr (Or.inl (by rw [hp])), by rw [hp]⟩)
    · intro p hp; simp at hp
  | sendProtoRej =>
    simp only [step0]
    split
    · intro p hp
      simp only [List.mem_singleton] at hp
      exact Or.inr (Or.inl ⟨Or.inr (Or.inr (by rw [hp])), by rw [hp]⟩)
    · intro p hp; simp at hp
  | setPeer a =>
    simp only [step0]
    split <;> (intro p hp; simp at hp)
  | poolNext a => intro p hp; simp [step0] at hp

/-! ## the classifier against the declarative notions of an offending option -/

theorem rej_unsupported (c : Cfg) (col : Bool) (o : Opt) (h : (class1 c col o).1 = .rej) : unsupported c o := by
  simp only [class1, verdict1] at h
  unfold unsupported
  cases hp : c.proto <;> simp only [hp] at h ⊢
  · unfold lcpClass1 at h
    repeat' split at h
    all_goals first | (cases h; done) | (simp_all; done) | (simp_all; omega)
  · unfold ipcpClass1 at h
    repeat' split at h
    all_goals first | (cases h; done) | (simp_all; done) | (simp_all; omega)
  · unfold ipv6cpClass1 at h
    repeat' split at h
    all_goals first | (cases h; done) | (simp_all; done) | (simp_all; omega)

theorem nak_nakable (c : Cfg) (col : Bool) (o n : Opt) (h : (class1 c col o).1 = .nak n) :
    nakable c o ∧ n.ty = o.ty := by
  simp only [class1, verdict1] at h
  unfold nakable
  cases hp : c.proto <;> simp only [hp] at h ⊢
  · unfold lcpClass1 at h
    repeat' split at h
    all_goals first | (cases h; done) | (simp at h; subst h; simp_all; done) | (simp at h; subst h; simp_all; omega)
  · unfold ipcpClass1 at h
    repeat' split at h
    all_goals first | (cases h; done) | (simp at h; subst h; simp_all; done) | (simp at h; subst h; simp_all; omega)
  · unfold ipv6cpClass1 at h
    repeat' split at h
    all_goals first | (cases h; done) | (simp at h; subst h; simp_all; done) | (simp at h; subst h; simp_all; omega)

theorem ack_ipcp (c : Cfg) (col : Bool) (o : Opt) (hp : c.proto = .ipcp) (h : (class1 c col o).1 = .ack)
    (ht : o.ty = 3) : c.peerIP = some o.data := by
  simp only [class1, verdict1, hp] at h
  unfold ipcpClass1 at h
  simp only [ht, ↓reduceIte] at h
  repeat' split at h
  all_goals first | (cases h; done) | (simp_all; done)

/-! ## generic forms of the packet theorems -/

theorem mkPkt_cases (k : Send) (c : Cfg) (x : Ctx) (s : State) :
    ((mkPkt k c x s).code = cCR) ∨ ((mkPkt k c x s).code = cTR) ∨ ((mkPkt k c x s).code = cTA ∧ (mkPkt k c x s).id = x.id) := by
  cases k
  · exact Or.inl rfl
  · exact Or.inr (Or.inl rfl)
  · exact Or.inr (Or.inr ⟨rfl, rfl⟩)

theorem invA_opened {a : Abs} (h : InvA a = true) (hs : a.st = .Opened) : a.our = true ∧ a.peer = true := by
  rcases a with ⟨s, o, p⟩
  simp only at hs
  subst hs
  simpa [InvA] using h

theorem opened_mutual_of {T : Tables} (hT : GoodInv T = true) (c : Cfg) (evs : List Ev)
    (h : (run T c (init c) evs).st = .Opened) :
    (run T c (init c) evs).our = true ∧ (run T c (init c) evs).peer = true :=
  invA_opened (a := abs (run T c (init c) evs)) (inv_run hT c evs _ (inv_init c)) h

theorem reply_echoes_id_of (T : Tables) (c : Cfg) (s : State) (e : Ev) (p : Pkt)
    (hp : p ∈ (step0 T c s e).2.out) (hr : isReplyCode p.code = true) : p.id = (evCtx e).id := by
  rcases step_origin T c s e p hp with h | h | h
  · rcases h with h | ⟨k, s', h⟩
    · rw [h]; exact (replyTo_cases c _ _).1
    · rcases mkPkt_cases k c (evCtx e) s' with h1 | h1 | h1
      · rw [h, h1] at hr; simp [isReplyCode, cCR, cCA, cCN, cCJ, cTA, cER] at hr
      · rw [h, h1] at hr; simp [isReplyCode, cTR, cCA, cCN, cCJ, cTA, cER] at hr
      · rw [h]; exact h1.2
  · rcases h.1 with h1 | h1 | h1 <;> rw [h1] at hr <;> simp [isReplyCode, cXJ, cEQ, cPJ, cCA, cCN, cCJ, cTA, cER] at hr
  · exact h.2

/-- a packet with one of the three Configure reply codes is the reply to the event's options -/
theorem conf_reply_origin (T : Tables) (c : Cfg) (s : State) (e : Ev) (p : Pkt)
    (hp : p ∈ (step0 T c s e).2.out) (hk : p.code = cCA ∨ p.code = cCN ∨ p.code = cCJ) :
    p = replyTo c (evCtx e).id (evCtx e).opts := by
  rcases step_origin T c s e p hp with h | h | h
  · rcases h with h | ⟨k, s', h⟩
    · exact h
    · rcases mkPkt_cases k c (evCtx e) s' with h1 | h1 | h1
      · rw [h, h1] at hk; simp [cCR, cCA, cCN, cCJ] at hk
      · rw [h, h1] at hk; simp [cTR, cCA, cCN, cCJ] at hk
      · rw [h, h1.1] at hk; simp [cTA, cCA, cCN, cCJ] at hk
  · rcases h.1 with h1 | h1 | h1 <;> rw [h1] at hk <;> simp [cXJ, cEQ, cPJ, cCA, cCN, cCJ] at hk
  · rw [h.1] at hk; simp [cER, cCA, cCN, cCJ] at hk

theorem ack_repeats_options_of (T : Tables) (c : Cfg) (s : State) (e : Ev) (p : Pkt)
    (hp : p ∈ (step0 T c s e).2.out) (hk : p.code = cCA) : p.opts = (evCtx e).opts := by
  have h := conf_reply_origin T c s e p hp (Or.inl hk)
  rcases (replyTo_cases c (evCtx e).id (evCtx e).opts).2 with h1 | h1 | h1
  · rw [h, h1.1] at hk; simp [cCJ, cCA] at hk
  · rw [h, h1.1] at hk; simp [cCN, cCA] at hk
  · rw [h]; exact h1.2.1

theorem nak_rej_only_offending_of (T : Tables) (c : Cfg) (s : State) (e : Ev) (p : Pkt)
    (hp : p ∈ (step0 T c s e).2.out) :
    (p.code = cCJ → p.opts.Sublist (evCtx e).opts ∧ ∀ o ∈ p.opts, unsupported c o) ∧
    (p.code = cCN → ∀ n ∈ p.opts, ∃ o ∈ (evCtx e).opts, nakable c o ∧ n.ty = o.ty) := by
  constructor
  · intro hk
    have h := conf_reply_origin T c s e p hp (Or.inr (Or.inr hk))
    rcases (replyTo_cases c (evCtx e).id (evCtx e).opts).2 with h1 | h1 | h1
    · rw [h, h1.2]
      refine ⟨rejs_sublist _ _, ?_⟩
      intro o ho
      obtain ⟨col, hc⟩ := rejs_mem c _ _ o ho
      exact rej_unsupported c col o hc
    · rw [h, h1.1] at hk; simp [cCN, cCJ] at hk
    · rw [h, h1.1] at hk; simp [cCA, cCJ] at hk
  · intro hk
    have h := conf_reply_origin T c s e p hp (Or.inr (Or.inl hk))
    rcases (replyTo_cases c (evCtx e).id (evCtx e).opts).2 with h1 | h1 | h1
    · rw [h, h1.1] at hk; simp [cCN, cCJ] at hk
    · rw [h, h1.2]
      intro n hn
      obtain ⟨o, ho, col, hc⟩ := naks_mem c _ _ n hn
      exact ⟨o, ho, nak_nakable c col o n hc⟩
    · rw [h, h1.1] at hk; simp [cCA, cCN] at hk

theorem ipcp_acks_only_assigned_of (T : Tables) (c : Cfg) (hc : c.proto = .ipcp) (s : State) (e : Ev) (p : Pkt)
    (hp : p ∈ (step0 T c s e).2.out) (hk : p.code = cCA) : ∀ o ∈ p.opts, o.ty = 3 → c.peerIP = some o.data := by
  have h := conf_reply_origin T c s e p hp (Or.inl hk)
  rcases (replyTo_cases c (evCtx e).id (evCtx e).opts).2 with h1 | h1 | h1
  · rw [h, h1.1] at hk; simp [cCJ, cCA] at hk
  · rw [h, h1.1] at hk; simp [cCN, cCA] at hk
  · rw [h, h1.2.1]
    intro o ho ht
    obtain ⟨col, hv⟩ := all_ack_mem c _ false o ho h1.2.2.1 h1.2.2.2
    exact ack_ipcp c col o hc hv ht

/-! ## IPCP: the address the automaton is prepared to acknowledge is the address assigned to the session -/

/-- `config.PeerIP`, when set, is the address the session holds (statically, by SetPeerIP, or in the pool) -/
def PoolOk (s : State) : Prop := ∀ a, s.peerIP = some a → s.assigned = some a

def pp (s : State) : Option (List Nat) × Option (List Nat) := (s.peerIP, s.assigned)

theorem poolOk_of_pp {s s' : State} (h : pp s' = pp s) (hs : PoolOk s) : PoolOk s' := by
  simp only [pp, Prod.mk.injEq] at h
  intro a ha
  rw [h.1] at ha; rw [h.2]; exact hs a ha

theorem pp_applyNak (c : Cfg) (s : State) (o : Opt) : pp (applyNak c s o) = pp s := by
  unfold applyNak
  split
  · split <;> rfl
  · split <;> rfl
  · split
    · split
      · rfl
      · split <;> rfl
    · rfl

theorem pp_applyRej (c : Cfg) (s : State) (o : Opt) : pp (applyRej c s o) = pp s := by
  unfold applyRej
  split
  · split
    · rfl
    · split <;> rfl
  · rfl

theorem pp_foldl (g : State → Opt → State) (hg : ∀ s o, pp (g s o) = pp s) (l : List Opt) (s : State) :
    pp (l.foldl g s) = pp s := by
  induction l generalizing s with
  | nil => rfl
  | cons o os ih => simp only [List.foldl_cons]; rw [ih, hg]

theorem pp_doEff (k : Send) (c : Cfg) (x : Ctx) (r : Run) (e : Eff) : pp (doEff k c x r e).s = pp r.s := by
  cases e <;> rfl

theorem pp_foldEff (k : Send) (c : Cfg) (x : Ctx) (l : List Eff) (r : Run) :
    pp (l.foldl (doEff k c x) r).s = pp r.s := by
  induction l generalizing r with
  | nil => rfl
  | cons e es ih => simp only [List.foldl_cons]; rw [ih, pp_doEff]

theorem pp_doAct (T : Tables) (c : Cfg) (x : Ctx) (r : Run) (a : Action) : pp (doAct T c x r a).s = pp r.s := by
  cases a with
  | irc => rfl
  | zrc => rfl
  | scr => exact pp_foldEff _ c x _ r
  | str => exact pp_foldEff _ c x _ r
  | sta => exact pp_foldEff _ c x _ r
  | setState q => rfl
  | stopTimer => rfl

theorem pp_foldAct (T : Tables) (c : Cfg) (x : Ctx) (l : List Action) (r : Run) :
    pp (l.foldl (doAct T c x) r).s = pp r.s := by
  induction l generalizing r with
  | nil => rfl
  | cons a as ih => simp only [List.foldl_cons]; rw [ih, pp_doAct]

theorem poolOk_doPre (c : Cfg) (h : Handler) (x : Ctx) (r : Run) (p : Pre) (hs : PoolOk r.s) :
    PoolOk (doPre c h x r p).s := by
  unfold doPre
  split
  · exact hs
  · cases p with
    | guardId => simp only; split <;> exact hs
    | stopTimer => exact poolOk_of_pp (s := r.s) rfl hs
    | parseAbort => simp only; split <;> exact hs
    | parseLax => simp only; split <;> exact hs
    | reply => exact poolOk_of_pp (s := r.s) rfl hs
    | applyOpts =>
      cases h <;> try exact hs
      · exact poolOk_of_pp (pp_foldl _ (pp_applyNak c) _ _) hs
      · exact poolOk_of_pp (pp_foldl _ (pp_applyRej c) _ _) hs
    | incFailure => exact hs
    | allocPeer =>
      simp only
      split
      · split
        · intro a ha
          simp only at ha ⊢
          exact ha
        · exact poolOk_of_pp (s := r.s) rfl hs
      · exact hs
    | releasePeer =>
      simp only
      split
      · intro a ha
        simp at ha
      · exact hs

theorem poolOk_foldPre (c : Cfg) (h : Handler) (x : Ctx) (l : List Pre) (r : Run) (hs : PoolOk r.s) :
    PoolOk (l.foldl (doPre c h x) r).s := by
  induction l generalizing r with
  | nil => exact hs
  | cons p ps ih => exact ih _ (poolOk_doPre c h x r p hs)

theorem poolOk_runHandler (T : Tables) (c : Cfg) (h : Handler) (x : Ctx) (s : State) (hs : PoolOk s) :
    PoolOk (runHandler T c h x s).s := by
  unfold runHandler
  have h1 := poolOk_foldPre c h x (T.pre h) { s := s, opts := x.opts } hs
  simp only
  split
  · exact h1
  · exact poolOk_of_pp (pp_foldAct T c x _ _) h1

theorem poolOk_recv (T : Tables) (c : Cfg) (code : Nat) (x : Ctx) (s : State) (hs : PoolOk s) :
    PoolOk (recv T c code x s).1 := by
  unfold recv
  simp only
  have hg : PoolOk (if (code == cCA && x.id == s.lastId) = true then { s with our := true } else s) := by
    split
    · exact poolOk_of_pp (s := s) rfl hs
    · exact hs
  split
  · exact poolOk_runHandler T c _ x _ hg
  · split
    · exact hg
    · split
      · exact poolOk_of_pp (s := (if (code == cCA && x.id == s.lastId) = true then { s with our := true } else s)) rfl hg
      · exact hg

theorem poolOk_step0 (T : Tables) (c : Cfg) (s : State) (e : Ev) (hs : PoolOk s) : PoolOk (step0 T c s e).1 := by
  have hid : ∀ s' : State, pp s' = pp s → PoolOk s' := fun s' h => poolOk_of_pp h hs
  cases e with
  | up => exact poolOk_runHandler T c _ _ s hs
  | down => exact poolOk_runHandler T c _ _ _ (hid _ rfl)
  | «open» => exact poolOk_runHandler T c _ _ s hs
  | close => exact poolOk_runHandler T c _ _ s hs
  | timeout =>
    simp only [step0]
    split
    · exact poolOk_runHandler T c _ _ _ (hid _ rfl)
    · exact hs
  | stale => exact poolOk_runHandler T c _ _ s hs
  | rcr id opts bad => exact poolOk_recv T c _ _ s hs
  | rca id => exact poolOk_recv T c _ _ s hs
  | rcn id opts bad => exact poolOk_recv T c _ _ s hs
  | rcj id opts bad => exact poolOk_recv T c _ _ s hs
  | rtr id => exact poolOk_recv T c _ _ s hs
  | rta id => exact poolOk_recv T c _ _ s hs
  | codeRej id code =>
    simp only [step0]
    split
    · split
      · split
        · exact poolOk_runHandler T c _ _ s hs
        · exact hs
      · exact hs
    · exact poolOk_recv T c _ _ s hs
  | protoRej id proto =>
    simp only [step0]
    split
    · split
      · split
        · exact poolOk_runHandler T c _ _ s hs
        · exact hs
      · exact hs
    · exact poolOk_recv T c _ _ s hs
  | echoReq id data =>
    simp only [step0]
    split
    · split <;> exact hs
    · exact poolOk_recv T c _ _ s hs
  | other code id => exact poolOk_recv T c _ _ s hs
  | sendEcho =>
    simp only [step0]
    split
    · exact hid _ rfl
    · exact hs
  | sendProtoRej =>
    simp only [step0]
    split
    · exact hid _ rfl
    · exact hs
  | setPeer a =>
    simp only [step0]
    split
    · intro b hb
      simp only at hb ⊢
      exact hb
    · exact hs
  | poolNext a => exact hid _ rfl

theorem poolOk_run (T : Tables) (c : Cfg) (evs : List Ev) (s : State) (hs : PoolOk s) : PoolOk (run T c s evs) := by
  induction evs generalizing s with
  | nil => exact hs
  | cons e es ih => exact ih _ (poolOk_step0 T (effCfg c s) s e hs)

theorem poolOk_init (c : Cfg) : PoolOk (init c) := by
  intro a ha
  simpa [init] using ha

/-! ## the packet theorems for `step` (the configuration in force is `effCfg c s`) -/

theorem reply_echoes_id (T : Tables) (c : Cfg) (s : State) (e : Ev) (p : Pkt)
    (hp : p ∈ (step T c s e).2.out) (hr : isReplyCode p.code = true) : p.id = (evCtx e).id :=
  reply_echoes_id_of T (effCfg c s) s e p hp hr

theorem ack_repeats_options (T : Tables) (c : Cfg) (s : State) (e : Ev) (p : Pkt)
    (hp : p ∈ (step T c s e).2.out) (hk : p.code = cCA) : p.opts = (evCtx e).opts :=
  ack_repeats_options_of T (effCfg c s) s e p hp hk

theorem nak_rej_only_offending (T : Tables) (c : Cfg) (s : State) (e : Ev) (p : Pkt)
    (hp : p ∈ (step T c s e).2.out) :
    (p.code = cCJ → p.opts.Sublist (evCtx e).opts ∧ ∀ o ∈ p.opts, unsupported (effCfg c s) o) ∧
    (p.code = cCN → ∀ n ∈ p.opts, ∃ o ∈ (evCtx e).opts, nakable (effCfg c s) o ∧ n.ty = o.ty) :=
  nak_rej_only_offending_of T (effCfg c s) s e p hp

theorem leaves_opened {T : Tables} (hD : GoodDispatch T = true) (hL : GoodLeave T = true) (c : Cfg)
    (s : State) (e : Ev) (hs : s.st = .Opened) (he : Leaving T s e) : (step T c s e).1.st ≠ .Opened :=
  leaves_opened_of hD hL (effCfg c s) s e hs he

/-- after any history, an acknowledged IP-Address option carries the address that is assigned to the session at
    that moment (configured, set by SetPeerIP, or held in the pool and not released) -/
theorem ipcp_acks_only_assigned (T : Tables) (c : Cfg) (hc : c.proto = .ipcp) (evs : List Ev) (e : Ev) (p : Pkt)
    (hp : p ∈ (step T c (run T c (init c) evs) e).2.out) (hk : p.code = cCA) :
    ∀ o ∈ p.opts, o.ty = 3 → (run T c (init c) evs).assigned = some o.data := by
  intro o ho ht
  have h := ipcp_acks_only_assigned_of T (effCfg c (run T c (init c) evs)) (by simpa [effCfg] using hc) _ e p hp hk o ho ht
  exact poolOk_run T c evs _ (poolOk_init c) _ (by simpa [effCfg] using h)

/-! ## silent peer: the automaton does not merely fall quiet, it leaves the timer-driven states -/

/-- the state a list of actions ends in -/
def finalSt (st0 : St) (l : List Action) : St :=
  l.foldl (fun s a => match a with | .setState q => q | _ => s) st0

theorem st_doEff (k : Send) (c : Cfg) (x : Ctx) (r : Run) (e : Eff) : (doEff k c x r e).s.st = r.s.st := by
  cases e <;> rfl

theorem st_foldEff (k : Send) (c : Cfg) (x : Ctx) (l : List Eff) (r : Run) :
    (l.foldl (doEff k c x) r).s.st = r.s.st := by
  induction l generalizing r with
  | nil => rfl
  | cons e es ih => simp only [List.foldl_cons]; rw [ih, st_doEff]

theorem st_foldAct (T : Tables) (c : Cfg) (x : Ctx) (l : List Action) (r : Run) :
    (l.foldl (doAct T c x) r).s.st = finalSt r.s.st l := by
  induction l generalizing r with
  | nil => rfl
  | cons a as ih =>
    simp only [List.foldl_cons, finalSt]
    rw [ih]
    cases a with
    | irc => rfl
    | zrc => rfl
    | scr => simp only [doAct, doSend, st_foldEff, finalSt]
    | str => simp only [doAct, doSend, st_foldEff, finalSt]
    | sta => simp only [doAct, doSend, st_foldEff, finalSt]
    | setState q => rfl
    | stopTimer => rfl

/-- decidable table property: `timeout()` has nothing before its switch, and whenever it ends in a timer-driven
    state (Closing, Stopping, Req-Sent, Ack-Rcvd, Ack-Sent) it has armed the timer again -/
def GoodWait (T : Tables) : Bool :=
  (T.pre .timeout == []) &&
  allSt.all fun st => allBool.all fun ra => allBool.all fun rp =>
    let l := T.table .timeout st ⟨ra, rp⟩
    !waiting (finalSt st l) || (taOf T l).armed == some true

/-- the invariant of a silence: in a timer-driven state the timer runs -/
def WaitOk (s : State) : Prop := waiting s.st = true → s.armed = true

theorem waitOk_timeout {T : Tables} (hT : GoodWait T = true) (c : Cfg) (s : State) (hs : WaitOk s) :
    WaitOk (step T c s .timeout).1 := by
  unfold GoodWait at hT
  simp only [Bool.and_eq_true, beq_iff_eq] at hT
  obtain ⟨hpre, hall⟩ := hT
  simp only [step, step0]
  split
  · simp only [fin]
    unfold runHandler
    simp only [hpre, List.foldl_nil, Bool.not_true, Bool.false_eq_true, ↓reduceIte]
    intro hw
    have hst := st_foldAct T (effCfg c s) {}
      (T.table .timeout s.st ⟨false, decide (s.rc > 0)⟩) { s := { s with armed := false }, opts := [] }
    have hrel := trel_foldAct false s.rc T (effCfg c s) {}
      (T.table .timeout s.st ⟨false, decide (s.rc > 0)⟩) { s := { s with armed := false }, opts := [] }
      ⟨none, 0, false⟩ ⟨rfl, fun _ => by simp⟩
    have hg := List.all_eq_true.mp (List.all_eq_true.mp (List.all_eq_true.mp hall s.st (mem_allSt _)) false (mem_allBool _))
      (decide (s.rc > 0)) (mem_allBool _)
    simp only [Bool.or_eq_true, Bool.not_eq_true', beq_iff_eq] at hg
    simp only at hst hw
    rw [hst] at hw
    rcases hg with hg | hg
    · rw [hg] at hw; cases hw
    · rw [hrel.1]
      simp only [taOf] at hg
      rw [hg]; rfl
  · exact hs

theorem waitOk_timeouts {T : Tables} (hT : GoodWait T = true) (c : Cfg) (n : Nat) (s : State) (hs : WaitOk s) :
    WaitOk (timeouts T c s n) := by
  induction n generalizing s with
  | zero => simpa [timeouts, run] using hs
  | succ n ih =>
    have := ih (step T c s .timeout).1 (waitOk_timeout hT c s hs)
    simpa [timeouts, run, List.replicate_succ] using this

/-- If, when the peer falls silent, the automaton is not already waiting without a timer, then after at most
    `max(initRc,0)+1` expiries it rests: no timer armed AND not in a timer-driven state. -/
theorem silent_peer_stops_partial_of {T : Tables} (hT : GoodTO T = true) (hW : GoodWait T = true) (c : Cfg)
    (evs : List Ev) (h0 : WaitOk (run T c (init c) evs)) :
    ∃ n, n ≤ (max (initRc c) 0).toNat + 1 ∧
      (timeouts T c (run T c (init c) evs) n).armed = false ∧
      waiting (timeouts T c (run T c (init c) evs) n).st = false := by
  obtain ⟨n, hn, ha⟩ := silent_peer_stops_of hT c evs
  refine ⟨n, hn, ha, ?_⟩
  have hw := waitOk_timeouts hW c n _ h0
  cases hwt : waiting (timeouts T c (run T c (init c) evs) n).st with
  | false => rfl
  | true => rw [hw hwt] at ha; cases ha

/-- without an armed timer, timer expiries change nothing -/
theorem timeouts_unarmed (T : Tables) (c : Cfg) (s : State) (ha : s.armed = false) (n : Nat) : timeouts T c s n = s := by
  induction n with
  | zero => rfl
  | succ n ih =>
    have h1 : (step T c s .timeout).1 = s := by simp [step, step0, ha]
    have : timeouts T c s (n + 1) = timeouts T c (step T c s .timeout).1 n := by
      simp [timeouts, run, List.replicate_succ]
    rw [this, h1, ih]

/-- decidable table property: only the five receive handlers named by finding KF-ncp-timer-stopped-early
    (Configure-Ack, -Nak, -Reject, Terminate-Request, Terminate-Ack) and Down() call stopTimer() before their state
    switch; Up, Open, closeInternal, receiveConfigureRequest and timeout do not -/
def GoodStops (T : Tables) : Bool :=
  [Handler.up, .open, .close, .rcr, .timeout].all fun h => !(T.pre h).contains .stopTimer

end Bng.Ncp
