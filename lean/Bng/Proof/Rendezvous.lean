import Bng.Model.Rendezvous
/-
  Helper lemmas for C17 (pkg/pool/peer.go): the fold of rendezvousHash picks the FIRST node of maximal
  score (when some score is positive), the stable insertion sort of rendezvousRanked starts with that node,
  sorted duplicate-free peer lists are determined by their members, and the `find?` of getHealthyOwner.
  The score function is a parameter throughout.
-/
namespace Bng.Rendezvous

set_option linter.unusedSectionVars false
variable {α : Type} [DecidableEq α]

/-! ## the fold of rendezvousHash -/

/-- the loop body of rendezvousHash -/
def pick (score : α → Nat) (b : α × Nat) (n : α) : α × Nat := if score n > b.2 then (n, score n) else b

theorem owner_fold (empty : α) (score : α → Nat) (l : List α) (h : 2 ≤ l.length) :
    owner empty score l = (l.foldl (pick score) (empty, 0)).1 := by
  match l, h with
  | _ :: _ :: _, _ => rfl

theorem fold_keep (score : α → Nat) (b : α × Nat) (l : List α) (h : ∀ y ∈ l, score y ≤ b.2) :
    l.foldl (pick score) b = b := by
  induction l generalizing b with
  | nil => rfl
  | cons x rest ih =>
    have hx : ¬ score x > b.2 := by have := h x (by simp); omega
    simp only [List.foldl_cons, pick, hx, if_false]
    exact ih b (fun y hy => h y (by simp [hy]))

theorem fold_below (score : α → Nat) (b : α × Nat) (l : List α) (t : Nat) (hb : b.2 < t)
    (h : ∀ y ∈ l, score y < t) : (l.foldl (pick score) b).2 < t := by
  induction l generalizing b with
  | nil => exact hb
  | cons x rest ih =>
    simp only [List.foldl_cons]
    apply ih
    · unfold pick; split
      · exact h x (by simp)
      · exact hb
    · exact fun y hy => h y (by simp [hy])

/-- a list split at the first node of maximal score -/
structure FirstMax (score : α → Nat) (m : Nat) (l pre : List α) (o : α) (post : List α) : Prop where
  eq : l = pre ++ o :: post
  pre : ∀ y ∈ pre, score y < score o
  gt : m < score o
  post : ∀ y ∈ post, score y ≤ score o

/-- uniqueness: the fold returns the first maximum -/
theorem fold_firstMax {score : α → Nat} {b : α × Nat} {l pre post : List α} {o : α}
    (h : FirstMax score b.2 l pre o post) : l.foldl (pick score) b = (o, score o) := by
  rw [h.eq, List.foldl_append, List.foldl_cons]
  have h1 := fold_below score b pre (score o) h.gt h.pre
  have h2 : pick score (pre.foldl (pick score) b) o = (o, score o) := by
    show (if score o > (pre.foldl (pick score) b).2 then (o, score o) else _) = _
    rw [if_pos h1]
  rw [h2]
  exact fold_keep score _ post h.post

/-- existence: when some node scores above the threshold there is a first maximum -/
theorem exists_firstMax (score : α → Nat) (m : Nat) (l : List α) (h : ∃ x ∈ l, m < score x) :
    ∃ pre o post, FirstMax score m l pre o post := by
  induction l generalizing m with
  | nil => obtain ⟨x, hx, _⟩ := h; simp at hx
  | cons x rest ih =>
    by_cases hr : ∃ y ∈ rest, max m (score x) < score y
    · obtain ⟨pre, o, post, hf⟩ := ih (max m (score x)) hr
      refine ⟨x :: pre, o, post, ?_, ?_, ?_, hf.post⟩
      · rw [hf.eq]; rfl
      · intro y hy
        rcases List.mem_cons.mp hy with hy | hy
        · subst hy; have := hf.gt; omega
        · exact hf.pre y hy
      · have := hf.gt; omega
    · have hall : ∀ y ∈ rest, score y ≤ max m (score x) := by
        intro y hy
        apply Classical.byContradiction
        intro hn
        exact hr ⟨y, hy, by omega⟩
      obtain ⟨z, hz, hzm⟩ := h
      have hx : m < score x := by
        rcases List.mem_cons.mp hz with hz | hz
        · subst hz; exact hzm
        · have := hall z hz; omega
      refine ⟨[], x, rest, rfl, by simp, hx, ?_⟩
      intro y hy
      have := hall y hy; omega

/-- the hypothesis under which rendezvousHash returns a member: some candidate scores above 0 -/
def SomePositive (score : α → Nat) (l : List α) : Prop := ∃ x ∈ l, 0 < score x

theorem owner_of_firstMax {empty : α} {score : α → Nat} {l pre post : List α} {o : α}
    (h : FirstMax score 0 l pre o post) : owner empty score l = o := by
  by_cases hl : 2 ≤ l.length
  · rw [owner_fold empty score l hl]
    have := fold_firstMax (b := (empty, 0)) h
    rw [this]
  · -- a single node is returned as it is
    have heq := h.eq
    have : pre = [] ∧ post = [] := by
      rw [heq] at hl
      simp only [List.length_append, List.length_cons] at hl
      constructor
      · cases pre with
        | nil => rfl
        | cons _ _ => simp at hl; omega
      · cases post with
        | nil => rfl
        | cons _ _ => simp at hl; omega
    rw [heq, this.1, this.2]
    rfl

/-- the first-maximum description of the owner -/
theorem owner_firstMax (empty : α) (score : α → Nat) (l : List α) (h : SomePositive score l) :
    ∃ pre post, FirstMax score 0 l pre (owner empty score l) post := by
  obtain ⟨pre, o, post, hf⟩ := exists_firstMax score 0 l h
  have := owner_of_firstMax (empty := empty) hf
  rw [this]
  exact ⟨pre, post, hf⟩

theorem owner_mem (empty : α) (score : α → Nat) (l : List α) (h : SomePositive score l) :
    owner empty score l ∈ l := by
  obtain ⟨pre, post, hf⟩ := owner_firstMax empty score l h
  generalize owner empty score l = o at hf ⊢
  rw [hf.eq]; simp

theorem owner_max (empty : α) (score : α → Nat) (l : List α) (h : SomePositive score l) :
    ∀ y ∈ l, score y ≤ score (owner empty score l) := by
  obtain ⟨pre, post, hf⟩ := owner_firstMax empty score l h
  intro y hy
  have hy' := hy
  rw [hf.eq] at hy'
  simp only [List.mem_append, List.mem_cons] at hy'
  rcases hy' with hy' | hy' | hy'
  · exact Nat.le_of_lt (hf.pre y hy')
  · rw [hy']; exact Nat.le_refl _
  · exact hf.post y hy'

/-! ## removing a node that is not the owner -/

theorem owner_erase (empty : α) (score : α → Nat) (l : List α) (n : α) (h : SomePositive score l)
    (hne : owner empty score l ≠ n) : owner empty score (l.erase n) = owner empty score l := by
  obtain ⟨pre, post, hf⟩ := owner_firstMax empty score l h
  generalize owner empty score l = o at *
  by_cases hn : n ∈ pre
  · apply owner_of_firstMax (pre := pre.erase n) (post := post)
    refine ⟨?_, fun y hy => hf.pre y (List.mem_of_mem_erase hy), hf.gt, hf.post⟩
    rw [hf.eq, List.erase_append_left _ hn]
  · apply owner_of_firstMax (pre := pre) (post := post.erase n)
    refine ⟨?_, hf.pre, hf.gt, fun y hy => hf.post y (List.mem_of_mem_erase hy)⟩
    rw [hf.eq, List.erase_append_right _ hn, List.erase_cons_tail (by simpa using hne)]

/-! ## rendezvousRanked -/

theorem insertDesc_perm (score : α → Nat) (x : α) (l : List α) : (insertDesc score x l).Perm (x :: l) := by
  induction l with
  | nil => exact List.Perm.refl _
  | cons y ys ih =>
    unfold insertDesc
    split
    · exact List.Perm.refl _
    · exact (List.Perm.cons y ih).trans (List.Perm.swap x y ys)

theorem foldl_insertDesc_perm (score : α → Nat) (acc l : List α) :
    (l.foldl (fun acc x => insertDesc score x acc) acc).Perm (l ++ acc) := by
  induction l generalizing acc with
  | nil => exact List.Perm.refl _
  | cons x rest ih =>
    simp only [List.foldl_cons]
    refine (ih _).trans ?_
    refine (List.Perm.append_left rest (insertDesc_perm score x acc)).trans ?_
    exact (List.perm_middle).trans (List.Perm.refl _)

theorem ranked_perm' (score : α → Nat) (l : List α) : (ranked score l).Perm l := by
  have := foldl_insertDesc_perm score [] l
  simpa [ranked] using this

/-- how the head of the ranked prefix evolves -/
def hstep (score : α → Nat) (h : Option α) (x : α) : Option α :=
  match h with
  | none => some x
  | some y => if score x > score y then some x else some y

theorem head_insertDesc (score : α → Nat) (x : α) (acc : List α) :
    (insertDesc score x acc).head? = hstep score acc.head? x := by
  cases acc with
  | nil => rfl
  | cons y ys =>
    unfold insertDesc hstep
    by_cases h : score x > score y <;> simp [h]

theorem head_foldl_insertDesc (score : α → Nat) (acc l : List α) :
    (l.foldl (fun acc x => insertDesc score x acc) acc).head? = l.foldl (hstep score) acc.head? := by
  induction l generalizing acc with
  | nil => rfl
  | cons x rest ih => simp only [List.foldl_cons]; rw [ih, head_insertDesc]

theorem hfold_below (score : α → Nat) (h : Option α) (l : List α) (t : Nat)
    (hh : ∀ y, h = some y → score y < t) (hl : ∀ y ∈ l, score y < t) :
    ∀ y, l.foldl (hstep score) h = some y → score y < t := by
  induction l generalizing h with
  | nil => exact hh
  | cons x rest ih =>
    simp only [List.foldl_cons]
    apply ih
    · intro y hy
      unfold hstep at hy
      split at hy
      · simp at hy; subst hy; exact hl x (by simp)
      · rename_i z
        split at hy
        · simp at hy; subst hy; exact hl x (by simp)
        · simp at hy; subst hy; exact hh z rfl
    · exact fun y hy => hl y (by simp [hy])

theorem hfold_keep (score : α → Nat) (o : α) (l : List α) (hl : ∀ y ∈ l, score y ≤ score o) :
    l.foldl (hstep score) (some o) = some o := by
  induction l with
  | nil => rfl
  | cons x rest ih =>
    have : ¬ score x > score o := by have := hl x (by simp); omega
    simp only [List.foldl_cons, hstep, this, if_false]
    exact ih (fun y hy => hl y (by simp [hy]))

theorem ranked_head_of_firstMax {score : α → Nat} {l pre post : List α} {o : α} {m : Nat}
    (h : FirstMax score m l pre o post) : (ranked score l).head? = some o := by
  unfold ranked
  rw [head_foldl_insertDesc, h.eq, List.foldl_append, List.foldl_cons]
  have h1 := hfold_below score ([] : List α).head? pre (score o) (by simp) h.pre
  have h2 : hstep score (pre.foldl (hstep score) ([] : List α).head?) o = some o := by
    generalize pre.foldl (hstep score) ([] : List α).head? = r at h1
    cases r with
    | none => rfl
    | some y => have := h1 y rfl; simp [hstep, this]
  rw [h2]
  exact hfold_keep score o post h.post

/-! ## sort.Strings and slices.Compact -/

/-- the laws of the order used by sort.Strings -/
structure TotalOrder (le : α → α → Bool) : Prop where
  total : ∀ a b, le a b = true ∨ le b a = true
  trans : ∀ a b c, le a b = true → le b c = true → le a c = true
  antisymm : ∀ a b, le a b = true → le b a = true → a = b

def Sorted (le : α → α → Bool) (l : List α) : Prop := l.Pairwise (fun a b => le a b = true)

theorem insertAsc_perm (le : α → α → Bool) (x : α) (l : List α) : (insertAsc le x l).Perm (x :: l) := by
  induction l with
  | nil => exact List.Perm.refl _
  | cons y ys ih =>
    unfold insertAsc
    split
    · exact List.Perm.refl _
    · exact (List.Perm.cons y ih).trans (List.Perm.swap x y ys)

theorem sortNodes_perm (le : α → α → Bool) (l : List α) : (sortNodes le l).Perm l := by
  induction l with
  | nil => exact List.Perm.refl _
  | cons x rest ih =>
    show (insertAsc le x (sortNodes le rest)).Perm (x :: rest)
    exact (insertAsc_perm le x _).trans (List.Perm.cons x ih)

theorem mem_sortNodes (le : α → α → Bool) (l : List α) (x : α) : x ∈ sortNodes le l ↔ x ∈ l :=
  (sortNodes_perm le l).mem_iff

theorem insertAsc_sorted {le : α → α → Bool} (ho : TotalOrder le) (x : α) {l : List α} (h : Sorted le l) :
    Sorted le (insertAsc le x l) := by
  induction l with
  | nil => simp [insertAsc, Sorted]
  | cons y ys ih =>
    unfold Sorted at h ih ⊢
    rw [List.pairwise_cons] at h
    unfold insertAsc
    split
    · rename_i hxy
      rw [List.pairwise_cons]
      refine ⟨?_, List.pairwise_cons.mpr h⟩
      intro z hz
      rcases List.mem_cons.mp hz with hz | hz
      · subst hz; exact hxy
      · exact ho.trans _ _ _ hxy (h.1 z hz)
    · rename_i hxy
      have hyx : le y x = true := by
        rcases ho.total x y with h' | h'
        · exact absurd h' hxy
        · exact h'
      rw [List.pairwise_cons]
      refine ⟨?_, ih h.2⟩
      intro z hz
      have := (insertAsc_perm le x ys).mem_iff.mp hz
      rcases List.mem_cons.mp this with hz' | hz'
      · subst hz'; exact hyx
      · exact h.1 z hz'

theorem sortNodes_sorted {le : α → α → Bool} (ho : TotalOrder le) (l : List α) : Sorted le (sortNodes le l) := by
  induction l with
  | nil => simp [sortNodes, Sorted]
  | cons x rest ih => exact insertAsc_sorted ho x ih

/-- a sorted list is determined by its multiset -/
theorem sorted_perm_eq {le : α → α → Bool} (ho : TotalOrder le) {l₁ l₂ : List α}
    (h₁ : Sorted le l₁) (h₂ : Sorted le l₂) (hp : l₁.Perm l₂) : l₁ = l₂ := by
  induction l₁ generalizing l₂ with
  | nil => exact (List.Perm.nil_eq hp)
  | cons a t₁ ih =>
    cases l₂ with
    | nil => exact absurd hp.symm.nil_eq (by simp)
    | cons b t₂ =>
      unfold Sorted at h₁ h₂
      rw [List.pairwise_cons] at h₁ h₂
      have hab : a = b := by
        have ha : a ∈ b :: t₂ := hp.mem_iff.mp (by simp)
        have hb : b ∈ a :: t₁ := hp.mem_iff.mpr (by simp)
        rcases List.mem_cons.mp ha with ha | ha
        · exact ha
        · rcases List.mem_cons.mp hb with hb | hb
          · exact hb.symm
          · exact ho.antisymm _ _ (h₁.1 b hb) (h₂.1 a ha)
      subst hab
      rw [ih h₁.2 h₂.2 (List.Perm.cons_inv hp)]

theorem sortNodes_eq_of_perm {le : α → α → Bool} (ho : TotalOrder le) {l₁ l₂ : List α} (hp : l₁.Perm l₂) :
    sortNodes le l₁ = sortNodes le l₂ :=
  sorted_perm_eq ho (sortNodes_sorted ho l₁) (sortNodes_sorted ho l₂)
    ((sortNodes_perm le l₁).trans (hp.trans (sortNodes_perm le l₂).symm))

/-- sorted and duplicate free: the shape of peerNodes -/
def SSorted (le : α → α → Bool) (l : List α) : Prop := Sorted le l ∧ l.Nodup

/-- a sorted duplicate-free list is determined by its members -/
theorem ssorted_ext {le : α → α → Bool} (ho : TotalOrder le) {l₁ l₂ : List α}
    (h₁ : SSorted le l₁) (h₂ : SSorted le l₂) (hm : ∀ x, x ∈ l₁ ↔ x ∈ l₂) : l₁ = l₂ := by
  apply sorted_perm_eq ho h₁.1 h₂.1
  exact (List.perm_ext_iff_of_nodup h₁.2 h₂.2).mpr hm

theorem mem_compact (l : List α) (x : α) : x ∈ compact l ↔ x ∈ l := by
  induction l with
  | nil => simp [compact]
  | cons a t ih =>
    cases t with
    | nil => simp [compact]
    | cons b rest =>
      unfold compact
      split
      · rename_i hab
        rw [ih]; subst hab; simp
      · simp only [List.mem_cons] at ih ⊢
        rw [ih]

theorem compact_sublist (l : List α) : (compact l).Sublist l := by
  induction l with
  | nil => simp [compact]
  | cons a t ih =>
    cases t with
    | nil => simp [compact]
    | cons b rest =>
      unfold compact
      split
      · exact List.Sublist.cons _ ih
      · exact List.Sublist.cons_cons _ ih

theorem compact_ssorted {le : α → α → Bool} (ho : TotalOrder le) {l : List α} (h : Sorted le l) :
    SSorted le (compact l) := by
  refine ⟨List.Pairwise.sublist (compact_sublist l) h, ?_⟩
  induction l with
  | nil => simp [compact]
  | cons a t ih =>
    cases t with
    | nil => simp [compact]
    | cons b rest =>
      unfold Sorted at h
      rw [List.pairwise_cons] at h
      unfold compact
      split
      · exact ih h.2
      · rename_i hab
        rw [List.nodup_cons]
        refine ⟨?_, ih h.2⟩
        intro ha
        rw [mem_compact] at ha
        -- a occurs again later in a sorted list whose next element differs from a: impossible
        have h2 := h.2
        rw [List.pairwise_cons] at h2
        rcases List.mem_cons.mp ha with ha | ha
        · exact hab ha
        · have hba : le b a = true := h2.1 a ha
          have hab' : le a b = true := h.1 b (by simp)
          exact hab (ho.antisymm _ _ hab' hba)

/-! ## shrinking or growing a sorted peer list around the owner -/

theorem firstMax_pos {score : α → Nat} {m : Nat} {l pre post : List α} {o : α}
    (h : FirstMax score m l pre o post) : 0 < score o := by have := h.gt; omega

theorem firstMax_le {le : α → α → Bool} {score : α → Nat} {m : Nat} {l pre post : List α} {o x : α}
    (hs : Sorted le l) (h : FirstMax score m l pre o post) (hx : x ∈ l) (hsc : score x = score o) :
    x = o ∨ le o x = true := by
  rw [h.eq] at hx hs
  simp only [List.mem_append, List.mem_cons] at hx
  rcases hx with hx | hx | hx
  · have := h.pre x hx; omega
  · exact Or.inl hx
  · right
    unfold Sorted at hs
    rw [List.pairwise_append] at hs
    have := hs.2.1
    rw [List.pairwise_cons] at this
    exact this.1 x hx

/-- if the owner over `l₁` is still present in the sub-collection `l₂` it is the owner over `l₂` -/
theorem owner_subset {le : α → α → Bool} (ho : TotalOrder le) (empty : α) (score : α → Nat) {l₁ l₂ : List α}
    (hs₁ : Sorted le l₁) (hs₂ : Sorted le l₂) (hsub : ∀ x, x ∈ l₂ → x ∈ l₁)
    (hpos : SomePositive score l₁) (hin : owner empty score l₁ ∈ l₂) :
    owner empty score l₂ = owner empty score l₁ := by
  obtain ⟨pre₁, post₁, hf₁⟩ := owner_firstMax empty score l₁ hpos
  have hmax₁ := owner_max empty score l₁ hpos
  have hpos₂ : SomePositive score l₂ := ⟨_, hin, firstMax_pos hf₁⟩
  obtain ⟨pre₂, post₂, hf₂⟩ := owner_firstMax empty score l₂ hpos₂
  have hmax₂ := owner_max empty score l₂ hpos₂
  have hm₂ := owner_mem empty score l₂ hpos₂
  generalize owner empty score l₁ = o₁ at *
  generalize owner empty score l₂ = o₂ at *
  have hsc : score o₂ = score o₁ := by
    have a := hmax₁ o₂ (hsub _ hm₂)
    have b := hmax₂ o₁ hin
    omega
  rcases firstMax_le hs₁ hf₁ (hsub _ hm₂) hsc with h | h
  · exact h
  · rcases firstMax_le hs₂ hf₂ hin hsc.symm with h' | h'
    · exact h'.symm
    · exact ho.antisymm _ _ h' h

/-! ## the peer list of a pool -/

theorem ssorted_newPool {le : α → α → Bool} (ho : TotalOrder le) (self : α) (peers : List α) :
    SSorted le (newPool le self peers).nodes :=
  compact_ssorted ho (sortNodes_sorted ho _)

theorem mem_newPool (le : α → α → Bool) (self : α) (peers : List α) (x : α) :
    x ∈ (newPool le self peers).nodes ↔ x = self ∨ x ∈ peers := by
  unfold newPool
  simp only [mem_compact, mem_sortNodes]
  split
  · rename_i hs
    constructor
    · exact Or.inr
    · rintro (h | h)
      · subst h; exact hs
      · exact h
  · simp only [List.mem_append, List.mem_singleton]
    constructor
    · rintro (h | h)
      · exact Or.inr h
      · exact Or.inl h
    · rintro (h | h)
      · exact Or.inr h
      · exact Or.inl h

theorem mem_addPeer (le : α → α → Bool) (p : Pool α) (x y : α) :
    y ∈ (addPeer le p x).nodes ↔ y = x ∨ y ∈ p.nodes := by
  unfold addPeer
  split
  · rename_i hx
    constructor
    · exact Or.inr
    · rintro (h | h)
      · subst h; exact hx
      · exact h
  · simp only [mem_sortNodes, List.mem_append, List.mem_singleton]
    constructor
    · rintro (h | h)
      · exact Or.inr h
      · exact Or.inl h
    · rintro (h | h)
      · exact Or.inr h
      · exact Or.inl h

theorem ssorted_addPeer {le : α → α → Bool} (ho : TotalOrder le) {p : Pool α} (h : SSorted le p.nodes) (x : α) :
    SSorted le (addPeer le p x).nodes := by
  unfold addPeer
  split
  · exact h
  · rename_i hx
    refine ⟨sortNodes_sorted ho _, ?_⟩
    have hp := sortNodes_perm le (p.nodes ++ [x])
    rw [hp.nodup_iff, List.nodup_append]
    refine ⟨h.2, by simp, ?_⟩
    intro a ha b hb
    simp at hb; subst hb
    intro e; subst e; exact hx ha

theorem ssorted_removePeer {le : α → α → Bool} {p : Pool α} (h : SSorted le p.nodes) (x : α) :
    SSorted le (removePeer p x).nodes :=
  ⟨List.Pairwise.sublist List.erase_sublist h.1, h.2.sublist List.erase_sublist⟩

theorem mem_removePeer {le : α → α → Bool} {p : Pool α} (h : SSorted le p.nodes) (x y : α) :
    y ∈ (removePeer p x).nodes ↔ y ≠ x ∧ y ∈ p.nodes := by
  unfold removePeer
  simp only
  exact h.2.mem_erase_iff

theorem ssorted_runPool {le : α → α → Bool} (ho : TotalOrder le) {p : Pool α} (h : SSorted le p.nodes)
    (ops : List (PoolOp α)) : SSorted le (runPool le p ops).nodes := by
  induction ops generalizing p with
  | nil => exact h
  | cons op ops ih =>
    show SSorted le (runPool le (stepPool le p op) ops).nodes
    apply ih
    cases op with
    | add x => exact ssorted_addPeer ho h x
    | remove x => exact ssorted_removePeer h x
    | health x b =>
      show SSorted le (setHealth p x b).nodes
      unfold setHealth
      split
      · exact h
      · split <;> exact h

/-! ## getHealthyOwner -/

/-- eligibility test of getHealthyOwner -/
def eligible (self : α) (U : List α) (x : α) : Bool := x == self || !(U.contains x)

theorem healthyOwner_nil (self : α) (U : List α) : healthyOwner self U [] = self := rfl

theorem healthyOwner_cons (self : α) (U : List α) (x : α) (t : List α) :
    healthyOwner self U (x :: t) = if eligible self U x = true then x else healthyOwner self U t := by
  unfold healthyOwner eligible
  simp only [List.find?_cons]
  cases h : (x == self || !(U.contains x)) <;> simp

theorem eligible_iff (self : α) (U : List α) (x : α) : eligible self U x = true ↔ x = self ∨ x ∉ U := by
  unfold eligible
  simp

theorem healthyOwner_mono (self : α) (U U' r : List α) (hsub : ∀ x, x ∈ U → x ∈ U')
    (hel : healthyOwner self U r = self ∨ healthyOwner self U r ∉ U') :
    healthyOwner self U' r = healthyOwner self U r := by
  induction r with
  | nil => rfl
  | cons x t ih =>
    rw [healthyOwner_cons] at hel ⊢
    rw [healthyOwner_cons]
    by_cases c : eligible self U x = true
    · simp only [c, if_true] at hel ⊢
      have c' : eligible self U' x = true := (eligible_iff self U' x).mpr hel
      simp [c']
    · have c' : ¬ eligible self U' x = true := by
        intro h
        apply c
        rw [eligible_iff] at h ⊢
        rcases h with h | h
        · exact Or.inl h
        · exact Or.inr (fun hu => h (hsub x hu))
      simp only [c, c'] at hel ⊢
      exact ih hel

theorem healthyOwner_entry_irrelevant (e₁ e₂ : α) (U r : List α)
    (h₁ : e₁ ∈ r) (h₁' : e₁ ∉ U) (h₂' : e₂ ∉ U) :
    healthyOwner e₁ U r = healthyOwner e₂ U r := by
  induction r with
  | nil => simp at h₁
  | cons x t ih =>
    rw [healthyOwner_cons, healthyOwner_cons]
    by_cases hx : x ∈ U
    · have n1 : x ≠ e₁ := fun e => h₁' (e ▸ hx)
      have n2 : x ≠ e₂ := fun e => h₂' (e ▸ hx)
      have c1 : ¬ eligible e₁ U x = true := by rw [eligible_iff]; simp [n1, hx]
      have c2 : ¬ eligible e₂ U x = true := by rw [eligible_iff]; simp [n2, hx]
      simp only [c1, c2]
      apply ih
      rcases List.mem_cons.mp h₁ with h | h
      · exact absurd h.symm n1
      · exact h
    · have c1 : eligible e₁ U x = true := (eligible_iff _ _ _).mpr (Or.inr hx)
      have c2 : eligible e₂ U x = true := (eligible_iff _ _ _).mpr (Or.inr hx)
      simp [c1, c2]

theorem healthyOwner_congr (self : α) (U U' r : List α) (h : ∀ x, x ∈ U ↔ x ∈ U') :
    healthyOwner self U r = healthyOwner self U' r := by
  induction r with
  | nil => rfl
  | cons x t ih =>
    rw [healthyOwner_cons, healthyOwner_cons, ih]
    have : eligible self U x = eligible self U' x := by
      rw [Bool.eq_iff_iff, eligible_iff, eligible_iff, h x]
    rw [this]

theorem healthyOwner_eligible (self : α) (U r : List α) :
    healthyOwner self U r = self ∨ healthyOwner self U r ∉ U := by
  induction r with
  | nil => exact Or.inl rfl
  | cons x t ih =>
    rw [healthyOwner_cons]
    by_cases c : eligible self U x = true
    · simp only [c, if_true]
      exact (eligible_iff self U x).mp c
    · simp only [c]
      exact ih

theorem eligible_self (self : α) (U : List α) : eligible self U self = true := by
  unfold eligible; simp

/-- two entry nodes (each a member of the ranked list) whose eligibility views agree on the two nodes
    they choose, choose the same node -/
theorem healthyOwner_agree (s₁ s₂ : α) (U₁ U₂ r : List α) (h₁ : s₁ ∈ r) (h₂ : s₂ ∈ r)
    (ha : eligible s₁ U₁ (healthyOwner s₁ U₁ r) = eligible s₂ U₂ (healthyOwner s₁ U₁ r))
    (hb : eligible s₁ U₁ (healthyOwner s₂ U₂ r) = eligible s₂ U₂ (healthyOwner s₂ U₂ r)) :
    healthyOwner s₁ U₁ r = healthyOwner s₂ U₂ r := by
  induction r with
  | nil => simp at h₁
  | cons x t ih =>
    rw [healthyOwner_cons s₁ U₁] at ha ⊢
    rw [healthyOwner_cons s₂ U₂] at hb ⊢
    by_cases c1 : eligible s₁ U₁ x = true <;> by_cases c2 : eligible s₂ U₂ x = true
    · simp [c1, c2]
    · simp [c1, c2] at ha
    · simp [c1, c2] at hb
    · simp only [c1, c2] at ha hb ⊢
      have n1 : s₁ ≠ x := by intro e; subst e; exact c1 (eligible_self _ _)
      have n2 : s₂ ≠ x := by intro e; subst e; exact c2 (eligible_self _ _)
      apply ih
      · rcases List.mem_cons.mp h₁ with h | h
        · exact absurd h n1
        · exact h
      · rcases List.mem_cons.mp h₂ with h | h
        · exact absurd h n2
        · exact h
      · exact ha
      · exact hb

/-! ## Go's string order is a total order -/
namespace Real

theorem bytesLe_nil_right (a : Bytes) (h : bytesLe a [] = true) : a = [] := by
  cases a with
  | nil => rfl
  | cons _ _ => simp [bytesLe] at h

theorem bytesLe_cons_eq (a b : UInt8) (as bs : Bytes) :
    bytesLe (a :: as) (b :: bs) = (if a < b then true else if b < a then false else bytesLe as bs) := by
  rw [bytesLe]

theorem bytesLe_cons (a b : UInt8) (as bs : Bytes) :
    bytesLe (a :: as) (b :: bs) = true ↔ a < b ∨ (a = b ∧ bytesLe as bs = true) := by
  rw [bytesLe_cons_eq]
  by_cases h1 : a < b
  · simp [h1]
  · by_cases h2 : b < a
    · have hne : a ≠ b := by intro e; subst e; exact UInt8.lt_irrefl _ h2
      simp [h1, h2, hne]
    · have : a = b := by
        apply Classical.byContradiction
        intro hne
        rcases UInt8.lt_or_lt_of_ne hne with h | h
        · exact h1 h
        · exact h2 h
      subst this
      simp [h1]

theorem bytesLe_total : TotalOrder bytesLe := by
  refine ⟨?_, ?_, ?_⟩
  · intro a
    induction a with
    | nil => intro b; left; simp [bytesLe]
    | cons x xs ih =>
      intro b
      cases b with
      | nil => right; simp [bytesLe]
      | cons y ys =>
        rw [bytesLe_cons, bytesLe_cons]
        by_cases hxy : x = y
        · subst hxy
          rcases ih ys with h | h
          · exact Or.inl (Or.inr ⟨rfl, h⟩)
          · exact Or.inr (Or.inr ⟨rfl, h⟩)
        · rcases UInt8.lt_or_lt_of_ne hxy with h | h
          · exact Or.inl (Or.inl h)
          · exact Or.inr (Or.inl h)
  · intro a
    induction a with
    | nil => intro b c _ _; simp [bytesLe]
    | cons x xs ih =>
      intro b c hab hbc
      cases b with
      | nil => simp [bytesLe] at hab
      | cons y ys =>
        cases c with
        | nil => simp [bytesLe] at hbc
        | cons z zs =>
          rw [bytesLe_cons] at hab hbc ⊢
          rcases hab with h1 | ⟨e1, h1⟩ <;> rcases hbc with h2 | ⟨e2, h2⟩
          · exact Or.inl (UInt8.lt_trans h1 h2)
          · subst e2; exact Or.inl h1
          · subst e1; exact Or.inl h2
          · subst e1; subst e2; exact Or.inr ⟨rfl, ih ys zs h1 h2⟩
  · intro a
    induction a with
    | nil => intro b _ hba; exact (bytesLe_nil_right b hba).symm
    | cons x xs ih =>
      intro b hab hba
      cases b with
      | nil => simp [bytesLe] at hab
      | cons y ys =>
        rw [bytesLe_cons] at hab hba
        rcases hab with h1 | ⟨e1, h1⟩ <;> rcases hba with h2 | ⟨e2, h2⟩
        · exact absurd h2 (UInt8.lt_asymm h1)
        · subst e2; exact absurd h1 (UInt8.lt_irrefl _)
        · subst e1; exact absurd h2 (UInt8.lt_irrefl _)
        · subst e1; rw [ih ys h1 h2]

end Real

end Bng.Rendezvous
