import Bng.Model.Decoders
/-
  Totality (no panic) and step bounds of the decoder models, one `_spec` lemma per decoder:
  `Within (D bs) b` = "D returns normally and takes at most b steps".
-/
namespace Bng.Decoders
open Bng.Go

/-- returns normally (no panic) within `b` steps -/
def Within {α : Type} (x : G (α × Nat)) (b : Nat) : Prop := ∃ r m, x = .ok (r, m) ∧ m ≤ b

theorem Within.intro' {α : Type} {r : α} {m b : Nat} (h : m ≤ b) : Within (.ok (r, m) : G (α × Nat)) b :=
  ⟨r, m, rfl, h⟩

theorem Within.pure' {α : Type} {r : α} {m b : Nat} (h : m ≤ b) : Within (pure (r, m) : G (α × Nat)) b :=
  ⟨r, m, rfl, h⟩

theorem Within.mono {α : Type} {x : G (α × Nat)} {b b' : Nat} (h : Within x b) (hb : b ≤ b') : Within x b' := by
  obtain ⟨r, m, e, hm⟩ := h
  exact ⟨r, m, e, by omega⟩

theorem Within.isOk {α : Type} {x : G (α × Nat)} {b : Nat} (h : Within x b) : G.isOk x = true := by
  obtain ⟨r, m, e, _⟩ := h
  rw [e]; rfl

theorem Within.steps {α : Type} {x : G (α × Nat)} {b : Nat} (h : Within x b) {r : α} {m : Nat}
    (e : x = .ok (r, m)) : m ≤ b := by
  obtain ⟨r', m', e', hm⟩ := h
  rw [e] at e'
  injection e' with e'
  injection e' with _ e2
  omega

/-- sequencing: if `x` is within `b` and the continuation is within `c` for every result of `x` -/
theorem Within.bind {α β : Type} {x : G (α × Nat)} {f : α × Nat → G (β × Nat)} {b c : Nat}
    (hx : Within x b) (hf : ∀ r m, m ≤ b → Within (f (r, m)) c) : Within (x >>= f) c := by
  obtain ⟨r, m, e, hm⟩ := hx
  rw [e]
  exact hf r m hm

/-! ### pkg/pppoe/protocol.go -/

theorem parsePPPoEHeader_spec (data : Bytes) : Within (parsePPPoEHeader data) 1 := by
  unfold parsePPPoEHeader
  split
  · exact Within.pure' (by omega)
  · simp (disch := omega) only [index_ok, be16At_ok, ok_bind]
    exact Within.pure' (by omega)

theorem parseTagsLoop_spec (data : Bytes) : ∀ (k off : Nat) (acc : List Tag) (n : Nat),
    data.length - off ≤ k → Within (parseTagsLoop data off acc n) (n + (data.length - off)) := by
  intro k
  induction k with
  | zero =>
    intro off acc n hk
    rw [parseTagsLoop, dif_neg (by omega)]
    exact Within.pure' (by omega)
  | succ k ih =>
    intro off acc n hk
    rw [parseTagsLoop]
    split
    · simp (disch := omega) only [be16At_ok, ok_bind]
      split
      · exact Within.pure' (by omega)
      · split
        · exact Within.pure' (by omega)
        · rw [slice_ok (by omega) (by omega), ok_bind]
          exact (ih _ _ _ (by omega)).mono (by omega)
    · exact Within.pure' (by omega)

theorem parseTags_spec (data : Bytes) : Within (parseTags data) (data.length + 1) :=
  (parseTagsLoop_spec data _ 0 [] 1 (Nat.le_refl _)).mono (by omega)

theorem parseLCPPacket_spec (data : Bytes) : Within (parseLCPPacket data) 1 := by
  unfold parseLCPPacket
  split
  · exact Within.pure' (by omega)
  · simp (disch := omega) only [index_ok, be16At_ok, ok_bind]
    split
    · exact Within.pure' (by omega)
    · split
      · rw [slice_ok (by omega) (by omega), ok_bind]
        exact Within.pure' (by omega)
      · exact Within.pure' (by omega)

/-- the data of a parsed LCP packet is no longer than the input -/
theorem parseLCPPacket_len {data : Bytes} {p : LCPPacket} {m : Nat}
    (h : parseLCPPacket data = .ok (some p, m)) : p.data.length + 4 ≤ data.length ∨ p.data.length = 0 := by
  unfold parseLCPPacket at h
  split at h
  · cases h
  · simp (disch := omega) only [index_ok, be16At_ok, ok_bind] at h
    split at h
    · cases h
    · split at h
      · rename_i h1 h2
        rw [slice_ok (by omega) (by omega), ok_bind] at h
        injection h with h; injection h with h _; injection h with h; subst h
        left; simp; omega
      · injection h with h; injection h with h _; injection h with h; subst h
        right; rfl

theorem parseLCPOptionsLoop_spec (data : Bytes) : ∀ (k off : Nat) (acc : List LCPOption) (n : Nat),
    data.length - off ≤ k → Within (parseLCPOptionsLoop data off acc n) (n + (data.length - off)) := by
  intro k
  induction k with
  | zero =>
    intro off acc n hk
    rw [parseLCPOptionsLoop, dif_neg (by omega)]
    split <;> exact Within.pure' (by omega)
  | succ k ih =>
    intro off acc n hk
    rw [parseLCPOptionsLoop]
    split
    · simp (disch := omega) only [index_ok, ok_bind]
      split
      · exact Within.pure' (by omega)
      · split
        · exact Within.pure' (by omega)
        · split
          · rw [slice_ok (by omega) (by omega), ok_bind]
            exact (ih _ _ _ (by omega)).mono (by omega)
          · rw [pure_eq_ok, ok_bind]
            exact (ih _ _ _ (by omega)).mono (by omega)
    · split <;> exact Within.pure' (by omega)

theorem parseLCPOptions_spec (data : Bytes) : Within (parseLCPOptions data) (data.length + 1) :=
  (parseLCPOptionsLoop_spec data _ 0 [] 1 (Nat.le_refl _)).mono (by omega)

/-! ### teardown.go, keepalive.go -/

theorem parsePADT_spec (data : Bytes) : Within (parsePADT data) (data.length + 2) := by
  unfold parsePADT
  apply Within.bind (parsePPPoEHeader_spec data)
  intro r m hm
  cases r with
  | none => exact Within.pure' (by omega)
  | some hdr =>
    simp only []
    split
    · exact Within.pure' (by omega)
    · split
      · split
        · exact Within.pure' (by omega)
        · rw [slice_ok (by omega) (by omega), ok_bind]
          apply Within.bind (parseTags_spec _)
          intro r2 m2 hm2
          simp only [length_take_drop] at hm2
          cases r2 with
          | none => exact Within.pure' (by omega)
          | some tags => exact Within.pure' (by omega)
      · exact Within.pure' (by omega)

theorem parseEchoPacket_spec (data : Bytes) : Within (parseEchoPacket data) 1 := by
  unfold parseEchoPacket
  split
  · exact Within.pure' (by omega)
  · rw [sliceTo_ok (by omega), ok_bind, be32_ok (by simp; omega), ok_bind]
    split
    · rw [sliceFrom_ok (by omega), ok_bind]
      exact Within.pure' (by omega)
    · exact Within.pure' (by omega)

/-! ### server.go -/

theorem handleDiscovery_spec (svc data : Bytes) : Within (handleDiscovery svc data) (data.length + 2) := by
  unfold handleDiscovery
  split
  · exact Within.pure' (by omega)
  · apply Within.bind (parsePPPoEHeader_spec data)
    intro r m hm
    cases r with
    | none => exact Within.pure' (by omega)
    | some hdr =>
      simp only []
      split
      · exact Within.pure' (by omega)
      · rw [slice_ok (by omega) (by omega), ok_bind]
        apply Within.bind (parseTags_spec _)
        intro r2 m2 hm2
        simp only [length_take_drop] at hm2
        cases r2 with
        | none => exact Within.pure' (by omega)
        | some tags =>
          simp only []
          split
          · exact Within.pure' (by omega)
          · split
            · exact Within.pure' (by omega)
            · split <;> exact Within.pure' (by omega)

theorem srvHandleLCP_spec (s : SrvSession) (data : Bytes) : Within (srvHandleLCP s data) (data.length + 2) := by
  unfold srvHandleLCP
  have hp := parseLCPPacket_spec data
  obtain ⟨r, m, e, hm⟩ := hp
  rw [e, ok_bind]
  cases r with
  | none => exact Within.pure' (by omega)
  | some pkt =>
    have hl := parseLCPPacket_len e
    simp only []
    split
    · apply Within.bind (parseLCPOptions_spec _)
      intro r2 m2 hm2
      cases r2 <;> exact Within.pure' (by omega)
    · repeat (first | exact Within.pure' (by omega) | split)

theorem srvHandlePAP_spec (data : Bytes) : Within (srvHandlePAP data) (data.length + 1) := by
  unfold srvHandlePAP
  split
  · exact Within.pure' (by omega)
  · simp (disch := omega) only [index_ok, ok_bind]
    split
    · exact Within.pure' (by omega)
    · split
      · exact Within.pure' (by omega)
      · simp (disch := omega) only [index_ok, ok_bind]
        split
        · exact Within.pure' (by omega)
        · rw [slice_ok (by omega) (by omega), ok_bind]
          simp (disch := omega) only [index_ok, ok_bind]
          split
          · exact Within.pure' (by omega)
          · rw [slice_ok (by omega) (by omega), ok_bind]
            split <;> first | exact Within.pure' (by omega) | (rw [pure_eq_ok, ok_bind]; exact Within.pure' (by omega))

theorem srvHandleIPCP_spec (authed : Bool) (data : Bytes) : Within (srvHandleIPCP authed data) (data.length + 2) := by
  unfold srvHandleIPCP
  split
  · exact Within.pure' (by omega)
  · have hp := parseLCPPacket_spec data
    obtain ⟨r, m, e, hm⟩ := hp
    rw [e, ok_bind]
    cases r with
    | none => exact Within.pure' (by omega)
    | some pkt =>
      have hl := parseLCPPacket_len e
      simp only []
      split
      · apply Within.bind (parseLCPOptions_spec _)
        intro r2 m2 hm2
        cases r2 <;> exact Within.pure' (by omega)
      · exact Within.pure' (by omega)

theorem handleSession_spec (sess : Option SrvSession) (data : Bytes) :
    Within (handleSession sess data) (data.length + 3) := by
  unfold handleSession
  dsimp only
  split
  · exact Within.pure' (by omega)
  · apply Within.bind (parsePPPoEHeader_spec data)
    intro r m hm
    cases r with
    | none => exact Within.pure' (by omega)
    | some hdr =>
      simp only []
      split
      · exact Within.pure' (by omega)
      · cases sess with
        | none => exact Within.pure' (by omega)
        | some s =>
          simp only []
          split
          · exact Within.pure' (by omega)
          · rw [be16At_ok (by omega), ok_bind, slice_ok (by omega) (by omega), ok_bind]
            split
            · apply Within.bind (srvHandleLCP_spec s _)
              intro r2 m2 hm2
              simp only [length_take_drop] at hm2
              obtain ⟨sent, rm⟩ := r2
              exact Within.pure' (by omega)
            · split
              · apply Within.bind (srvHandlePAP_spec _)
                intro r2 m2 hm2
                simp only [length_take_drop] at hm2
                cases r2 with
                | none => exact Within.pure' (by omega)
                | some ur => obtain ⟨u, rp⟩ := ur; exact Within.pure' (by omega)
              · split
                · apply Within.bind (srvHandleIPCP_spec _ _)
                  intro r2 m2 hm2
                  simp only [length_take_drop] at hm2
                  exact Within.pure' (by omega)
                · exact Within.pure' (by omega)

/-! ### auth.go -/

theorem handlePAPAuthRequest_spec (id : UInt8) (data : Bytes) :
    Within (handlePAPAuthRequest id data) (data.length + 1) := by
  unfold handlePAPAuthRequest
  split
  · exact Within.pure' (by omega)
  · simp (disch := omega) only [index_ok, ok_bind]
    split
    · exact Within.pure' (by omega)
    · rw [slice_ok (by omega) (by omega), ok_bind]
      simp (disch := omega) only [index_ok, ok_bind]
      split
      · exact Within.pure' (by omega)
      · rw [slice_ok (by omega) (by omega), ok_bind]
        split <;> first | exact Within.pure' (by omega) | (rw [pure_eq_ok, ok_bind]; exact Within.pure' (by omega))

theorem receivePAP_spec (data : Bytes) : Within (receivePAP data) (data.length + 2) := by
  unfold receivePAP
  split
  · exact Within.pure' (by omega)
  · simp (disch := omega) only [index_ok, be16At_ok, ok_bind]
    split
    · exact Within.pure' (by omega)
    · split
      · rw [slice_ok (by omega) (by omega), ok_bind]
        apply Within.bind (handlePAPAuthRequest_spec _ _)
        intro r m hm
        simp only [length_take_drop] at hm
        exact Within.pure' (by omega)
      · exact Within.pure' (by omega)

theorem handleCHAPResponse_spec (chapID id : UInt8) (data : Bytes) :
    Within (handleCHAPResponse chapID id data) 1 := by
  unfold handleCHAPResponse
  split
  · exact Within.pure' (by omega)
  · split
    · exact Within.pure' (by omega)
    · simp (disch := omega) only [index_ok, ok_bind]
      split
      · exact Within.pure' (by omega)
      · rw [slice_ok (by omega) (by omega), ok_bind, sliceFrom_ok (by omega), ok_bind]
        exact Within.pure' (by omega)

theorem receiveCHAP_spec (chapID : UInt8) (data : Bytes) : Within (receiveCHAP chapID data) 2 := by
  unfold receiveCHAP
  split
  · exact Within.pure' (by omega)
  · simp (disch := omega) only [index_ok, be16At_ok, ok_bind]
    split
    · exact Within.pure' (by omega)
    · split
      · rw [slice_ok (by omega) (by omega), ok_bind]
        apply Within.bind (handleCHAPResponse_spec _ _ _)
        intro r m hm
        exact Within.pure' (by omega)
      · exact Within.pure' (by omega)

/-! ### lcp.go, ipcp.go, ipv6cp.go -/

theorem lcpProcessOptions_ok : ∀ (opts : List LCPOption) (magic : Option Nat) (c : Cls),
    ∃ c', lcpProcessOptions opts magic c = .ok c' := by
  intro opts
  induction opts with
  | nil => intro magic c; exact ⟨c, rfl⟩
  | cons o rest ih =>
    intro magic c
    unfold lcpProcessOptions
    split
    · split
      · exact ih _ _
      · rw [be16_ok (by omega), ok_bind]
        split
        · exact ih _ _
        · split <;> exact ih _ _
    · split
      · split
        · exact ih _ _
        · rw [be16_ok (by omega), ok_bind]
          exact ih _ _
      · split
        · split
          · exact ih _ _
          · rw [be32_ok (by omega), ok_bind]
            split
            · exact ih _ _
            · split <;> exact ih _ _
        · split
          · split <;> exact ih _ _
          · exact ih _ _

theorem lcpNakOptions_ok : ∀ (opts : List LCPOption), lcpNakOptions opts = .ok () := by
  intro opts
  induction opts with
  | nil => rfl
  | cons o rest ih =>
    unfold lcpNakOptions
    split
    · split
      · rw [be16_ok (by omega)]; simpa using ih
      · simpa using ih
    · split
      · split
        · rw [be16_ok (by omega), ok_bind]
          split
          · rename_i h
            rw [index_ok (by omega)]; simpa using ih
          · simpa using ih
        · simpa using ih
      · split
        · split <;> simpa using ih
        · simpa using ih

theorem parseLCPOptionsLoop_count (data : Bytes) : ∀ (k off : Nat) (acc : List LCPOption) (n : Nat)
    (opts : List LCPOption) (m : Nat),
    data.length - off ≤ k → parseLCPOptionsLoop data off acc n = .ok (some opts, m) →
    opts.length + n ≤ acc.length + m := by
  intro k
  induction k with
  | zero =>
    intro off acc n opts m hk h
    rw [parseLCPOptionsLoop, dif_neg (by omega)] at h
    split at h
    · cases h
    · injection h with h; injection h with h1 h2; injection h1 with h1
      subst h1; subst h2; simp
  | succ k ih =>
    intro off acc n opts m hk h
    rw [parseLCPOptionsLoop] at h
    split at h
    · simp (disch := omega) only [index_ok, ok_bind] at h
      split at h
      · cases h
      · split at h
        · cases h
        · split at h
          · rw [slice_ok (by omega) (by omega), ok_bind] at h
            have := ih _ _ _ _ _ (by omega) h
            simp at this; omega
          · rw [pure_eq_ok, ok_bind] at h
            have := ih _ _ _ _ _ (by omega) h
            simp at this; omega
    · split at h
      · cases h
      · injection h with h; injection h with h1 h2; injection h1 with h1
        subst h1; subst h2; simp

/-- the number of parsed options is bounded by the steps taken -/
theorem parseLCPOptions_count {data : Bytes} {opts : List LCPOption} {m : Nat}
    (h : parseLCPOptions data = .ok (some opts, m)) : opts.length + 1 ≤ m := by
  have := parseLCPOptionsLoop_count data _ 0 [] 1 opts m (Nat.le_refl _) h
  simpa using this

theorem lcpRecvConfReq_spec (magic : Nat) (pkt : LCPPacket) :
    Within (lcpRecvConfReq magic pkt) (2 * pkt.data.length + 1) := by
  unfold lcpRecvConfReq
  obtain ⟨r2, m2, e2, hm2⟩ := parseLCPOptions_spec pkt.data
  rw [e2, ok_bind]
  cases r2 with
  | none => exact Within.pure' (by omega)
  | some opts =>
    have hc := parseLCPOptions_count e2
    obtain ⟨c', ec⟩ := lcpProcessOptions_ok opts (some magic) {}
    simp only [ec, ok_bind]
    exact Within.pure' (by omega)

theorem lcpRecvConfNak_spec (st : CpState) (pkt : LCPPacket) :
    Within (lcpRecvConfNak st pkt) (2 * pkt.data.length + 1) := by
  unfold lcpRecvConfNak
  split
  · exact Within.pure' (by omega)
  · obtain ⟨r2, m2, e2, hm2⟩ := parseLCPOptions_spec pkt.data
    rw [e2, ok_bind]
    cases r2 with
    | none => exact Within.pure' (by omega)
    | some opts =>
      have hc := parseLCPOptions_count e2
      simp only [lcpNakOptions_ok, ok_bind]
      exact Within.pure' (by omega)

theorem lcpRecvConfRej_spec (st : CpState) (pkt : LCPPacket) :
    Within (lcpRecvConfRej st pkt) (2 * pkt.data.length + 1) := by
  unfold lcpRecvConfRej
  split
  · exact Within.pure' (by omega)
  · obtain ⟨r2, m2, e2, hm2⟩ := parseLCPOptions_spec pkt.data
    rw [e2, ok_bind]
    cases r2 with
    | none => exact Within.pure' (by omega)
    | some opts =>
      have hc := parseLCPOptions_count e2
      exact Within.pure' (by omega)

theorem lcpRecvCodeRej_spec (st : CpState) (pkt : LCPPacket) : Within (lcpRecvCodeRej st pkt) 1 := by
  unfold lcpRecvCodeRej
  split
  · rw [index_ok (by omega), ok_bind]
    split <;> exact Within.pure' (by omega)
  · exact Within.pure' (by omega)

theorem lcpRecvProtoRej_spec (st : CpState) (pkt : LCPPacket) : Within (lcpRecvProtoRej st pkt) 1 := by
  unfold lcpRecvProtoRej
  split
  · exact Within.pure' (by omega)
  · rw [sliceTo_ok (by omega), ok_bind, be16_ok (by simp; omega), ok_bind]
    split <;> exact Within.pure' (by omega)

theorem lcpRecvEchoReq_spec (st : CpState) (magic : Nat) (pkt : LCPPacket) :
    Within (lcpRecvEchoReq st magic pkt) 1 := by
  unfold lcpRecvEchoReq
  split
  · exact Within.pure' (by omega)
  · split
    · exact Within.pure' (by omega)
    · dsimp only
      rw [sliceTo_ok (by simp; omega), ok_bind]
      split
      · rw [sliceFrom_ok (by omega), ok_bind]
        exact Within.pure' (by omega)
      · rw [pure_eq_ok, ok_bind]
        exact Within.pure' (by omega)

theorem lcpDispatch_spec (st : CpState) (magic : Nat) (pkt : LCPPacket) :
    Within (lcpDispatch st magic pkt) (2 * pkt.data.length + 1) := by
  unfold lcpDispatch
  split
  · exact lcpRecvConfReq_spec _ _
  · split
    · exact Within.pure' (by omega)
    · split
      · exact lcpRecvConfNak_spec _ _
      · split
        · exact lcpRecvConfRej_spec _ _
        · split
          · exact Within.pure' (by omega)
          · split
            · exact (lcpRecvCodeRej_spec _ _).mono (by omega)
            · split
              · exact (lcpRecvProtoRej_spec _ _).mono (by omega)
              · split
                · exact (lcpRecvEchoReq_spec _ _ _).mono (by omega)
                · split <;> exact Within.pure' (by omega)

theorem lcpReceive_spec (st : CpState) (magic : Nat) (data : Bytes) :
    Within (lcpReceive st magic data) (2 * data.length + 2) := by
  unfold lcpReceive
  obtain ⟨r, m, e, hm⟩ := parseLCPPacket_spec data
  rw [e, ok_bind]
  cases r with
  | none => exact Within.pure' (by omega)
  | some pkt =>
    have hl := parseLCPPacket_len e
    apply Within.bind (lcpDispatch_spec st magic pkt)
    intro r2 m2 hm2
    exact Within.pure' (by omega)

theorem ipcpReceive_spec (cfg : IpcpCfg) (st : CpState) (data : Bytes) :
    Within (ipcpReceive cfg st data) (2 * data.length + 2) := by
  unfold ipcpReceive
  obtain ⟨r, m, e, hm⟩ := parseLCPPacket_spec data
  rw [e, ok_bind]
  cases r with
  | none => exact Within.pure' (by omega)
  | some pkt =>
    have hl := parseLCPPacket_len e
    obtain ⟨r2, m2, e2, hm2⟩ := parseLCPOptions_spec pkt.data
    dsimp only
    split
    · rw [e2, ok_bind]
      cases r2 with
      | none => exact Within.pure' (by omega)
      | some opts =>
        have hc := parseLCPOptions_count e2
        exact Within.pure' (by omega)
    · split
      · split
        · exact Within.pure' (by omega)
        · rw [e2, ok_bind]
          cases r2 with
          | none => exact Within.pure' (by omega)
          | some opts =>
            have hc := parseLCPOptions_count e2
            exact Within.pure' (by omega)
      · split
        · split
          · exact Within.pure' (by omega)
          · rw [e2, ok_bind]
            exact Within.pure' (by omega)
        · exact Within.pure' (by omega)

theorem ipv6cpProcessOptions_ok : ∀ (opts : List LCPOption) (l : Option Nat) (c : Cls),
    ∃ c', ipv6cpProcessOptions opts l c = .ok c' := by
  intro opts
  induction opts with
  | nil => intro l c; exact ⟨c, rfl⟩
  | cons o rest ih =>
    intro l c
    unfold ipv6cpProcessOptions
    split
    · split
      · exact ih _ _
      · rw [be64_ok (by omega), ok_bind]
        split
        · exact ih _ _
        · split <;> exact ih _ _
    · exact ih _ _

theorem ipv6cpNakOptions_ok : ∀ (opts : List LCPOption), ipv6cpNakOptions opts = .ok () := by
  intro opts
  induction opts with
  | nil => rfl
  | cons o rest ih =>
    unfold ipv6cpNakOptions
    split
    · rename_i h
      rw [be64_ok (by omega)]; simpa using ih
    · simpa using ih

theorem ipv6cpReceive_spec (localID : Nat) (st : CpState) (data : Bytes) :
    Within (ipv6cpReceive localID st data) (2 * data.length + 2) := by
  unfold ipv6cpReceive
  obtain ⟨r, m, e, hm⟩ := parseLCPPacket_spec data
  rw [e, ok_bind]
  cases r with
  | none => exact Within.pure' (by omega)
  | some pkt =>
    have hl := parseLCPPacket_len e
    obtain ⟨r2, m2, e2, hm2⟩ := parseLCPOptions_spec pkt.data
    dsimp only
    split
    · rw [e2, ok_bind]
      cases r2 with
      | none => exact Within.pure' (by omega)
      | some opts =>
        have hc := parseLCPOptions_count e2
        obtain ⟨c', ec⟩ := ipv6cpProcessOptions_ok opts (some localID) {}
        simp only [ec, ok_bind]
        exact Within.pure' (by omega)
    · split
      · split
        · exact Within.pure' (by omega)
        · rw [e2, ok_bind]
          cases r2 with
          | none => exact Within.pure' (by omega)
          | some opts =>
            have hc := parseLCPOptions_count e2
            simp only [ipv6cpNakOptions_ok, ok_bind]
            exact Within.pure' (by omega)
      · exact Within.pure' (by omega)

/-! ### dhcp parseOption82, ztp parseVendorOptions -/

theorem parseOption82Loop_spec (opt : Bytes) : ∀ (k off : Nat) (info : RelayInfo) (n : Nat),
    opt.length - off ≤ k → Within (parseOption82Loop opt off info n) (n + (opt.length - off)) := by
  intro k
  induction k with
  | zero =>
    intro off info n hk
    rw [parseOption82Loop, dif_neg (by omega)]
    exact Within.pure' (by omega)
  | succ k ih =>
    intro off info n hk
    rw [parseOption82Loop]
    split
    · split
      · exact Within.pure' (by omega)
      · simp (disch := omega) only [index_ok, ok_bind]
        split
        · exact Within.pure' (by omega)
        · rw [slice_ok (by omega) (by omega), ok_bind]
          exact (ih _ _ _ (by omega)).mono (by omega)
    · exact Within.pure' (by omega)

theorem parseOption82_spec (opt : Bytes) : Within (parseOption82 opt) (opt.length + 1) := by
  unfold parseOption82
  split
  · exact Within.pure' (by omega)
  · apply Within.bind (parseOption82Loop_spec opt _ 0 {} 1 (Nat.le_refl _))
    intro r m hm
    exact Within.pure' (by omega)

theorem parseVendorOptionsLoop_spec (data : Bytes) : ∀ (k i n : Nat),
    data.length - i ≤ k → Within (parseVendorOptionsLoop data i n) (n + (data.length - i)) := by
  intro k
  induction k with
  | zero =>
    intro i n hk
    rw [parseVendorOptionsLoop, dif_neg (by omega)]
    exact Within.pure' (by omega)
  | succ k ih =>
    intro i n hk
    rw [parseVendorOptionsLoop]
    split
    · simp (disch := omega) only [index_ok, ok_bind]
      split
      · exact Within.pure' (by omega)
      · split
        · rw [slice_ok (by omega) (by omega), ok_bind]
          exact Within.pure' (by omega)
        · exact (ih _ _ (by omega)).mono (by omega)
    · exact Within.pure' (by omega)

theorem parseVendorOptions_spec (data : Bytes) : Within (parseVendorOptions data) (data.length + 1) :=
  (parseVendorOptionsLoop_spec data _ 0 1 (Nat.le_refl _)).mono (by omega)

/-! ### dhcpv6/protocol.go -/

theorem parseV6OptionsLoop_spec (data : Bytes) : ∀ (k off : Nat) (acc : List V6Option) (n : Nat),
    data.length - off ≤ k → Within (parseV6OptionsLoop data off acc n) (n + (data.length - off)) := by
  intro k
  induction k with
  | zero =>
    intro off acc n hk
    rw [parseV6OptionsLoop, dif_neg (by omega)]
    exact Within.pure' (by omega)
  | succ k ih =>
    intro off acc n hk
    rw [parseV6OptionsLoop]
    split
    · simp (disch := omega) only [be16At_ok, ok_bind]
      split
      · exact Within.pure' (by omega)
      · rw [slice_ok (by omega) (by omega), ok_bind]
        exact (ih _ _ _ (by omega)).mono (by omega)
    · exact Within.pure' (by omega)

theorem parseV6Options_spec (data : Bytes) : Within (parseV6Options data) (data.length + 1) :=
  (parseV6OptionsLoop_spec data _ 0 [] 1 (Nat.le_refl _)).mono (by omega)

theorem parseV6Message_spec (data : Bytes) : Within (parseV6Message data) (data.length + 2) := by
  unfold parseV6Message
  split
  · exact Within.pure' (by omega)
  · rw [index_ok (by omega), ok_bind, slice_ok (by omega) (by omega), ok_bind,
      sliceFrom_ok (by omega), ok_bind]
    apply Within.bind (parseV6Options_spec _)
    intro r m hm
    simp only [List.length_drop] at hm
    cases r <;> exact Within.pure' (by omega)

theorem parseDUID_spec (data : Bytes) : Within (parseDUID data) 1 := by
  unfold parseDUID
  split
  · exact Within.pure' (by omega)
  · rw [be16At_ok (by omega), ok_bind, sliceFrom_ok (by omega), ok_bind]
    exact Within.pure' (by omega)

theorem parseIA_spec (data : Bytes) : Within (parseIA data) (data.length + 2) := by
  unfold parseIA
  split
  · exact Within.pure' (by omega)
  · simp (disch := omega) only [be32At_ok, ok_bind]
    split
    · rw [sliceFrom_ok (by omega), ok_bind]
      apply Within.bind (parseV6Options_spec _)
      intro r m hm
      simp only [List.length_drop] at hm
      cases r <;> exact Within.pure' (by omega)
    · exact Within.pure' (by omega)

theorem parseIAAddress_spec (data : Bytes) : Within (parseIAAddress data) (data.length + 2) := by
  unfold parseIAAddress
  split
  · exact Within.pure' (by omega)
  · rw [slice_ok (by omega) (by omega), ok_bind]
    simp (disch := omega) only [be32At_ok, ok_bind]
    split
    · rw [sliceFrom_ok (by omega), ok_bind]
      apply Within.bind (parseV6Options_spec _)
      intro r m hm
      simp only [List.length_drop] at hm
      cases r <;> exact Within.pure' (by omega)
    · exact Within.pure' (by omega)

theorem parseIAPrefix_spec (data : Bytes) : Within (parseIAPrefix data) (data.length + 2) := by
  unfold parseIAPrefix
  split
  · exact Within.pure' (by omega)
  · simp (disch := omega) only [be32At_ok, index_ok, ok_bind]
    rw [slice_ok (by omega) (by omega), ok_bind]
    split
    · rw [sliceFrom_ok (by omega), ok_bind]
      apply Within.bind (parseV6Options_spec _)
      intro r m hm
      simp only [List.length_drop] at hm
      cases r <;> exact Within.pure' (by omega)
    · exact Within.pure' (by omega)

/-! ### ha/sync.go connectToStream -/

theorem readLine_shape : ∀ (bs acc : Bytes) {line rest : Bytes},
    readLine bs acc = some (line, rest) → ∃ mid, line = acc.reverse ++ mid ++ [10] := by
  intro bs
  induction bs with
  | nil => intro acc line rest h; simp [readLine] at h
  | cons b t ih =>
    intro acc line rest h
    unfold readLine at h
    split at h
    · rename_i hb
      injection h with h; injection h with h1 h2
      subst h1; subst hb
      exact ⟨[], by simp⟩
    · obtain ⟨mid, hm⟩ := ih (b :: acc) h
      exact ⟨b :: mid, by simp [hm]⟩

/-- a line that starts with "data: " and ends with the newline has at least 7 bytes -/
theorem data_line_len {line rest bs : Bytes} (h : readLine bs [] = some (line, rest))
    (hp : line.take 6 = dataPrefix) : 7 ≤ line.length := by
  obtain ⟨mid, hm⟩ := readLine_shape bs [] h
  simp at hm
  by_cases hl : 7 ≤ line.length
  · exact hl
  · exfalso
    have h6 : line.length ≤ 6 := by omega
    rw [List.take_of_length_le h6] at hp
    rw [hp] at hm
    have : dataPrefix.getLast? = (mid ++ [10]).getLast? := by rw [hm]
    simp [dataPrefix] at this

theorem haStream_spec : ∀ (k : Nat) (bs : Bytes) (acc : List Bytes) (n : Nat),
    bs.length ≤ k → Within (haStream bs acc n) (n + bs.length + 1) := by
  intro k
  induction k with
  | zero =>
    intro bs acc n hk
    have : bs = [] := List.eq_nil_of_length_eq_zero (by omega)
    subst this
    rw [haStream]
    simp [readLine]
    exact Within.pure' (by omega)
  | succ k ih =>
    intro bs acc n hk
    rw [haStream]
    split
    · exact Within.pure' (by omega)
    · rename_i line rest h
      have hlt := readLine_rest_lt h
      split
      · rename_i hp
        have h7 := data_line_len h hp
        rw [slice_ok (by omega) (by omega), ok_bind]
        exact (ih rest _ _ (by omega)).mono (by omega)
      · exact (ih rest _ _ (by omega)).mono (by omega)

/-! ### session.go CreateSession : the id search terminates -/

/-- pigeonhole: a duplicate-free list all of whose members lie in `keys` is no longer than `keys` -/
theorem nodup_subset_length : ∀ (l keys : List Nat), l.Nodup → (∀ x ∈ l, x ∈ keys) → l.length ≤ keys.length := by
  intro l
  induction l with
  | nil => intro keys _ _; simp
  | cons x l ih =>
    intro keys hnd hsub
    have hx : x ∈ keys := hsub x (by simp)
    have hnd' := List.nodup_cons.mp hnd
    have h1 := ih (keys.erase x) hnd'.2 (by
      intro y hy
      have hyx : y ≠ x := by
        intro e; subst e; exact hnd'.1 hy
      exact (List.mem_erase_of_ne hyx).mpr (hsub y (by simp [hy])))
    have h2 := List.length_erase_of_mem hx
    have h3 : 0 < keys.length := List.length_pos_of_mem hx
    simp only [List.length_cons]
    omega

/-- fewer than 65535 sessions ⇒ some id in 1..65535 is free -/
theorem exists_free_id (keys : List Nat) (hlen : keys.length < 65535) :
    ∃ f, 1 ≤ f ∧ f ≤ 65535 ∧ keys.contains f = false := by
  by_cases h : ∃ f, 1 ≤ f ∧ f ≤ 65535 ∧ keys.contains f = false
  · exact h
  · exfalso
    have hall : ∀ x ∈ List.range' 1 65535, x ∈ keys := by
      intro x hx
      rw [List.mem_range'_1] at hx
      by_cases hc : keys.contains x = true
      · simpa using hc
      · exact absurd ⟨x, by omega, by omega, by simpa using hc⟩ h
    have hnd : (List.range' 1 65535).Nodup := List.nodup_range' 1
    have := nodup_subset_length _ keys hnd hall
    rw [List.length_range'] at this
    omega

theorem idSearch_finds (used : Nat → Bool) (f : Nat) (hf1 : 1 ≤ f) (hf2 : f ≤ 65535) (hfree : used f = false) :
    ∀ (d fuel next n : Nat), d < fuel → 1 ≤ next → next ≤ 65535 →
      (next ≤ f ∧ f - next = d ∨ next > f ∧ f + 65535 - next = d) →
      ∃ id m, idSearch used fuel next n = some (id, m) ∧ m ≤ n + d + 1 ∧ used id = false ∧ 1 ≤ id ∧ id ≤ 65535 := by
  intro d
  induction d with
  | zero =>
    intro fuel next n hfuel h1 h2 hd
    have : next = f := by omega
    subst this
    cases fuel with
    | zero => omega
    | succ fuel =>
      unfold idSearch
      rw [if_pos hfree]
      exact ⟨next, n + 1, rfl, by omega, hfree, h1, h2⟩
  | succ d ih =>
    intro fuel next n hfuel h1 h2 hd
    cases fuel with
    | zero => omega
    | succ fuel =>
      unfold idSearch
      by_cases hu : used next = false
      · rw [if_pos hu]
        exact ⟨next, n + 1, rfl, by omega, hu, h1, h2⟩
      · rw [if_neg hu]
        dsimp only
        by_cases h65 : next = 65535
        · subst h65
          have e : (if (65535 + 1) % 65536 = 0 then 1 else (65535 + 1) % 65536) = 1 := by decide
          rw [e]
          obtain ⟨id, m, he, hm, hr⟩ := ih fuel 1 (n + 1) (by omega) (by omega) (by omega) (by omega)
          exact ⟨id, m, he, by omega, hr⟩
        · have e : (if (next + 1) % 65536 = 0 then 1 else (next + 1) % 65536) = next + 1 := by
            have : (next + 1) % 65536 = next + 1 := Nat.mod_eq_of_lt (by omega)
            rw [this, if_neg (by omega)]
          rw [e]
          obtain ⟨id, m, he, hm, hr⟩ := ih fuel (next + 1) (n + 1) (by omega) (by omega) (by omega) (by omega)
          exact ⟨id, m, he, by omega, hr⟩

/-- `CreateSession` never spins: with the guard, the search ends within 65535 iterations and hands out
    a free id in 1..65535 -/
theorem createSession_spec (keys : List Nat) (next : Nat) (hn : next < 65536) :
    (createSession (fun i => keys.contains i) keys.length next).2 ≤ 65536 ∧
    ((createSession (fun i => keys.contains i) keys.length next).1 = .full ∧ 65535 ≤ keys.length ∨
     ∃ id nx, (createSession (fun i => keys.contains i) keys.length next).1 = .got id nx ∧
       keys.contains id = false ∧ 1 ≤ id ∧ id ≤ 65535) := by
  unfold createSession
  by_cases hfull : keys.length ≥ 65535
  · rw [if_pos hfull]
    exact ⟨by decide, Or.inl ⟨rfl, hfull⟩⟩
  · rw [if_neg hfull]
    obtain ⟨f, hf1, hf2, hfree⟩ := exists_free_id keys (by omega)
    dsimp only
    have hnext1 : 1 ≤ (if next = 0 then 1 else next) := by split <;> omega
    have hnext2 : (if next = 0 then 1 else next) ≤ 65535 := by split <;> omega
    generalize (if next = 0 then 1 else next) = nx at hnext1 hnext2
    by_cases hle : nx ≤ f
    · obtain ⟨id, m, he, hm, hu, hi1, hi2⟩ := idSearch_finds (fun i => keys.contains i) f hf1 hf2 hfree
        (f - nx) 65536 nx 0 (by omega) hnext1 hnext2 (Or.inl ⟨hle, rfl⟩)
      rw [he]
      exact ⟨by dsimp only; omega, Or.inr ⟨id, _, rfl, hu, hi1, hi2⟩⟩
    · obtain ⟨id, m, he, hm, hu, hi1, hi2⟩ := idSearch_finds (fun i => keys.contains i) f hf1 hf2 hfree
        (f + 65535 - nx) 65536 nx 0 (by omega) hnext1 hnext2 (Or.inr ⟨by omega, rfl⟩)
      rw [he]
      exact ⟨by dsimp only; omega, Or.inr ⟨id, _, rfl, hu, hi1, hi2⟩⟩
