import Bng.Model.Index
/-
  Invariants of the generic "primary map + secondary indexes" model (Bng.Index) and their preservation.

  * `Fresh`       every live primary id is below the id counter          — every flavour, every history
  * `KInv s v`    the entry of key `v` in index `s` and the live primaries carrying `(s, v)` agree in both directions
                  — submgr slot 0, every key, every history; every flavour, slot and key along histories that are
                  clean FOR THAT KEY (`OnePerKeyAt c s v`, `NoRekeyAt c s v`), whatever happens to other keys
  * `FwdS true`   every live primary's key resolves back to it           — memstore, histories whose loads are
                                                                           address-injective (`LoadsInj`)
-/
namespace Bng.Index
open Bng AMap

/-! ### index primitives -/

theorem lookup_idxPut (i : AMap Nat Nat) (k : Option Nat) (id v : Nat) :
    AMap.lookup (idxPut i k id) v = if k = some v then some id else AMap.lookup i v := by
  cases k with
  | none => simp [idxPut]
  | some w =>
    simp only [idxPut, lookup_insert, Option.some.injEq]
    by_cases e : v = w
    · subst e; simp
    · have : ¬ w = v := fun x => e x.symm
      simp [e, this]

theorem lookup_idxDrop (cond : Bool) (i : AMap Nat Nat) (k : Option Nat) (id v : Nat) :
    AMap.lookup (idxDrop cond i k id) v =
      if k = some v ∧ (cond = false ∨ AMap.lookup i v = some id) then none else AMap.lookup i v := by
  cases k with
  | none => simp [idxDrop]
  | some w =>
    simp only [idxDrop, Option.some.injEq]
    by_cases e : w = v
    · subst e
      cases cond with
      | false => simp
      | true =>
        by_cases h : AMap.lookup i w = some id
        · simp [h]
        · simp [h]
    · have e' : ¬ v = w := fun x => e x.symm
      split
      · simp [e]
      · simp [e, lookup_erase, e']

theorem lookup_reindexSlot (cond : Bool) (i : AMap Nat Nat) (old k : Option Nat) (id v : Nat) :
    AMap.lookup (reindexSlot cond i old k id) v =
      if k = some v then some id
      else if old = k then AMap.lookup i v
      else if old = some v ∧ (cond = false ∨ AMap.lookup i v = some id) then none else AMap.lookup i v := by
  unfold reindexSlot
  rw [lookup_idxPut]
  by_cases h1 : k = some v
  · simp [h1]
  · simp only [h1, if_false]
    by_cases h2 : old = k
    · simp [h2]
    · simp only [h2, if_false]
      rw [lookup_idxDrop]

/-! ### the invariants -/

/-- every live primary id is below the id counter (a generated id never names a live primary) -/
def Fresh (st : State) : Prop := ∀ id r, AMap.lookup st.prim id = some r → id < st.next

/-- key `v` of index `s`: every live primary carrying `(s, v)` is what the index entry resolves to, and the index
    entry (if any) points to a live primary carrying `(s, v)` -/
structure KInv (s : Bool) (v : Nat) (st : State) : Prop where
  fwd : ∀ id r, AMap.lookup st.prim id = some r → r.key s = some v → AMap.lookup (st.idx s) v = some id
  bwd : ∀ id, AMap.lookup (st.idx s) v = some id → ∃ r, AMap.lookup st.prim id = some r ∧ r.key s = some v

/-- every live primary's key in slot `s` resolves back to it -/
def FwdS (s : Bool) (st : State) : Prop :=
  ∀ id r v, AMap.lookup st.prim id = some r → r.key s = some v → AMap.lookup (st.idx s) v = some id

theorem kinv_empty (s : Bool) (v n : Nat) : KInv s v { next := n } := by
  constructor
  · intro id r h; simp at h
  · intro id h; cases s <;> simp [State.idx] at h

theorem kinv_init (s : Bool) (v : Nat) : KInv s v init := kinv_empty s v 1

theorem fresh_init : Fresh init := fun id r h => by simp [init] at h

/-- two live primaries carrying `(s, v)` are the same primary -/
theorem KInv.unique {s : Bool} {v : Nat} {st : State} (hK : KInv s v st) {id id' : Nat} {r r' : Rec}
    (h : AMap.lookup st.prim id = some r) (hk : r.key s = some v)
    (h' : AMap.lookup st.prim id' = some r') (hk' : r'.key s = some v) : id' = id := by
  have a := hK.fwd id r h hk
  have b := hK.fwd id' r' h' hk'
  rw [a] at b
  simpa using b.symm

/-- "put": primary `nid` gets record `nr`; the entry of `v` becomes `nid` if `nr` carries `(s, v)`, else is unchanged -/
theorem kinv_put {s : Bool} {v : Nat} {st st' : State} (hK : KInv s v st) (nid : Nat) (nr : Rec)
    (hprim : ∀ id, AMap.lookup st'.prim id = if id = nid then some nr else AMap.lookup st.prim id)
    (hidx : AMap.lookup (st'.idx s) v = if nr.key s = some v then some nid else AMap.lookup (st.idx s) v)
    (hlive : ∀ r, AMap.lookup st.prim nid = some r → r.key s = some v → nr.key s = some v)
    (hother : nr.key s = some v → ∀ id' r', AMap.lookup st.prim id' = some r' → r'.key s = some v → id' = nid) :
    KInv s v st' := by
  constructor
  · intro id r hp hk
    rw [hprim] at hp
    rw [hidx]
    by_cases e : id = nid
    · subst e
      simp only [if_true, Option.some.injEq] at hp
      subst hp
      simp [hk]
    · simp only [e, if_false] at hp
      by_cases hk' : nr.key s = some v
      · exact absurd (hother hk' id r hp hk) e
      · simp only [hk', if_false]
        exact hK.fwd id r hp hk
  · intro x hx
    rw [hidx] at hx
    by_cases hk' : nr.key s = some v
    · simp only [hk', if_true, Option.some.injEq] at hx
      subst hx
      exact ⟨nr, by rw [hprim]; simp, hk'⟩
    · simp only [hk', if_false] at hx
      obtain ⟨r', hr', hkr'⟩ := hK.bwd x hx
      by_cases e : x = nid
      · subst e
        exact absurd (hlive r' hr' hkr') hk'
      · exact ⟨r', by rw [hprim]; simp [e, hr'], hkr'⟩

/-- delete of the live primary `k` (record `rk`): index `s` loses `rk`'s key (by value, or conditionally) -/
theorem kinv_delete {s : Bool} {v : Nat} {st st' : State} (hK : KInv s v st) (k : Nat) (rk : Rec) (cond : Bool)
    (hk : AMap.lookup st.prim k = some rk)
    (hprim : ∀ id, AMap.lookup st'.prim id = if id = k then none else AMap.lookup st.prim id)
    (hidx : AMap.lookup (st'.idx s) v = AMap.lookup (idxDrop cond (st.idx s) (rk.key s) k) v) :
    KInv s v st' := by
  constructor
  · intro id r hp hkey
    rw [hprim] at hp
    by_cases e : id = k
    · simp [e] at hp
    · simp only [e, if_false] at hp
      have h1 := hK.fwd id r hp hkey
      rw [hidx, lookup_idxDrop]
      by_cases h2 : rk.key s = some v
      · exact absurd (hK.unique hk h2 hp hkey) e
      · simp [h2, h1]
  · intro x hx
    rw [hidx, lookup_idxDrop] at hx
    by_cases h2 : rk.key s = some v ∧ (cond = false ∨ AMap.lookup (st.idx s) v = some k)
    · simp [h2] at hx
    · simp only [h2, if_false] at hx
      obtain ⟨r', hr', hkr'⟩ := hK.bwd x hx
      by_cases e : x = k
      · subst e
        rw [hk] at hr'
        simp only [Option.some.injEq] at hr'
        subst hr'
        exact absurd ⟨hkr', Or.inr hx⟩ h2
      · exact ⟨r', by rw [hprim]; simp [e, hr'], hkr'⟩

/-- `Upd.reindex`: primary `k` (old record `old`) gets record `nr`; the entry of a changed old key is dropped -/
theorem kinv_reindex {s : Bool} {v : Nat} {st st' : State} (hK : KInv s v st) (k : Nat) (old nr : Rec) (cond : Bool)
    (hk : AMap.lookup st.prim k = some old)
    (hprim : ∀ id, AMap.lookup st'.prim id = if id = k then some nr else AMap.lookup st.prim id)
    (hidx : AMap.lookup (st'.idx s) v =
      AMap.lookup (reindexSlot cond (st.idx s) (old.key s) (nr.key s) k) v)
    (hother : nr.key s = some v → ∀ id' r', AMap.lookup st.prim id' = some r' → r'.key s = some v → id' = k) :
    KInv s v st' := by
  constructor
  · intro id r hp hkey
    rw [hprim] at hp
    rw [hidx, lookup_reindexSlot]
    by_cases e : id = k
    · subst e
      simp only [if_true, Option.some.injEq] at hp
      subst hp
      simp [hkey]
    · simp only [e, if_false] at hp
      have h1 := hK.fwd id r hp hkey
      by_cases h2 : nr.key s = some v
      · exact absurd (hother h2 id r hp hkey) e
      · simp only [h2, if_false]
        by_cases h3 : old.key s = nr.key s
        · simp [h3, h1]
        · simp only [h3, if_false]
          by_cases h4 : old.key s = some v
          · exact absurd (hK.unique hk h4 hp hkey) e
          · simp [h4, h1]
  · intro x hx
    rw [hidx, lookup_reindexSlot] at hx
    by_cases h2 : nr.key s = some v
    · simp only [h2, if_true, Option.some.injEq] at hx
      subst hx
      exact ⟨nr, by rw [hprim]; simp, h2⟩
    · simp only [h2, if_false] at hx
      by_cases h3 : old.key s = nr.key s
      · simp only [h3, if_true] at hx
        obtain ⟨r', hr', hkr'⟩ := hK.bwd x hx
        by_cases e : x = k
        · subst e
          rw [hk] at hr'
          simp only [Option.some.injEq] at hr'
          subst hr'
          rw [h3] at hkr'
          exact absurd hkr' h2
        · exact ⟨r', by rw [hprim]; simp [e, hr'], hkr'⟩
      · simp only [h3, if_false] at hx
        by_cases h4 : old.key s = some v ∧ (cond = false ∨ AMap.lookup (st.idx s) v = some k)
        · simp [h4] at hx
        · simp only [h4, if_false] at hx
          obtain ⟨r', hr', hkr'⟩ := hK.bwd x hx
          by_cases e : x = k
          · subst e
            rw [hk] at hr'
            simp only [Option.some.injEq] at hr'
            subst hr'
            exact absurd ⟨hkr', Or.inr hx⟩ h4
          · exact ⟨r', by rw [hprim]; simp [e, hr'], hkr'⟩

/-! ### the state after `putRaw` / `create` / `load`, as lookups -/

theorem putRaw_prim (st : State) (e : Nat × Rec) (id : Nat) :
    AMap.lookup (putRaw st e).prim id = if id = e.1 then some e.2 else AMap.lookup st.prim id := by
  simp [putRaw, lookup_insert]

theorem putRaw_idx (st : State) (e : Nat × Rec) (s : Bool) (v : Nat) :
    AMap.lookup ((putRaw st e).idx s) v = if e.2.key s = some v then some e.1 else AMap.lookup (st.idx s) v := by
  cases s
  · show AMap.lookup (idxPut st.i0 e.2.k0 e.1) v = _
    rw [lookup_idxPut]; rfl
  · show AMap.lookup (idxPut st.i1 e.2.k1 e.1) v = _
    rw [lookup_idxPut]; rfl

theorem putRaw_next (st : State) (e : Nat × Rec) : st.next ≤ (putRaw st e).next ∧ e.1 < (putRaw st e).next := by
  simp only [putRaw]
  split <;> omega

theorem create_state {c : Cfg} {st : State} {id? : Option Nat} {k0 k1 : Option Nat}
    (hb : (dupBlocks c.dup0 st.i0 k0 id? || dupBlocks c.dup1 st.i1 k1 id?) = false) :
    (create c st id? k0 k1).1 = putRaw st (id?.getD st.next, ⟨k0, k1⟩) := by
  unfold create
  simp [hb]

theorem create_blocked {c : Cfg} {st : State} {id? : Option Nat} {k0 k1 : Option Nat}
    (hb : (dupBlocks c.dup0 st.i0 k0 id? || dupBlocks c.dup1 st.i1 k1 id?) = true) :
    (create c st id? k0 k1).1 = st := by
  unfold create
  simp [hb]

/-! ### Fresh: every flavour, every history -/

theorem fresh_putRaw {st : State} (hF : Fresh st) (e : Nat × Rec) : Fresh (putRaw st e) := by
  intro x rx hx
  rw [putRaw_prim] at hx
  have hn := putRaw_next st e
  by_cases h : x = e.1
  · rw [h]; exact hn.2
  · simp only [h, if_false] at hx
    exact Nat.lt_of_lt_of_le (hF x rx hx) hn.1

theorem fresh_puts {st : State} (hF : Fresh st) (l : List (Nat × Rec)) : Fresh (l.foldl putRaw st) := by
  induction l generalizing st with
  | nil => exact hF
  | cons e rest ih => exact ih (fresh_putRaw hF e)

theorem fresh_insert_live {st : State} (hF : Fresh st) {id : Nat} {r : Rec} (nr : Rec)
    (h : AMap.lookup st.prim id = some r) {p : AMap Nat Rec}
    (hp : ∀ x, AMap.lookup p x = if x = id then some nr else AMap.lookup st.prim x) :
    ∀ x rx, AMap.lookup p x = some rx → x < st.next := by
  intro x rx hx
  rw [hp] at hx
  by_cases e : x = id
  · subst e; exact hF x r h
  · simp only [e, if_false] at hx; exact hF x rx hx

theorem fresh_delete (c : Cfg) {st : State} (hF : Fresh st) (id : Nat) : Fresh (delete c st id).1 := by
  simp only [delete]
  cases h : AMap.lookup st.prim id with
  | none => exact hF
  | some r =>
    intro x rx hx
    simp only [lookup_erase] at hx
    by_cases e : x = id
    · simp [e] at hx
    · simp only [e, if_false] at hx; exact hF x rx hx

theorem fresh_step (c : Cfg) {st : State} (hF : Fresh st) (op : Op) : Fresh (step c st op).1 := by
  unfold step
  by_cases ha : c.accepts op = true
  · simp only [ha, Bool.not_true, Bool.false_eq_true, if_false]
    cases op with
    | create id? k0 k1 =>
      simp only
      cases hb : (dupBlocks c.dup0 st.i0 k0 id? || dupBlocks c.dup1 st.i1 k1 id?) with
      | true => rw [create_blocked hb]; exact hF
      | false => rw [create_state hb]; exact fresh_putRaw hF _
    | update id k0 k1 =>
      simp only [update]
      cases h : AMap.lookup st.prim id with
      | none => exact hF
      | some old =>
        simp only
        cases c.upd with
        | primaryOnly =>
          exact fresh_insert_live hF ⟨k0, k1⟩ h (fun x => by simp [lookup_insert])
        | reindex =>
          exact fresh_insert_live hF ⟨k0, k1⟩ h (fun x => by simp [lookup_insert])
    | setKey id slot v =>
      simp only
      split
      · exact hF
      simp only [setKey]
      cases h : AMap.lookup st.prim id with
      | none => exact hF
      | some r =>
        cases slot with
        | false => exact fresh_insert_live hF (r.set false (some v)) h (fun x => by simp [lookup_insert])
        | true => exact fresh_insert_live hF (r.set true (some v)) h (fun x => by simp [lookup_insert])
    | delete id =>
      simp only
      split
      · exact hF
      · exact fresh_delete c hF id
    | tpark id =>
      simp only [tpark]
      split
      · exact hF
      · split
        · exact hF
        · split
          · exact fresh_delete c hF id
          · exact hF
    | tresume id =>
      simp only [tresume]
      split
      · exact fresh_delete c (st := { st with term := st.term.filter (· ≠ id) }) hF id
      · exact hF
    | poke id slot w =>
      simp only [poke]
      cases h : AMap.lookup st.prim id with
      | none => exact hF
      | some r => exact fresh_insert_live hF (r.set slot w) h (fun x => by simp [lookup_insert])
    | get id => exact hF
    | byKey slot v => exact hF
    | list => exact hF
    | load l =>
      simp only [load]
      exact fresh_puts (fun id r h => by simp at h) l
  · simp only [ha, Bool.not_false, if_true]
    exact hF

theorem fresh_run (c : Cfg) {st : State} (hF : Fresh st) (ops : List Op) : Fresh (run c st ops) := by
  induction ops generalizing st with
  | nil => exact hF
  | cons op rest ih => exact ih (fresh_step c hF op)

/-! ### the per-key hypotheses of the partial theorems -/

/-- some live primary other than `id` carries key `k` in `slot` -/
def carriedByOther (st : State) (id : Option Nat) (slot : Bool) (k : Option Nat) : Bool :=
  match k with
  | none => false
  | some v => st.prim.any fun p => some p.1 != id && p.2.key slot == some v

theorem not_carried {st : State} {id : Option Nat} {slot : Bool} {k : Option Nat}
    (h : carriedByOther st id slot k = false) :
    ∀ id' r' v, k = some v → AMap.lookup st.prim id' = some r' → r'.key slot = some v → some id' = id := by
  intro id' r' v hk hp hkey
  subst hk
  simp only [carriedByOther, List.any_eq_false] at h
  have := h (id', r') (mem_of_lookup hp)
  simp only [hkey, beq_self_eq_true, Bool.and_true, bne_iff_ne, ne_eq, Decidable.not_not] at this
  exact this

/-- storing record `e.2` under id `e.1` does not give `(s, v)` to it while ANOTHER live primary carries `(s, v)` -/
def putOneAt (st : State) (s : Bool) (v : Nat) (e : Nat × Rec) : Bool :=
  !(e.2.key s == some v) || !carriedByOther st (some e.1) s (some v)

/-- storing record `e.2` under id `e.1` does not take `(s, v)` away from a LIVE primary `e.1` (its index entry would
    stay behind) -/
def putKeepAt (st : State) (s : Bool) (v : Nat) (e : Nat × Rec) : Bool :=
  match AMap.lookup st.prim e.1 with
  | some old => !(old.key s == some v) || e.2.key s == some v
  | none => true

def putsOneAt (s : Bool) (v : Nat) : State → List (Nat × Rec) → Bool
  | _, [] => true
  | st, e :: rest => putOneAt st s v e && putsOneAt s v (putRaw st e) rest

def putsKeepAt (s : Bool) (v : Nat) : State → List (Nat × Rec) → Bool
  | _, [] => true
  | st, e :: rest => putKeepAt st s v e && putsKeepAt s v (putRaw st e) rest

/-- the operation does not give key `(s, v)` to a primary while ANOTHER live primary carries `(s, v)` -/
def opOnePerKeyAt (st : State) (s : Bool) (v : Nat) : Op → Bool
  | .create id k0 k1 => putOneAt st s v (id.getD st.next, ⟨k0, k1⟩)
  | .update id k0 k1 => putOneAt st s v (id, ⟨k0, k1⟩)
  | .setKey id slot w => !(slot == s && w == v) || !carriedByOther st (some id) s (some v)
  | .load l => putsOneAt s v { next := st.next } l
  | .poke id slot w =>
    (match AMap.lookup st.prim id with
     | some r => putOneAt st s v (id, r.set slot w)
     | none => true)
  | _ => true

/-- the operation does not move a LIVE primary onto or off key `(s, v)` along a path that leaves the index alone:
    create/save under the id of a live primary that carries `(s, v)` keeps `(s, v)`; an update that does not re-index
    neither adds nor removes `(s, v)`; an assignment does not replace `(s, v)` by another value -/
def opNoRekeyAt (c : Cfg) (st : State) (s : Bool) (v : Nat) : Op → Bool
  | .create id k0 k1 => putKeepAt st s v (id.getD st.next, ⟨k0, k1⟩)
  | .update id k0 k1 =>
    c.upd == .reindex ||
    (match AMap.lookup st.prim id with
     | some old => (old.key s == some v) == ((Rec.mk k0 k1).key s == some v)
     | none => true)
  | .setKey id slot w =>
    (match AMap.lookup st.prim id with
     | some r => !(slot == s && w != v && r.key s == some v)
     | none => true)
  | .load l => putsKeepAt s v { next := st.next } l
  | .poke id slot w =>
    -- a write through an aliasing pointer never maintains an index: it must neither add nor remove `(s, v)`
    (match AMap.lookup st.prim id with
     | some r => (r.key s == some v) == ((r.set slot w).key s == some v)
     | none => true)
  | _ => true

/-- the operation is refused / changes nothing -/
def noEffect (c : Cfg) (st : State) (op : Op) : Bool := decide ((step c st op).1 = st)

/-- along the history key `(s, v)` is never given to two simultaneously live primaries (operations the code refuses
    or that change nothing are exempt; what happens to OTHER keys is irrelevant) -/
def OnePerKeyAt (c : Cfg) (s : Bool) (v : Nat) : State → List Op → Prop
  | _, [] => True
  | st, op :: rest => (noEffect c st op || opOnePerKeyAt st s v op) = true ∧ OnePerKeyAt c s v (step c st op).1 rest

/-- along the history no live primary is moved onto or off key `(s, v)` through a path that does not maintain the
    index -/
def NoRekeyAt (c : Cfg) (s : Bool) (v : Nat) : State → List Op → Prop
  | _, [] => True
  | st, op :: rest => (noEffect c st op || opNoRekeyAt c st s v op) = true ∧ NoRekeyAt c s v (step c st op).1 rest

/-! ### preservation of the per-key bijection -/

theorem kinv_putRaw {s : Bool} {v : Nat} {st : State} (hK : KInv s v st) (e : Nat × Rec)
    (h1 : putOneAt st s v e = true) (h2 : putKeepAt st s v e = true) : KInv s v (putRaw st e) := by
  apply kinv_put hK e.1 e.2 (putRaw_prim st e) (putRaw_idx st e s v)
  · intro r hr hk
    simp only [putKeepAt, hr, hk, beq_self_eq_true, Bool.not_true, Bool.false_or, beq_iff_eq] at h2
    exact h2
  · intro hk id' r' hp hkr
    simp only [putOneAt, hk, beq_self_eq_true, Bool.not_true, Bool.false_or, Bool.not_eq_true'] at h1
    simpa using not_carried h1 id' r' v rfl hp hkr

theorem kinv_puts {s : Bool} {v : Nat} {st : State} (hK : KInv s v st) (l : List (Nat × Rec))
    (h1 : putsOneAt s v st l = true) (h2 : putsKeepAt s v st l = true) : KInv s v (l.foldl putRaw st) := by
  induction l generalizing st with
  | nil => exact hK
  | cons e rest ih =>
    simp only [putsOneAt, putsKeepAt, Bool.and_eq_true] at h1 h2
    exact ih (kinv_putRaw hK e h1.1 h2.1) h1.2 h2.2

theorem kinv_update {c : Cfg} {s : Bool} {v : Nat} {st : State} (hK : KInv s v st) (id : Nat) (k0 k1 : Option Nat)
    (h1 : opOnePerKeyAt st s v (.update id k0 k1) = true) (h2 : opNoRekeyAt c st s v (.update id k0 k1) = true) :
    KInv s v (update c st id k0 k1).1 := by
  have hoth : (Rec.mk k0 k1).key s = some v →
      ∀ id' r', AMap.lookup st.prim id' = some r' → r'.key s = some v → id' = id := by
    intro hk id' r' hp hkr
    simp only [opOnePerKeyAt, putOneAt, hk, beq_self_eq_true, Bool.not_true, Bool.false_or,
      Bool.not_eq_true'] at h1
    simpa using not_carried h1 id' r' v rfl hp hkr
  unfold update
  cases h : AMap.lookup st.prim id with
  | none => exact hK
  | some old =>
    simp only
    cases hu : c.upd with
    | primaryOnly =>
      simp only [opNoRekeyAt, hu, h] at h2
      have hiff : old.key s = some v ↔ (Rec.mk k0 k1).key s = some v := by
        have : (old.key s == some v) = ((Rec.mk k0 k1).key s == some v) := by simpa using h2
        constructor
        · intro a; simpa [a] using this.symm
        · intro a; simpa [a] using this
      apply kinv_put hK id ⟨k0, k1⟩
      · intro x; simp [lookup_insert]
      · show AMap.lookup (st.idx s) v = _
        by_cases hk : (Rec.mk k0 k1).key s = some v
        · simp only [hk, if_true]
          exact hK.fwd id old h (hiff.mpr hk)
        · simp [hk]
      · intro r hr hk
        rw [h] at hr
        simp only [Option.some.injEq] at hr
        subst hr
        exact hiff.mp hk
      · exact hoth
    | reindex =>
      simp only
      apply kinv_reindex hK id old ⟨k0, k1⟩ c.condDelete h
      · intro x; simp [lookup_insert]
      · cases s <;> rfl
      · exact hoth

theorem kinv_setKey {c : Cfg} {s : Bool} {v : Nat} {st : State} (hK : KInv s v st) (id : Nat) (slot : Bool) (w : Nat)
    (h1 : opOnePerKeyAt st s v (.setKey id slot w) = true) (h2 : opNoRekeyAt c st s v (.setKey id slot w) = true) :
    KInv s v (setKey st id slot w).1 := by
  unfold setKey
  cases h : AMap.lookup st.prim id with
  | none => exact hK
  | some r =>
    simp only [opNoRekeyAt, h] at h2
    simp only [opOnePerKeyAt] at h1
    have key_same : s ≠ slot → (r.set slot (some w)).key s = r.key s := by
      intro hs; cases s <;> cases slot <;> simp_all [Rec.set, Rec.key]
    have key_new : (r.set slot (some w)).key slot = some w := by
      cases slot <;> simp [Rec.set, Rec.key]
    have main : ∀ (st' : State),
        (∀ x, AMap.lookup st'.prim x = if x = id then some (r.set slot (some w)) else AMap.lookup st.prim x) →
        (∀ u, AMap.lookup (st'.idx slot) u = if u = w then some id else AMap.lookup (st.idx slot) u) →
        (∀ u, AMap.lookup (st'.idx (!slot)) u = AMap.lookup (st.idx (!slot)) u) → KInv s v st' := by
      intro st' hp hi hni
      apply kinv_put hK id (r.set slot (some w)) hp
      · by_cases es : s = slot
        · subst es
          rw [hi, key_new]
          by_cases ew : v = w
          · simp [ew]
          · have : ¬ w = v := fun x => ew x.symm
            simp [ew, this]
        · have hs' : s = !slot := by cases s <;> cases slot <;> simp_all
          rw [hs', hni, ← hs', key_same es]
          by_cases hk : r.key s = some v
          · simp only [hk, if_true]
            exact hK.fwd id r h hk
          · simp [hk]
      · intro r' hr' hk
        rw [h] at hr'
        simp only [Option.some.injEq] at hr'
        subst hr'
        by_cases es : s = slot
        · subst es
          rw [key_new]
          by_cases ew : w = v
          · rw [ew]
          · simp [hk, ew] at h2
        · rw [key_same es]; exact hk
      · intro hk id' r' hp' hkr
        by_cases es : s = slot
        · subst es
          rw [key_new] at hk
          simp only [Option.some.injEq] at hk
          subst hk
          simp only [beq_self_eq_true, Bool.and_self, Bool.not_true, Bool.false_or, Bool.not_eq_true'] at h1
          simpa using not_carried h1 id' r' _ rfl hp' hkr
        · rw [key_same es] at hk
          exact hK.unique h hk hp' hkr
    cases slot with
    | false =>
      apply main
      · intro x; simp [lookup_insert]
      · intro u; simp [State.idx, lookup_insert]
      · intro u; rfl
    | true =>
      apply main
      · intro x; simp [lookup_insert]
      · intro u; simp [State.idx, lookup_insert]
      · intro u; rfl

theorem kinv_delete_op {c : Cfg} {s : Bool} {v : Nat} {st : State} (hK : KInv s v st) (id : Nat) :
    KInv s v (delete c st id).1 := by
  unfold delete
  cases h : AMap.lookup st.prim id with
  | none => exact hK
  | some r =>
    simp only
    apply kinv_delete hK id r c.condDelete h
    · intro x; simp [lookup_erase]
    · cases s <;> rfl

/-- the `terminating` marks are invisible to the tables -/
theorem kinv_term {s : Bool} {v : Nat} {st : State} (hK : KInv s v st) (t : List Nat) :
    KInv s v { st with term := t } := ⟨hK.fwd, hK.bwd⟩

theorem kinv_tpark {c : Cfg} {s : Bool} {v : Nat} {st : State} (hK : KInv s v st) (id : Nat) :
    KInv s v (tpark c st id).1 := by
  simp only [tpark]
  split
  · exact hK
  · split
    · exact hK
    · split
      · exact kinv_delete_op hK id
      · exact kinv_term hK _

theorem kinv_tresume {c : Cfg} {s : Bool} {v : Nat} {st : State} (hK : KInv s v st) (id : Nat) :
    KInv s v (tresume c st id).1 := by
  simp only [tresume]
  split
  · exact kinv_delete_op (kinv_term hK _) id
  · exact hK

theorem kinv_poke {c : Cfg} {s : Bool} {v : Nat} {st : State} (hK : KInv s v st) (id : Nat) (slot : Bool)
    (w : Option Nat)
    (h1 : opOnePerKeyAt st s v (.poke id slot w) = true) (h2 : opNoRekeyAt c st s v (.poke id slot w) = true) :
    KInv s v (poke st id slot w).1 := by
  unfold poke
  cases h : AMap.lookup st.prim id with
  | none => exact hK
  | some old =>
    simp only
    simp only [opOnePerKeyAt, h] at h1
    simp only [opNoRekeyAt, h] at h2
    have hiff : old.key s = some v ↔ (old.set slot w).key s = some v := by
      have : (old.key s == some v) = ((old.set slot w).key s == some v) := by simpa using h2
      constructor
      · intro a; simpa [a] using this.symm
      · intro a; simpa [a] using this
    apply kinv_put hK id (old.set slot w)
    · intro x; simp [lookup_insert]
    · show AMap.lookup (st.idx s) v = _
      by_cases hk : (old.set slot w).key s = some v
      · simp only [hk, if_true]
        exact hK.fwd id old h (hiff.mpr hk)
      · simp [hk]
    · intro r hr hk
      rw [h] at hr
      simp only [Option.some.injEq] at hr
      subst hr
      exact hiff.mp hk
    · intro hk id' r' hp hkr
      simp only [putOneAt, hk, beq_self_eq_true, Bool.not_true, Bool.false_or, Bool.not_eq_true'] at h1
      simpa using not_carried h1 id' r' v rfl hp hkr

theorem kinv_step {c : Cfg} {s : Bool} {v : Nat} {st : State} (hK : KInv s v st) (op : Op)
    (h1 : (noEffect c st op || opOnePerKeyAt st s v op) = true)
    (h2 : (noEffect c st op || opNoRekeyAt c st s v op) = true) : KInv s v (step c st op).1 := by
  by_cases hn : noEffect c st op = true
  · simp only [noEffect, decide_eq_true_eq] at hn
    rw [hn]; exact hK
  · simp only [hn, Bool.false_or] at h1 h2
    unfold step
    by_cases ha : c.accepts op = true
    · simp only [ha, Bool.not_true, Bool.false_eq_true, if_false]
      cases op with
      | create id? k0 k1 =>
        simp only
        cases hb : (dupBlocks c.dup0 st.i0 k0 id? || dupBlocks c.dup1 st.i1 k1 id?) with
        | true => rw [create_blocked hb]; exact hK
        | false => rw [create_state hb]; exact kinv_putRaw hK _ h1 h2
      | update id k0 k1 => exact kinv_update hK id k0 k1 h1 h2
      | setKey id slot w =>
        simp only
        split
        · exact hK
        · exact kinv_setKey (c := c) hK id slot w h1 h2
      | delete id =>
        simp only
        split
        · exact hK
        · exact kinv_delete_op hK id
      | tpark id => exact kinv_tpark hK id
      | tresume id => exact kinv_tresume hK id
      | poke id slot w => exact kinv_poke hK id slot w h1 h2
      | get id => exact hK
      | byKey slot w => exact hK
      | list => exact hK
      | load l => exact kinv_puts (kinv_empty s v st.next) l h1 h2
    · simp only [ha, Bool.not_false, if_true]
      exact hK

theorem kinv_run {c : Cfg} {s : Bool} {v : Nat} {st : State} (hK : KInv s v st) (ops : List Op)
    (h1 : OnePerKeyAt c s v st ops) (h2 : NoRekeyAt c s v st ops) : KInv s v (run c st ops) := by
  induction ops generalizing st with
  | nil => exact hK
  | cons op rest ih => exact ih (kinv_step hK op h1.1 h2.1) h1.2 h2.2

/-! ### release frame -/

/-- deleting `k` never touches another primary's record (no hypothesis) -/
theorem delete_prim (c : Cfg) (st : State) (k : Nat) :
    (∀ id, id ≠ k → AMap.lookup (delete c st k).1.prim id = AMap.lookup st.prim id) ∧
    AMap.lookup (delete c st k).1.prim k = none := by
  unfold delete
  cases h : AMap.lookup st.prim k with
  | none => exact ⟨fun _ _ => rfl, h⟩
  | some r =>
    simp only
    exact ⟨fun id hne => by simp [lookup_erase, hne], by simp⟩

/-- for a key whose entry agrees with the primary map, deleting `k` frees the entry exactly if it resolved to `k` -/
theorem delete_frame_at {c : Cfg} {s : Bool} {v : Nat} {st : State} (hK : KInv s v st) (k : Nat) :
    AMap.lookup ((delete c st k).1.idx s) v =
      if AMap.lookup (st.idx s) v = some k then none else AMap.lookup (st.idx s) v := by
  unfold delete
  cases h : AMap.lookup st.prim k with
  | none =>
    by_cases e : AMap.lookup (st.idx s) v = some k
    · obtain ⟨r, hr, _⟩ := hK.bwd k e
      rw [h] at hr; cases hr
    · simp [e]
  | some r =>
    simp only
    have : AMap.lookup (State.idx { st with prim := AMap.erase st.prim k,
                                            i0 := idxDrop c.condDelete st.i0 r.k0 k,
                                            i1 := idxDrop c.condDelete st.i1 r.k1 k } s) v =
           AMap.lookup (idxDrop c.condDelete (st.idx s) (r.key s) k) v := by cases s <;> rfl
    rw [this, lookup_idxDrop]
    by_cases e : AMap.lookup (st.idx s) v = some k
    · obtain ⟨r', hr', hk'⟩ := hK.bwd k e
      rw [h] at hr'
      simp only [Option.some.injEq] at hr'
      subst hr'
      simp [hk', e]
    · have : ¬ r.key s = some v := fun hk => e (hK.fwd k r h hk)
      simp [this, e]

/-! ### subscriber.Manager: the MAC index is exact for every key on EVERY history -/

theorem step_submgr_kinv0 {st : State} (hI : ∀ v, KInv false v st) (hF : Fresh st) (op : Op) (v : Nat) :
    KInv false v (step submgr st op).1 := by
  unfold step
  by_cases ha : submgr.accepts op = true
  · simp only [ha, Bool.not_true, Bool.false_eq_true, if_false]
    cases op with
    | create id? k0 k1 =>
      -- accepted shape: create none (some m) none
      cases id? with
      | some id => simp [submgr, submgrAccepts] at ha
      | none =>
        cases k0 with
        | none => simp [submgr, submgrAccepts] at ha
        | some m =>
          cases k1 with
          | some a => simp [submgr, submgrAccepts] at ha
          | none =>
            simp only
            cases hb : (dupBlocks submgr.dup0 st.i0 (some m) none || dupBlocks submgr.dup1 st.i1 none none) with
            | true => rw [create_blocked hb]; exact hI v
            | false =>
              have hfree : AMap.lookup st.i0 m = none := by
                simp only [dupBlocks, submgr, Bool.or_false] at hb
                cases e : AMap.lookup st.i0 m with
                | none => rfl
                | some h => simp [e] at hb
              rw [create_state hb]
              apply kinv_put (hI v) _ _ (putRaw_prim st _) (putRaw_idx st _ false v)
              · intro r hr _
                exact absurd (hF _ r hr) (Nat.lt_irrefl _)
              · intro hk id' r' hp hkr
                simp only [Rec.key, Option.some.injEq] at hk
                subst hk
                have := (hI m).fwd id' r' hp hkr
                simp only [State.idx] at this
                rw [hfree] at this; cases this
    | update id k0 k1 => simp [submgr, submgrAccepts] at ha
    | setKey id slot w =>
      cases slot with
      | false => simp [submgr, submgrAccepts] at ha
      | true =>
        simp only
        split
        · exact hI v
        simp only [setKey]
        cases h : AMap.lookup st.prim id with
        | none => exact hI v
        | some r =>
          simp only
          apply kinv_put (hI v) id (r.set true (some w))
          · intro x; simp [lookup_insert]
          · show AMap.lookup st.i0 v = _
            by_cases hk : r.k0 = some v
            · simp only [Rec.set, Rec.key, hk, if_true]
              exact (hI v).fwd id r h hk
            · simp [Rec.set, Rec.key, hk, State.idx]
          · intro r' hr' hk
            rw [h] at hr'
            simp only [Option.some.injEq] at hr'
            subst hr'
            exact hk
          · intro hk id' r' hp hkr
            exact (hI v).unique h hk hp hkr
    | delete id =>
      simp only
      split
      · exact hI v
      · exact kinv_delete_op (hI v) id
    | tpark id => exact kinv_tpark (hI v) id
    | tresume id => exact kinv_tresume (hI v) id
    | poke id slot w => simp [submgr, submgrAccepts] at ha
    | get id => exact hI v
    | byKey slot w => exact hI v
    | list => exact hI v
    | load l => simp [submgr, submgrAccepts] at ha
  · simp only [ha, Bool.not_false, if_true]
    exact hI v

theorem run_submgr_kinv0 {st : State} (hI : ∀ v, KInv false v st) (hF : Fresh st) (ops : List Op) :
    ∀ v, KInv false v (run submgr st ops) := by
  induction ops generalizing st with
  | nil => exact hI
  | cons op rest ih => exact ih (fun v => step_submgr_kinv0 hI hF op v) (fresh_step submgr hF op)

/-- every parked TerminateSession belongs to a live session -/
def TermLive (st : State) : Prop := ∀ id, id ∈ st.term → ∃ r, AMap.lookup st.prim id = some r

theorem termLive_delete {c : Cfg} {st : State} (hT : TermLive st) (id : Nat) (hid : id ∉ st.term) :
    TermLive (delete c st id).1 := by
  unfold delete
  cases h : AMap.lookup st.prim id with
  | none => exact hT
  | some r =>
    intro x hx
    obtain ⟨rx, hrx⟩ := hT x hx
    have : x ≠ id := by intro e; subst e; exact hid hx
    exact ⟨rx, by simp [lookup_erase, this, hrx]⟩

theorem delete_term (c : Cfg) (st : State) (id : Nat) : (delete c st id).1.term = st.term := by
  unfold delete; split <;> rfl

theorem step_submgr_termLive {st : State} (hT : TermLive st) (op : Op) : TermLive (step submgr st op).1 := by
  unfold step
  by_cases ha : submgr.accepts op = true
  · simp only [ha, Bool.not_true, Bool.false_eq_true, if_false]
    cases op with
    | create id? k0 k1 =>
      simp only [create]
      split
      · exact hT
      · intro x hx
        obtain ⟨rx, hrx⟩ := hT x hx
        simp only [putRaw, lookup_insert]
        split
        · exact ⟨_, rfl⟩
        · exact ⟨rx, hrx⟩
    | update id k0 k1 => simp [submgr, submgrAccepts] at ha
    | setKey id slot w =>
      simp only
      split
      · exact hT
      simp only [setKey]
      cases h : AMap.lookup st.prim id with
      | none => exact hT
      | some r =>
        cases slot with
        | false => simp [submgr, submgrAccepts] at ha
        | true =>
          intro x hx
          obtain ⟨rx, hrx⟩ := hT x hx
          simp only [lookup_insert]
          split
          · exact ⟨_, rfl⟩
          · exact ⟨rx, hrx⟩
    | delete id =>
      simp only
      split
      · exact hT
      · rename_i hid; exact termLive_delete hT id hid
    | tpark id =>
      simp only [tpark]
      split
      · exact hT
      · rename_i hid
        cases h : AMap.lookup st.prim id with
        | none => exact hT
        | some r =>
          simp only
          split
          · exact termLive_delete hT id hid
          · intro x hx
            simp only [List.mem_cons] at hx
            rcases hx with hx | hx
            · subst hx; exact ⟨r, h⟩
            · exact hT x hx
    | tresume id =>
      simp only [tresume]
      split
      · apply termLive_delete
        · intro x hx
          simp only [List.mem_filter] at hx
          exact hT x hx.1
        · simp
      · exact hT
    | poke id slot w => simp [submgr, submgrAccepts] at ha
    | get id => exact hT
    | byKey slot w => exact hT
    | list => exact hT
    | load l => simp [submgr, submgrAccepts] at ha
  · simp only [ha, Bool.not_false, if_true]
    exact hT

theorem run_submgr_termLive {st : State} (hT : TermLive st) (ops : List Op) : TermLive (run submgr st ops) := by
  induction ops generalizing st with
  | nil => exact hT
  | cons op rest ih => exact ih (step_submgr_termLive hT op)

theorem submgr_create_indexed {st : State} {m id : Nat} (h : AMap.lookup st.i0 m = some id) :
    step submgr st (.create none (some m) none) = (st, .conflict) := by
  simp [step, submgr, submgrAccepts, create, dupBlocks, h]

theorem submgr_step_tresume {st : State} {k : Nat} (hk : k ∈ st.term) :
    (step submgr st (.tresume k)).1 = (delete submgr { st with term := st.term.filter (· ≠ k) } k).1 := by
  simp [step, submgr, submgrAccepts, tresume, hk]

/-! ### MemoryAllocationStore: every live allocation is found by its address — on every history whose LOADS are
    address-injective (SaveAllocation needs no hypothesis, UnmarshalJSON has no uniqueness check) -/

/-- no two stored records with different ids share a key in slot `s` -/
def loadInj (s : Bool) (l : List (Nat × Rec)) : Bool :=
  l.all fun e => l.all fun e' => e.2.key s == none || e.2.key s != e'.2.key s || e.1 == e'.1

/-- every load of the history is address-injective -/
def LoadsInj (s : Bool) : List Op → Prop
  | [] => True
  | .load l :: rest => loadInj s l = true ∧ LoadsInj s rest
  | _ :: rest => LoadsInj s rest

theorem loadInj_spec {s : Bool} {l : List (Nat × Rec)} (h : loadInj s l = true) {e e' : Nat × Rec}
    (he : e ∈ l) (he' : e' ∈ l) {v : Nat} (hk : e.2.key s = some v) (hk' : e'.2.key s = some v) : e.1 = e'.1 := by
  simp only [loadInj, List.all_eq_true] at h
  have := h e he e' he'
  simpa [hk, hk'] using this

theorem fwd_puts {s : Bool} {l : List (Nat × Rec)} (hl : loadInj s l = true) (rest : List (Nat × Rec)) {st : State}
    (hsub : ∀ e, e ∈ rest → e ∈ l) (hI : FwdS s st)
    (hmem : ∀ id r, AMap.lookup st.prim id = some r → (id, r) ∈ l) : FwdS s (rest.foldl putRaw st) := by
  induction rest generalizing st with
  | nil => exact hI
  | cons e rest ih =>
    have he : e ∈ l := hsub e (List.mem_cons_self ..)
    apply ih (fun x hx => hsub x (List.mem_cons_of_mem _ hx))
    · intro id r v hp hk
      rw [putRaw_prim] at hp
      rw [putRaw_idx]
      by_cases h : id = e.1
      · simp only [h, if_true, Option.some.injEq] at hp
        subst hp
        simp [hk, h]
      · simp only [h, if_false] at hp
        by_cases hk' : e.2.key s = some v
        · have := loadInj_spec hl (hmem id r hp) he hk hk'
          exact absurd this h
        · simp only [hk', if_false]
          exact hI id r v hp hk
    · intro id r hp
      rw [putRaw_prim] at hp
      by_cases h : id = e.1
      · simp only [h, if_true, Option.some.injEq] at hp
        subst hp
        rw [h]; exact he
      · simp only [h, if_false] at hp
        exact hmem id r hp

theorem step_memstore_fwd {st : State} (hI : FwdS true st) (op : Op)
    (hl : ∀ l, op = .load l → loadInj true l = true) : FwdS true (step memstore st op).1 := by
  unfold step
  by_cases ha : memstore.accepts op = true
  · simp only [ha, Bool.not_true, Bool.false_eq_true, if_false]
    cases op with
    | create id? k0 k1 =>
      cases id? with
      | none => simp [memstore, memAccepts] at ha
      | some nid =>
        cases k0 with
        | some m => simp [memstore, memAccepts] at ha
        | none =>
          cases k1 with
          | none => simp [memstore, memAccepts] at ha
          | some a =>
            simp only
            cases hb : (dupBlocks memstore.dup0 st.i0 none (some nid) || dupBlocks memstore.dup1 st.i1 (some a) (some nid)) with
            | true => rw [create_blocked hb]; exact hI
            | false =>
              have hown : ∀ h, AMap.lookup st.i1 a = some h → h = nid := by
                intro h e
                simp only [dupBlocks, memstore, Bool.false_or, e] at hb
                have : nid = h := by simpa using hb
                exact this.symm
              rw [create_state hb]
              intro id r v hp hk
              rw [putRaw_prim] at hp
              rw [putRaw_idx]
              by_cases e : id = nid
              · simp only [Option.getD_some, e, if_true, Option.some.injEq] at hp
                subst hp
                simp [hk, e]
              · simp only [Option.getD_some, e, if_false] at hp
                have h1 := hI id r v hp hk
                by_cases hv : (Rec.mk none (some a)).key true = some v
                · simp only [Rec.key, Option.some.injEq] at hv
                  subst hv
                  exact absurd (hown id h1) e
                · simp only [hv, if_false]; exact h1
    | update id k0 k1 => simp [memstore, memAccepts] at ha
    | setKey id slot v => simp [memstore, memAccepts] at ha
    | tpark id => simp [memstore, memAccepts] at ha
    | tresume id => simp [memstore, memAccepts] at ha
    | poke id slot w => simp [memstore, memAccepts] at ha
    | delete id =>
      simp only
      split
      · exact hI
      simp only [delete]
      cases h : AMap.lookup st.prim id with
      | none => exact hI
      | some rk =>
        simp only
        intro x r v hp hk
        simp only [lookup_erase] at hp
        by_cases e : x = id
        · simp [e] at hp
        · simp only [e, if_false] at hp
          have h1 := hI x r v hp hk
          show AMap.lookup (idxDrop memstore.condDelete st.i1 rk.k1 id) v = some x
          rw [lookup_idxDrop]
          by_cases h2 : rk.k1 = some v
          · have h3 : AMap.lookup st.i1 v = some id := hI id rk v h h2
            have : AMap.lookup st.i1 v = some x := h1
            rw [this] at h3
            exact absurd (by simpa using h3) e
          · simp only [h2, false_and, if_false]; exact h1
    | get id => exact hI
    | byKey slot v => exact hI
    | list => exact hI
    | load l =>
      simp only [load]
      exact fwd_puts (hl l rfl) l (fun e he => he) (fun id r v h => by simp at h) (fun id r h => by simp at h)
  · simp only [ha, Bool.not_false, if_true]
    exact hI

theorem run_memstore_fwd {st : State} (hI : FwdS true st) (ops : List Op) (hl : LoadsInj true ops) :
    FwdS true (run memstore st ops) := by
  induction ops generalizing st with
  | nil => exact hI
  | cons op rest ih =>
    cases op with
    | load l => exact ih (step_memstore_fwd hI (.load l) (fun l' e => by cases e; exact hl.1)) hl.2
    | create a b c => exact ih (step_memstore_fwd hI _ (fun l' e => by cases e)) hl
    | update a b c => exact ih (step_memstore_fwd hI _ (fun l' e => by cases e)) hl
    | setKey a b c => exact ih (step_memstore_fwd hI _ (fun l' e => by cases e)) hl
    | delete a => exact ih (step_memstore_fwd hI _ (fun l' e => by cases e)) hl
    | get a => exact ih (step_memstore_fwd hI _ (fun l' e => by cases e)) hl
    | byKey a b => exact ih (step_memstore_fwd hI _ (fun l' e => by cases e)) hl
    | list => exact ih (step_memstore_fwd hI _ (fun l' e => by cases e)) hl
    | tpark a => exact ih (step_memstore_fwd hI _ (fun l' e => by cases e)) hl
    | tresume a => exact ih (step_memstore_fwd hI _ (fun l' e => by cases e)) hl
    | poke a b c => exact ih (step_memstore_fwd hI _ (fun l' e => by cases e)) hl

end Bng.Index
