import Bng.Model.Index
/-
  Invariants of the generic "primary map + secondary indexes" model (Bng.Index) and their preservation.

  * `Fresh`      every live primary id is below the id counter            — every flavour, every history
  * `InvS s`     index `s` and the primary map are mutually inverse        — submgr slot 0 on every history;
                                                                            every flavour and slot on histories that
                                                                            satisfy `OnePerKey` and `NoRekey`
  * `FwdS true`  every live primary's key resolves back to it              — memstore on every history
-/
namespace Bng.Index
open Bng AMap

/-! ### index primitives -/

theorem lookup_idxPut (i : AMap Nat Nat) (k : Option Nat) (id v : Nat) :
    AMap.lookup (idxPut i k id) v = if k = some v then some id else AMap.lookup i v := by
  cases k with
  | none => simp [idxPut]
  | some w =>
    simp only [idxPut, lookup_insert, Option.some.injEq]
    by_cases e : v = w
    · subst e; simp
    · have : ¬ w = v := fun x => e x.symm
      simp [e, this]

theorem lookup_idxDrop (cond : Bool) (i : AMap Nat Nat) (k : Option Nat) (id v : Nat) :
    AMap.lookup (idxDrop cond i k id) v =
      if k = some v ∧ (cond = false ∨ AMap.lookup i v = some id) then none else AMap.lookup i v := by
  cases k with
  | none => simp [idxDrop]
  | some w =>
    simp only [idxDrop, Option.some.injEq]
    by_cases e : w = v
    · subst e
      cases cond with
      | false => simp
      | true =>
        by_cases h : AMap.lookup i w = some id
        · simp [h]
        · simp [h]
    · have e' : ¬ v = w := fun x => e x.symm
      split
      · simp [e]
      · simp [e, lookup_erase, e']

theorem lookup_reindexSlot (cond : Bool) (i : AMap Nat Nat) (old k : Option Nat) (id v : Nat) :
    AMap.lookup (reindexSlot cond i old k id) v =
      if k = some v then some id
      else if old = k then AMap.lookup i v
      else if old = some v ∧ (cond = false ∨ AMap.lookup i v = some id) then none else AMap.lookup i v := by
  unfold reindexSlot
  rw [lookup_idxPut]
  by_cases h1 : k = some v
  · simp [h1]
  · simp only [h1, if_false]
    by_cases h2 : old = k
    · simp [h2]
    · simp only [h2, if_false]
      rw [lookup_idxDrop]

/-! ### the invariants -/

/-- every live primary id is below the id counter (a generated id never names a live primary) -/
def Fresh (st : State) : Prop := ∀ id r, AMap.lookup st.prim id = some r → id < st.next

/-- every live primary's key in slot `s` resolves back to it -/
def FwdS (s : Bool) (st : State) : Prop :=
  ∀ id r v, AMap.lookup st.prim id = some r → r.key s = some v → AMap.lookup (st.idx s) v = some id

/-- every entry of index `s` points to a live primary carrying that key -/
def BwdS (s : Bool) (st : State) : Prop :=
  ∀ v id, AMap.lookup (st.idx s) v = some id → ∃ r, AMap.lookup st.prim id = some r ∧ r.key s = some v

/-- index `s` and the primary map are mutually inverse -/
structure InvS (s : Bool) (st : State) : Prop where
  fwd : FwdS s st
  bwd : BwdS s st

structure Inv (st : State) : Prop where
  slot : ∀ s, InvS s st
  fresh : Fresh st

theorem inv_init : Inv init := by
  refine ⟨fun s => ⟨?_, ?_⟩, ?_⟩
  · intro id r v h; simp [init] at h
  · intro v id h; cases s <;> simp [init, State.idx] at h
  · intro id r h; simp [init] at h

/-- "put": primary `nid` gets record `nr`; index `s` maps `nr`'s key to `nid` and is otherwise unchanged -/
theorem invS_put {s : Bool} {st st' : State} (hI : InvS s st) (nid : Nat) (nr : Rec)
    (hprim : ∀ id, AMap.lookup st'.prim id = if id = nid then some nr else AMap.lookup st.prim id)
    (hidx : ∀ v, AMap.lookup (st'.idx s) v = if nr.key s = some v then some nid else AMap.lookup (st.idx s) v)
    (hlive : ∀ r v, AMap.lookup st.prim nid = some r → r.key s = some v → nr.key s = some v)
    (hother : ∀ id' r' v, nr.key s = some v → AMap.lookup st.prim id' = some r' → r'.key s = some v → id' = nid) :
    InvS s st' := by
  constructor
  · intro id r v hp hk
    rw [hprim] at hp
    rw [hidx]
    by_cases e : id = nid
    · subst e
      simp only [if_true, Option.some.injEq] at hp
      subst hp
      simp [hk]
    · simp only [e, if_false] at hp
      by_cases hk' : nr.key s = some v
      · exact absurd (hother id r v hk' hp hk) e
      · simp only [hk', if_false]
        exact hI.fwd id r v hp hk
  · intro v x hx
    rw [hidx] at hx
    by_cases hk' : nr.key s = some v
    · simp only [hk', if_true, Option.some.injEq] at hx
      subst hx
      exact ⟨nr, by rw [hprim]; simp, hk'⟩
    · simp only [hk', if_false] at hx
      obtain ⟨r', hr', hkr'⟩ := hI.bwd v x hx
      by_cases e : x = nid
      · subst e
        exact absurd (hlive r' v hr' hkr') hk'
      · exact ⟨r', by rw [hprim]; simp [e, hr'], hkr'⟩

/-- delete of the live primary `k` (record `rk`): index `s` loses `rk`'s key (by value, or conditionally) -/
theorem invS_delete {s : Bool} {st st' : State} (hI : InvS s st) (k : Nat) (rk : Rec) (cond : Bool)
    (hk : AMap.lookup st.prim k = some rk)
    (hprim : ∀ id, AMap.lookup st'.prim id = if id = k then none else AMap.lookup st.prim id)
    (hidx : ∀ v, AMap.lookup (st'.idx s) v = AMap.lookup (idxDrop cond (st.idx s) (rk.key s) k) v) :
    InvS s st' := by
  constructor
  · intro id r v hp hkey
    rw [hprim] at hp
    by_cases e : id = k
    · simp [e] at hp
    · simp only [e, if_false] at hp
      have h1 := hI.fwd id r v hp hkey
      rw [hidx, lookup_idxDrop]
      by_cases h2 : rk.key s = some v
      · have h3 := hI.fwd k rk v hk h2
        rw [h1] at h3
        simp only [Option.some.injEq] at h3
        exact absurd h3 e
      · simp [h2, h1]
  · intro v x hx
    rw [hidx, lookup_idxDrop] at hx
    by_cases h2 : rk.key s = some v ∧ (cond = false ∨ AMap.lookup (st.idx s) v = some k)
    · simp [h2] at hx
    · simp only [h2, if_false] at hx
      obtain ⟨r', hr', hkr'⟩ := hI.bwd v x hx
      by_cases e : x = k
      · subst e
        rw [hk] at hr'
        simp only [Option.some.injEq] at hr'
        subst hr'
        exact absurd ⟨hkr', Or.inr hx⟩ h2
      · exact ⟨r', by rw [hprim]; simp [e, hr'], hkr'⟩

/-- `Upd.reindex`: primary `k` (old record `old`) gets record `nr`; the entry of a changed old key is dropped -/
theorem invS_reindex {s : Bool} {st st' : State} (hI : InvS s st) (k : Nat) (old nr : Rec) (cond : Bool)
    (hk : AMap.lookup st.prim k = some old)
    (hprim : ∀ id, AMap.lookup st'.prim id = if id = k then some nr else AMap.lookup st.prim id)
    (hidx : ∀ v, AMap.lookup (st'.idx s) v =
      AMap.lookup (reindexSlot cond (st.idx s) (old.key s) (nr.key s) k) v)
    (hother : ∀ id' r' v, nr.key s = some v → AMap.lookup st.prim id' = some r' → r'.key s = some v → id' = k) :
    InvS s st' := by
  constructor
  · intro id r v hp hkey
    rw [hprim] at hp
    rw [hidx, lookup_reindexSlot]
    by_cases e : id = k
    · subst e
      simp only [if_true, Option.some.injEq] at hp
      subst hp
      simp [hkey]
    · simp only [e, if_false] at hp
      have h1 := hI.fwd id r v hp hkey
      by_cases h2 : nr.key s = some v
      · exact absurd (hother id r v h2 hp hkey) e
      · simp only [h2, if_false]
        by_cases h3 : old.key s = nr.key s
        · simp [h3, h1]
        · simp only [h3, if_false]
          by_cases h4 : old.key s = some v
          · have h5 := hI.fwd k old v hk h4
            rw [h1] at h5
            simp only [Option.some.injEq] at h5
            exact absurd h5 e
          · simp [h4, h1]
  · intro v x hx
    rw [hidx, lookup_reindexSlot] at hx
    by_cases h2 : nr.key s = some v
    · simp only [h2, if_true, Option.some.injEq] at hx
      subst hx
      exact ⟨nr, by rw [hprim]; simp, h2⟩
    · simp only [h2, if_false] at hx
      by_cases h3 : old.key s = nr.key s
      · simp only [h3, if_true] at hx
        obtain ⟨r', hr', hkr'⟩ := hI.bwd v x hx
        by_cases e : x = k
        · subst e
          rw [hk] at hr'
          simp only [Option.some.injEq] at hr'
          subst hr'
          rw [h3] at hkr'
          exact absurd hkr' h2
        · exact ⟨r', by rw [hprim]; simp [e, hr'], hkr'⟩
      · simp only [h3, if_false] at hx
        by_cases h4 : old.key s = some v ∧ (cond = false ∨ AMap.lookup (st.idx s) v = some k)
        · simp [h4] at hx
        · simp only [h4, if_false] at hx
          obtain ⟨r', hr', hkr'⟩ := hI.bwd v x hx
          by_cases e : x = k
          · subst e
            rw [hk] at hr'
            simp only [Option.some.injEq] at hr'
            subst hr'
            exact absurd ⟨hkr', Or.inr hx⟩ h4
          · exact ⟨r', by rw [hprim]; simp [e, hr'], hkr'⟩

/-! ### the state after each operation, as lookups -/

theorem idx_mk (p : AMap Nat Rec) (a b : AMap Nat Nat) (n : Nat) (s : Bool) :
    State.idx { prim := p, i0 := a, i1 := b, next := n } s = (match s with | false => a | true => b) := by
  cases s <;> rfl

theorem create_state {c : Cfg} {st : State} {id? : Option Nat} {k0 k1 : Option Nat}
    (hb : (dupBlocks c.dup0 st.i0 k0 id? || dupBlocks c.dup1 st.i1 k1 id?) = false) :
    (create c st id? k0 k1).1 =
      { prim := AMap.insert st.prim (id?.getD st.next) ⟨k0, k1⟩,
        i0 := idxPut st.i0 k0 (id?.getD st.next), i1 := idxPut st.i1 k1 (id?.getD st.next),
        next := if st.next ≤ id?.getD st.next then id?.getD st.next + 1 else st.next } := by
  unfold create
  simp [hb]

theorem create_blocked {c : Cfg} {st : State} {id? : Option Nat} {k0 k1 : Option Nat}
    (hb : (dupBlocks c.dup0 st.i0 k0 id? || dupBlocks c.dup1 st.i1 k1 id?) = true) :
    (create c st id? k0 k1).1 = st := by
  unfold create
  simp [hb]

theorem create_idx {c : Cfg} {st : State} {id? : Option Nat} {k0 k1 : Option Nat}
    (hb : (dupBlocks c.dup0 st.i0 k0 id? || dupBlocks c.dup1 st.i1 k1 id?) = false) (s : Bool) (v : Nat) :
    AMap.lookup ((create c st id? k0 k1).1.idx s) v =
      if (Rec.mk k0 k1).key s = some v then some (id?.getD st.next) else AMap.lookup (st.idx s) v := by
  rw [create_state hb]
  cases s
  · show AMap.lookup (idxPut st.i0 k0 (id?.getD st.next)) v = _
    rw [lookup_idxPut]; rfl
  · show AMap.lookup (idxPut st.i1 k1 (id?.getD st.next)) v = _
    rw [lookup_idxPut]; rfl

theorem create_prim {c : Cfg} {st : State} {id? : Option Nat} {k0 k1 : Option Nat}
    (hb : (dupBlocks c.dup0 st.i0 k0 id? || dupBlocks c.dup1 st.i1 k1 id?) = false) (id : Nat) :
    AMap.lookup (create c st id? k0 k1).1.prim id =
      if id = id?.getD st.next then some ⟨k0, k1⟩ else AMap.lookup st.prim id := by
  rw [create_state hb]
  simp [lookup_insert]

theorem create_next {c : Cfg} {st : State} {id? : Option Nat} {k0 k1 : Option Nat}
    (hb : (dupBlocks c.dup0 st.i0 k0 id? || dupBlocks c.dup1 st.i1 k1 id?) = false) :
    st.next ≤ (create c st id? k0 k1).1.next ∧ id?.getD st.next < (create c st id? k0 k1).1.next := by
  rw [create_state hb]
  simp only
  split <;> omega

/-! ### Fresh: every flavour, every history -/

theorem fresh_insert_live {st : State} (hF : Fresh st) {id : Nat} {r : Rec} (nr : Rec)
    (h : AMap.lookup st.prim id = some r) {p : AMap Nat Rec}
    (hp : ∀ x, AMap.lookup p x = if x = id then some nr else AMap.lookup st.prim x) :
    ∀ x rx, AMap.lookup p x = some rx → x < st.next := by
  intro x rx hx
  rw [hp] at hx
  by_cases e : x = id
  · subst e; exact hF x r h
  · simp only [e, if_false] at hx; exact hF x rx hx

theorem fresh_step (c : Cfg) {st : State} (hF : Fresh st) (op : Op) : Fresh (step c st op).1 := by
  unfold step
  by_cases ha : c.accepts op = true
  · simp only [ha, Bool.not_true, Bool.false_eq_true, if_false]
    cases op with
    | create id? k0 k1 =>
      simp only
      cases hb : (dupBlocks c.dup0 st.i0 k0 id? || dupBlocks c.dup1 st.i1 k1 id?) with
      | true => rw [create_blocked hb]; exact hF
      | false =>
        intro x rx hx
        rw [create_prim hb] at hx
        have hn := create_next (c := c) (st := st) (id? := id?) (k0 := k0) (k1 := k1) hb
        by_cases e : x = id?.getD st.next
        · rw [e]; exact hn.2
        · simp only [e, if_false] at hx
          exact Nat.lt_of_lt_of_le (hF x rx hx) hn.1
    | update id k0 k1 =>
      simp only [update]
      cases h : AMap.lookup st.prim id with
      | none => exact hF
      | some old =>
        simp only
        cases c.upd with
        | primaryOnly =>
          exact fresh_insert_live hF ⟨k0, k1⟩ h (fun x => by simp [lookup_insert])
        | reindex =>
          exact fresh_insert_live hF ⟨k0, k1⟩ h (fun x => by simp [lookup_insert])
    | setKey id slot v =>
      simp only [setKey]
      cases h : AMap.lookup st.prim id with
      | none => exact hF
      | some r =>
        cases slot with
        | false => exact fresh_insert_live hF (r.set false (some v)) h (fun x => by simp [lookup_insert])
        | true => exact fresh_insert_live hF (r.set true (some v)) h (fun x => by simp [lookup_insert])
    | delete id =>
      simp only [delete]
      cases h : AMap.lookup st.prim id with
      | none => exact hF
      | some r =>
        intro x rx hx
        simp only [lookup_erase] at hx
        by_cases e : x = id
        · simp [e] at hx
        · simp only [e, if_false] at hx; exact hF x rx hx
    | get id => exact hF
    | byKey slot v => exact hF
    | list => exact hF
  · simp only [ha, Bool.not_false, if_true]
    exact hF

theorem fresh_run (c : Cfg) {st : State} (hF : Fresh st) (ops : List Op) : Fresh (run c st ops) := by
  induction ops generalizing st with
  | nil => exact hF
  | cons op rest ih => exact ih (fresh_step c hF op)

/-! ### the hypotheses of the partial theorems -/

/-- some live primary other than `id` carries key `k` in `slot` -/
def carriedByOther (st : State) (id : Option Nat) (slot : Bool) (k : Option Nat) : Bool :=
  match k with
  | none => false
  | some v => st.prim.any fun p => some p.1 != id && p.2.key slot == some v

theorem not_carried {st : State} {id : Option Nat} {slot : Bool} {k : Option Nat}
    (h : carriedByOther st id slot k = false) :
    ∀ id' r' v, k = some v → AMap.lookup st.prim id' = some r' → r'.key slot = some v → some id' = id := by
  intro id' r' v hk hp hkey
  subst hk
  simp only [carriedByOther, List.any_eq_false] at h
  have := h (id', r') (mem_of_lookup hp)
  simp only [hkey, beq_self_eq_true, Bool.and_true, bne_iff_ne, ne_eq, Decidable.not_not] at this
  exact this

/-- the operation gives no secondary key to a primary while ANOTHER live primary carries that key -/
def opOnePerKey (st : State) : Op → Bool
  | .create id k0 k1 => !carriedByOther st id false k0 && !carriedByOther st id true k1
  | .update id k0 k1 => !carriedByOther st (some id) false k0 && !carriedByOther st (some id) true k1
  | .setKey id slot v => !carriedByOther st (some id) slot (some v)
  | _ => true

/-- the operation does not change a key of a LIVE primary along a path that leaves the index alone:
    create/save under the id of a live primary repeats its keys; an update that does not re-index repeats the keys;
    an assignment fills an empty slot or repeats the key -/
def opNoRekey (c : Cfg) (st : State) : Op → Bool
  | .create (some id) k0 k1 =>
    (match AMap.lookup st.prim id with
     | some r => r == ⟨k0, k1⟩
     | none => true)
  | .update id k0 k1 =>
    c.upd == .reindex ||
    (match AMap.lookup st.prim id with
     | some r => r == ⟨k0, k1⟩
     | none => true)
  | .setKey id slot v =>
    (match AMap.lookup st.prim id with
     | some r => r.key slot == none || r.key slot == some v
     | none => true)
  | _ => true

/-- the operation is refused / has no effect -/
def noEffect (c : Cfg) (st : State) (op : Op) : Bool := decide ((step c st op).1 = st)

/-- the history never gives one secondary key to two simultaneously live primaries (operations the code refuses or
    that change nothing are exempt) -/
def OnePerKey (c : Cfg) : State → List Op → Prop
  | _, [] => True
  | st, op :: rest => (noEffect c st op || opOnePerKey st op) = true ∧ OnePerKey c (step c st op).1 rest

/-- the history never re-keys a live primary along a path that does not maintain the indexes -/
def NoRekey (c : Cfg) : State → List Op → Prop
  | _, [] => True
  | st, op :: rest => (noEffect c st op || opNoRekey c st op) = true ∧ NoRekey c (step c st op).1 rest

/-! ### preservation of the bijection on clean histories -/

theorem inv_create {c : Cfg} {st : State} (hI : Inv st) (id? : Option Nat) (k0 k1 : Option Nat)
    (h1 : opOnePerKey st (.create id? k0 k1) = true) (h2 : opNoRekey c st (.create id? k0 k1) = true) :
    Inv (create c st id? k0 k1).1 := by
  cases hb : (dupBlocks c.dup0 st.i0 k0 id? || dupBlocks c.dup1 st.i1 k1 id?) with
  | true => rw [create_blocked hb]; exact hI
  | false =>
    have hF : Fresh (create c st id? k0 k1).1 := by
      intro x rx hx
      rw [create_prim hb] at hx
      have hn := create_next (c := c) (st := st) (id? := id?) (k0 := k0) (k1 := k1) hb
      by_cases e : x = id?.getD st.next
      · rw [e]; exact hn.2
      · simp only [e, if_false] at hx
        exact Nat.lt_of_lt_of_le (hI.fresh x rx hx) hn.1
    refine ⟨fun s => ?_, hF⟩
    apply invS_put (hI.slot s) (id?.getD st.next) ⟨k0, k1⟩ (create_prim hb) (create_idx hb s)
    · -- the id is not live, or names a primary with exactly these keys
      intro r v hr hk
      cases id? with
      | none =>
        exact absurd (hI.fresh _ r hr) (Nat.lt_irrefl _)
      | some id =>
        simp only [opNoRekey, Option.getD_some] at h2 hr
        rw [hr] at h2
        have : r = ⟨k0, k1⟩ := by simpa using h2
        rw [← this]; exact hk
    · intro id' r' v hk hp hkr
      simp only [opOnePerKey, Bool.and_eq_true, Bool.not_eq_true'] at h1
      have hc : carriedByOther st id? s ((Rec.mk k0 k1).key s) = false := by
        cases s
        · exact h1.1
        · exact h1.2
      have := not_carried hc id' r' v hk hp hkr
      cases id? with
      | none => cases this
      | some id => simpa using this

theorem inv_same_rec {st : State} (hI : Inv st) (id : Nat) (r : Rec) (h : AMap.lookup st.prim id = some r) :
    Inv { st with prim := AMap.insert st.prim id r } := by
  have hp : ∀ x, AMap.lookup (AMap.insert st.prim id r) x = AMap.lookup st.prim x := by
    intro x
    rw [lookup_insert]
    by_cases e : x = id
    · simp [e, h]
    · simp [e]
  refine ⟨fun s => ⟨?_, ?_⟩, ?_⟩
  · intro x rx v hx hk
    have hx' : AMap.lookup st.prim x = some rx := by rw [← hp]; exact hx
    have := (hI.slot s).fwd x rx v hx' hk
    cases s <;> exact this
  · intro v x hx
    have hx' : AMap.lookup (st.idx s) v = some x := by cases s <;> exact hx
    obtain ⟨rx, h1, h2⟩ := (hI.slot s).bwd v x hx'
    exact ⟨rx, by show AMap.lookup (AMap.insert st.prim id r) x = some rx; rw [hp]; exact h1, h2⟩
  · intro x rx hx
    have hx' : AMap.lookup st.prim x = some rx := by rw [← hp]; exact hx
    exact hI.fresh x rx hx'

theorem inv_update {c : Cfg} {st : State} (hI : Inv st) (id : Nat) (k0 k1 : Option Nat)
    (h1 : opOnePerKey st (.update id k0 k1) = true) (h2 : opNoRekey c st (.update id k0 k1) = true) :
    Inv (update c st id k0 k1).1 := by
  unfold update
  cases h : AMap.lookup st.prim id with
  | none => exact hI
  | some old =>
    simp only
    cases hu : c.upd with
    | primaryOnly =>
      simp only [opNoRekey, hu, h] at h2
      have : old = ⟨k0, k1⟩ := by simpa using h2
      rw [← this]
      exact inv_same_rec hI id old h
    | reindex =>
      simp only
      have hF : Fresh { st with prim := AMap.insert st.prim id ⟨k0, k1⟩,
                                i0 := reindexSlot c.condDelete st.i0 old.k0 k0 id,
                                i1 := reindexSlot c.condDelete st.i1 old.k1 k1 id } :=
        fresh_insert_live hI.fresh ⟨k0, k1⟩ h (fun x => by simp [lookup_insert])
      refine ⟨fun s => ?_, hF⟩
      apply invS_reindex (hI.slot s) id old ⟨k0, k1⟩ c.condDelete h
      · intro x; simp [lookup_insert]
      · intro v; cases s <;> rfl
      · intro id' r' v hk hp hkr
        simp only [opOnePerKey, Bool.and_eq_true, Bool.not_eq_true'] at h1
        have hc : carriedByOther st (some id) s ((Rec.mk k0 k1).key s) = false := by
          cases s
          · exact h1.1
          · exact h1.2
        simpa using not_carried hc id' r' v hk hp hkr

theorem inv_setKey {c : Cfg} {st : State} (hI : Inv st) (id : Nat) (slot : Bool) (v : Nat)
    (h1 : opOnePerKey st (.setKey id slot v) = true) (h2 : opNoRekey c st (.setKey id slot v) = true) :
    Inv (setKey st id slot v).1 := by
  unfold setKey
  cases h : AMap.lookup st.prim id with
  | none => exact hI
  | some r =>
    simp only [opNoRekey, h, Bool.or_eq_true, beq_iff_eq] at h2
    simp only [opOnePerKey, Bool.not_eq_true'] at h1
    have hoth := not_carried h1
    -- common argument, for the slot being assigned (`s = slot`) and for the other one
    have key_same : ∀ s, s ≠ slot → (r.set slot (some v)).key s = r.key s := by
      intro s hs; cases s <;> cases slot <;> simp_all [Rec.set, Rec.key]
    have key_new : (r.set slot (some v)).key slot = some v := by
      cases slot <;> simp [Rec.set, Rec.key]
    have main : ∀ (st' : State),
        (∀ x, AMap.lookup st'.prim x = if x = id then some (r.set slot (some v)) else AMap.lookup st.prim x) →
        (∀ w, AMap.lookup (st'.idx slot) w = if w = v then some id else AMap.lookup (st.idx slot) w) →
        (∀ w, AMap.lookup (st'.idx (!slot)) w = AMap.lookup (st.idx (!slot)) w) →
        st'.next = st.next → Inv st' := by
      intro st' hp hi hni hn
      refine ⟨fun s => ?_, ?_⟩
      · apply invS_put (hI.slot s) id (r.set slot (some v)) hp
        · intro w
          by_cases es : s = slot
          · subst es
            rw [hi, key_new]
            by_cases ew : w = v
            · simp [ew]
            · have : ¬ v = w := fun x => ew x.symm
              simp [ew, this]
          · have : s = !slot := by cases s <;> cases slot <;> simp_all
            rw [this, hni, ← this, key_same s es]
            by_cases hk : r.key s = some w
            · simp only [hk, if_true]
              exact (hI.slot s).fwd id r w h hk
            · simp [hk]
        · intro r' w hr' hk
          rw [h] at hr'
          simp only [Option.some.injEq] at hr'
          subst hr'
          by_cases es : s = slot
          · subst es
            rw [key_new]
            rcases h2 with h2 | h2
            · rw [h2] at hk; cases hk
            · rw [h2] at hk; exact hk
          · rw [key_same s es]; exact hk
        · intro id' r' w hk hp' hkr
          by_cases es : s = slot
          · subst es
            rw [key_new] at hk
            simp only [Option.some.injEq] at hk
            subst hk
            simpa using hoth id' r' _ rfl hp' hkr
          · rw [key_same s es] at hk
            have a := (hI.slot s).fwd id r w h hk
            have b := (hI.slot s).fwd id' r' w hp' hkr
            rw [a] at b
            simpa using b.symm
      · intro x rx hx
        rw [hn]
        exact fresh_insert_live hI.fresh _ h hp x rx hx
    cases slot with
    | false =>
      apply main
      · intro x; simp [lookup_insert]
      · intro w; simp [State.idx, lookup_insert]
      · intro w; rfl
      · rfl
    | true =>
      apply main
      · intro x; simp [lookup_insert]
      · intro w; simp [State.idx, lookup_insert]
      · intro w; rfl
      · rfl

theorem inv_delete {c : Cfg} {st : State} (hI : Inv st) (id : Nat) : Inv (delete c st id).1 := by
  unfold delete
  cases h : AMap.lookup st.prim id with
  | none => exact hI
  | some r =>
    simp only
    refine ⟨fun s => ?_, ?_⟩
    · apply invS_delete (hI.slot s) id r c.condDelete h
      · intro x; simp [lookup_erase]
      · intro v; cases s <;> rfl
    · intro x rx hx
      simp only [lookup_erase] at hx
      by_cases e : x = id
      · simp [e] at hx
      · simp only [e, if_false] at hx; exact hI.fresh x rx hx

theorem inv_step {c : Cfg} {st : State} (hI : Inv st) (op : Op)
    (h1 : (noEffect c st op || opOnePerKey st op) = true)
    (h2 : (noEffect c st op || opNoRekey c st op) = true) : Inv (step c st op).1 := by
  by_cases hn : noEffect c st op = true
  · simp only [noEffect, decide_eq_true_eq] at hn
    rw [hn]; exact hI
  · simp only [hn, Bool.false_or] at h1 h2
    unfold step
    by_cases ha : c.accepts op = true
    · simp only [ha, Bool.not_true, Bool.false_eq_true, if_false]
      cases op with
      | create id? k0 k1 => exact inv_create hI id? k0 k1 h1 h2
      | update id k0 k1 => exact inv_update hI id k0 k1 h1 h2
      | setKey id slot v => exact inv_setKey (c := c) hI id slot v h1 h2
      | delete id => exact inv_delete hI id
      | get id => exact hI
      | byKey slot v => exact hI
      | list => exact hI
    · simp only [ha, Bool.not_false, if_true]
      exact hI

theorem inv_run {c : Cfg} {st : State} (hI : Inv st) (ops : List Op)
    (h1 : OnePerKey c st ops) (h2 : NoRekey c st ops) : Inv (run c st ops) := by
  induction ops generalizing st with
  | nil => exact hI
  | cons op rest ih =>
    exact ih (inv_step hI op h1.1 h2.1) h1.2 h2.2

/-! ### release frame -/

theorem delete_frame {c : Cfg} {st : State} (hI : Inv st) (k : Nat) :
    (∀ id, id ≠ k → AMap.lookup (delete c st k).1.prim id = AMap.lookup st.prim id) ∧
    AMap.lookup (delete c st k).1.prim k = none ∧
    (∀ s v, AMap.lookup ((delete c st k).1.idx s) v =
      if AMap.lookup (st.idx s) v = some k then none else AMap.lookup (st.idx s) v) := by
  unfold delete
  cases h : AMap.lookup st.prim k with
  | none =>
    refine ⟨fun _ _ => rfl, h, ?_⟩
    intro s v
    by_cases e : AMap.lookup (st.idx s) v = some k
    · obtain ⟨r, hr, _⟩ := (hI.slot s).bwd v k e
      rw [h] at hr; cases hr
    · simp [e]
  | some r =>
    simp only
    refine ⟨?_, by simp, ?_⟩
    · intro id hne; simp [lookup_erase, hne]
    · intro s v
      have : AMap.lookup (State.idx { st with prim := AMap.erase st.prim k,
                                              i0 := idxDrop c.condDelete st.i0 r.k0 k,
                                              i1 := idxDrop c.condDelete st.i1 r.k1 k } s) v =
             AMap.lookup (idxDrop c.condDelete (st.idx s) (r.key s) k) v := by cases s <;> rfl
      rw [this, lookup_idxDrop]
      by_cases e : AMap.lookup (st.idx s) v = some k
      · obtain ⟨r', hr', hk'⟩ := (hI.slot s).bwd v k e
        rw [h] at hr'
        simp only [Option.some.injEq] at hr'
        subst hr'
        simp [hk', e]
      · have : ¬ r.key s = some v := fun hk => e ((hI.slot s).fwd k r v h hk)
        simp [this, e]

/-! ### subscriber.Manager: the MAC index is exact on EVERY history -/

theorem step_submgr_invS0 {st : State} (hI : InvS false st) (hF : Fresh st) (op : Op) :
    InvS false (step submgr st op).1 := by
  unfold step
  by_cases ha : submgr.accepts op = true
  · simp only [ha, Bool.not_true, Bool.false_eq_true, if_false]
    cases op with
    | create id? k0 k1 =>
      -- accepted shape: create none (some m) none
      cases id? with
      | some id => simp [submgr, submgrAccepts] at ha
      | none =>
        cases k0 with
        | none => simp [submgr, submgrAccepts] at ha
        | some m =>
          cases k1 with
          | some a => simp [submgr, submgrAccepts] at ha
          | none =>
            simp only
            cases hb : (dupBlocks submgr.dup0 st.i0 (some m) none || dupBlocks submgr.dup1 st.i1 none none) with
            | true => rw [create_blocked hb]; exact hI
            | false =>
              have hfree : AMap.lookup st.i0 m = none := by
                simp only [dupBlocks, submgr, Bool.or_false] at hb
                cases e : AMap.lookup st.i0 m with
                | none => rfl
                | some h => simp [e] at hb
              apply invS_put hI (Option.getD none st.next) ⟨some m, none⟩ (create_prim hb) (create_idx hb false)
              · intro r v hr _
                exact absurd (hF _ r hr) (Nat.lt_irrefl _)
              · intro id' r' v hk hp hkr
                simp only [Rec.key, Option.some.injEq] at hk
                subst hk
                have := hI.fwd id' r' m hp hkr
                simp only [State.idx] at this
                rw [hfree] at this; cases this
    | update id k0 k1 => simp [submgr, submgrAccepts] at ha
    | setKey id slot v =>
      cases slot with
      | false => simp [submgr, submgrAccepts] at ha
      | true =>
        simp only [setKey]
        cases h : AMap.lookup st.prim id with
        | none => exact hI
        | some r =>
          simp only
          apply invS_put hI id (r.set true (some v))
          · intro x; simp [lookup_insert]
          · intro w
            show AMap.lookup st.i0 w = _
            by_cases hk : r.k0 = some w
            · simp only [Rec.set, Rec.key, hk, if_true]
              exact hI.fwd id r w h hk
            · simp [Rec.set, Rec.key, hk, State.idx]
          · intro r' w hr' hk
            rw [h] at hr'
            simp only [Option.some.injEq] at hr'
            subst hr'
            exact hk
          · intro id' r' w hk hp hkr
            have a := hI.fwd id r w h hk
            have b := hI.fwd id' r' w hp hkr
            rw [a] at b
            simpa using b.symm
    | delete id =>
      simp only [delete]
      cases h : AMap.lookup st.prim id with
      | none => exact hI
      | some r =>
        simp only
        apply invS_delete hI id r submgr.condDelete h
        · intro x; simp [lookup_erase]
        · intro v; rfl
    | get id => exact hI
    | byKey slot v => exact hI
    | list => exact hI
  · simp only [ha, Bool.not_false, if_true]
    exact hI

theorem run_submgr_invS0 {st : State} (hI : InvS false st) (hF : Fresh st) (ops : List Op) :
    InvS false (run submgr st ops) := by
  induction ops generalizing st with
  | nil => exact hI
  | cons op rest ih => exact ih (step_submgr_invS0 hI hF op) (fresh_step submgr hF op)

/-! ### MemoryAllocationStore: every live allocation is found by its address, on EVERY history -/

theorem step_memstore_fwd {st : State} (hI : FwdS true st) (op : Op) : FwdS true (step memstore st op).1 := by
  unfold step
  by_cases ha : memstore.accepts op = true
  · simp only [ha, Bool.not_true, Bool.false_eq_true, if_false]
    cases op with
    | create id? k0 k1 =>
      cases id? with
      | none => simp [memstore, memAccepts] at ha
      | some nid =>
        cases k0 with
        | some m => simp [memstore, memAccepts] at ha
        | none =>
          cases k1 with
          | none => simp [memstore, memAccepts] at ha
          | some a =>
            simp only
            cases hb : (dupBlocks memstore.dup0 st.i0 none (some nid) || dupBlocks memstore.dup1 st.i1 (some a) (some nid)) with
            | true => rw [create_blocked hb]; exact hI
            | false =>
              have hown : ∀ h, AMap.lookup st.i1 a = some h → h = nid := by
                intro h e
                simp only [dupBlocks, memstore, Bool.false_or, e] at hb
                have : nid = h := by simpa using hb
                exact this.symm
              intro id r v hp hk
              rw [create_prim hb] at hp
              rw [create_idx hb]
              by_cases e : id = Option.getD (some nid) st.next
              · simp only [e, if_true, Option.some.injEq] at hp
                subst hp
                simp [hk, e]
              · simp only [e, if_false] at hp
                have h1 := hI id r v hp hk
                by_cases hv : (Rec.mk none (some a)).key true = some v
                · simp only [Rec.key, Option.some.injEq] at hv
                  subst hv
                  have := hown id h1
                  exact absurd (by simpa using this) e
                · simp only [hv, if_false]; exact h1
    | update id k0 k1 => simp [memstore, memAccepts] at ha
    | setKey id slot v => simp [memstore, memAccepts] at ha
    | delete id =>
      simp only [delete]
      cases h : AMap.lookup st.prim id with
      | none => exact hI
      | some rk =>
        simp only
        intro x r v hp hk
        simp only [lookup_erase] at hp
        by_cases e : x = id
        · simp [e] at hp
        · simp only [e, if_false] at hp
          have h1 := hI x r v hp hk
          show AMap.lookup (idxDrop memstore.condDelete st.i1 rk.k1 id) v = some x
          rw [lookup_idxDrop]
          by_cases h2 : rk.k1 = some v
          · have h3 : AMap.lookup st.i1 v = some id := hI id rk v h h2
            have : AMap.lookup st.i1 v = some x := h1
            rw [this] at h3
            exact absurd (by simpa using h3) e
          · simp only [h2, false_and, if_false]; exact h1
    | get id => exact hI
    | byKey slot v => exact hI
    | list => exact hI
  · simp only [ha, Bool.not_false, if_true]
    exact hI

theorem run_memstore_fwd {st : State} (hI : FwdS true st) (ops : List Op) : FwdS true (run memstore st ops) := by
  induction ops generalizing st with
  | nil => exact hI
  | cons op rest ih => exact ih (step_memstore_fwd hI op)

end Bng.Index
