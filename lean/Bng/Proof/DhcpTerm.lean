import Bng.Model.DhcpTerm
import Bng.Proof.Dhcp4
/-
  Invariant of the DHCPv4 session-resource model (Bng.DhcpTerm) and its preservation.

  `Inv ps s` — every resource entry in `s` (pool binding of a lease, QoS entry, NAT block, each cache key, each open
  accounting session) is OWNED by a live lease or by one of the leases `ps` that a termination has taken out of the
  table and whose tail has not run yet; nothing else exists.  `Inv [] s` holds after every history; the pending list
  is what makes the interleavings (`Op.split`, `Op.gap`) ordinary proof steps.

  `Ended s m l d` — nothing of the session (m, l) is left in `s` (d: it ended by DECLINE, its address is quarantined).
-/
namespace Bng.DhcpTerm
open Bng AMap
open Bng.Dhcp4 (PoolInv)

/-! ### ownership -/

def Owner (ps : List (Nat × Lease)) (s : State) (m : Nat) (l : Lease) : Prop :=
  lookup s.leases m = some l ∨ (m, l) ∈ ps

structure Inv (ps : List (Nat × Lease)) (s : State) : Prop where
  pool : PoolInv s.cfg s.pool
  pendFree : ∀ m l, (m, l) ∈ ps → lookup s.leases m = none
  pendNodup : (ps.map Prod.fst).Nodup
  bind : ∀ m l, Owner ps s m l → lookup s.pool.allocated m = some l.ip
  qos : ∀ a, a ∈ s.qos → ∃ m l, Owner ps s m l ∧ l.ip = a
  nat : ∀ a, a ∈ s.nat → ∃ m l, Owner ps s m l ∧ l.ip = a
  kMac : ∀ m, m ∈ s.kMac → ∃ l, Owner ps s m l
  kCid : ∀ m c, (m, c) ∈ s.kCid → ∃ l, Owner ps s m l ∧ l.cid = some c
  kHash : ∀ m c, (m, c) ∈ s.kHash → ∃ l, Owner ps s m l ∧ l.cid = some c
  kVlan : s.kVlan = []
  acctOff : s.radius = false → s.acct = []
  acctLive : s.radius = true → ∀ m l, Owner ps s m l → lookup s.acct l.sess = some ⟨m, 1, 0⟩
  acctRec : ∀ k r, lookup s.acct k = some r →
    k < s.nextSess ∧ r.starts = 1 ∧ r.stops ≤ 1 ∧ (r.stops = 0 → ∃ l, Owner ps s r.mac l ∧ l.sess = k)
  /-- no cache map is write-protected (only `OpX.wfault` does that): every Delete works -/
  ro : s.ro = []

theorem pend_unique {ps : List (Nat × Lease)} (h : (ps.map Prod.fst).Nodup) {m : Nat} {l l' : Lease}
    (h1 : (m, l) ∈ ps) (h2 : (m, l') ∈ ps) : l = l' := by
  induction ps with
  | nil => simp at h1
  | cons p rest ih =>
    simp only [List.map_cons, List.nodup_cons, List.mem_map, not_exists, not_and] at h
    simp only [List.mem_cons] at h1 h2
    rcases h1 with h1 | h1 <;> rcases h2 with h2 | h2
    · have := h1.trans h2.symm; simpa using this
    · exact absurd (by rw [← h1]) (h.1 (m, l') h2)
    · exact absurd (by rw [← h2]) (h.1 (m, l) h1)
    · exact ih h.2 h1 h2

theorem owner_unique {ps : List (Nat × Lease)} {s : State} (hI : Inv ps s) {m : Nat} {l l' : Lease}
    (h1 : Owner ps s m l) (h2 : Owner ps s m l') : l = l' := by
  rcases h1 with h1 | h1 <;> rcases h2 with h2 | h2
  · rw [h1] at h2; exact Option.some.inj h2
  · rw [hI.pendFree m l' h2] at h1; cases h1
  · rw [hI.pendFree m l h1] at h2; cases h2
  · exact pend_unique hI.pendNodup h1 h2

/-- two owners on one address are the same session -/
theorem owner_ip_inj {ps : List (Nat × Lease)} {s : State} (hI : Inv ps s) {m m' : Nat} {l l' : Lease}
    (h1 : Owner ps s m l) (h2 : Owner ps s m' l') (h : l.ip = l'.ip) : m = m' :=
  hI.pool.inj _ _ _ (hI.bind m l h1) (h ▸ hI.bind m' l' h2)

theorem inv_init (radius : Bool) (lt : Nat) : Inv [] (init radius lt) := by
  have hp : PoolInv (mkCfg lt) { avail := (mkCfg lt).initialAvail } := Bng.Dhcp4.poolInv_init (mkCfg lt)
  refine ⟨hp, ?_, by simp, ?_, ?_, ?_, ?_, ?_, ?_, rfl, fun _ => rfl, ?_, ?_, rfl⟩
  all_goals (first
    | (intro m l h; rcases h with h | h <;> simp [init] at h)
    | (intro _ m l h; rcases h with h | h <;> simp [init] at h)
    | (intro a h; simp [init] at h)
    | (intro a b h; simp [init] at h))

/-! ### taking a lease out of the table -/

def takeOut (s : State) (m : Nat) : State := { s with leases := erase s.leases m }

theorem owner_takeOut {ps : List (Nat × Lease)} {s : State} (_hI : Inv ps s) {m : Nat} {l : Lease}
    (hl : lookup s.leases m = some l) (m' : Nat) (l' : Lease) :
    Owner ((m, l) :: ps) (takeOut s m) m' l' ↔ Owner ps s m' l' := by
  unfold Owner takeOut
  simp only [lookup_erase, List.mem_cons, Prod.mk.injEq]
  constructor
  · rintro (h | ⟨rfl, rfl⟩ | h)
    · split at h
      · cases h
      · exact Or.inl h
    · exact Or.inl hl
    · exact Or.inr h
  · rintro (h | h)
    · by_cases e : m' = m
      · subst e; rw [hl] at h; cases h; exact Or.inr (Or.inl ⟨rfl, rfl⟩)
      · simp [e, h]
    · exact Or.inr (Or.inr h)

theorem inv_takeOut {ps : List (Nat × Lease)} {s : State} (hI : Inv ps s) {m : Nat} {l : Lease}
    (hl : lookup s.leases m = some l) : Inv ((m, l) :: ps) (takeOut s m) := by
  have ho := owner_takeOut hI hl
  refine ⟨hI.pool, ?_, ?_, ?_, ?_, ?_, ?_, ?_, ?_, hI.kVlan, hI.acctOff, ?_, ?_, hI.ro⟩
  · intro m' l' h
    simp only [List.mem_cons, Prod.mk.injEq] at h
    simp only [takeOut, lookup_erase]
    rcases h with ⟨rfl, _⟩ | h
    · simp
    · split
      · rfl
      · exact hI.pendFree m' l' h
  · simp only [List.map_cons, List.nodup_cons, List.mem_map, not_exists, not_and]
    refine ⟨?_, hI.pendNodup⟩
    rintro ⟨a, b⟩ hab rfl
    have := hI.pendFree _ _ hab
    rw [hl] at this; cases this
  · intro m' l' h; exact hI.bind m' l' ((ho m' l').mp h)
  · intro a h; obtain ⟨m', l', h1, h2⟩ := hI.qos a h; exact ⟨m', l', (ho m' l').mpr h1, h2⟩
  · intro a h; obtain ⟨m', l', h1, h2⟩ := hI.nat a h; exact ⟨m', l', (ho m' l').mpr h1, h2⟩
  · intro m' h; obtain ⟨l', h1⟩ := hI.kMac m' h; exact ⟨l', (ho m' l').mpr h1⟩
  · intro m' c h; obtain ⟨l', h1, h2⟩ := hI.kCid m' c h; exact ⟨l', (ho m' l').mpr h1, h2⟩
  · intro m' c h; obtain ⟨l', h1, h2⟩ := hI.kHash m' c h; exact ⟨l', (ho m' l').mpr h1, h2⟩
  · intro hr m' l' h; exact hI.acctLive hr m' l' ((ho m' l').mp h)
  · intro k r h
    obtain ⟨h1, h2, h3, h4⟩ := hI.acctRec k r h
    refine ⟨h1, h2, h3, fun h0 => ?_⟩
    obtain ⟨l', h5, h6⟩ := h4 h0
    exact ⟨l', (ho _ l').mpr h5, h6⟩

/-! ### the tail of a termination: everything the session held goes -/

/-- what every termination does with the lease it took (the three handlers differ only in the order of the calls) -/
def finish (s : State) (m : Nat) (l : Lease) (declined : Bool) : State :=
  { s with
    pool := if declined then (s.pool.release l.ip).markUnavailable l.ip else s.pool.release l.ip,
    qos := rm s.qos l.ip, qosHalf := rm s.qosHalf l.ip, nat := rm s.nat l.ip,
    kMac := delK s.roS s.kMac m,
    kCid := match l.cid with
      | some c => delK s.roC s.kCid (m, c)
      | none => s.kCid,
    kHash := match l.cid with
      | some c => delK s.roH s.kHash (m, c)
      | none => s.kHash,
    acct := if s.radius then addStop s.acct l.sess m else s.acct }

/-- while no cache map is write-protected every Delete of the tail works -/
theorem finish_keys {s : State} (h : s.ro = []) (m : Nat) (l : Lease) (d : Bool) :
    (finish s m l d).kMac = rm s.kMac m ∧
    (finish s m l d).kCid = (match l.cid with | some c => rm s.kCid (m, c) | none => s.kCid) ∧
    (finish s m l d).kHash = (match l.cid with | some c => rm s.kHash (m, c) | none => s.kHash) := by
  unfold finish State.roS State.roC State.roH
  rw [h]
  refine ⟨rfl, ?_, ?_⟩ <;> (cases l.cid <;> rfl)

theorem releaseTail_eq (s : State) (m : Nat) (l : Lease) : releaseTail s m l = finish s m l false := by
  unfold releaseTail finish sessionEnd uncache
  cases l.cid <;> rfl

theorem declineTail_eq (s : State) (m : Nat) (l : Lease) : declineTail s m l = finish s m l true := by
  unfold declineTail finish sessionEnd uncache
  cases l.cid <;> rfl

theorem expireOne_eq (t : Nat) (s : State) (m : Nat) :
    expireOne t s m = match lookup s.leases m with
      | none => s
      | some l => if t > l.exp then finish (takeOut s m) m l false else s := by
  unfold expireOne
  cases h : lookup s.leases m with
  | none => rfl
  | some l =>
    simp only
    split
    · unfold finish sessionEnd uncache takeOut
      cases l.cid <;> rfl
    · rfl

theorem release_eq (s : State) (m : Nat) :
    release s m = match lookup s.leases m with
      | none => s
      | some l => finish (takeOut s m) m l false := by
  unfold release takeRelease
  cases h : lookup s.leases m with
  | none => rfl
  | some l => simp only [releaseTail_eq]; rfl

theorem decline_eq (s : State) (m ip : Nat) :
    decline s m ip = match lookup s.leases m with
      | none => s
      | some l => if l.ip = ip then finish (takeOut s m) m l true else s := by
  unfold decline takeDecline
  cases h : lookup s.leases m with
  | none => rfl
  | some l =>
    by_cases e : l.ip = ip
    · simp only [e, if_true, declineTail_eq]; rfl
    · simp only [e, if_false]

theorem head_not_pending {ps : List (Nat × Lease)} {s : State} {m : Nat} {l : Lease}
    (hI : Inv ((m, l) :: ps) s) (l' : Lease) : (m, l') ∉ ps := by
  intro h
  have := hI.pendNodup
  simp only [List.map_cons, List.nodup_cons, List.mem_map, not_exists, not_and] at this
  exact this.1 (m, l') h rfl

/-- owners after the tail = owners before, minus the session that ended -/
theorem owner_finish {ps : List (Nat × Lease)} {s : State} {m : Nat} {l : Lease} (hI : Inv ((m, l) :: ps) s)
    (d : Bool) {m' : Nat} {l' : Lease} :
    Owner ps (finish s m l d) m' l' ↔ Owner ((m, l) :: ps) s m' l' ∧ m' ≠ m := by
  have hfree : lookup s.leases m = none := hI.pendFree m l (by simp)
  unfold Owner
  simp only [finish, List.mem_cons, Prod.mk.injEq]
  constructor
  · rintro (h | h)
    · refine ⟨Or.inl h, ?_⟩
      rintro rfl; rw [hfree] at h; cases h
    · refine ⟨Or.inr (Or.inr h), ?_⟩
      rintro rfl; exact head_not_pending hI l' h
  · rintro ⟨h | ⟨h, _⟩ | h, hne⟩
    · exact Or.inl h
    · exact absurd h hne
    · exact Or.inr h

theorem finish_alloc {ps : List (Nat × Lease)} {s : State} {m : Nat} {l : Lease} (hI : Inv ((m, l) :: ps) s)
    (d : Bool) : (finish s m l d).pool.allocated = erase s.pool.allocated m := by
  have hb : lookup s.pool.allocated m = some l.ip := hI.bind m l (Or.inr (by simp))
  have := Bng.Dhcp4.release_of_holder hI.pool hb
  unfold finish
  cases d <;> simp [this, Bng.Dhcp4.Pool.markUnavailable]

theorem inv_finish {ps : List (Nat × Lease)} {s : State} {m : Nat} {l : Lease} (hI : Inv ((m, l) :: ps) s)
    (d : Bool) : Inv ps (finish s m l d) := by
  have ho := fun m' l' => @owner_finish ps s m l hI d m' l'
  have hown : Owner ((m, l) :: ps) s m l := Or.inr (by simp)
  have hsame : ∀ {m' l'}, Owner ((m, l) :: ps) s m' l' → m' = m → l' = l := by
    intro m' l' h e; subst e; exact owner_unique hI h hown
  obtain ⟨fk1, fk2, fk3⟩ := finish_keys hI.ro m l d
  refine ⟨?_, ?_, ?_, ?_, ?_, ?_, ?_, ?_, ?_, hI.kVlan, ?_, ?_, ?_, hI.ro⟩
  · show PoolInv s.cfg (finish s m l d).pool
    unfold finish
    cases d
    · exact (Bng.Dhcp4.poolInv_release hI.pool l.ip).1
    · exact Bng.Dhcp4.poolInv_release_mark hI.pool l.ip
  · intro m' l' h; exact hI.pendFree m' l' (List.mem_cons_of_mem _ h)
  · have := hI.pendNodup
    simp only [List.map_cons, List.nodup_cons] at this
    exact this.2
  · intro m' l' h
    obtain ⟨h1, hne⟩ := (ho m' l').mp h
    rw [finish_alloc hI d, lookup_erase_ne _ hne]
    exact hI.bind m' l' h1
  · intro a h
    have h' : a ∈ rm s.qos l.ip := h
    rw [mem_rm] at h'
    obtain ⟨m', l', h1, h2⟩ := hI.qos a h'.1
    refine ⟨m', l', (ho m' l').mpr ⟨h1, ?_⟩, h2⟩
    intro e; exact h'.2 (by rw [← h2, hsame h1 e])
  · intro a h
    have h' : a ∈ rm s.nat l.ip := h
    rw [mem_rm] at h'
    obtain ⟨m', l', h1, h2⟩ := hI.nat a h'.1
    refine ⟨m', l', (ho m' l').mpr ⟨h1, ?_⟩, h2⟩
    intro e; exact h'.2 (by rw [← h2, hsame h1 e])
  · intro m' h
    have h' : m' ∈ rm s.kMac m := fk1 ▸ h
    rw [mem_rm] at h'
    obtain ⟨l', h1⟩ := hI.kMac m' h'.1
    exact ⟨l', (ho m' l').mpr ⟨h1, h'.2⟩⟩
  · intro m' c h
    have h' : (m', c) ∈ (match l.cid with | some c0 => rm s.kCid (m, c0) | none => s.kCid) := fk2 ▸ h
    have hin : (m', c) ∈ s.kCid := by
      cases hc : l.cid with
      | none => simpa [hc] using h'
      | some c0 => rw [hc] at h'; exact ((mem_rm _ _ _).mp h').1
    obtain ⟨l', h1, h2⟩ := hI.kCid m' c hin
    refine ⟨l', (ho m' l').mpr ⟨h1, ?_⟩, h2⟩
    intro e
    have hl := hsame h1 e
    subst hl
    rw [h2] at h'
    exact ((mem_rm _ _ _).mp h').2 (by rw [e])
  · intro m' c h
    have h' : (m', c) ∈ (match l.cid with | some c0 => rm s.kHash (m, c0) | none => s.kHash) := fk3 ▸ h
    have hin : (m', c) ∈ s.kHash := by
      cases hc : l.cid with
      | none => simpa [hc] using h'
      | some c0 => rw [hc] at h'; exact ((mem_rm _ _ _).mp h').1
    obtain ⟨l', h1, h2⟩ := hI.kHash m' c hin
    refine ⟨l', (ho m' l').mpr ⟨h1, ?_⟩, h2⟩
    intro e
    have hl := hsame h1 e
    subst hl
    rw [h2] at h'
    exact ((mem_rm _ _ _).mp h').2 (by rw [e])
  · intro hr
    have : (finish s m l d).acct = s.acct := by simp [finish, show s.radius = false from hr]
    rw [this]; exact hI.acctOff hr
  · intro hr m' l' h
    have hr' : s.radius = true := hr
    obtain ⟨h1, hne⟩ := (ho m' l').mp h
    have ha : (finish s m l d).acct = addStop s.acct l.sess m := by simp [finish, hr']
    have hml := hI.acctLive hr' m l hown
    have hml' := hI.acctLive hr' m' l' h1
    have hs : l'.sess ≠ l.sess := by
      intro e; rw [e, hml] at hml'
      injection hml' with h3; injection h3 with h4
      exact hne h4.symm
    rw [ha]; unfold addStop; rw [hml]
    simp only [lookup_insert_ne _ _ hs]
    exact hml'
  · intro k r h
    by_cases hr : s.radius = true
    · have ha : (finish s m l d).acct = addStop s.acct l.sess m := by simp [finish, hr]
      have hml := hI.acctLive hr m l hown
      rw [ha] at h; unfold addStop at h; rw [hml] at h
      by_cases hk : k = l.sess
      · subst hk
        rw [lookup_insert_self] at h
        injection h with h; subst h
        obtain ⟨h1, _, _, _⟩ := hI.acctRec _ _ hml
        exact ⟨h1, rfl, Nat.le_refl _, fun h0 => by simp at h0⟩
      · rw [lookup_insert_ne _ _ hk] at h
        obtain ⟨h1, h2, h3, h4⟩ := hI.acctRec k r h
        refine ⟨h1, h2, h3, fun h0 => ?_⟩
        obtain ⟨l', h5, h6⟩ := h4 h0
        refine ⟨l', (ho _ l').mpr ⟨h5, ?_⟩, h6⟩
        intro e
        have := hsame h5 e
        subst this
        exact hk h6.symm
    · have hr' : s.radius = false := by simpa using hr
      have ha : (finish s m l d).acct = s.acct := by simp [finish, hr']
      rw [ha, hI.acctOff hr'] at h
      simp at h

/-! ### terminations preserve the invariant (with any set of pending tails) -/

theorem inv_expireOne {ps : List (Nat × Lease)} {s : State} (hI : Inv ps s) (t m : Nat) :
    Inv ps (expireOne t s m) := by
  rw [expireOne_eq]
  cases h : lookup s.leases m with
  | none => exact hI
  | some l =>
    simp only
    split
    · exact inv_finish (inv_takeOut hI h) false
    · exact hI

theorem inv_applyList {ps : List (Nat × Lease)} (t : Nat) (macs : List Nat) {s : State} (hI : Inv ps s) :
    Inv ps (applyList t s macs) := by
  unfold applyList
  induction macs generalizing s with
  | nil => exact hI
  | cons a rest ih => exact ih (inv_expireOne hI t a)

theorem inv_release {ps : List (Nat × Lease)} {s : State} (hI : Inv ps s) (m : Nat) : Inv ps (release s m) := by
  rw [release_eq]
  cases h : lookup s.leases m with
  | none => exact hI
  | some l => exact inv_finish (inv_takeOut hI h) false

theorem inv_decline {ps : List (Nat × Lease)} {s : State} (hI : Inv ps s) (m ip : Nat) : Inv ps (decline s m ip) := by
  rw [decline_eq]
  cases h : lookup s.leases m with
  | none => exact hI
  | some l =>
    simp only
    split
    · exact inv_finish (inv_takeOut hI h) true
    · exact hI

theorem inv_cleanup {ps : List (Nat × Lease)} {s : State} (hI : Inv ps s) (o : List Nat) : Inv ps (cleanup s o) :=
  inv_applyList _ _ hI

theorem inv_term {ps : List (Nat × Lease)} {s : State} (hI : Inv ps s) (t : Term) : Inv ps (t.run s) := by
  cases t with
  | rel m => exact inv_release hI m
  | dec m ip => exact inv_decline hI m ip
  | cleanup o => exact inv_cleanup hI o

theorem inv_gap {s : State} (hI : Inv [] s) (o : List Nat) (inner : Term) : Inv [] (gap s o inner).1 := by
  unfold gap
  simp only
  split
  · exact hI
  · have h1 := inv_term hI inner
    have : (inner.run s).now = (inner.run s).now := rfl
    exact inv_applyList _ _ h1

theorem inv_split {s : State} (hI : Inv [] s) (a b : Term) : Inv [] (split s a b) := by
  cases a with
  | rel m =>
    simp only [split, takeRelease]
    cases h : lookup s.leases m with
    | none => exact inv_term hI b
    | some l =>
      simp only [releaseTail_eq]
      exact inv_finish (inv_term (inv_takeOut hI h) b) false
  | dec m ip =>
    simp only [split, takeDecline]
    cases h : lookup s.leases m with
    | none => exact inv_term hI b
    | some l =>
      by_cases e : l.ip = ip
      · simp only [e, if_true, declineTail_eq]
        exact inv_finish (inv_term (inv_takeOut hI h) b) true
      · simp only [e, if_false]
        exact inv_term hI b
  | cleanup o => exact inv_term (inv_cleanup hI o) b

/-! ### establishment preserves the invariant -/

theorem owner_nil {s : State} {m : Nat} {l : Lease} : Owner [] s m l ↔ lookup s.leases m = some l := by
  simp [Owner]

/-- only the pool changed, and every binding that backs a lease is unchanged -/
theorem inv_pool_only {s : State} (hI : Inv [] s) (p : Pool) (hp : PoolInv s.cfg p)
    (hb : ∀ m l, lookup s.leases m = some l → lookup p.allocated m = some l.ip) :
    Inv [] { s with pool := p } := by
  refine ⟨hp, hI.pendFree, hI.pendNodup, ?_, hI.qos, hI.nat, hI.kMac, hI.kCid, hI.kHash, hI.kVlan, hI.acctOff,
    hI.acctLive, hI.acctRec, hI.ro⟩
  intro m l h
  exact hb m l (owner_nil.mp h)

theorem inv_discover {s : State} (hI : Inv [] s) (m : Nat) : Inv [] (discover s m).1 := by
  have hfresh : Inv [] (match s.pool.allocate m with
      | (p, some ip) => (({ s with pool := p } : State), Reply.offer ip)
      | (_, none) => (s, Reply.none)).1 := by
    cases hq : s.pool.allocate m with
    | mk p o =>
      cases o with
      | none => exact hI
      | some ip =>
        simp only
        have hp : p = (s.pool.allocate m).1 := by rw [hq]
        refine inv_pool_only hI p (hp ▸ Bng.Dhcp4.poolInv_allocate hI.pool m) ?_
        intro m' l' h'
        have hb := hI.bind m' l' (owner_nil.mpr h')
        by_cases e : m' = m
        · subst e
          rw [hp, Bng.Dhcp4.allocate_self hb]; exact hb
        · rw [hp, Bng.Dhcp4.allocate_other e]; exact hb
  unfold discover
  simp only
  cases h : lookup s.leases m with
  | none => exact hfresh
  | some l =>
    simp only
    split
    · exact hI
    · exact hfresh

/-- membership in the circuit-id key sets after the three Puts (each of which may have failed) -/
theorem cacheF_kCid (fS fH fC : Bool) (s : State) (m : Nat) (cid : Option Nat) (m' c : Nat) :
    ((m', c) ∈ (cacheF fS fH fC s m cid).kCid → (cid = some c ∧ m' = m) ∨ (m', c) ∈ s.kCid) ∧
    ((m', c) ∈ (cacheF fS fH fC s m cid).kHash → (cid = some c ∧ m' = m) ∨ (m', c) ∈ s.kHash) := by
  unfold cacheF
  cases cid with
  | none => exact ⟨Or.inr, Or.inr⟩
  | some c0 =>
    constructor
    · intro h
      rcases mem_putK _ _ _ _ _ h with h | h
      · injection h with h1 h2; exact Or.inl ⟨by rw [h2], h1⟩
      · exact Or.inr h
    · intro h
      rcases mem_putK _ _ _ _ _ h with h | h
      · injection h with h1 h2; exact Or.inl ⟨by rw [h2], h1⟩
      · exact Or.inr h

theorem cache_kCid (s : State) (m : Nat) (cid : Option Nat) (m' c : Nat) :
    ((m', c) ∈ (cache s m cid).kCid → (cid = some c ∧ m' = m) ∨ (m', c) ∈ s.kCid) ∧
    ((m', c) ∈ (cache s m cid).kHash → (cid = some c ∧ m' = m) ∨ (m', c) ∈ s.kHash) :=
  cacheF_kCid _ _ _ s m cid m' c

theorem cacheF_rest (fS fH fC : Bool) (s : State) (m : Nat) (cid : Option Nat) :
    (cacheF fS fH fC s m cid).cfg = s.cfg ∧ (cacheF fS fH fC s m cid).radius = s.radius ∧
    (cacheF fS fH fC s m cid).pool = s.pool ∧ (cacheF fS fH fC s m cid).leases = s.leases ∧
    (cacheF fS fH fC s m cid).qos = s.qos ∧ (cacheF fS fH fC s m cid).nat = s.nat ∧
    (cacheF fS fH fC s m cid).kVlan = s.kVlan ∧ (cacheF fS fH fC s m cid).acct = s.acct ∧
    (cacheF fS fH fC s m cid).nextSess = s.nextSess ∧
    (∀ x, x ∈ (cacheF fS fH fC s m cid).kMac → x = m ∨ x ∈ s.kMac) ∧ (cacheF fS fH fC s m cid).now = s.now ∧
    (cacheF fS fH fC s m cid).ro = s.ro ∧ (cacheF fS fH fC s m cid).stale = s.stale ∧
    (cacheF fS fH fC s m cid).early = s.early := by
  unfold cacheF
  cases cid <;> exact ⟨rfl, rfl, rfl, rfl, rfl, rfl, rfl, rfl, rfl, fun x h => mem_putK _ _ _ _ _ h, rfl, rfl, rfl, rfl⟩

theorem cache_rest (s : State) (m : Nat) (cid : Option Nat) :
    (cache s m cid).cfg = s.cfg ∧ (cache s m cid).radius = s.radius ∧ (cache s m cid).pool = s.pool ∧
    (cache s m cid).leases = s.leases ∧ (cache s m cid).qos = s.qos ∧ (cache s m cid).nat = s.nat ∧
    (cache s m cid).kVlan = s.kVlan ∧ (cache s m cid).acct = s.acct ∧ (cache s m cid).nextSess = s.nextSess ∧
    (∀ x, x ∈ (cache s m cid).kMac → x = m ∨ x ∈ s.kMac) ∧ (cache s m cid).now = s.now ∧
    (cache s m cid).ro = s.ro ∧ (cache s m cid).stale = s.stale ∧ (cache s m cid).early = s.early :=
  cacheF_rest _ _ _ s m cid

theorem dropStale_rest (s : State) (m : Nat) (old new : Option Nat) :
    (dropStale s m old new).cfg = s.cfg ∧ (dropStale s m old new).radius = s.radius ∧
    (dropStale s m old new).pool = s.pool ∧ (dropStale s m old new).leases = s.leases ∧
    (dropStale s m old new).qos = s.qos ∧ (dropStale s m old new).nat = s.nat ∧
    (dropStale s m old new).kVlan = s.kVlan ∧ (dropStale s m old new).acct = s.acct ∧
    (dropStale s m old new).nextSess = s.nextSess ∧ (dropStale s m old new).kMac = s.kMac ∧
    (dropStale s m old new).ro = s.ro := by
  unfold dropStale
  cases old with
  | none => simp
  | some oc => simp only; split <;> simp

/-- a circuit-id key that survives `dropStale` was there before, and - every Delete works - if it is the old
    circuit-id of this MAC then the old circuit-id is also the new one -/
theorem dropStale_kCid (s : State) (hro : s.ro = []) (m : Nat) (old new : Option Nat) (m' c : Nat) :
    ((m', c) ∈ (dropStale s m old new).kCid → (m', c) ∈ s.kCid ∧ (m' = m → old = some c → new = some c)) ∧
    ((m', c) ∈ (dropStale s m old new).kHash → (m', c) ∈ s.kHash ∧ (m' = m → old = some c → new = some c)) := by
  unfold dropStale State.roC State.roH
  rw [hro]
  cases old with
  | none => simp
  | some oc =>
    simp only
    by_cases hne : some oc ≠ new
    · simp only [if_pos hne, List.contains_nil, delK_false, mem_rm]
      constructor
      · rintro ⟨h1, h2⟩
        refine ⟨h1, fun e1 e2 => ?_⟩
        injection e2 with e2; subst e1; subst e2; exact absurd rfl h2
      · rintro ⟨h1, h2⟩
        refine ⟨h1, fun e1 e2 => ?_⟩
        injection e2 with e2; subst e1; subst e2; exact absurd rfl h2
    · simp only [if_neg hne]
      have : some oc = new := by simpa using hne
      constructor
      · intro h; exact ⟨h, fun _ e2 => by rw [← this, e2]⟩
      · intro h; exact ⟨h, fun _ e2 => by rw [← this, e2]⟩

theorem dropStale_rest2 (s : State) (m : Nat) (old new : Option Nat) :
    (dropStale s m old new).stale = s.stale ∧ (dropStale s m old new).early = s.early ∧
    (dropStale s m old new).now = s.now := by
  unfold dropStale
  cases old with
  | none => exact ⟨rfl, rfl, rfl⟩
  | some oc => simp only; split <;> exact ⟨rfl, rfl, rfl⟩

/-- what the cache writes of a renewal leave alone -/
theorem recache_rest (s : State) (m : Nat) (old new : Option Nat) :
    (recache s m old new).radius = s.radius ∧ (recache s m old new).leases = s.leases ∧
    (recache s m old new).acct = s.acct ∧ (recache s m old new).stale = s.stale ∧
    (recache s m old new).early = s.early ∧ (recache s m old new).now = s.now := by
  simp only [recache]
  obtain ⟨_, c2, _, c4, _, _, _, c8, _, _, c11, _, c13, c14⟩ :=
    cacheF_rest s.fullS (s.fullH && (dropStale s m old new).kHash.length == s.kHash.length)
      (s.fullC && (dropStale s m old new).kCid.length == s.kCid.length) (dropStale s m old new) m new
  obtain ⟨_, d2, _, d4, _, _, _, d8, _, _, _⟩ := dropStale_rest s m old new
  obtain ⟨e1, e2, e3⟩ := dropStale_rest2 s m old new
  exact ⟨c2.trans d2, c4.trans d4, c8.trans d8, c13.trans e1, c14.trans e2, c11.trans e3⟩

theorem inv_renew {s : State} (hI : Inv [] s) {m : Nat} {l : Lease} (hl : lookup s.leases m = some l)
    (r : Nat) (cid : Option Nat) : Inv [] (renew s m l r cid).1 := by
  unfold renew
  by_cases e : l.ip = r
  · simp only [e, ne_eq, not_true_eq_false, if_false]
    subst e
    generalize keepCid cid l.cid = cid'
    generalize hnl : ({ ip := l.ip, exp := s.now + s.cfg.leaseTime, cid := cid', sess := l.sess } : Lease) = nl
    have nlip : nl.ip = l.ip := by rw [← hnl]
    have nlsess : nl.sess = l.sess := by rw [← hnl]
    have nlcid : nl.cid = cid' := by rw [← hnl]
    generalize hs1 : ({ s with leases := insert s.leases m nl } : State) = s1
    have s1l : s1.leases = insert s.leases m nl := by rw [← hs1]
    have s1rest : s1.cfg = s.cfg ∧ s1.radius = s.radius ∧ s1.pool = s.pool ∧ s1.qos = s.qos ∧ s1.nat = s.nat ∧
        s1.kVlan = s.kVlan ∧ s1.acct = s.acct ∧ s1.nextSess = s.nextSess ∧ s1.kMac = s.kMac ∧ s1.kCid = s.kCid ∧
        s1.kHash = s.kHash := by rw [← hs1]; simp
    obtain ⟨a1, a2, a3, a4, a5, a6, a7, a8, a9, a10, a11⟩ := s1rest
    have s1ro : s1.ro = [] := by rw [← hs1]; exact hI.ro
    obtain ⟨d1, d2, d3, d4, d5, d6, d7, d8, d9, d10, d11⟩ := dropStale_rest s1 m l.cid cid'
    have hD := dropStale_kCid s1 s1ro m l.cid cid'
    simp only [recache]
    generalize (s1.fullH && (dropStale s1 m l.cid cid').kHash.length == s1.kHash.length) = fH
    generalize (s1.fullC && (dropStale s1 m l.cid cid').kCid.length == s1.kCid.length) = fC
    generalize s1.fullS = fS
    generalize dropStale s1 m l.cid cid' = s2 at *
    obtain ⟨c1, c2, c3, c4, c5, c6, c7, c8, c9, c10, _, c12, _, _⟩ := cacheF_rest fS fH fC s2 m cid'
    have hC := cacheF_kCid fS fH fC s2 m cid'
    generalize cacheF fS fH fC s2 m cid' = s3 at *
    have hl3 : s3.leases = insert s.leases m nl := by rw [c4, d4, s1l]
    -- ownership after the renewal
    have hO : ∀ m' l', Owner [] s3 m' l' ↔ (m' = m ∧ l' = nl) ∨ (m' ≠ m ∧ lookup s.leases m' = some l') := by
      intro m' l'
      rw [owner_nil, hl3, lookup_insert]
      by_cases e : m' = m
      · subst e; simp [eq_comm]
      · simp [e]
    have hnlo : Owner [] s3 m nl := (hO _ _).mpr (Or.inl ⟨rfl, rfl⟩)
    -- every old owner has a new owner with the same address and session
    have hN : ∀ m' l', lookup s.leases m' = some l' →
        ∃ l'', Owner [] s3 m' l'' ∧ l''.ip = l'.ip ∧ l''.sess = l'.sess ∧ (m' ≠ m → l'' = l') := by
      intro m' l' h
      by_cases e : m' = m
      · subst e
        rw [hl] at h; cases h
        exact ⟨nl, hnlo, nlip, nlsess, fun h => absurd rfl h⟩
      · exact ⟨l', (hO _ _).mpr (Or.inr ⟨e, h⟩), rfl, rfl, fun _ => rfl⟩
    -- a circuit-id key present afterwards belongs to an owner with that circuit-id
    have hK : ∀ (ks3 ks2 ks : List (Nat × Nat)) (m' c : Nat),
        ((m', c) ∈ ks3 → (cid' = some c ∧ m' = m) ∨ (m', c) ∈ ks2) →
        ((m', c) ∈ ks2 → (m', c) ∈ ks ∧ (m' = m → l.cid = some c → cid' = some c)) →
        (∀ m0 c0, (m0, c0) ∈ ks → ∃ l0, Owner [] s m0 l0 ∧ l0.cid = some c0) →
        (m', c) ∈ ks3 → ∃ l', Owner [] s3 m' l' ∧ l'.cid = some c := by
      intro ks3 ks2 ks m' c h3 h2 h0 h
      rcases h3 h with ⟨h1, rfl⟩ | h'
      · exact ⟨nl, hnlo, nlcid.trans h1⟩
      · obtain ⟨h4, h5⟩ := h2 h'
        obtain ⟨l0, h6, h7⟩ := h0 m' c h4
        by_cases e : m' = m
        · subst e
          rw [owner_nil.mp h6] at hl; cases hl
          exact ⟨nl, hnlo, nlcid.trans (h5 rfl h7)⟩
        · obtain ⟨l'', h8, _, _, h9⟩ := hN m' l0 (owner_nil.mp h6)
          exact ⟨l'', h8, by rw [h9 e]; exact h7⟩
    refine ⟨by rw [c1, c3, d1, d3, a1, a3]; exact hI.pool, by simp, by simp, ?_, ?_, ?_, ?_, ?_, ?_,
      by rw [c7, d7, a6]; exact hI.kVlan, ?_, ?_, ?_, by rw [c12, d11]; exact s1ro⟩
    · intro m' l' h
      rw [c3, d3, a3]
      rcases (hO m' l').mp h with ⟨rfl, rfl⟩ | ⟨_, h'⟩
      · rw [nlip]; exact hI.bind _ _ (owner_nil.mpr hl)
      · exact hI.bind _ _ (owner_nil.mpr h')
    · intro a h
      rw [c5, d5, a4] at h
      obtain ⟨m', l', h1, h2⟩ := hI.qos a h
      obtain ⟨l'', h3, h4, _, _⟩ := hN m' l' (owner_nil.mp h1)
      exact ⟨m', l'', h3, h4.trans h2⟩
    · intro a h
      rw [c6, d6, a5] at h
      obtain ⟨m', l', h1, h2⟩ := hI.nat a h
      obtain ⟨l'', h3, h4, _, _⟩ := hN m' l' (owner_nil.mp h1)
      exact ⟨m', l'', h3, h4.trans h2⟩
    · intro m' h
      have h := c10 m' h
      rw [d10, a9] at h
      rcases h with rfl | h
      · exact ⟨nl, hnlo⟩
      · obtain ⟨l', h1⟩ := hI.kMac m' h
        obtain ⟨l'', h3, _⟩ := hN m' l' (owner_nil.mp h1)
        exact ⟨l'', h3⟩
    · intro m' c h
      exact hK s3.kCid s2.kCid s.kCid m' c (hC m' c).1 (a10 ▸ (hD m' c).1) hI.kCid h
    · intro m' c h
      exact hK s3.kHash s2.kHash s.kHash m' c (hC m' c).2 (a11 ▸ (hD m' c).2) hI.kHash h
    · intro hr; rw [c8, d8, a7]; rw [c2, d2, a2] at hr; exact hI.acctOff hr
    · intro hr m' l' h
      rw [c2, d2, a2] at hr; rw [c8, d8, a7]
      rcases (hO m' l').mp h with ⟨rfl, rfl⟩ | ⟨_, h'⟩
      · rw [nlsess]; exact hI.acctLive hr _ _ (owner_nil.mpr hl)
      · exact hI.acctLive hr _ _ (owner_nil.mpr h')
    · intro k r h
      rw [c8, d8, a7] at h; rw [c9, d9, a8]
      obtain ⟨h1, h2, h3, h4⟩ := hI.acctRec k r h
      refine ⟨h1, h2, h3, fun h0 => ?_⟩
      obtain ⟨l', h5, h6⟩ := h4 h0
      obtain ⟨l'', h7, _, h8, _⟩ := hN _ l' (owner_nil.mp h5)
      exact ⟨l'', h7, h8.trans h6⟩
  · simp only [ne_eq, e, not_false_eq_true, if_true]
    exact hI

theorem qosInstall_qos (s : State) (r a : Nat) : a ∈ (qosInstall s r).qos → a = r ∨ a ∈ s.qos := by
  unfold qosInstall
  split
  · exact Or.inr
  · split <;> (intro h; exact (mem_ins _ _ _).mp h)

theorem natInstall_nat (s : State) (r a : Nat) : a ∈ (natInstall s r).nat → a = r ∨ a ∈ s.nat := by
  unfold natInstall
  split
  · exact Or.inr
  · intro h; exact (mem_ins _ _ _).mp h

theorem qosInstall_rest (s : State) (r : Nat) :
    (qosInstall s r).cfg = s.cfg ∧ (qosInstall s r).radius = s.radius ∧ (qosInstall s r).pool = s.pool ∧
    (qosInstall s r).leases = s.leases ∧ (qosInstall s r).nat = s.nat ∧ (qosInstall s r).kMac = s.kMac ∧
    (qosInstall s r).kVlan = s.kVlan ∧ (qosInstall s r).kCid = s.kCid ∧ (qosInstall s r).kHash = s.kHash ∧
    (qosInstall s r).acct = s.acct ∧ (qosInstall s r).nextSess = s.nextSess ∧ (qosInstall s r).stale = s.stale ∧
    (qosInstall s r).early = s.early ∧ (qosInstall s r).now = s.now := by
  unfold qosInstall
  split
  · simp
  · split <;> simp

theorem natInstall_rest (s : State) (r : Nat) :
    (natInstall s r).cfg = s.cfg ∧ (natInstall s r).radius = s.radius ∧ (natInstall s r).pool = s.pool ∧
    (natInstall s r).leases = s.leases ∧ (natInstall s r).qos = s.qos ∧ (natInstall s r).kMac = s.kMac ∧
    (natInstall s r).kVlan = s.kVlan ∧ (natInstall s r).kCid = s.kCid ∧ (natInstall s r).kHash = s.kHash ∧
    (natInstall s r).acct = s.acct ∧ (natInstall s r).nextSess = s.nextSess ∧ (natInstall s r).stale = s.stale ∧
    (natInstall s r).early = s.early ∧ (natInstall s r).now = s.now := by
  unfold natInstall
  split <;> simp

theorem qosInstall_ro (s : State) (r : Nat) : (qosInstall s r).ro = s.ro := by
  unfold qosInstall
  split
  · rfl
  · split <;> rfl
theorem natInstall_ro (s : State) (r : Nat) : (natInstall s r).ro = s.ro := by
  unfold natInstall
  split <;> rfl
theorem qosInstall_radius (s : State) (r : Nat) : (qosInstall s r).radius = s.radius := (qosInstall_rest s r).2.1
theorem natInstall_radius (s : State) (r : Nat) : (natInstall s r).radius = s.radius := (natInstall_rest s r).2.1
theorem qosInstall_stale (s : State) (r : Nat) : (qosInstall s r).stale = s.stale := (qosInstall_rest s r).2.2.2.2.2.2.2.2.2.2.2.1
theorem natInstall_stale (s : State) (r : Nat) : (natInstall s r).stale = s.stale := (natInstall_rest s r).2.2.2.2.2.2.2.2.2.2.2.1
theorem qosInstall_early (s : State) (r : Nat) : (qosInstall s r).early = s.early := (qosInstall_rest s r).2.2.2.2.2.2.2.2.2.2.2.2.1
theorem natInstall_early (s : State) (r : Nat) : (natInstall s r).early = s.early := (natInstall_rest s r).2.2.2.2.2.2.2.2.2.2.2.2.1

theorem setFault_radius (s : State) (w : Nat) (on : Bool) : (setFault s w on).radius = s.radius := by
  unfold setFault; repeat' split
  all_goals rfl
theorem setFault_stale (s : State) (w : Nat) (on : Bool) : (setFault s w on).stale = s.stale := by
  unfold setFault; repeat' split
  all_goals rfl
theorem setFault_early (s : State) (w : Nat) (on : Bool) : (setFault s w on).early = s.early := by
  unfold setFault; repeat' split
  all_goals rfl

theorem inv_setFault {ps : List (Nat × Lease)} {s : State} (hI : Inv ps s) (w : Nat) (on : Bool) :
    Inv ps (setFault s w on) := by
  unfold setFault
  repeat' split
  all_goals exact ⟨hI.pool, hI.pendFree, hI.pendNodup, hI.bind, hI.qos, hI.nat, hI.kMac, hI.kCid, hI.kHash, hI.kVlan,
      hI.acctOff, hI.acctLive, hI.acctRec, hI.ro⟩

theorem cache_early' (s : State) (m : Nat) (cid : Option Nat) : (cache s m cid).early = s.early :=
  (cache_rest s m cid).2.2.2.2.2.2.2.2.2.2.2.2.2

theorem inv_establish {s : State} (hI : Inv [] s) {m : Nat} (hl : lookup s.leases m = none)
    (r : Nat) (cid : Option Nat) : Inv [] (establish s m r cid).1 := by
  unfold establish
  split
  · exact hI
  · cases hq : s.pool.reserve m r with
    | mk p ok =>
      cases ok with
      | false => exact hI
      | true =>
        simp only
        have hp : p = (s.pool.reserve m r).1 := by rw [hq]
        have hok : (s.pool.reserve m r).2 = true := by rw [hq]
        generalize hk : (if s.radius = true then s.nextSess else 0) = k
        generalize hnl : ({ ip := r, exp := s.now + s.cfg.leaseTime, cid := cid, sess := k } : Lease) = nl
        have nlip : nl.ip = r := by rw [← hnl]
        have nlsess : nl.sess = k := by rw [← hnl]
        have nlcid : nl.cid = cid := by rw [← hnl]
        generalize hs1 : ({ s with pool := p, leases := insert s.leases m nl } : State) = s1
        have s1rest : s1.cfg = s.cfg ∧ s1.radius = s.radius ∧ s1.pool = p ∧ s1.qos = s.qos ∧ s1.nat = s.nat ∧
            s1.kVlan = s.kVlan ∧ s1.acct = s.acct ∧ s1.nextSess = s.nextSess ∧ s1.kMac = s.kMac ∧
            s1.kCid = s.kCid ∧ s1.kHash = s.kHash ∧ s1.leases = insert s.leases m nl := by rw [← hs1]; simp
        obtain ⟨a1, a2, a3, a4, a5, a6, a7, a8, a9, a10, a11, a12⟩ := s1rest
        obtain ⟨c1, c2, c3, c4, c5, c6, c7, c8, c9, c10, _, c12, _, _⟩ := cache_rest s1 m cid
        have hC := cache_kCid s1 m cid
        generalize cache s1 m cid = s2 at *
        have hO : ∀ (s' : State), s'.leases = s2.leases → ∀ m' l', Owner [] s' m' l' ↔
            (m' = m ∧ l' = nl) ∨ (m' ≠ m ∧ lookup s.leases m' = some l') := by
          intro s' hs' m' l'
          rw [owner_nil, hs', c4, a12, lookup_insert]
          by_cases e : m' = m
          · subst e; simp [eq_comm]
          · simp [e]
        -- every old owner stays an owner (it is another MAC: this one had no lease)
        have hN : ∀ (s' : State), s'.leases = s2.leases → ∀ m' l', Owner [] s m' l' → Owner [] s' m' l' := by
          intro s' hs' m' l' h
          refine (hO s' hs' m' l').mpr (Or.inr ⟨?_, owner_nil.mp h⟩)
          rintro rfl
          have := owner_nil.mp h
          rw [hl] at this; cases this
        -- the final state
        obtain ⟨q1, q2, q3, q4, q5, q6, q7, q8, q9, q10, q11, _, _, _⟩ := qosInstall_rest s2 r
        obtain ⟨n1, n2, n3, n4, n5, n6, n7, n8, n9, n10, n11, _, _, _⟩ := natInstall_rest (qosInstall s2 r) r
        have hqos : ∀ a, a ∈ (natInstall (qosInstall s2 r) r).qos → a = r ∨ a ∈ s.qos := by
          intro a ha; rw [n5] at ha
          rcases qosInstall_qos s2 r a ha with h | h
          · exact Or.inl h
          · rw [c5, a4] at h; exact Or.inr h
        have hnat : ∀ a, a ∈ (natInstall (qosInstall s2 r) r).nat → a = r ∨ a ∈ s.nat := by
          intro a ha
          rcases natInstall_nat _ r a ha with h | h
          · exact Or.inl h
          · rw [q5, c6, a5] at h; exact Or.inr h
        generalize hs3 : ({ natInstall (qosInstall s2 r) r with acct := if s.radius = true then addStart s2.acct k m else s2.acct, nextSess := if s.radius = true then s.nextSess + 1 else s.nextSess } : State) = s3
        have hl3 : s3.leases = s2.leases := by rw [← hs3]; show (natInstall (qosInstall s2 r) r).leases = _; rw [n4, q4]
        have hnlo : Owner [] s3 m nl := (hO s3 hl3 _ _).mpr (Or.inl ⟨rfl, rfl⟩)
        have hN3 := hN s3 hl3
        have hO3 := hO s3 hl3
        have r3 : s3.cfg = s.cfg ∧ s3.radius = s.radius ∧ s3.pool = p ∧ s3.kVlan = s.kVlan ∧
            (∀ x, x ∈ s3.kMac → x = m ∨ x ∈ s.kMac) ∧
            s3.kCid = s2.kCid ∧ s3.kHash = s2.kHash ∧ (∀ a, a ∈ s3.qos → a = r ∨ a ∈ s.qos) ∧
            (∀ a, a ∈ s3.nat → a = r ∨ a ∈ s.nat) ∧
            s3.acct = (if s.radius = true then addStart s.acct k m else s.acct) ∧
            s3.nextSess = (if s.radius = true then s.nextSess + 1 else s.nextSess) := by
          rw [← hs3]
          refine ⟨?_, ?_, ?_, ?_, ?_, ?_, ?_, hqos, hnat, ?_, rfl⟩
          · show (natInstall (qosInstall s2 r) r).cfg = _; rw [n1, q1, c1, a1]
          · show (natInstall (qosInstall s2 r) r).radius = _; rw [n2, q2, c2, a2]
          · show (natInstall (qosInstall s2 r) r).pool = _; rw [n3, q3, c3, a3]
          · show (natInstall (qosInstall s2 r) r).kVlan = _; rw [n7, q7, c7, a6]
          · show ∀ x, x ∈ (natInstall (qosInstall s2 r) r).kMac → _
            rw [n6, q6]; intro x hx; have := c10 x hx; rw [a9] at this; exact this
          · show (natInstall (qosInstall s2 r) r).kCid = _; rw [n8, q8]
          · show (natInstall (qosInstall s2 r) r).kHash = _; rw [n9, q9]
          · show (if s.radius = true then addStart s2.acct k m else s2.acct) = _; rw [c8, a7]
        obtain ⟨r1, r2, r3', r4, r5, r6, r7, r8, r9, r10, r11⟩ := r3
        have s3ro : s3.ro = [] := by
          rw [← hs3]; show (natInstall (qosInstall s2 r) r).ro = []
          rw [natInstall_ro, qosInstall_ro, c12, ← hs1]; exact hI.ro
        refine ⟨by rw [r1, r3', hp]; exact Bng.Dhcp4.poolInv_reserve hI.pool m r, by simp, by simp, ?_, ?_, ?_, ?_,
          ?_, ?_, by rw [r4]; exact hI.kVlan, ?_, ?_, ?_, s3ro⟩
        · intro m' l' h
          rw [r3', hp]
          rcases (hO3 m' l').mp h with ⟨rfl, rfl⟩ | ⟨hne, h'⟩
          · rw [nlip]; exact Bng.Dhcp4.reserve_true hok
          · rw [Bng.Dhcp4.reserve_other hne]; exact hI.bind _ _ (owner_nil.mpr h')
        · intro a h
          rcases r8 a h with rfl | h
          · exact ⟨m, nl, hnlo, nlip⟩
          · obtain ⟨m', l', h1, h2⟩ := hI.qos a h
            exact ⟨m', l', hN3 _ _ h1, h2⟩
        · intro a h
          rcases r9 a h with rfl | h
          · exact ⟨m, nl, hnlo, nlip⟩
          · obtain ⟨m', l', h1, h2⟩ := hI.nat a h
            exact ⟨m', l', hN3 _ _ h1, h2⟩
        · intro m' h
          rcases r5 m' h with rfl | h
          · exact ⟨nl, hnlo⟩
          · obtain ⟨l', h1⟩ := hI.kMac m' h
            exact ⟨l', hN3 _ _ h1⟩
        · intro m' c h
          rw [r6] at h
          rcases (hC m' c).1 h with ⟨h1, rfl⟩ | h
          · exact ⟨nl, hnlo, nlcid.trans h1⟩
          · rw [a10] at h
            obtain ⟨l', h1, h2⟩ := hI.kCid m' c h
            exact ⟨l', hN3 _ _ h1, h2⟩
        · intro m' c h
          rw [r7] at h
          rcases (hC m' c).2 h with ⟨h1, rfl⟩ | h
          · exact ⟨nl, hnlo, nlcid.trans h1⟩
          · rw [a11] at h
            obtain ⟨l', h1, h2⟩ := hI.kHash m' c h
            exact ⟨l', hN3 _ _ h1, h2⟩
        · intro hr
          rw [r2] at hr
          rw [r10]; simp [hr]; exact hI.acctOff hr
        · intro hr m' l' h
          rw [r2] at hr
          have hk' : k = s.nextSess := by rw [← hk]; simp [hr]
          have hfresh : lookup s.acct s.nextSess = none := by
            cases hx : lookup s.acct s.nextSess with
            | none => rfl
            | some rr => exact absurd (hI.acctRec _ _ hx).1 (Nat.lt_irrefl _)
          rw [r10]; simp only [hr, if_true]
          unfold addStart
          rw [hk', hfresh]
          rcases (hO3 m' l').mp h with ⟨rfl, rfl⟩ | ⟨_, h'⟩
          · rw [nlsess, hk', lookup_insert_self]
          · have hold := hI.acctLive hr _ _ (owner_nil.mpr h')
            have hne : l'.sess ≠ s.nextSess := by
              intro e; rw [e, hfresh] at hold; cases hold
            rw [lookup_insert_ne _ _ hne]; exact hold
        · intro k' rr h
          rw [r10] at h; rw [r11]
          by_cases hr : s.radius = true
          · have hk' : k = s.nextSess := by rw [← hk]; simp [hr]
            have hfresh : lookup s.acct s.nextSess = none := by
              cases hx : lookup s.acct s.nextSess with
              | none => rfl
              | some rr => exact absurd (hI.acctRec _ _ hx).1 (Nat.lt_irrefl _)
            simp only [hr, if_true] at h ⊢
            unfold addStart at h
            rw [hk', hfresh] at h
            by_cases e : k' = s.nextSess
            · subst e
              rw [lookup_insert_self] at h
              injection h with h; subst h
              exact ⟨Nat.lt_succ_self _, rfl, Nat.zero_le _, fun _ => ⟨nl, hnlo, nlsess.trans hk'⟩⟩
            · rw [lookup_insert_ne _ _ e] at h
              obtain ⟨h1, h2, h3, h4⟩ := hI.acctRec k' rr h
              refine ⟨Nat.lt_succ_of_lt h1, h2, h3, fun h0 => ?_⟩
              obtain ⟨l', h5, h6⟩ := h4 h0
              exact ⟨l', hN3 _ _ h5, h6⟩
          · have hr' : s.radius = false := by simpa using hr
            simp only [hr', Bool.false_eq_true, if_false] at h ⊢
            rw [hI.acctOff hr'] at h; simp at h

theorem inv_request {s : State} (hI : Inv [] s) (m r : Nat) (cid : Option Nat) : Inv [] (request s m r cid).1 := by
  unfold request
  cases h : lookup s.leases m with
  | none => exact inv_establish hI h r cid
  | some l => exact inv_renew hI h r cid

theorem inv_step {s : State} (hI : Inv [] s) (op : Op) : Inv [] (step s op).1 := by
  cases op with
  | disc m => exact inv_discover hI m
  | req m ip cid => exact inv_request hI m ip cid
  | term t => exact inv_term hI t
  | tick n =>
    exact ⟨hI.pool, hI.pendFree, hI.pendNodup, hI.bind, hI.qos, hI.nat, hI.kMac, hI.kCid, hI.kHash, hI.kVlan,
      hI.acctOff, hI.acctLive, hI.acctRec, hI.ro⟩
  | gap o inner => exact inv_gap hI o inner
  | split a b => exact inv_split hI a b
  | shutdown => exact hI
  | fault w on => exact inv_setFault hI w on

theorem inv_run {s : State} (hI : Inv [] s) (ops : List Op) : Inv [] (run s ops) := by
  unfold run
  induction ops generalizing s with
  | nil => exact hI
  | cons op rest ih => exact ih (inv_step hI op)

/-- the invariant holds after every history -/
theorem inv_reachable (radius : Bool) (lt : Nat) (ops : List Op) : Inv [] (run (init radius lt) ops) :=
  inv_run (inv_init radius lt) ops

/-! ### a session that has ended holds nothing -/

/-- nothing of the session `(m, l)` is left: no lease, no pool binding, the address is back on the free list (or, after
    a DECLINE, quarantined), no NAT block, no QoS entry, no cache key of any kind, and its accounting session has
    exactly one Start and one Stop (no records at all without a RADIUS client) -/
structure Ended (s : State) (m : Nat) (l : Lease) (declined : Bool) : Prop where
  noLease : lookup s.leases m = none
  noBinding : lookup s.pool.allocated m = none
  addrBack : if declined then l.ip ∈ s.pool.unavailable else l.ip ∈ s.pool.avail
  noNat : l.ip ∉ s.nat
  noQos : l.ip ∉ s.qos
  noMacKey : m ∉ s.kMac
  noVlanKey : s.kVlan = []
  noCidKey : ∀ c, (m, c) ∉ s.kCid ∧ (m, c) ∉ s.kHash
  stop : if s.radius then lookup s.acct l.sess = some ⟨m, 1, 1⟩ else s.acct = []

theorem ended_finish {ps : List (Nat × Lease)} {s : State} {m : Nat} {l : Lease} (hI : Inv ((m, l) :: ps) s)
    (d : Bool) : Ended (finish s m l d) m l d := by
  have hI' := inv_finish hI d
  have hown : Owner ((m, l) :: ps) s m l := Or.inr (by simp)
  have hb : lookup s.pool.allocated m = some l.ip := hI.bind m l hown
  have noOwner : ∀ l', ¬ Owner ps (finish s m l d) m l' := fun l' h => ((owner_finish hI d).mp h).2 rfl
  refine ⟨hI.pendFree m l (by simp), ?_, ?_, ?_, ?_, ?_, hI.kVlan, ?_, ?_⟩
  · rw [finish_alloc hI d]; simp
  · cases d
    · simp only [Bool.false_eq_true, if_false]
      exact Bng.Dhcp4.release_avail hb
    · simp only [if_true]
      exact Bng.Dhcp4.mark_mem _ _
  · intro h
    have h' : l.ip ∈ rm s.nat l.ip := h
    rw [mem_rm] at h'; exact h'.2 rfl
  · intro h
    have h' : l.ip ∈ rm s.qos l.ip := h
    rw [mem_rm] at h'; exact h'.2 rfl
  · intro h
    obtain ⟨l', h1⟩ := hI'.kMac m h
    exact noOwner l' h1
  · intro c
    constructor
    · intro h
      obtain ⟨l', h1, _⟩ := hI'.kCid m c h
      exact noOwner l' h1
    · intro h
      obtain ⟨l', h1, _⟩ := hI'.kHash m c h
      exact noOwner l' h1
  · show (if s.radius = true then lookup (finish s m l d).acct l.sess = some ⟨m, 1, 1⟩ else (finish s m l d).acct = [])
    by_cases hr : s.radius = true
    · simp only [hr, if_true]
      have ha : (finish s m l d).acct = addStop s.acct l.sess m := by simp [finish, hr]
      rw [ha]; unfold addStop; rw [hI.acctLive hr m l hown]
      simp
    · have hr' : s.radius = false := by simpa using hr
      simp only [hr', Bool.false_eq_true, if_false]
      have ha : (finish s m l d).acct = s.acct := by simp [finish, hr']
      rw [ha]; exact hI.acctOff hr'

/-- ... and stays that way while OTHER sessions end -/
theorem ended_finish_other {ps : List (Nat × Lease)} {s : State} {m m' : Nat} {l l' : Lease} {d : Bool}
    (hI : Inv ((m', l') :: ps) s) (hE : Ended s m l d) (d' : Bool) : Ended (finish s m' l' d') m l d := by
  have hown : Owner ((m', l') :: ps) s m' l' := Or.inr (by simp)
  have hb : lookup s.pool.allocated m' = some l'.ip := hI.bind m' l' hown
  obtain ⟨fk1, fk2, fk3⟩ := finish_keys hI.ro m' l' d'
  refine ⟨hE.noLease, ?_, ?_, ?_, ?_, ?_, hE.noVlanKey, ?_, ?_⟩
  · rw [finish_alloc hI d', lookup_erase]
    split
    · rfl
    · exact hE.noBinding
  · have hab := hE.addrBack
    cases d
    · simp only [Bool.false_eq_true, if_false] at hab ⊢
      have hne : l.ip ≠ l'.ip := by
        intro e; exact hI.pool.disj _ _ hb (e ▸ hab)
      have h1 := Bng.Dhcp4.release_avail_mono s.pool l'.ip l.ip hab
      cases d'
      · exact h1
      · show l.ip ∈ ((s.pool.release l'.ip).markUnavailable l'.ip).avail
        unfold Bng.Dhcp4.Pool.markUnavailable
        exact (List.mem_erase_of_ne hne).mpr h1
    · simp only [if_true] at hab ⊢
      have h1 : l.ip ∈ (s.pool.release l'.ip).unavailable := by
        rw [Bng.Dhcp4.release_unavailable]; exact hab
      cases d'
      · exact h1
      · exact Bng.Dhcp4.mark_mono _ _ _ h1
  · intro h
    have h' : l.ip ∈ rm s.nat l'.ip := h
    exact hE.noNat ((mem_rm _ _ _).mp h').1
  · intro h
    have h' : l.ip ∈ rm s.qos l'.ip := h
    exact hE.noQos ((mem_rm _ _ _).mp h').1
  · intro h
    have h' : m ∈ rm s.kMac m' := fk1 ▸ h
    exact hE.noMacKey ((mem_rm _ _ _).mp h').1
  · intro c
    constructor
    · intro h
      have h' : (m, c) ∈ (match l'.cid with | some c0 => rm s.kCid (m', c0) | none => s.kCid) := fk2 ▸ h
      apply (hE.noCidKey c).1
      cases hc : l'.cid with
      | none => simpa [hc] using h'
      | some c0 => rw [hc] at h'; exact ((mem_rm _ _ _).mp h').1
    · intro h
      have h' : (m, c) ∈ (match l'.cid with | some c0 => rm s.kHash (m', c0) | none => s.kHash) := fk3 ▸ h
      apply (hE.noCidKey c).2
      cases hc : l'.cid with
      | none => simpa [hc] using h'
      | some c0 => rw [hc] at h'; exact ((mem_rm _ _ _).mp h').1
  · show (if s.radius = true then lookup (finish s m' l' d').acct l.sess = some ⟨m, 1, 1⟩ else (finish s m' l' d').acct = [])
    have hst := hE.stop
    by_cases hr : s.radius = true
    · simp only [hr, if_true] at hst ⊢
      have ha : (finish s m' l' d').acct = addStop s.acct l'.sess m' := by simp [finish, hr]
      have hlive := hI.acctLive hr m' l' hown
      have hne : l.sess ≠ l'.sess := by
        intro e; rw [e, hlive] at hst; cases hst
      rw [ha]; unfold addStop; rw [hlive]
      simp only [lookup_insert_ne _ _ hne]
      exact hst
    · have hr' : s.radius = false := by simpa using hr
      simp only [hr', Bool.false_eq_true, if_false] at hst ⊢
      have ha : (finish s m' l' d').acct = s.acct := by simp [finish, hr']
      rw [ha]; exact hst

theorem ended_takeOut {s : State} {m : Nat} {l : Lease} {d : Bool} (hE : Ended s m l d) (m' : Nat) :
    Ended (takeOut s m') m l d := by
  refine ⟨?_, hE.noBinding, hE.addrBack, hE.noNat, hE.noQos, hE.noMacKey, hE.noVlanKey, hE.noCidKey, hE.stop⟩
  show lookup (erase s.leases m') m = none
  rw [lookup_erase]; split
  · rfl
  · exact hE.noLease

theorem ended_expireOne {ps : List (Nat × Lease)} {s : State} {m : Nat} {l : Lease} {d : Bool}
    (hI : Inv ps s) (hE : Ended s m l d) (t m' : Nat) : Ended (expireOne t s m') m l d := by
  rw [expireOne_eq]
  cases h : lookup s.leases m' with
  | none => exact hE
  | some l' =>
    simp only
    split
    · exact ended_finish_other (inv_takeOut hI h) (ended_takeOut hE m') false
    · exact hE

theorem ended_applyList {ps : List (Nat × Lease)} (t : Nat) (macs : List Nat) {s : State} {m : Nat} {l : Lease}
    {d : Bool} (hI : Inv ps s) (hE : Ended s m l d) : Ended (applyList t s macs) m l d := by
  unfold applyList
  induction macs generalizing s with
  | nil => exact hE
  | cons a rest ih => exact ih (inv_expireOne hI t a) (ended_expireOne hI hE t a)

theorem ended_term {ps : List (Nat × Lease)} {s : State} {m : Nat} {l : Lease} {d : Bool}
    (hI : Inv ps s) (hE : Ended s m l d) (t : Term) : Ended (t.run s) m l d := by
  cases t with
  | rel m' =>
    show Ended (release s m') m l d
    rw [release_eq]
    cases h : lookup s.leases m' with
    | none => exact hE
    | some l' => exact ended_finish_other (inv_takeOut hI h) (ended_takeOut hE m') false
  | dec m' ip =>
    show Ended (decline s m' ip) m l d
    rw [decline_eq]
    cases h : lookup s.leases m' with
    | none => exact hE
    | some l' =>
      simp only
      split
      · exact ended_finish_other (inv_takeOut hI h) (ended_takeOut hE m') true
      · exact hE
  | cleanup o => exact ended_applyList _ _ hI hE

/-! ### which termination ends which session -/

/-- `some d`: run in a state where `m` holds lease `l` at time `now`, the termination ends that session
    (d: by DECLINE); `none`: it leaves it alone -/
def Term.endsFlag (t : Term) (now m : Nat) (l : Lease) : Option Bool :=
  match t with
  | .rel m' => if m' = m then some false else none
  | .dec m' ip => if m' = m ∧ ip = l.ip then some true else none
  | .cleanup _ => if now > l.exp then some false else none

theorem expireOne_lookup (t : Nat) (s : State) (a m : Nat) :
    lookup (expireOne t s a).leases m =
      if a = m ∧ (∃ l, lookup s.leases a = some l ∧ t > l.exp) then none else lookup s.leases m := by
  rw [expireOne_eq]
  cases h : lookup s.leases a with
  | none => simp
  | some l =>
    simp only
    by_cases ht : t > l.exp
    · simp only [ht, if_true]
      show lookup (erase s.leases a) m = _
      rw [lookup_erase]
      by_cases e : m = a
      · subst e; simp [ht]
      · have : ¬ a = m := fun x => e x.symm
        simp [e, this]
    · simp only [ht, if_false]
      rw [if_neg]
      rintro ⟨_, l1, h1, h2⟩
      cases h1; exact ht h2

theorem expireOne_now (t : Nat) (s : State) (a : Nat) : (expireOne t s a).now = s.now := by
  rw [expireOne_eq]
  cases h : lookup s.leases a with
  | none => rfl
  | some l => simp only; split <;> rfl

theorem applyList_now (t : Nat) (macs : List Nat) (s : State) : (applyList t s macs).now = s.now := by
  unfold applyList
  induction macs generalizing s with
  | nil => rfl
  | cons a rest ih => simp only [List.foldl_cons]; rw [ih, expireOne_now]

theorem term_now (t : Term) (s : State) : (t.run s).now = s.now := by
  cases t with
  | rel m =>
    show (release s m).now = s.now
    rw [release_eq]; cases lookup s.leases m <;> rfl
  | dec m ip =>
    show (decline s m ip).now = s.now
    rw [decline_eq]
    cases lookup s.leases m with
    | none => rfl
    | some l => simp only; split <;> rfl
  | cleanup o => exact applyList_now _ _ _

/-- a lease that is not touched survives a list of expiry steps -/
theorem applyList_keeps (t : Nat) (macs : List Nat) {s : State} {m : Nat} {l : Lease}
    (hl : lookup s.leases m = some l) (hk : m ∉ macs ∨ ¬ t > l.exp) :
    lookup (applyList t s macs).leases m = some l := by
  unfold applyList
  induction macs generalizing s with
  | nil => exact hl
  | cons a rest ih =>
    simp only [List.foldl_cons]
    apply ih
    · rw [expireOne_lookup]
      have : ¬ (a = m ∧ ∃ l0, lookup s.leases a = some l0 ∧ t > l0.exp) := by
        rintro ⟨rfl, l0, h1, h2⟩
        rw [hl] at h1; cases h1
        rcases hk with hk | hk
        · exact hk (by simp)
        · exact hk h2
      simp [this, hl]
    · rcases hk with hk | hk
      · exact Or.inl (fun h => hk (List.mem_cons_of_mem _ h))
      · exact Or.inr hk

/-- an expired lease that is in the list is ended by the removal loop -/
theorem applyList_ends {ps : List (Nat × Lease)} (t : Nat) (macs : List Nat) {s : State} {m : Nat} {l : Lease}
    (hI : Inv ps s) (hl : lookup s.leases m = some l) (ht : t > l.exp) (hm : m ∈ macs) :
    Ended (applyList t s macs) m l false := by
  induction macs generalizing s with
  | nil => simp at hm
  | cons a rest ih =>
    by_cases e : a = m
    · subst e
      have h1 : expireOne t s a = finish (takeOut s a) a l false := by
        rw [expireOne_eq, hl]; simp [ht]
      have hE : Ended (expireOne t s a) a l false := by
        rw [h1]; exact ended_finish (inv_takeOut hI hl) false
      exact ended_applyList t rest (inv_expireOne hI t a) hE
    · have hm' : m ∈ rest := by
        simp only [List.mem_cons] at hm
        rcases hm with hm | hm
        · exact absurd hm.symm e
        · exact hm
      have hl' : lookup (expireOne t s a).leases m = some l := by
        rw [expireOne_lookup]; simp [e, hl]
      exact ih (inv_expireOne hI t a) hl' hm'

theorem mem_expiredList {s : State} {m : Nat} {l : Lease} (hl : lookup s.leases m = some l) (ht : s.now > l.exp)
    (o : List Nat) : m ∈ expiredList s o := by
  unfold expiredList
  simp only [List.mem_filter, List.mem_eraseDups, List.mem_append]
  exact ⟨Or.inr (mem_keys_of_lookup hl), by simp [hl, ht]⟩

theorem term_ends {ps : List (Nat × Lease)} {s : State} {m : Nat} {l : Lease} {d : Bool} (hI : Inv ps s)
    (hl : lookup s.leases m = some l) (t : Term) (hf : t.endsFlag s.now m l = some d) : Ended (t.run s) m l d := by
  cases t with
  | rel m' =>
    simp only [Term.endsFlag] at hf
    split at hf
    · rename_i e; subst e; cases hf
      show Ended (release s m') m' l false
      rw [release_eq, hl]
      exact ended_finish (inv_takeOut hI hl) false
    · cases hf
  | dec m' ip =>
    simp only [Term.endsFlag] at hf
    split at hf
    · rename_i e; obtain ⟨rfl, rfl⟩ := e; cases hf
      show Ended (decline s m' l.ip) m' l true
      rw [decline_eq, hl]
      simp only [if_true]
      exact ended_finish (inv_takeOut hI hl) true
    · cases hf
  | cleanup o =>
    simp only [Term.endsFlag] at hf
    split at hf
    · rename_i ht; cases hf
      exact applyList_ends _ _ hI hl ht (mem_expiredList hl ht o)
    · cases hf

theorem term_keeps {s : State} {m : Nat} {l : Lease} (hl : lookup s.leases m = some l) (t : Term)
    (hf : t.endsFlag s.now m l = none) : lookup (t.run s).leases m = some l := by
  cases t with
  | rel m' =>
    simp only [Term.endsFlag] at hf
    split at hf
    · cases hf
    · rename_i e
      show lookup (release s m').leases m = some l
      rw [release_eq]
      cases h : lookup s.leases m' with
      | none => exact hl
      | some l' =>
        show lookup (erase s.leases m') m = some l
        rw [lookup_erase_ne _ (fun x => e x.symm)]; exact hl
  | dec m' ip =>
    simp only [Term.endsFlag] at hf
    split at hf
    · cases hf
    · rename_i e
      show lookup (decline s m' ip).leases m = some l
      rw [decline_eq]
      cases h : lookup s.leases m' with
      | none => exact hl
      | some l' =>
        simp only
        split
        · rename_i hip
          show lookup (erase s.leases m') m = some l
          have : m ≠ m' := by
            rintro rfl
            rw [hl] at h; cases h
            exact e ⟨rfl, hip.symm⟩
          rw [lookup_erase_ne _ this]; exact hl
        · exact hl
  | cleanup o =>
    simp only [Term.endsFlag] at hf
    split at hf
    · cases hf
    · rename_i ht
      exact applyList_keeps _ _ hl (Or.inr ht)

/-! ### composite operations -/

/-- a cleanup pass with a termination inside its unlock window ends every lease that had run out -/
theorem gap_ends {s : State} {m : Nat} {l : Lease} (hI : Inv [] s) (hl : lookup s.leases m = some l)
    (ht : s.now > l.exp) (o : List Nat) (inner : Term) :
    Ended (gap s o inner).1 m l ((inner.endsFlag s.now m l).getD false) := by
  have hm := mem_expiredList hl ht o
  unfold gap
  simp only
  split
  · rename_i he
    have : expiredList s o = [] := by simpa using he
    rw [this] at hm; simp at hm
  · simp only
    cases hf : inner.endsFlag s.now m l with
    | some d =>
      simp only [Option.getD_some]
      exact ended_applyList _ _ (inv_term hI inner) (term_ends hI hl inner hf)
    | none =>
      simp only [Option.getD_none]
      exact applyList_ends _ _ (inv_term hI inner) (term_keeps hl inner hf) ht hm

/-- two terminations at once: whichever of the two ends the session, nothing is left afterwards -/
theorem split_ends {s : State} {m : Nat} {l : Lease} {d : Bool} (hI : Inv [] s) (hl : lookup s.leases m = some l)
    (first second : Term)
    (h : first.endsFlag s.now m l = some d ∨ (first.endsFlag s.now m l = none ∧ second.endsFlag s.now m l = some d)) :
    Ended (split s first second) m l d := by
  cases first with
  | rel m' =>
    simp only [split, takeRelease]
    by_cases e : m' = m
    · subst e
      rw [hl]
      simp only [releaseTail_eq]
      have hd : d = false := by
        rcases h with h | h
        · simpa [Term.endsFlag] using h.symm
        · simp [Term.endsFlag] at h
      subst hd
      exact ended_finish (inv_term (inv_takeOut hI hl) second) false
    · have h2 : second.endsFlag s.now m l = some d := by
        rcases h with h | h
        · simp [Term.endsFlag, e] at h
        · exact h.2
      cases h' : lookup s.leases m' with
      | none => exact term_ends hI hl second h2
      | some l' =>
        simp only [releaseTail_eq]
        have hI1 := inv_takeOut hI h'
        have hl1 : lookup (takeOut s m').leases m = some l := by
          show lookup (erase s.leases m') m = some l
          rw [lookup_erase_ne _ (fun x => e x.symm)]; exact hl
        exact ended_finish_other (inv_term hI1 second) (term_ends hI1 hl1 second h2) false
  | dec m' ip =>
    simp only [split, takeDecline]
    by_cases e : m' = m ∧ ip = l.ip
    · obtain ⟨rfl, rfl⟩ := e
      rw [hl]
      simp only [if_true, declineTail_eq]
      have hd : d = true := by
        rcases h with h | h
        · simpa [Term.endsFlag] using h.symm
        · simp [Term.endsFlag] at h
      subst hd
      exact ended_finish (inv_term (inv_takeOut hI hl) second) true
    · have h2 : second.endsFlag s.now m l = some d := by
        rcases h with h | h
        · simp [Term.endsFlag, e] at h
        · exact h.2
      cases h' : lookup s.leases m' with
      | none => exact term_ends hI hl second h2
      | some l' =>
        simp only
        by_cases hip : l'.ip = ip
        · simp only [hip, if_true, declineTail_eq]
          have hne : m ≠ m' := by
            rintro rfl
            rw [hl] at h'; cases h'
            exact e ⟨rfl, hip.symm⟩
          have hI1 := inv_takeOut hI h'
          have hl1 : lookup (takeOut s m').leases m = some l := by
            show lookup (erase s.leases m') m = some l
            rw [lookup_erase_ne _ hne]; exact hl
          exact ended_finish_other (inv_term hI1 second) (term_ends hI1 hl1 second h2) true
        · simp only [hip, if_false]
          exact term_ends hI hl second h2
  | cleanup o =>
    simp only [split]
    rcases h with h | h
    · exact ended_term (inv_cleanup hI o) (term_ends hI hl (.cleanup o) h) second
    · have hk := term_keeps hl (.cleanup o) h.1
      have hI1 : Inv [] (cleanup s o) := inv_cleanup hI o
      have hn : (cleanup s o).now = s.now := applyList_now _ _ _
      exact term_ends hI1 hk second (hn ▸ h.2)

/-! ### a termination that finds no session is the identity -/

theorem release_no_lease {s : State} {m : Nat} (h : lookup s.leases m = none) : release s m = s := by
  rw [release_eq, h]

theorem decline_no_lease {s : State} {m : Nat} (h : lookup s.leases m = none) (ip : Nat) : decline s m ip = s := by
  rw [decline_eq, h]

theorem cleanup_nothing_expired {s : State} (h : ∀ m l, lookup s.leases m = some l → ¬ s.now > l.exp)
    (o : List Nat) : cleanup s o = s := by
  unfold cleanup
  have : expiredList s o = [] := by
    unfold expiredList
    rw [List.filter_eq_nil_iff]
    intro m _
    cases hl : lookup s.leases m with
    | none => simp
    | some l => simpa using h m l hl
  rw [this]; rfl

theorem expireOne_lookup_mono {t : Nat} {s : State} {a m : Nat} {l : Lease}
    (h : lookup (expireOne t s a).leases m = some l) : lookup s.leases m = some l := by
  rw [expireOne_lookup] at h
  split at h
  · cases h
  · exact h

theorem applyList_lookup_mono {t : Nat} {macs : List Nat} {s : State} {m : Nat} {l : Lease}
    (h : lookup (applyList t s macs).leases m = some l) : lookup s.leases m = some l := by
  unfold applyList at h
  induction macs generalizing s with
  | nil => exact h
  | cons a rest ih => exact expireOne_lookup_mono (ih h)

theorem applyList_removes {t : Nat} {macs : List Nat} {s : State} {m : Nat} {l : Lease}
    (hm : m ∈ macs) (hl : lookup s.leases m = some l) (ht : t > l.exp) :
    lookup (applyList t s macs).leases m = none := by
  induction macs generalizing s with
  | nil => simp at hm
  | cons a rest ih =>
    by_cases e : a = m
    · subst e
      cases hx : lookup (applyList t s (a :: rest)).leases a with
      | none => rfl
      | some l' =>
        have h1 : lookup (expireOne t s a).leases a = some l' := by
          have : applyList t s (a :: rest) = applyList t (expireOne t s a) rest := rfl
          rw [this] at hx
          exact applyList_lookup_mono hx
        rw [expireOne_lookup] at h1
        have : a = a ∧ ∃ l0, lookup s.leases a = some l0 ∧ t > l0.exp := ⟨rfl, l, hl, ht⟩
        rw [if_pos this] at h1
        cases h1
    · have hm' : m ∈ rest := by
        simp only [List.mem_cons] at hm
        rcases hm with hm | hm
        · exact absurd hm.symm e
        · exact hm
      have hl' : lookup (expireOne t s a).leases m = some l := by
        rw [expireOne_lookup]; simp [e, hl]
      exact ih hm' hl'

/-- after a cleanup pass no lease in the table has run out (on the same clock) -/
theorem cleanup_leaves_none_expired (s : State) (o : List Nat) (m : Nat) (l : Lease)
    (h : lookup (cleanup s o).leases m = some l) : ¬ (cleanup s o).now > l.exp := by
  intro ht
  have hn : (cleanup s o).now = s.now := applyList_now _ _ _
  rw [hn] at ht
  have hl := applyList_lookup_mono h
  have := applyList_removes (mem_expiredList hl ht o) hl ht
  unfold cleanup at h
  rw [this] at h; cases h

theorem cleanup_idem (s : State) (o o' : List Nat) : cleanup (cleanup s o) o' = cleanup s o :=
  cleanup_nothing_expired (cleanup_leaves_none_expired s o) o'

/-! ### the offer-only prefix: a pool binding that no lease backs is never undone (finding KF-dhcp4-offer-pinned) -/

def Pinned (s : State) (m a : Nat) : Prop := lookup s.leases m = none ∧ lookup s.pool.allocated m = some a

theorem pinned_finish_other {ps : List (Nat × Lease)} {s : State} {m a m' : Nat} {l' : Lease}
    (hI : Inv ((m', l') :: ps) (takeOut s m')) (hl' : lookup s.leases m' = some l') (hP : Pinned s m a) (d : Bool) :
    Pinned (finish (takeOut s m') m' l' d) m a := by
  have hne : m ≠ m' := by
    rintro rfl; rw [hP.1] at hl'; cases hl'
  constructor
  · show lookup (erase s.leases m') m = none
    rw [lookup_erase_ne _ hne]; exact hP.1
  · rw [finish_alloc hI d]
    show lookup (erase s.pool.allocated m') m = some a
    rw [lookup_erase_ne _ hne]; exact hP.2

theorem pinned_expireOne {ps : List (Nat × Lease)} {s : State} {m a : Nat} (hI : Inv ps s) (hP : Pinned s m a)
    (t m' : Nat) : Pinned (expireOne t s m') m a := by
  rw [expireOne_eq]
  cases h : lookup s.leases m' with
  | none => exact hP
  | some l' =>
    simp only
    split
    · exact pinned_finish_other (inv_takeOut hI h) h hP false
    · exact hP

theorem pinned_applyList {ps : List (Nat × Lease)} (t : Nat) (macs : List Nat) {s : State} {m a : Nat}
    (hI : Inv ps s) (hP : Pinned s m a) : Pinned (applyList t s macs) m a := by
  unfold applyList
  induction macs generalizing s with
  | nil => exact hP
  | cons x rest ih => exact ih (inv_expireOne hI t x) (pinned_expireOne hI hP t x)

theorem pinned_term {ps : List (Nat × Lease)} {s : State} {m a : Nat} (hI : Inv ps s) (hP : Pinned s m a)
    (t : Term) : Pinned (t.run s) m a := by
  cases t with
  | rel m' =>
    show Pinned (release s m') m a
    rw [release_eq]
    cases h : lookup s.leases m' with
    | none => exact hP
    | some l' => exact pinned_finish_other (inv_takeOut hI h) h hP false
  | dec m' ip =>
    show Pinned (decline s m' ip) m a
    rw [decline_eq]
    cases h : lookup s.leases m' with
    | none => exact hP
    | some l' =>
      simp only
      split
      · exact pinned_finish_other (inv_takeOut hI h) h hP true
      · exact hP
  | cleanup o => exact pinned_applyList _ _ hI hP

/-! ### the RADIUS switch never changes -/

theorem finish_radius (s : State) (m : Nat) (l : Lease) (d : Bool) : (finish s m l d).radius = s.radius := rfl

theorem expireOne_radius (t : Nat) (s : State) (a : Nat) : (expireOne t s a).radius = s.radius := by
  rw [expireOne_eq]
  cases lookup s.leases a with
  | none => rfl
  | some l => simp only; split <;> rfl

theorem applyList_radius (t : Nat) (macs : List Nat) (s : State) : (applyList t s macs).radius = s.radius := by
  unfold applyList
  induction macs generalizing s with
  | nil => rfl
  | cons a rest ih => simp only [List.foldl_cons]; rw [ih, expireOne_radius]

theorem term_radius (t : Term) (s : State) : (t.run s).radius = s.radius := by
  cases t with
  | rel m =>
    show (release s m).radius = s.radius
    rw [release_eq]; cases lookup s.leases m <;> rfl
  | dec m ip =>
    show (decline s m ip).radius = s.radius
    rw [decline_eq]
    cases lookup s.leases m with
    | none => rfl
    | some l => simp only; split <;> rfl
  | cleanup o => exact applyList_radius _ _ _

theorem step_radius (s : State) (op : Op) : (step s op).1.radius = s.radius := by
  cases op with
  | disc m =>
    simp only [step, discover]
    cases lookup s.leases m with
    | none =>
      simp only
      cases hq : s.pool.allocate m with
      | mk p o => cases o <;> rfl
    | some l =>
      simp only
      split
      · rfl
      · cases hq : s.pool.allocate m with
        | mk p o => cases o <;> rfl
  | req m ip cid =>
    simp only [step, request]
    cases lookup s.leases m with
    | none =>
      simp only [establish]
      split
      · rfl
      · cases hq : s.pool.reserve m ip with
        | mk p ok =>
          cases ok
          · rfl
          · simp only [natInstall_radius, qosInstall_radius, (cache_rest _ _ _).2.1]
    | some l =>
      simp only [renew]
      split
      · rfl
      · simp only [(recache_rest _ _ _ _).1]
  | term t => exact term_radius t s
  | tick n => rfl
  | gap o inner =>
    simp only [step, gap]
    split
    · rfl
    · simp only [applyList_radius, term_radius]
  | split a b =>
    simp only [step]
    cases a with
    | rel m =>
      simp only [split, takeRelease]
      cases lookup s.leases m with
      | none => exact term_radius b s
      | some l => simp only [releaseTail_eq, finish_radius, term_radius]
    | dec m ip =>
      simp only [split, takeDecline]
      cases lookup s.leases m with
      | none => exact term_radius b s
      | some l =>
        by_cases e : l.ip = ip
        · simp only [e, if_true, declineTail_eq, finish_radius, term_radius]
        · simp only [e, if_false]; exact term_radius b s
    | cleanup o => simp only [split, term_radius]; exact applyList_radius _ _ _
  | shutdown => rfl
  | fault w on => exact setFault_radius s w on

theorem run_radius (s : State) (ops : List Op) : (run s ops).radius = s.radius := by
  unfold run
  induction ops generalizing s with
  | nil => rfl
  | cons op rest ih => simp only [List.foldl_cons]; rw [ih, step_radius]

/-! ### the stale-index list is untouched by every operation of `Op` (it stays `[]` in their histories) -/

theorem cache_stale (s : State) (m : Nat) (cid : Option Nat) : (cache s m cid).stale = s.stale := by
  unfold cache; cases cid <;> rfl

theorem dropStale_stale (s : State) (m : Nat) (old new : Option Nat) : (dropStale s m old new).stale = s.stale := by
  unfold dropStale
  cases old with
  | none => rfl
  | some oc => simp only; split <;> rfl

theorem finish_stale (s : State) (m : Nat) (l : Lease) (d : Bool) : (finish s m l d).stale = s.stale := rfl

theorem expireOne_stale (t : Nat) (s : State) (a : Nat) : (expireOne t s a).stale = s.stale := by
  rw [expireOne_eq]
  cases lookup s.leases a with
  | none => rfl
  | some l => simp only; split <;> rfl

theorem applyList_stale (t : Nat) (macs : List Nat) (s : State) : (applyList t s macs).stale = s.stale := by
  unfold applyList
  induction macs generalizing s with
  | nil => rfl
  | cons a rest ih => simp only [List.foldl_cons]; rw [ih, expireOne_stale]

theorem term_stale (t : Term) (s : State) : (t.run s).stale = s.stale := by
  cases t with
  | rel m =>
    show (release s m).stale = s.stale
    rw [release_eq]; cases lookup s.leases m <;> rfl
  | dec m ip =>
    show (decline s m ip).stale = s.stale
    rw [decline_eq]
    cases lookup s.leases m with
    | none => rfl
    | some l => simp only; split <;> rfl
  | cleanup o => exact applyList_stale _ _ _

theorem step_stale (s : State) (op : Op) : (step s op).1.stale = s.stale := by
  cases op with
  | disc m =>
    simp only [step, discover]
    cases lookup s.leases m with
    | none =>
      simp only
      cases hq : s.pool.allocate m with
      | mk p o => cases o <;> rfl
    | some l =>
      simp only
      split
      · rfl
      · cases hq : s.pool.allocate m with
        | mk p o => cases o <;> rfl
  | req m ip cid =>
    simp only [step, request]
    cases lookup s.leases m with
    | none =>
      simp only [establish]
      split
      · rfl
      · cases hq : s.pool.reserve m ip with
        | mk p ok =>
          cases ok
          · rfl
          · simp only [natInstall_stale, qosInstall_stale, cache_stale]
    | some l =>
      simp only [renew]
      split
      · rfl
      · simp only [(recache_rest _ _ _ _).2.2.2.1]
  | term t => exact term_stale t s
  | tick n => rfl
  | gap o inner =>
    simp only [step, gap]
    split
    · rfl
    · simp only [applyList_stale, term_stale]
  | split a b =>
    simp only [step]
    cases a with
    | rel m =>
      simp only [split, takeRelease]
      cases lookup s.leases m with
      | none => exact term_stale b s
      | some l => simp only [releaseTail_eq, finish_stale, term_stale]
    | dec m ip =>
      simp only [split, takeDecline]
      cases lookup s.leases m with
      | none => exact term_stale b s
      | some l =>
        by_cases e : l.ip = ip
        · simp only [e, if_true, declineTail_eq, finish_stale, term_stale]
        · simp only [e, if_false]; exact term_stale b s
    | cleanup o => simp only [split, term_stale]; exact applyList_stale _ _ _
  | shutdown => rfl
  | fault w on => exact setFault_stale s w on


theorem fixStale_nil {s : State} (h : s.stale = []) : fixStale s = s := by
  cases s
  simp only at h
  subst h
  rfl

/-- while no index entry is stale, the operations of the real server are the operations of the theorems -/
theorem stepX_of_nil {s : State} (h : s.stale = []) :
    (∀ o : Op, (stepX s (.op o)).1 = (step s o).1) ∧ (∀ m cid, (stepX s (.disc m cid)).1 = (step s (.disc m)).1) := by
  have hh : ∀ m cid, staleHit s m cid = none := by
    intro m cid
    unfold staleHit
    cases lookup s.leases m <;> cases cid <;> simp [h]
  constructor
  · intro o
    cases o with
    | req m r cid =>
      simp only [stepX, hh, step]
      exact fixStale_nil ((step_stale s (.req m r cid)).trans h)
    | disc m => simp only [stepX]; exact fixStale_nil ((step_stale s (.disc m)).trans h)
    | term t => simp only [stepX]; exact fixStale_nil ((step_stale s (.term t)).trans h)
    | tick n => simp only [stepX]; exact fixStale_nil ((step_stale s (.tick n)).trans h)
    | gap o i => simp only [stepX]; exact fixStale_nil ((step_stale s (.gap o i)).trans h)
    | split a b => simp only [stepX]; exact fixStale_nil ((step_stale s (.split a b)).trans h)
    | shutdown => simp only [stepX]; exact fixStale_nil ((step_stale s .shutdown).trans h)
    | fault w on => simp only [stepX]; exact fixStale_nil ((step_stale s (.fault w on)).trans h)
  · intro m cid
    simp only [stepX, hh, step]

/-! ### handleRequest split at its unlock point is handleRequest -/

/-- `requestBegin` followed at once by `requestFinish` is `request` (in every reachable state): the split used by
    `estGap` is the same handler, cut where it drops the lease lock -/
theorem request_split {s : State} (hI : Inv [] s) (mac r : Nat) (cid : Option Nat) :
    match requestBegin s mac r cid with
    | (s1, some p) => request s mac r cid = (requestFinish s1 mac p, .ack r)
    | (s1, none) => request s mac r cid = (s, .nak) ∧ s1 = s := by
  unfold requestBegin request
  cases hl : lookup s.leases mac with
  | some l =>
    simp only [renew]
    by_cases e : l.ip = r
    · simp only [e, ne_eq, not_true_eq_false, if_false]
      rfl
    · simp only [ne_eq, e, not_false_eq_true, if_true, and_self]
  | none =>
    simp only [establish]
    by_cases hc : (!s.cfg.contains r) = true
    · simp only [hc, if_true, and_self]
    · simp only [hc, Bool.false_eq_true, if_false]
      cases hq : s.pool.reserve mac r with
      | mk p ok =>
        cases ok with
        | false => simp only [and_self]
        | true =>
          simp only
          have hfresh : s.radius = true → lookup s.acct s.nextSess = none := by
            intro _
            cases hx : lookup s.acct s.nextSess with
            | none => rfl
            | some rr => exact absurd (hI.acctRec _ _ hx).1 (Nat.lt_irrefl _)
          unfold requestFinish
          simp only
          have c1 : (cache ({ s with pool := p, leases := insert s.leases mac { ip := r, exp := s.now + s.cfg.leaseTime, cid := cid, sess := if s.radius = true then s.nextSess else 0 } } : State) mac cid).acct = s.acct := (cache_rest _ _ _).2.2.2.2.2.2.2.1
          have c2 : (natInstall (qosInstall (cache ({ s with pool := p, leases := insert s.leases mac { ip := r, exp := s.now + s.cfg.leaseTime, cid := cid, sess := if s.radius = true then s.nextSess else 0 } } : State) mac cid) r) r).early = s.early := by
            rw [natInstall_early, qosInstall_early, cache_early']
          cases hr : s.radius with
          | false => simp [cache_early', natInstall_early, qosInstall_early]
          | true =>
            have c3 := (cache_rest ({ s with pool := p, leases := insert s.leases mac { ip := r, exp := s.now + s.cfg.leaseTime, cid := cid, sess := s.nextSess } } : State) mac cid).2.2.2.2.2.2.2.1
            rw [hr] at c3
            simp only [hr] at c3 ⊢
            simp [c3, hfresh hr, cache_early', natInstall_early, qosInstall_early]

end Bng.DhcpTerm
